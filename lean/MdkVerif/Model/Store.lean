import MdkVerif.Model.Basic
import MdkVerif.Generated
/-
  MdkVerif.Model.Store — executable model of the storage contract as implemented by
  `mdk-memory-storage` and `mdk-sqlite-storage` (one model, a `Backend` flag selects the
  backend-specific behaviour).  Values are abstracted to naturals; see the harness
  (`harness/src/store.rs`) for the concrete encoding of each field.

  Modelled functions (Rust → Lean):
    groups.rs      save_group / find_* / all_groups / messages / last_message / admins /
                   group_relays / replace_group_relays / *_group_exporter_secret
    messages.rs    save_message / find_message_by_event_id / save/find processed message /
                   invalidate_* / find_invalidated_* / find_failed_messages_for_retry /
                   mark_processed_message_retryable / find_message_epoch_by_tag_content
    welcomes.rs    save/find welcome, pending_welcomes, save/find processed welcome
    lib.rs         create/rollback/release/list/prune group snapshots; the OpenMLS
                   group-scoped tables are one abstract key/value table `mls`.
-/
namespace MdkVerif.Store
open MdkVerif

structure Group where
  gid : Nat
  nid : Nat
  nameLen : Nat
  descLen : Nat
  admins : Nat          -- number of admin keys (first `admins` keys of a fixed pool)
  img : Nat             -- 0 = no image fields, k>0 = all three present with bytes k
  lastId : Option Nat
  lastAt : Option Nat
  lastProc : Option Nat
  epoch : Nat
  state : Nat           -- 0 active, 1 inactive, 2 pending
  selfUpd : Nat         -- 0 = Required, t>0 = CompletedAt t
  deriving DecidableEq, Repr, Inhabited

structure Msg where
  id : Nat
  gid : Nat
  pk : Nat
  kind : Nat
  created : Nat
  processed : Nat
  content : Nat         -- content token; its byte length is `contentLen`
  contentLen : Nat
  tag : Nat             -- index into the tag-string pool
  wrapper : Nat
  epoch : Option Nat
  state : Nat           -- 0 created 1 processed 2 deleted 3 epoch_invalidated
  deriving DecidableEq, Repr, Inhabited

structure PM where
  wrapper : Nat
  msgId : Option Nat
  processedAt : Nat
  epoch : Option Nat
  gid : Option Nat
  state : Nat           -- 0 created 1 processed 2 processed_commit 3 failed 4 epoch_invalidated 5 retryable
  reason : Option Nat
  deriving DecidableEq, Repr, Inhabited

structure Welcome where
  id : Nat
  gid : Nat
  nid : Nat
  nameLen : Nat
  descLen : Nat
  admins : Nat
  relays : Nat          -- number of relays
  relayLen : Nat        -- byte length of the longest relay url
  welcomer : Nat
  memberCount : Nat
  state : Nat           -- 0 pending 1 accepted 2 declined 3 ignored
  wrapper : Nat
  deriving DecidableEq, Repr, Inhabited

structure PW where
  wrapper : Nat
  welcomeId : Option Nat
  processedAt : Nat
  state : Nat           -- 0 processed 1 failed
  reason : Option Nat
  deriving DecidableEq, Repr, Inhabited

/-- a group-scoped snapshot: what both backends copy -/
structure Snap where
  name : Nat
  gid : Nat
  createdAt : Nat
  group : Option Group
  relays : List Nat
  secrets : List (Nat × Nat)        -- (epoch, value)
  mls : List (Nat × Nat)            -- (key, value) rows of the OpenMLS group-scoped tables
  deriving DecidableEq, Repr, Inhabited

structure Store where
  backend : Backend
  groups : List Group
  byNid : List (Nat × Group)        -- memory backend's second index (nid ↦ copy of the record)
  relays : List (Nat × List Nat)    -- gid ↦ sorted relay set
  secrets : List (Nat × Nat × Nat)  -- (gid, epoch, value)
  msgs : List Msg
  pms : List PM
  welcomes : List Welcome
  pws : List PW
  mls : List (Nat × Nat × Nat)      -- (gid, key, value)
  snaps : List Snap
  deriving Repr, Inhabited

def Store.empty (b : Backend) : Store :=
  { backend := b, groups := [], byNid := [], relays := [], secrets := [], msgs := [], pms := [],
    welcomes := [], pws := [], mls := [], snaps := [] }

/-! ## limits (from `Generated`, re-extracted from the source on every run) -/

def nameLimit : Backend → Nat
  | .mem => Generated.memMaxGroupNameLength
  | .sql => Generated.sqlMaxGroupNameLength
def descLimit : Backend → Nat
  | .mem => Generated.memMaxGroupDescriptionLength
  | .sql => Generated.sqlMaxGroupDescriptionLength

/-! ## groups -/

def findGroup (s : Store) (gid : Nat) : Option Group := s.groups.find? (·.gid == gid)

def replaceGroup (g : Group) : List Group → List Group
  | [] => [g]
  | h :: t => if h.gid == g.gid then g :: t else h :: replaceGroup g t

/-- the nostr-group-id lookup each backend performs -/
def findGroupNostr (s : Store) (nid : Nat) : Option Group :=
  match s.backend with
  | .mem => alookup nid s.byNid
  | .sql => s.groups.find? (·.nid == nid)

/-- `save_group`: `none` = refused (store unchanged) -/
def saveGroup (s : Store) (g : Group) : Option Store :=
  if g.nameLen > nameLimit s.backend then none
  else if g.descLen > descLimit s.backend then none
  else if s.backend == .mem && g.admins > Generated.memMaxAdminsPerGroup then none
  else
    match s.backend with
    | .mem =>
      match alookup g.nid s.byNid with
      | some other =>
        if other.gid != g.gid then none
        else
          let byNid := match findGroup s g.gid with
            | some old => if old.nid != g.nid then aerase old.nid s.byNid else s.byNid
            | none => s.byNid
          some { s with groups := replaceGroup g s.groups, byNid := ainsert g.nid g byNid }
      | none =>
        let byNid := match findGroup s g.gid with
          | some old => if old.nid != g.nid then aerase old.nid s.byNid else s.byNid
          | none => s.byNid
        some { s with groups := replaceGroup g s.groups, byNid := ainsert g.nid g byNid }
    | .sql =>
      -- UNIQUE index on nostr_group_id
      if s.groups.any (fun h => h.nid == g.nid && h.gid != g.gid) then none
      else some { s with groups := replaceGroup g s.groups }

/-! ## messages: the two display orders -/

/-- `compare_display_keys(a,b).is_gt()` : a sorts before b in the (descending) listing -/
def createdFirstBefore (a b : Msg) : Bool :=
  a.created > b.created ||
  (a.created == b.created && (a.processed > b.processed ||
    (a.processed == b.processed && a.id > b.id)))

def processedFirstBefore (a b : Msg) : Bool :=
  a.processed > b.processed ||
  (a.processed == b.processed && (a.created > b.created ||
    (a.created == b.created && a.id > b.id)))

def orderOf (sort : Nat) : Msg → Msg → Bool :=
  if sort == 1 then processedFirstBefore else createdFirstBefore

def groupMsgs (s : Store) (gid : Nat) : List Msg := s.msgs.filter (·.gid == gid)

def listing (s : Store) (gid : Nat) (sort : Nat) : List Msg :=
  sortBy (orderOf sort) (groupMsgs s gid)

def page {α : Type} (l : List α) (offset limit : Nat) : List α := (l.drop offset).take limit

inductive MsgsOut where
  | ok (l : List Msg)
  | err
  | panic
  deriving Repr, DecidableEq

def two64 : Nat := 18446744073709551616
def two63 : Nat := 9223372036854775808

/-- `messages(group, pagination)` -/
def messages (s : Store) (gid : Nat) (limit offset : Option Nat) (sort : Option Nat) : MsgsOut :=
  let limit := limit.getD Generated.defaultMessageLimit
  let offset := offset.getD 0
  let sort := sort.getD 0
  if limit < 1 || limit > Generated.maxMessageLimit then .err
  else if (findGroup s gid).isNone then .err
  else
    match s.backend with
    | .mem =>
      -- a group without a message map returns early; otherwise `offset + limit` must not overflow
      if (groupMsgs s gid).isEmpty then .ok []
      else if !Generated.memPageSaturates && offset + limit ≥ two64 then .panic
      else .ok (page (listing s gid sort) offset limit)
    | .sql =>
      -- the offset is bound as an i64: wrapped (negative ⇒ SQLite uses 0) or clamped to i64::MAX
      let off := if offset ≥ two63 then (if Generated.sqlOffsetClamped then two63 - 1 else 0) else offset
      .ok (page (listing s gid sort) off limit)

def lastMessage (s : Store) (gid : Nat) (sort : Nat) : Option (Option Msg) :=
  if (findGroup s gid).isNone then none else some (listing s gid sort).head?

def upsertMsg (m : Msg) : List Msg → List Msg
  | [] => [m]
  | h :: t => if h.gid == m.gid && h.id == m.id then m :: t else h :: upsertMsg m t

def saveMessage (s : Store) (m : Msg) : Option Store :=
  if s.backend == .sql && m.contentLen > Generated.sqlMaxMessageContentSize then none
  else if (findGroup s m.gid).isNone then none
  else some { s with msgs := upsertMsg m s.msgs }

def findMessage (s : Store) (gid id : Nat) : Option Msg :=
  s.msgs.find? (fun m => m.gid == gid && m.id == id)

def upsertPm (p : PM) : List PM → List PM
  | [] => [p]
  | h :: t => if h.wrapper == p.wrapper then p :: t else h :: upsertPm p t

def savePm (s : Store) (p : PM) : Store := { s with pms := upsertPm p s.pms }
def findPm (s : Store) (w : Nat) : Option PM := s.pms.find? (·.wrapper == w)

def epochGt (e : Option Nat) (n : Nat) : Bool :=
  match e with
  | some k => k > n
  | none => false

/-- `invalidate_messages_after_epoch`: new store and the invalidated ids -/
def invalMsgs (s : Store) (gid epoch : Nat) : Store × List Nat :=
  let hit := fun (m : Msg) => m.gid == gid && epochGt m.epoch epoch
  ({ s with msgs := s.msgs.map (fun m => if hit m then { m with state := 3 } else m) },
   (s.msgs.filter hit).map (·.id))

def invalPms (s : Store) (gid epoch : Nat) : Store × List Nat :=
  let hit := fun (p : PM) => p.gid == some gid && epochGt p.epoch epoch
  ({ s with pms := s.pms.map (fun p => if hit p then { p with state := 4 } else p) },
   (s.pms.filter hit).map (·.wrapper))

def findInvalMsgs (s : Store) (gid : Nat) : List Msg :=
  s.msgs.filter (fun m => m.gid == gid && m.state == 3)
def findInvalPms (s : Store) (gid : Nat) : List PM :=
  s.pms.filter (fun p => p.gid == some gid && p.state == 4)
def failedRetry (s : Store) (gid : Nat) : List Nat :=
  (s.pms.filter (fun p => p.gid == some gid && p.state == 3 && p.epoch.isNone)).map (·.wrapper)

def markRetryable (s : Store) (w : Nat) : Option Store :=
  match findPm s w with
  | some p => if p.state == 3 then some { s with pms := upsertPm { p with state := 5 } s.pms } else none
  | none => none

/-- the maximum of a list of messages in display order (created_at, processed_at, id) -/
def newestMsg : List Msg → Option Msg
  | [] => none
  | m :: t => match newestMsg t with
    | none => some m
    | some b => if (b.created, b.processed, b.id) == (m.created, m.processed, m.id) then some b
                else if (b.created > m.created || (b.created == m.created && (b.processed > m.processed || (b.processed == m.processed && b.id > m.id)))) then some b
                else some m

/-- `find_message_epoch_by_tag_content`.  `mode`: 0 = the needle is the tag string itself,
    1 = its ASCII-upper-cased spelling, 2 = a spelling in which a literal character of the tag
    is replaced by a LIKE wildcard (`_`/`%`), which must match nothing on either backend.
    Returns the list of admissible answers: the newest match since /repo's tag-search fix (both backends),
    any match before it (the contract did not say which one wins and the backends disagreed). -/
def findEpochByTag (s : Store) (gid tag mode : Nat) : List Nat :=
  let matches_ := fun (m : Msg) =>
    m.gid == gid && m.epoch.isSome && m.tag == tag &&
      (mode == 0 || (mode == 1 && s.backend == .sql && Generated.sqlTagSearchCaseInsensitive))
  if Generated.tagSearchNewestWins then
    -- both backends answer with the newest match in display order (created_at, processed_at, id)
    match newestMsg (s.msgs.filter matches_) with
    | some m => m.epoch.toList
    | none => []
  else ((s.msgs.filter matches_).filterMap (·.epoch)).eraseDups

/-! ## the cached last-message pointer (`Group::update_last_message_if_newer`) -/

/-- lexicographic `>` on (created_at, processed_at, id): `compare_display_keys(..).is_gt()` -/
def keyGt (a b : Nat × Nat × Nat) : Bool :=
  a.1 > b.1 || (a.1 == b.1 && (a.2.1 > b.2.1 || (a.2.1 == b.2.1 && a.2.2 > b.2.2)))

/-- does a message with display key `k` replace the pointer of `g`? -/
def dominates (g : Group) (k : Nat × Nat × Nat) : Bool :=
  match g.lastAt, g.lastProc, g.lastId with
  | none, _, _ => true
  | some ea, some ep, some eid => keyGt k (ea, ep, eid)
  | some ea, none, _ => k.1 ≥ ea
  | some ea, some _, none => k.1 > ea

def updLast (g : Group) (k : Nat × Nat × Nat) : Group :=
  if dominates g k then { g with lastAt := some k.1, lastProc := some k.2.1, lastId := some k.2.2 } else g

/-- harness op: load the record, apply `update_last_message_if_newer`, save it back -/
def updLastOp (s : Store) (gid : Nat) (k : Nat × Nat × Nat) : Store × String :=
  match findGroup s gid with
  | none => (s, "err")
  | some g =>
    match saveGroup s (updLast g k) with
    | some s' => (s', if dominates g k then "true" else "false")
    | none => (s, "err")

/-! ## relays and exporter secrets -/

def relaysOf (s : Store) (gid : Nat) : Option (List Nat) :=
  if (findGroup s gid).isNone then none else some ((alookup gid s.relays).getD [])

/-- byte length of the relay URL the harness builds for relay number `r` (harness/src/store.rs `relay_url`): a short url
    below 1000, a url of exactly `r` bytes below 10^6, a url of exactly `r / 10^6` bytes above (boundary stream) -/
def relayLen (r : Nat) : Nat := if r < 1000 then 24 else if r < 1000000 then r else r / 1000000

def natLt (a b : Nat) : Bool := a < b

def replaceRelays (s : Store) (gid : Nat) (rs : List Nat) : Option Store :=
  let rs := sortBy natLt rs.eraseDups
  if s.backend == .mem && rs.length > Generated.memMaxRelaysPerGroup then none
  else if s.backend == .mem && rs.any (fun r => relayLen r > Generated.memMaxRelayUrlLength) then none
  else if (findGroup s gid).isNone then none
  else some { s with relays := ainsert gid rs s.relays }

def getSecret (s : Store) (gid epoch : Nat) : Option (Option Nat) :=
  if (findGroup s gid).isNone then none
  else some ((s.secrets.find? (fun t => t.1 == gid && t.2.1 == epoch)).map (·.2.2))

def upsertSecret (gid epoch v : Nat) : List (Nat × Nat × Nat) → List (Nat × Nat × Nat)
  | [] => [(gid, epoch, v)]
  | h :: t => if h.1 == gid && h.2.1 == epoch then (gid, epoch, v) :: t else h :: upsertSecret gid epoch v t

def saveSecret (s : Store) (gid epoch v : Nat) : Option Store :=
  if (findGroup s gid).isNone then none
  else some { s with secrets := upsertSecret gid epoch v s.secrets }

/-! ## welcomes -/

def upsertWelcome (w : Welcome) : List Welcome → List Welcome
  | [] => [w]
  | h :: t => if h.id == w.id then w :: t else h :: upsertWelcome w t

def saveWelcome (s : Store) (w : Welcome) : Option Store :=
  match s.backend with
  | .mem =>
    if w.relays > Generated.memMaxRelaysPerWelcome then none
    else if w.relays > 0 && w.relayLen > Generated.memMaxRelayUrlLength then none
    else if w.admins > Generated.memMaxAdminsPerWelcome then none
    else some { s with welcomes := upsertWelcome w s.welcomes }
  | .sql =>
    if w.nameLen > Generated.sqlMaxGroupNameLength then none
    else if w.descLen > Generated.sqlMaxGroupDescriptionLength then none
    else some { s with welcomes := upsertWelcome w s.welcomes }

def findWelcome (s : Store) (id : Nat) : Option Welcome := s.welcomes.find? (·.id == id)

def welcomeBefore (a b : Welcome) : Bool := a.id > b.id

def pendingWelcomes (s : Store) (limit offset : Option Nat) : Option (List Welcome) :=
  let limit := limit.getD Generated.defaultPendingWelcomesLimit
  let offset := offset.getD 0
  if limit < 1 || limit > Generated.maxPendingWelcomesLimit then none
  else
    let off := if s.backend == .sql && offset ≥ two63 then (if Generated.sqlOffsetClamped then two63 - 1 else 0) else offset
    some (page (sortBy welcomeBefore (s.welcomes.filter (·.state == 0))) off limit)

def upsertPw (p : PW) : List PW → List PW
  | [] => [p]
  | h :: t => if h.wrapper == p.wrapper then p :: t else h :: upsertPw p t
def savePw (s : Store) (p : PW) : Store := { s with pws := upsertPw p s.pws }
def findPw (s : Store) (w : Nat) : Option PW := s.pws.find? (·.wrapper == w)

/-! ## abstract OpenMLS group-scoped rows -/

def upsertMls (gid key v : Nat) : List (Nat × Nat × Nat) → List (Nat × Nat × Nat)
  | [] => [(gid, key, v)]
  | h :: t => if h.1 == gid && h.2.1 == key then (gid, key, v) :: t else h :: upsertMls gid key v t

def mlsWrite (s : Store) (gid key v : Nat) : Store := { s with mls := upsertMls gid key v s.mls }
def mlsRead (s : Store) (gid key : Nat) : Option Nat :=
  (s.mls.find? (fun t => t.1 == gid && t.2.1 == key)).map (·.2.2)
def mlsDelete (s : Store) (gid key : Nat) : Store :=
  { s with mls := s.mls.filter (fun t => !(t.1 == gid && t.2.1 == key)) }

/-! ## snapshots -/

def groupMls (s : Store) (gid : Nat) : List (Nat × Nat) :=
  (s.mls.filter (·.1 == gid)).map (·.2)
def groupSecrets (s : Store) (gid : Nat) : List (Nat × Nat) :=
  (s.secrets.filter (·.1 == gid)).map (·.2)

def takeSnap (s : Store) (gid name ts : Nat) : Snap :=
  { name := name, gid := gid, createdAt := ts, group := findGroup s gid,
    relays := (alookup gid s.relays).getD [], secrets := groupSecrets s gid, mls := groupMls s gid }

def Snap.rows (p : Snap) : Nat :=
  p.mls.length + (if p.group.isSome then 1 else 0) + p.relays.length + p.secrets.length

def findSnap (s : Store) (gid name : Nat) : Option Snap :=
  s.snaps.find? (fun p => p.gid == gid && p.name == name)

def dropSnap (gid name : Nat) (l : List Snap) : List Snap :=
  l.filter (fun p => !(p.gid == gid && p.name == name))

/-- `create_group_snapshot`; `ts` is the creation second observed on the implementation -/
def snapCreate (s : Store) (gid name ts : Nat) : Option Store :=
  let p := takeSnap s gid name ts
  match s.backend with
  | .mem => some { s with snaps := dropSnap gid name s.snaps ++ [p] }
  | .sql =>
    if p.rows == 0 then some s                            -- nothing to copy: no rows written
    else if p.group.isNone then none                      -- FK group_state_snapshots → groups
    else if (findSnap s gid name).isSome then
      (if Generated.sqlSnapshotRetakeReplaces then some { s with snaps := dropSnap gid name s.snaps ++ [p] }
       else none)                                         -- PRIMARY KEY conflict, rolled back
    else some { s with snaps := s.snaps ++ [p] }

/-- the restore both backends perform, given the snapshot -/
def restoreFrom (s : Store) (p : Snap) : Option Store :=
  let gid := p.gid
  let groups' := s.groups.filter (·.gid != gid)
  let mls' := s.mls.filter (·.1 != gid) ++ p.mls.map (fun kv => (gid, kv.1, kv.2))
  let secrets' := s.secrets.filter (·.1 != gid) ++ p.secrets.map (fun kv => (gid, kv.1, kv.2))
  match s.backend with
  | .mem =>
    let byNid := match findGroup s gid with
      | some old => aerase old.nid s.byNid
      | none => s.byNid
    let (groups'', byNid') := match p.group with
      -- the cache entry of the group is overwritten (list position is unobservable: every listing is
      -- canonicalised), so the record list is updated in place exactly as on SQLite
      | some g => (replaceGroup g s.groups, ainsert g.nid g byNid)
      | none => (groups', byNid)
    let relays' := if p.relays.isEmpty then aerase gid s.relays else ainsert gid p.relays (aerase gid s.relays)
    some { s with groups := groups'', byNid := byNid', relays := relays', secrets := secrets', mls := mls',
                  snaps := dropSnap gid p.name s.snaps }
  | .sql =>
    match p.group with
    | none => none     -- unreachable: a stored SQL snapshot always has its groups row
    | some g =>
      -- UNIQUE(nostr_group_id) against the other groups: the statement fails and the txn is rolled back
      if s.groups.any (fun h => h.nid == g.nid && h.gid != gid) then none
      else
        let msgs' := if Generated.sqlRestoreCascadesMessages then s.msgs.filter (·.gid != gid) else s.msgs
        some { s with groups := replaceGroup g s.groups, relays := ainsert gid p.relays (aerase gid s.relays),
                      secrets := secrets', mls := mls', msgs := msgs',
                      snaps := dropSnap gid p.name s.snaps }

def snapRollback (s : Store) (gid name : Nat) : Option Store :=
  match findSnap s gid name with
  | none => none
  | some p => restoreFrom s p

def snapRelease (s : Store) (gid name : Nat) : Store := { s with snaps := dropSnap gid name s.snaps }

def snapBefore (a b : Nat × Nat) : Bool := a.2 < b.2 || (a.2 == b.2 && a.1 < b.1)

/-- `list_group_snapshots`, ties on the second canonicalised by name -/
def snapList (s : Store) (gid : Nat) : List (Nat × Nat) :=
  sortBy snapBefore ((s.snaps.filter (·.gid == gid)).map (fun p => (p.name, p.createdAt)))

/-- `list_group_snapshots` as the manager's hydration sees it: `ORDER BY created_at ASC`, snapshots
    created in the same second in insertion order (SQLite returns ties in rowid order for this query —
    an assumption about the query plan, watched by the correspondence check; `sortBy` with `≤` is stable) -/
def snapListRaw (s : Store) (gid : Nat) : List (Nat × Nat) :=
  sortBy (fun a b => a.2 ≤ b.2) ((s.snaps.filter (·.gid == gid)).map (fun p => (p.name, p.createdAt)))

def snapPrune (s : Store) (minTs : Nat) : Store × Nat :=
  let gone := s.snaps.filter (·.createdAt < minTs)
  let n := match s.backend with
    | .mem => gone.length
    | .sql => if Generated.sqlPruneCountsRows then (gone.map Snap.rows).sum else gone.length
  ({ s with snaps := s.snaps.filter (fun p => !(p.createdAt < minTs)) }, n)

/-! ## operations and the step function -/

inductive Op where
  | saveGroup (g : Group)
  | findGroup (gid : Nat)
  | findGroupNostr (nid : Nat)
  | allGroups
  | saveMessage (m : Msg)
  | findMessage (gid id : Nat)
  | messages (gid : Nat) (limit offset sort : Option Nat)
  | lastMessage (gid sort : Nat)
  | savePm (p : PM)
  | findPm (w : Nat)
  | invalMsgs (gid epoch : Nat)
  | invalPms (gid epoch : Nat)
  | findInvalMsgs (gid : Nat)
  | findInvalPms (gid : Nat)
  | failedRetry (gid : Nat)
  | markRetryable (w : Nat)
  | updLast (gid created processed id : Nat)
  | findEpochByTag (gid tag mode : Nat)
  | admins (gid : Nat)
  | relays (gid : Nat)
  | replaceRelays (gid : Nat) (rs : List Nat)
  | getSecret (gid epoch : Nat)
  | saveSecret (gid epoch v : Nat)
  | saveWelcome (w : Welcome)
  | findWelcome (id : Nat)
  | pendingWelcomes (limit offset : Option Nat)
  | savePw (p : PW)
  | findPw (w : Nat)
  | mlsWrite (gid key v : Nat)
  | mlsRead (gid key : Nat)
  | mlsDelete (gid key : Nat)
  | snapCreate (gid name ts : Nat)
  | snapRollback (gid name : Nat)
  | snapRelease (gid name : Nat)
  | snapList (gid : Nat)
  | snapPrune (minTs : Nat)
  | dump
  deriving Repr

/-! ### canonical text of observations (driver output; not used in theorems) -/

def Group.show (g : Group) : String :=
  s!"g({g.gid},{g.nid},{g.nameLen},{g.descLen},{g.admins},{g.img},{optStr g.lastId},{optStr g.lastAt},{optStr g.lastProc},{g.epoch},{g.state},{g.selfUpd})"
def Msg.show (m : Msg) : String :=
  s!"m({m.id},{m.gid},{m.pk},{m.kind},{m.created},{m.processed},{m.content},{m.contentLen},{m.tag},{m.wrapper},{optStr m.epoch},{m.state})"
def PM.show (p : PM) : String :=
  s!"pm({p.wrapper},{optStr p.msgId},{p.processedAt},{optStr p.epoch},{optStr p.gid},{p.state},{optStr p.reason})"
def Welcome.show (w : Welcome) : String :=
  s!"w({w.id},{w.gid},{w.nid},{w.nameLen},{w.descLen},{w.admins},{w.relays},{w.relayLen},{w.welcomer},{w.memberCount},{w.state},{w.wrapper})"
def PW.show (p : PW) : String :=
  s!"pw({p.wrapper},{optStr p.welcomeId},{p.processedAt},{p.state},{optStr p.reason})"

def optShow {α : Type} (f : α → String) : Option α → String
  | none => "none"
  | some a => "some:" ++ f a

def listShow {α : Type} (f : α → String) (l : List α) : String := "[" ++ joinWith ";" (l.map f) ++ "]"

def groupLt (a b : Group) : Bool := a.gid < b.gid
def msgIdLt (a b : Msg) : Bool := a.gid < b.gid || (a.gid == b.gid && a.id < b.id)
def pmLt (a b : PM) : Bool := a.wrapper < b.wrapper
def pairLt (a b : Nat × Nat) : Bool := a.1 < b.1 || (a.1 == b.1 && a.2 < b.2)
def tripleLt (a b : Nat × Nat × Nat) : Bool :=
  a.1 < b.1 || (a.1 == b.1 && (a.2.1 < b.2.1 || (a.2.1 == b.2.1 && a.2.2 < b.2.2)))

/-- the whole observable store through the trait's read methods, canonically ordered -/
def dumpStr (s : Store) : String :=
  let gs := sortBy groupLt s.groups
  let perGroup := gs.map (fun g =>
    g.show ++ "r" ++ natList ((alookup g.gid s.relays).getD []) ++
    "s" ++ listShow (fun (p : Nat × Nat) => s!"{p.1}:{p.2}") (sortBy pairLt (groupSecrets s g.gid)) ++
    "n" ++ optShow Group.show ((findGroupNostr s g.nid)) ++
    "M" ++ listShow Msg.show (listing s g.gid 0) ++
    "S" ++ listShow (fun (p : Nat × Nat) => s!"{p.1}@{p.2}") (snapList s g.gid))
  "G" ++ listShow id perGroup ++
  "P" ++ listShow PM.show (sortBy pmLt s.pms) ++
  "W" ++ listShow Welcome.show (sortBy (fun a b => a.id < b.id) s.welcomes) ++
  "Q" ++ listShow PW.show (sortBy (fun a b => a.wrapper < b.wrapper) s.pws) ++
  "X" ++ listShow (fun (t : Nat × Nat × Nat) => s!"{t.1}.{t.2.1}={t.2.2}") (sortBy tripleLt s.mls) ++
  -- the by-nostr-id lookup for every id of the pool (10..16): which group answers, if any
  "I" ++ listShow (fun (n : Nat) => match findGroupNostr s n with
      | some g => s!"{n}>{g.gid}.{g.epoch}.{g.nameLen}"
      | none => s!"{n}>-") [10, 11, 12, 13, 14, 15, 16]

def okErr (o : Option Store) (s : Store) : Store × String :=
  match o with
  | some s' => (s', "ok")
  | none => (s, "err")

def step (s : Store) : Op → Store × String
  | .saveGroup g => okErr (saveGroup s g) s
  | .findGroup gid => (s, optShow Group.show (findGroup s gid))
  | .findGroupNostr nid => (s, optShow Group.show (findGroupNostr s nid))
  | .allGroups => (s, listShow Group.show (sortBy groupLt s.groups))
  | .saveMessage m => okErr (saveMessage s m) s
  | .findMessage gid id => (s, optShow Msg.show (findMessage s gid id))
  | .messages gid l o so =>
    (s, match messages s gid l o so with
        | .ok l => listShow Msg.show l
        | .err => "err"
        | .panic => "panic")
  | .lastMessage gid so =>
    (s, match lastMessage s gid so with
        | none => "err"
        | some r => optShow Msg.show r)
  | .savePm p => (savePm s p, "ok")
  | .findPm w => (s, optShow PM.show (findPm s w))
  | .invalMsgs gid e => let r := invalMsgs s gid e; (r.1, natList (sortBy natLt r.2))
  | .invalPms gid e => let r := invalPms s gid e; (r.1, natList (sortBy natLt r.2))
  | .findInvalMsgs gid => (s, listShow Msg.show (sortBy msgIdLt (findInvalMsgs s gid)))
  | .findInvalPms gid => (s, listShow PM.show (sortBy pmLt (findInvalPms s gid)))
  | .failedRetry gid => (s, natList (sortBy natLt (failedRetry s gid)))
  | .markRetryable w => okErr (markRetryable s w) s
  | .updLast gid c p i => updLastOp s gid (c, p, i)
  | .findEpochByTag gid tag mode =>
    (s, match sortBy natLt (findEpochByTag s gid tag mode) with
        | [] => "none"
        | [e] => s!"some:{e}"
        | l => "oneof:" ++ joinWith "," (l.map toString))
  | .admins gid => (s, match findGroup s gid with
        | none => "err"
        | some g => toString g.admins)
  | .relays gid => (s, match relaysOf s gid with
        | none => "err"
        | some l => natList l)
  | .replaceRelays gid rs => okErr (replaceRelays s gid rs) s
  | .getSecret gid e => (s, match getSecret s gid e with
        | none => "err"
        | some r => optShow toString r)
  | .saveSecret gid e v => okErr (saveSecret s gid e v) s
  | .saveWelcome w => okErr (saveWelcome s w) s
  | .findWelcome id => (s, optShow Welcome.show (findWelcome s id))
  | .pendingWelcomes l o => (s, match pendingWelcomes s l o with
        | none => "err"
        | some l => listShow Welcome.show l)
  | .savePw p => (savePw s p, "ok")
  | .findPw w => (s, optShow PW.show (findPw s w))
  | .mlsWrite gid k v => (mlsWrite s gid k v, "ok")
  | .mlsRead gid k => (s, optShow toString (mlsRead s gid k))
  | .mlsDelete gid k => (mlsDelete s gid k, "ok")
  | .snapCreate gid name ts => okErr (snapCreate s gid name ts) s
  | .snapRollback gid name => okErr (snapRollback s gid name) s
  | .snapRelease gid name => (snapRelease s gid name, "ok")
  | .snapList gid => (s, listShow (fun (p : Nat × Nat) => s!"{p.1}@{p.2}") (snapList s gid))
  | .snapPrune t => let r := snapPrune s t; (r.1, toString r.2)
  | .dump => (s, dumpStr s)

def run (s : Store) (ops : List Op) : Store := ops.foldl (fun s o => (step s o).1) s

end MdkVerif.Store
