import MdkVerif.Model.Codec
import MdkVerif.Generated
/-
  MdkVerif.Model.Ffi — the parse helpers of the foreign-language binding layer
  (crates/mdk-uniffi/src/lib.rs), property C06 first sentence, executable and import-free.

  Strings are `Bytes` (= the UTF-8 bytes of the Rust `String`; the `hex` crate works on bytes, so a
  multi-byte character is just two or more non-hex bytes).

  * `hexDecode`        = `hex::decode` (`impl FromHex for Vec<u8>`, hex 0.4.3): parity first, then the
                         pairs left to right, the first bad character is reported with its index;
  * `decodeToSlice n`  = `hex::decode_to_slice(_, &mut [u8; n])`: parity, then `len / 2 == n`, then the pairs;
  * `parseGroupId`     = `parse_group_id`  (hex::decode + `GroupId::from_slice`: ANY length, also none);
  * `parseEventId`     = `parse_event_id`  (`EventId::from_hex`  = decode_to_slice into 32 bytes);
  * `parsePublicKey`   = `parse_public_key` (`PublicKey::from_hex` = decode_to_slice into 32 bytes — nostr
                         0.44 does NOT check that the 32 bytes are an x-only point of the curve here);
  * `parseSortOrder`   = `parse_message_sort_order` (hand-written; tied to `Generated.ffiSortOrderTable`);
  * `parseTags`        = `parse_tags` (`Tag::parse`: refuses exactly the empty tag);
  * `vecToArray n`     = `vec_to_array::<n>`;
  * the three state string tables are taken from `Generated` (`…AsStr` / `…FromStr`);
  * `relayVerdict`     = a THREE-valued decision for `RelayUrl::parse` (accept / refuse / not decided by the
                         model): `url::Url::parse` is not modelled beyond what is said at the definition;
  * `plan`             = the ordered parse steps of every exported function (tied to `Generated.ffiPlans`);
  * `alts`             = what a call may answer given the verdict of each step.

  Totality of these functions says nothing about panics in Rust; the panic search is the harness' job.
-/
namespace MdkVerif.Ffi
open MdkVerif.Codec (Bytes isBytes hexVal hexDigit hexEnc hexDec)

/-! ## hex -/

/-- `hex::FromHexError` -/
inductive HexErr
  | oddLength
  | invalidChar (c : Nat) (idx : Nat)
  | invalidStringLength
  deriving DecidableEq, Repr

/-- the pair loop; `i` is the index of the first character of the list in the whole string -/
def hexPairs : Nat → Bytes → Except HexErr Bytes
  | _, [] => .ok []
  | _, [_] => .error .oddLength
  | i, a :: b :: r =>
    match hexVal a with
    | none => .error (.invalidChar a i)
    | some x =>
      match hexVal b with
      | none => .error (.invalidChar b (i + 1))
      | some y =>
        match hexPairs (i + 2) r with
        | .ok t => .ok ((x * 16 + y) :: t)
        | .error e => .error e

def hexDecode (s : Bytes) : Except HexErr Bytes :=
  if s.length % 2 = 1 then .error .oddLength else hexPairs 0 s

def decodeToSlice (n : Nat) (s : Bytes) : Except HexErr Bytes :=
  if s.length % 2 = 1 then .error .oddLength
  else if s.length / 2 ≠ n then .error .invalidStringLength
  else hexPairs 0 s

def parseGroupId (s : Bytes) : Except HexErr Bytes := hexDecode s
def parseEventId (s : Bytes) : Except HexErr Bytes := decodeToSlice 32 s
def parsePublicKey (s : Bytes) : Except HexErr Bytes := decodeToSlice 32 s

/-- `str::to_ascii_lowercase` on one byte -/
def lowerC (c : Nat) : Nat := if 65 ≤ c ∧ c ≤ 90 then c + 32 else c
def upperC (c : Nat) : Nat := if 97 ≤ c ∧ c ≤ 122 then c - 32 else c
def isHexChar (c : Nat) : Bool := (hexVal c).isSome

/-! ## sort order, tags, fixed-size vectors, state tables -/

def createdAtFirst : Bytes := [99, 114, 101, 97, 116, 101, 100, 95, 97, 116, 95, 102, 105, 114, 115, 116]
def processedAtFirst : Bytes := [112, 114, 111, 99, 101, 115, 115, 101, 100, 95, 97, 116, 95, 102, 105, 114, 115, 116]

/-- `parse_message_sort_order`: `none` stays `none`; 0 = CreatedAtFirst, 1 = ProcessedAtFirst -/
def parseSortOrder : Option Bytes → Except Unit (Option Nat)
  | none => .ok none
  | some s => if s = createdAtFirst then .ok (some 0) else if s = processedAtFirst then .ok (some 1) else .error ()

def lookupK (t : List (Bytes × Nat)) (s : Bytes) : Option Nat := (t.find? (fun p => p.1 == s)).map (·.2)
def lookupV (t : List (Nat × Bytes)) (v : Nat) : Option Bytes := (t.find? (fun p => p.1 == v)).map (·.2)

/-- the two tables are inverse on their domains (checked by evaluation on the generated tables) -/
def inverseTables (a : List (Nat × Bytes)) (f : List (Bytes × Nat)) : Bool :=
  a.all (fun p => lookupK f p.2 == some p.1) && f.all (fun p => lookupV a p.2 == some p.1)

def welcomeStateAsStr (v : Nat) : Option Bytes := lookupV Generated.welcomeStateAsStr v
def welcomeStateFromStr (s : Bytes) : Option Nat := lookupK Generated.welcomeStateFromStr s
def messageStateAsStr (v : Nat) : Option Bytes := lookupV Generated.messageStateAsStr v
def messageStateFromStr (s : Bytes) : Option Nat := lookupK Generated.messageStateFromStr s
def groupStateAsStr (v : Nat) : Option Bytes := lookupV Generated.groupStateAsStr v
def groupStateFromStr (s : Bytes) : Option Nat := lookupK Generated.groupStateFromStr s

/-- `Tag::parse`: the empty tag is the only refusal; strings of any content (also empty) pass -/
def parseTag (t : List Bytes) : Except Unit (List Bytes) := if t.isEmpty then .error () else .ok t

def parseTags : List (List Bytes) → Except Unit (List (List Bytes))
  | [] => .ok []
  | t :: r =>
    match parseTag t with
    | .error e => .error e
    | .ok t' =>
      match parseTags r with
      | .error e => .error e
      | .ok r' => .ok (t' :: r')

/-- `vec_to_array::<n>` on the LENGTH of the optional vector -/
def vecToArray (n : Nat) : Option Nat → Except Unit (Option Nat)
  | none => .ok none
  | some len => if len = n then .ok (some len) else .error ()

/-! ## relay URLs (three-valued) -/

inductive V3 | acc | rej | unk
  deriving DecidableEq, Repr

/-- `url.matches("://").count()` -/
def countSep : Bytes → Nat
  | 58 :: 47 :: 47 :: r => 1 + countSep r
  | _ :: r => countSep r
  | [] => 0

def isAlpha (c : Nat) : Bool := (65 ≤ c && c ≤ 90) || (97 ≤ c && c ≤ 122)
def isDigit (c : Nat) : Bool := 48 ≤ c && c ≤ 57
def isLowerAlnum (c : Nat) : Bool := (97 ≤ c && c ≤ 122) || isDigit c
/-- scheme = ALPHA *( ALPHA / DIGIT / "+" / "-" / "." ) -/
def isScheme : Bytes → Bool
  | [] => false
  | c :: r => isAlpha c && r.all (fun x => isAlpha x || isDigit x || x == 43 || x == 45 || x == 46)

def splitOn1 (sep : Nat) : Bytes → Bytes × Option Bytes
  | [] => ([], none)
  | c :: r => if c = sep then ([], some r) else
      match splitOn1 sep r with
      | (a, b) => (c :: a, b)

def splitAll (sep : Nat) : Bytes → List Bytes
  | [] => [[]]
  | c :: r =>
    match splitAll sep r with
    | [] => [[]]            -- unreachable
    | h :: t => if c = sep then [] :: h :: t else (c :: h) :: t

def hasDoubleDash : Bytes → Bool
  | 45 :: 45 :: _ => true
  | _ :: r => hasDoubleDash r
  | [] => false

/-- a host label the model is sure about: `[a-z0-9]` at both ends, `[a-z0-9-]` inside, no `--`, ≤ 63 -/
def safeLabel (l : Bytes) : Bool :=
  match l, l.getLast? with
  | c :: _, some d => isLowerAlnum c && isLowerAlnum d && l.all (fun x => isLowerAlnum x || x == 45) && !hasDoubleDash l && l.length ≤ 63
  | _, _ => false

/-- labels as above, the last one starts with a letter (so that it is not read as a number / IPv4) -/
def safeHost (h : Bytes) : Bool :=
  let ls := splitAll 46 h
  ls.all safeLabel && (match ls.getLast? with | some (c :: _) => isAlpha c | _ => false) && h.length ≤ 253

def decVal (b : Bytes) : Nat := b.foldl (fun a c => a * 10 + (c - 48)) 0
def safePort (p : Bytes) : Bool := !p.isEmpty && p.length ≤ 5 && p.all isDigit && decVal p ≤ 65535
def safePathChar (c : Nat) : Bool := isAlpha c || isDigit c || c == 45 || c == 46 || c == 95 || c == 126 || c == 47

/-- `RelayUrl::parse` (nostr 0.44: at most one "://", `Url::parse`, scheme ws | wss).
    Decided here: REFUSED when "://" occurs twice, when there is no ':' at all (no scheme: a relative URL
    without base), and — for strings of printable ASCII only — when what precedes the first ':' is not a
    scheme or is a scheme other than ws / wss (compared case-insensitively, as `url` lower-cases it);
    ACCEPTED for `ws(s)://host[:port][/path]` with a plain lower-case DNS host; everything else is `unk`
    (the `url` crate trims and strips control characters, handles IPv4/IPv6/IDNA/percent-encoding …). -/
def relayVerdict (s : Bytes) : V3 :=
  if countSep s > 1 then .rej
  else if !s.contains 58 then .rej
  else if s.any (fun c => c < 33 || c ≥ 127) then .unk
  else
    match splitOn1 58 s with
    | (_, none) => .rej
    | (sch, some rest) =>
      if !isScheme sch then .rej
      else
        let sl := sch.map lowerC
        if sl ≠ [119, 115] ∧ sl ≠ [119, 115, 115] then .rej
        else
          match rest with
          | 47 :: 47 :: r =>
            let (auth, path) := splitOn1 47 r
            let (host, port) := splitOn1 58 auth
            if safeHost host && (match port with | none => true | some p => safePort p)
               && (match path with | none => true | some p => p.all safePathChar) then .acc else .unk
          | _ => .unk

/-! ## the parse plan of every exported function -/

/-- one parse step; `code` is the number `tools/gen_model.py` gives the same step in `Generated.ffiPlans` -/
inductive Stage
  | gid | eid | pk | relay | sort | tag | ngidHex | ngidLen | vec32 | vec12 | wstate | encKey
  | imgHash | imgKey | imgNonce | welcome | lock
  | jsonEvent | jsonRumor | jsonWelcome | jsonWelcomeEvent | jsonKp
  deriving DecidableEq, Repr

def Stage.code : Stage → Nat
  | .gid => 1 | .eid => 2 | .pk => 3 | .relay => 4 | .sort => 5 | .tag => 6 | .ngidHex => 7 | .ngidLen => 8
  | .vec32 => 9 | .vec12 => 10 | .wstate => 11 | .encKey => 12 | .imgHash => 13 | .imgKey => 14 | .imgNonce => 15
  | .welcome => 16 | .lock => 17
  | .jsonEvent => 20 | .jsonRumor => 21 | .jsonWelcome => 22 | .jsonWelcomeEvent => 23 | .jsonKp => 24

/-- the argument a step reads (the keys of the op line) -/
inductive Key
  | none_ | g | e | pk | relays | sort | j | kps | admins | pks | tags | key | hash | nonce
  | wId | wEvent | wGid | wNgid | wHash | wKey | wNonce | wAdmins | wRelays | wWelcomer | wWrapper | wState
  | uHash | uKey | uNonce | uRelays | uAdmins
  deriving DecidableEq, Repr

inductive Method
  | newMdk | newMdkWithKey | newMdkUnencrypted | createKeyPackage | createKeyPackageWithOptions | parseKeyPackage
  | getGroups | getGroup | groupsNeedingSelfUpdate | getMembers | getMessages | getMessage | getLastMessage
  | getPendingWelcomes | getWelcome | processWelcome | acceptWelcome | acceptWelcomeJson | declineWelcome
  | declineWelcomeJson | getRelays | createGroup | addMembers | removeMembers | mergePendingCommit
  | clearPendingCommit | syncGroupMetadata | createMessage | selfUpdate | leaveGroup | updateGroupData
  | processMessage | prepareGroupImage | decryptGroupImage | deriveUploadKeypair
  deriving DecidableEq, Repr

def Method.all : List Method :=
  [.newMdk, .newMdkWithKey, .newMdkUnencrypted, .createKeyPackage, .createKeyPackageWithOptions, .parseKeyPackage,
   .getGroups, .getGroup, .groupsNeedingSelfUpdate, .getMembers, .getMessages, .getMessage, .getLastMessage,
   .getPendingWelcomes, .getWelcome, .processWelcome, .acceptWelcome, .acceptWelcomeJson, .declineWelcome,
   .declineWelcomeJson, .getRelays, .createGroup, .addMembers, .removeMembers, .mergePendingCommit,
   .clearPendingCommit, .syncGroupMetadata, .createMessage, .selfUpdate, .leaveGroup, .updateGroupData,
   .processMessage, .prepareGroupImage, .decryptGroupImage, .deriveUploadKeypair]

/-- the exported Rust name, as bytes -/
def Method.name : Method → Bytes
  | .newMdk => [110, 101, 119, 95, 109, 100, 107]
  | .newMdkWithKey => [110, 101, 119, 95, 109, 100, 107, 95, 119, 105, 116, 104, 95, 107, 101, 121]
  | .newMdkUnencrypted => [110, 101, 119, 95, 109, 100, 107, 95, 117, 110, 101, 110, 99, 114, 121, 112, 116, 101, 100]
  | .createKeyPackage => [99, 114, 101, 97, 116, 101, 95, 107, 101, 121, 95, 112, 97, 99, 107, 97, 103, 101, 95, 102, 111, 114, 95, 101, 118, 101, 110, 116]
  | .createKeyPackageWithOptions => [99, 114, 101, 97, 116, 101, 95, 107, 101, 121, 95, 112, 97, 99, 107, 97, 103, 101, 95, 102, 111, 114, 95, 101, 118, 101, 110, 116, 95, 119, 105, 116, 104, 95, 111, 112, 116, 105, 111, 110, 115]
  | .parseKeyPackage => [112, 97, 114, 115, 101, 95, 107, 101, 121, 95, 112, 97, 99, 107, 97, 103, 101]
  | .getGroups => [103, 101, 116, 95, 103, 114, 111, 117, 112, 115]
  | .getGroup => [103, 101, 116, 95, 103, 114, 111, 117, 112]
  | .groupsNeedingSelfUpdate => [103, 114, 111, 117, 112, 115, 95, 110, 101, 101, 100, 105, 110, 103, 95, 115, 101, 108, 102, 95, 117, 112, 100, 97, 116, 101]
  | .getMembers => [103, 101, 116, 95, 109, 101, 109, 98, 101, 114, 115]
  | .getMessages => [103, 101, 116, 95, 109, 101, 115, 115, 97, 103, 101, 115]
  | .getMessage => [103, 101, 116, 95, 109, 101, 115, 115, 97, 103, 101]
  | .getLastMessage => [103, 101, 116, 95, 108, 97, 115, 116, 95, 109, 101, 115, 115, 97, 103, 101]
  | .getPendingWelcomes => [103, 101, 116, 95, 112, 101, 110, 100, 105, 110, 103, 95, 119, 101, 108, 99, 111, 109, 101, 115]
  | .getWelcome => [103, 101, 116, 95, 119, 101, 108, 99, 111, 109, 101]
  | .processWelcome => [112, 114, 111, 99, 101, 115, 115, 95, 119, 101, 108, 99, 111, 109, 101]
  | .acceptWelcome => [97, 99, 99, 101, 112, 116, 95, 119, 101, 108, 99, 111, 109, 101]
  | .acceptWelcomeJson => [97, 99, 99, 101, 112, 116, 95, 119, 101, 108, 99, 111, 109, 101, 95, 106, 115, 111, 110]
  | .declineWelcome => [100, 101, 99, 108, 105, 110, 101, 95, 119, 101, 108, 99, 111, 109, 101]
  | .declineWelcomeJson => [100, 101, 99, 108, 105, 110, 101, 95, 119, 101, 108, 99, 111, 109, 101, 95, 106, 115, 111, 110]
  | .getRelays => [103, 101, 116, 95, 114, 101, 108, 97, 121, 115]
  | .createGroup => [99, 114, 101, 97, 116, 101, 95, 103, 114, 111, 117, 112]
  | .addMembers => [97, 100, 100, 95, 109, 101, 109, 98, 101, 114, 115]
  | .removeMembers => [114, 101, 109, 111, 118, 101, 95, 109, 101, 109, 98, 101, 114, 115]
  | .mergePendingCommit => [109, 101, 114, 103, 101, 95, 112, 101, 110, 100, 105, 110, 103, 95, 99, 111, 109, 109, 105, 116]
  | .clearPendingCommit => [99, 108, 101, 97, 114, 95, 112, 101, 110, 100, 105, 110, 103, 95, 99, 111, 109, 109, 105, 116]
  | .syncGroupMetadata => [115, 121, 110, 99, 95, 103, 114, 111, 117, 112, 95, 109, 101, 116, 97, 100, 97, 116, 97, 95, 102, 114, 111, 109, 95, 109, 108, 115]
  | .createMessage => [99, 114, 101, 97, 116, 101, 95, 109, 101, 115, 115, 97, 103, 101]
  | .selfUpdate => [115, 101, 108, 102, 95, 117, 112, 100, 97, 116, 101]
  | .leaveGroup => [108, 101, 97, 118, 101, 95, 103, 114, 111, 117, 112]
  | .updateGroupData => [117, 112, 100, 97, 116, 101, 95, 103, 114, 111, 117, 112, 95, 100, 97, 116, 97]
  | .processMessage => [112, 114, 111, 99, 101, 115, 115, 95, 109, 101, 115, 115, 97, 103, 101]
  | .prepareGroupImage => [112, 114, 101, 112, 97, 114, 101, 95, 103, 114, 111, 117, 112, 95, 105, 109, 97, 103, 101, 95, 102, 111, 114, 95, 117, 112, 108, 111, 97, 100]
  | .decryptGroupImage => [100, 101, 99, 114, 121, 112, 116, 95, 103, 114, 111, 117, 112, 95, 105, 109, 97, 103, 101]
  | .deriveUploadKeypair => [100, 101, 114, 105, 118, 101, 95, 117, 112, 108, 111, 97, 100, 95, 107, 101, 121, 112, 97, 105, 114]

abbrev Plan := List (Stage × Key)

/-- `welcome_from_uniffi` -/
def welcomePlan : Plan :=
  [(.eid, .wId), (.jsonWelcomeEvent, .wEvent), (.gid, .wGid), (.ngidHex, .wNgid), (.ngidLen, .wNgid), (.vec32, .wHash),
   (.vec32, .wKey), (.vec12, .wNonce), (.pk, .wAdmins), (.relay, .wRelays), (.pk, .wWelcomer), (.eid, .wWrapper),
   (.wstate, .wState)]

/-- the parse steps of each exported function in source order (`lock` = `self.lock()`; a step after it
    runs with the mutex held) -/
def plan : Method → Plan
  | .newMdk | .newMdkUnencrypted | .prepareGroupImage => []
  | .newMdkWithKey => [(.encKey, .key)]
  | .createKeyPackage | .createKeyPackageWithOptions => [(.pk, .pk), (.relay, .relays), (.lock, .none_)]
  | .parseKeyPackage | .processMessage => [(.jsonEvent, .j), (.lock, .none_)]
  | .getGroups | .groupsNeedingSelfUpdate | .getPendingWelcomes => [(.lock, .none_)]
  | .getGroup | .getMembers | .getRelays | .mergePendingCommit | .clearPendingCommit | .syncGroupMetadata
  | .selfUpdate | .leaveGroup => [(.gid, .g), (.lock, .none_)]
  | .getMessages | .getLastMessage => [(.gid, .g), (.sort, .sort), (.lock, .none_)]
  | .getMessage => [(.gid, .g), (.eid, .e), (.lock, .none_)]
  | .getWelcome => [(.eid, .e), (.lock, .none_)]
  | .processWelcome => [(.eid, .e), (.jsonRumor, .j), (.lock, .none_)]
  | .acceptWelcome | .declineWelcome => [(.welcome, .none_), (.lock, .none_)]
  | .acceptWelcomeJson | .declineWelcomeJson => [(.jsonWelcome, .j), (.lock, .none_)]
  | .createGroup => [(.pk, .pk), (.relay, .relays), (.pk, .admins), (.jsonKp, .kps), (.lock, .none_)]
  | .addMembers => [(.gid, .g), (.jsonKp, .kps), (.lock, .none_)]
  | .removeMembers => [(.gid, .g), (.pk, .pks), (.lock, .none_)]
  | .createMessage => [(.gid, .g), (.pk, .pk), (.lock, .none_), (.tag, .tags)]
  | .updateGroupData => [(.gid, .g), (.vec32, .uHash), (.vec32, .uKey), (.vec12, .uNonce), (.relay, .uRelays), (.pk, .uAdmins), (.lock, .none_)]
  | .decryptGroupImage => [(.imgHash, .hash), (.imgKey, .key), (.imgNonce, .nonce)]
  | .deriveUploadKeypair => [(.imgKey, .key)]

def planCodes (p : Plan) : List Nat := p.map (fun s => s.1.code)

def lookupPlan (name : Bytes) : Option (List Nat) :=
  (Generated.ffiPlans.find? (fun p => p.1 == name)).map (·.2)

/-- `welcome_from_uniffi` inlined where a function calls it -/
def fullPlan (m : Method) : Plan :=
  (plan m).flatMap (fun s => if s.1 = .welcome then welcomePlan else [s])

/-! ## what a call may answer -/

/-- the value of one argument as the model sees it -/
inductive Val
  | str (s : Bytes)                         -- a string
  | strs (l : List Bytes)                   -- a list of strings (every element goes through the same helper)
  | ostr (o : Option Bytes)                 -- an optional string
  | tagsV (o : Option (List (List Bytes)))  -- optional tag list
  | len (o : Option Nat)                    -- an optional byte vector: only its length matters (`none` = absent / cleared)
  | json (h : V3)                           -- a JSON string: the verdict is an INPUT (class hint of the generator)
  | jsons (h : List V3)
  | absent                                  -- an optional argument that was not given: the step is skipped

def hexV (r : Except HexErr Bytes) : V3 := match r with | .ok _ => .acc | .error _ => .rej
def allV (l : List V3) : V3 :=
  -- elements are parsed left to right and the first refusal ends the call; every element is refused by
  -- the SAME step, so an undecided element followed by a refused one is a refusal of the step either way
  match l with
  | [] => .acc
  | .acc :: r => allV r
  | .rej :: _ => .rej
  | .unk :: r => match allV r with | .rej => .rej | _ => .unk

/-- verdict of one step on one argument value -/
def stepVerdict : Stage → Val → V3
  | _, .absent => .acc
  | .gid, .str s => hexV (parseGroupId s)
  | .eid, .str s => hexV (parseEventId s)
  | .pk, .str s => hexV (parsePublicKey s)
  | .pk, .strs l => allV (l.map (fun s => hexV (parsePublicKey s)))
  | .relay, .strs l => allV (l.map relayVerdict)
  | .sort, .ostr o => (match parseSortOrder o with | .ok _ => .acc | .error _ => .rej)
  | .sort, .str s => (match parseSortOrder (some s) with | .ok _ => .acc | .error _ => .rej)
  | .tag, .tagsV none => .acc
  | .tag, .tagsV (some ts) => (match parseTags ts with | .ok _ => .acc | .error _ => .rej)
  | .ngidHex, .str s => hexV (hexDecode s)
  | .ngidLen, .str s => (match hexDecode s with | .ok b => if b.length = 32 then .acc else .rej | .error _ => .acc)
  | .vec32, .len o => (match vecToArray 32 o with | .ok _ => .acc | .error _ => .rej)
  | .vec12, .len o => (match vecToArray 12 o with | .ok _ => .acc | .error _ => .rej)
  | .wstate, .str s => if (welcomeStateFromStr s).isSome then .acc else .rej
  | .encKey, .len (some n) => if n = 32 then .acc else .rej
  | .imgHash, .len none => .acc
  | .imgHash, .len (some n) => if n = 32 then .acc else .rej
  | .imgKey, .len (some n) => if n = 32 then .acc else .rej
  | .imgNonce, .len (some n) => if n = 12 then .acc else .rej
  | .jsonEvent, .json h | .jsonRumor, .json h | .jsonWelcome, .json h | .jsonWelcomeEvent, .json h => h
  | .jsonKp, .jsons hs => allV hs
  | .lock, _ => .acc
  | _, _ => .unk

inductive Out
  | past                 -- every parse step accepted: the call reaches mdk-core
  | refuse (s : Stage)   -- `MdkUniffiError::InvalidInput` raised by this step
  deriving DecidableEq, Repr

/-- the possible answers: the first refusing step wins; a step the model cannot decide forks -/
def alts : List (Stage × V3) → List Out
  | [] => [.past]
  | (_, .acc) :: r => alts r
  | (s, .rej) :: _ => [.refuse s]
  | (s, .unk) :: r => .refuse s :: alts r

def predict (m : Method) (arg : Key → Val) : List Out :=
  alts ((fullPlan m).map (fun s => (s.1, stepVerdict s.1 (arg s.2))))

/-- the sub-class of a hex refusal (what the error text of the `hex` crate says) -/
def hexErrOf (st : Stage) (v : Val) : Option HexErr :=
  match st, v with
  | .gid, .str s | .ngidHex, .str s => (match hexDecode s with | .error e => some e | .ok _ => none)
  | .eid, .str s | .pk, .str s => (match decodeToSlice 32 s with | .error e => some e | .ok _ => none)
  | .pk, .strs l => l.findSome? (fun s => match decodeToSlice 32 s with | .error e => some e | .ok _ => none)
  | _, _ => none

end MdkVerif.Ffi
