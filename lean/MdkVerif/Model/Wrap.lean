import MdkVerif.Generated
import MdkVerif.Model.Basic
/-
  MdkVerif.Model.Wrap — the OUTERMOST layer of `process_message`: what the library does with the raw kind-445
  wrapper event before (and around) the MLS layer, for a client that holds SEVERAL groups.
  Import-free (project files only), executable, kernel-reducible.

  Follows crates/mdk-core/src/messages/
    process.rs        `process_message`: step 0 (dedup on the processed-message record), step 1 (validate +
                      h tag), step 2 (`decrypt_message`), hand-over to `dispatch_by_content_type`
    validation.rs     `validate_event`, `validate_created_at`, `extract_nostr_group_id`
    decryption.rs     `decrypt_message`, `try_decrypt_with_recent_epochs`, `try_decrypt_with_past_epochs`
    error_handling.rs `record_failure`, `sanitize_error_reason`, `fail_unprocessable`,
                      `extract_mls_group_id_from_event`
  and the NIP-44 v2 payload checks of the pinned `nostr` crate (nips/nip44/{mod,v2}.rs), including the place
  where they PANIC (`buffer[0..2]` on an authenticated payload whose buffer is shorter than two bytes).

  Every number comes from `MdkVerif.Generated` (re-extracted from the source on every run).

  What is abstract, and on which assumption (DESIGN §5.3):
  * an exporter secret is a number (`sid`); HMAC-SHA256 / ChaCha20 of NIP-44 are symbolic: a payload carries
    the one secret under which its MAC verifies (`macKey`; A4/A5: no second key verifies it, a truncated or
    bit-flipped payload verifies under none) and the two length bytes found after decryption (`claimed`);
  * base64 is a class of the content (`notBase64`), decided by the harness with the library's own decoder;
  * the MLS layer is NOT modelled here: `Res.handed g` means "`decrypt_message` returned the plaintext and
    the plaintext is an MLS message of group g" — what OpenMLS does with it is Model.Client's business.
    The two cheapest refusals of the MLS layer are included because they are decided by the bytes alone:
    a plaintext that is no MLS message, and an MLS message of another group (`Inner`).
  * everything of a group that this layer never reads (MLS state, members, data, proposals, stored
    messages) is one opaque number `inner`, so "unchanged" below means unchanged as a whole.
-/
namespace MdkVerif.Wrap
open MdkVerif

abbrev Bytes := List Nat
/-- a Nostr tag: a non-empty list of strings, each a list of bytes -/
abbrev Tag := List Bytes

/-! ### the raw event -/

/-- what the unpadded NIP-44 plaintext is -/
inductive Inner where
  | garbage                -- no TLS-serialised MLS message (`MlsMessageIn::tls_deserialize_exact` fails)
  | mls (gid : Nat)        -- an MLS protocol message of the MLS group `gid`
  deriving DecidableEq, Repr, Inhabited

/-- the base64-decoded content, at least one byte -/
structure Payload where
  version : Nat            -- first byte
  len : Nat                -- number of decoded bytes
  macKey : Option Nat      -- the secret under which the trailing HMAC verifies, if any
  claimed : Nat            -- big-endian u16 at the start of the buffer after decryption under `macKey`
  inner : Inner            -- the unpadded plaintext, when everything else is in order
  deriving DecidableEq, Repr, Inhabited

inductive Content where
  | notBase64
  | empty                  -- decodes to zero bytes
  | bytes (p : Payload)
  deriving DecidableEq, Repr, Inhabited

structure Ev where
  id : Nat                 -- event id as the caller presents it (NOT verified by the library)
  kind : Nat
  createdAt : Nat
  tags : List Tag
  content : Content
  deriving DecidableEq, Repr, Inhabited

/-- `MdkConfig` fields this layer reads -/
structure Cfg where
  skew : Nat               -- max_future_skew_secs
  maxAge : Nat             -- max_event_age_secs
  deriving DecidableEq, Repr, Inhabited

def Cfg.default : Cfg := ⟨Generated.defaultMaxFutureSkewSecs, Generated.defaultMaxEventAgeSecs⟩

/-! ### errors and results -/

inductive ErrKind where
  | unexpectedEvent | invalidTimestamp | missingTag | multipleTags | invalidFormat | groupNotFound | message | group
  deriving DecidableEq, Repr, Inhabited

/-- position in tools/gen_model.py WRAP_ERRS -/
def ErrKind.code : ErrKind → Nat
  | .unexpectedEvent => 0 | .invalidTimestamp => 1 | .missingTag => 2 | .multipleTags => 3
  | .invalidFormat => 4 | .groupNotFound => 5 | .message => 6 | .group => 7

def defaultReason : Nat := Generated.sanitizeReasons.length - 1

/-- `sanitize_error_reason`, as an index into `Generated.sanitizeReasons` -/
def reasonOf (k : ErrKind) : Nat := Generated.wrapErrReason.getD k.code defaultReason

inductive Res where
  | err (k : ErrKind)
  | unprocessable (gid : Nat)
  | previouslyFailed
  | handed (gid : Nat)     -- plaintext given to the MLS layer of group `gid` (and it is an MLS message of that group)
  | panic
  deriving DecidableEq, Repr, Inhabited

/-! ### the store: several groups and the processed-message table -/

structure Group where
  gid : Nat                       -- MLS group id
  nid : Bytes                     -- nostr group id currently in the stored record
  epoch : Nat                     -- epoch of the stored MLS group
  recEpoch : Nat                  -- epoch field of the stored record
  curSid : Nat                    -- the secret the MLS exporter yields in the current state
  secrets : List (Nat × Nat)      -- stored exporter secrets: epoch number ↦ secret
  loadable : Bool                 -- `load_mls_group` finds the MLS group
  inner : Nat                     -- everything else (opaque)
  deriving DecidableEq, Repr, Inhabited

/-- a processed-message record -/
structure Rec where
  state : Nat              -- 0 created 1 processed 2 processed_commit 3 failed 4 epoch_invalidated 5 retryable
  epoch : Option Nat
  gid : Option Nat
  mid : Option Nat         -- message_event_id
  reason : Option Nat      -- failure_reason, index into Generated.sanitizeReasons
  deriving DecidableEq, Repr, Inhabited

structure Store where
  groups : List Group
  recs : List (Nat × Rec)
  deriving DecidableEq, Repr, Inhabited

/-- `find_group_by_nostr_group_id` (both backends keep the nostr group id unique; first match) -/
def findGroup (groups : List Group) (nid : Bytes) : Option Group :=
  groups.find? (fun g => g.nid == nid)

/-! ### step 1: kind, created_at window, h tag -/

def u64Max : Nat := 18446744073709551615
def satAdd (a b : Nat) : Nat := if a + b > u64Max then u64Max else a + b

def kindOk (e : Ev) : Bool := e.kind == Generated.kindMlsGroupMessage
def notTooNew (cfg : Cfg) (now : Nat) (e : Ev) : Bool := !(decide (e.createdAt > satAdd now cfg.skew))
def notTooOld (cfg : Cfg) (now : Nat) (e : Ev) : Bool := !(decide (e.createdAt < now - cfg.maxAge))

def hexVal (c : Nat) : Option Nat :=
  if 48 ≤ c ∧ c ≤ 57 then some (c - 48)
  else if 97 ≤ c ∧ c ≤ 102 then some (c - 87)
  else if 65 ≤ c ∧ c ≤ 70 then some (c - 55)
  else none

/-- `hex::decode`: either case, even length -/
def hexDecode : Bytes → Option Bytes
  | [] => some []
  | [_] => none
  | a :: b :: r =>
    match hexVal a, hexVal b, hexDecode r with
    | some x, some y, some t => some ((16 * x + y) :: t)
    | _, _, _ => none

/-- the string "h" -/
def hName : Bytes := [104]

/-- `tag.kind() == TagKind::h()`: the first string is exactly "h" -/
def isH (t : Tag) : Bool := t.head? == some hName

def hTags (e : Ev) : List Tag := e.tags.filter isH

/-- the value of one h tag: present, `Generated.hTagHexLen` bytes long, hex -/
def tagValue (t : Tag) : Except ErrKind Bytes :=
  match t[1]? with
  | none => .error .invalidFormat
  | some s =>
    if s.length ≠ Generated.hTagHexLen then .error .invalidFormat
    else match hexDecode s with
      | none => .error .invalidFormat
      | some b => .ok b

/-- `extract_nostr_group_id` -/
def extractNid (e : Ev) : Except ErrKind Bytes :=
  match hTags e with
  | [] => .error .missingTag
  | [t] => tagValue t
  | _ :: _ :: _ => .error .multipleTags

/-- `validate_event` then `extract_nostr_group_id` -/
def validate (cfg : Cfg) (now : Nat) (e : Ev) : Except ErrKind Bytes :=
  if !kindOk e then .error .unexpectedEvent
  else if !notTooNew cfg now e then .error .invalidTimestamp
  else if !notTooOld cfg now e then .error .invalidTimestamp
  else extractNid e

/-! ### step 2: the NIP-44 layer and the epoch lookback -/

inductive Open where
  | ok (i : Inner) | err | panic
  deriving DecidableEq, Repr, Inhabited

/-- the smallest power of two above `m` (`1 << (log2_round_down(m) + 1)`), by fuel -/
def pow2Above : Nat → Nat → Nat → Nat
  | 0, _, p => p
  | f + 1, m, p => if p > m then p else pow2Above f m (2 * p)

/-- nostr nip44 v2 `calc_padding` -/
def calcPadding (n : Nat) : Nat :=
  if n ≤ 32 then 32
  else
    let np := pow2Above 64 (n - 1) 1
    let chunk := if np ≤ 256 then 32 else np / 8
    chunk * ((n - 1) / chunk + 1)

def minPayload : Nat := Generated.nip44NonceEnd + Generated.nip44MacLen

/-- `decrypt_with_exporter_secret` under the secret `k`: base64, version byte, slices, HMAC, length prefix,
    padding — in the library's order -/
def nip44Open (c : Content) (k : Nat) : Open :=
  match c with
  | .notBase64 => .err
  | .empty => .err                                             -- VersionNotFound
  | .bytes p =>
    if p.len < Generated.mdkMinPayloadLen then .err            -- a length guard of mdk's own, if any
    else if p.version ≠ Generated.nip44Version then .err       -- UnknownVersion
    else if p.len < minPayload then .err                       -- nonce / buffer slice not found
    else if p.macKey ≠ some k then .err                        -- InvalidHmac
    else
      let buf := p.len - minPayload
      if buf < 2 then (if Generated.nip44LenPrefixGuarded then .err else .panic)   -- `buffer[0..2]`
      else if buf < 2 + p.claimed then .err                    -- InvalidPadding
      else if p.claimed = 0 then .err                          -- MessageEmpty
      else if buf ≠ 2 + calcPadding p.claimed then .err        -- InvalidPadding
      else .ok p.inner

/-- the first key that does not simply fail decides (an error moves on to the next key) -/
def openWith (c : Content) : List Nat → Open
  | [] => .err
  | k :: ks =>
    match nip44Open c k with
    | .err => openWith c ks
    | r => r

/-- the secret `exporter_secret()` returns: the stored one of the current epoch number, else a fresh export -/
def Group.curKey (g : Group) : Nat := (alookup g.epoch g.secrets).getD g.curSid

/-- … and its side effect: a fresh export is stored -/
def Group.ensure (g : Group) : Group :=
  match alookup g.epoch g.secrets with
  | some _ => g
  | none => { g with secrets := ainsert g.epoch g.curSid g.secrets }

/-- stored secrets of the epochs cur-1, cur-2, …, cur-LOOKBACK (not below 0), in that order -/
def Group.pastKeys (g : Group) : List Nat :=
  (List.range Generated.epochLookback).filterMap (fun k =>
    if k + 1 ≤ g.epoch then alookup (g.epoch - (k + 1)) g.secrets else none)

def Group.keys (g : Group) : List Nat := g.curKey :: g.pastKeys

/-! ### records -/

def blocked (r : Rec) : Bool := Generated.dedupBlockedStates.contains r.state

/-- `record_failure`: state Failed and the sanitised reason; the message id is kept, epoch and group fall
    back to the existing record -/
def recordFailure (st : Store) (id : Nat) (k : ErrKind) (gid : Option Nat) (epoch : Option Nat) : Store :=
  let old := alookup id st.recs
  let ep := match epoch with
    | some x => some x
    | none => old.bind (·.epoch)
  let g := match gid with
    | some x => some x
    | none => old.bind (·.gid)
  { st with recs := ainsert id { state := 3, epoch := ep, gid := g, mid := old.bind (·.mid), reason := some (reasonOf k) } st.recs }

/-- the group `g` of the store with its exporter-secret cache filled (`save_group_exporter_secret` is keyed by the
    MLS group id and the epoch; nothing else of the store is written) -/
def touch (groups : List Group) (g : Group) : List Group :=
  groups.map (fun x => if x = g then g.ensure else x)

/-! ### the pipeline -/

/-- what the outer layer decides, before anything is written -/
inductive Outer where
  | blockedAs (r : Res)                        -- step 0: a Failed / EpochInvalidated record
  | invalid (k : ErrKind)                      -- step 1
  | noGroup                                    -- step 2: no group has this nostr group id
  | notLoadable (g : Group)                    -- step 2: record without MLS group
  | undecryptable (g : Group)                  -- step 2: no tried secret opens the content
  | panicked (g : Group)                       -- step 2: NIP-44 panics under a tried secret
  | opened (g : Group) (i : Inner)             -- `decrypt_message` returned Ok for group g
  deriving DecidableEq, Repr, Inhabited

/-- step 0 for a blocked record: `extract_mls_group_id_from_event` -/
def blockedResult (st : Store) (e : Ev) : Res :=
  match extractNid e with
  | .ok nid =>
    (match findGroup st.groups nid with
     | some g => .unprocessable g.gid
     | none => .previouslyFailed)
  | .error _ => .previouslyFailed

def isBlocked (st : Store) (e : Ev) : Bool :=
  match alookup e.id st.recs with
  | some r => blocked r
  | none => false

def outer (cfg : Cfg) (now : Nat) (st : Store) (e : Ev) : Outer :=
  if isBlocked st e then .blockedAs (blockedResult st e)
  else
    match validate cfg now e with
    | .error k => .invalid k
    | .ok nid =>
      match findGroup st.groups nid with
      | none => .noGroup
      | some g =>
        if !g.loadable then .notLoadable g
        else
          match openWith e.content g.keys with
          | .err => .undecryptable g
          | .panic => .panicked g
          | .ok i => .opened g i

/-- `process_message` up to the MLS layer -/
def process (cfg : Cfg) (now : Nat) (st : Store) (e : Ev) : Store × Res :=
  match outer cfg now st e with
  | .blockedAs r => (st, r)
  | .invalid k => (recordFailure st e.id k none none, .err k)
  | .noGroup => (recordFailure st e.id .groupNotFound none none, .err .groupNotFound)
  | .notLoadable g => (recordFailure st e.id .groupNotFound (some g.gid) none, .err .groupNotFound)
  | .undecryptable g =>
    (recordFailure { st with groups := touch st.groups g } e.id .message (some g.gid) none, .err .message)
  | .panicked g => ({ st with groups := touch st.groups g }, .panic)
  | .opened g i =>
    let st1 := { st with groups := touch st.groups g }
    if i = .mls g.gid then (st1, .handed g.gid)
    else
      -- `process_mls_message` fails on the bytes alone (TLS deserialisation / ProtocolGroupIdMismatch):
      -- `handle_processing_error` → `fail_unprocessable`
      (recordFailure st1 e.id .message (some g.gid) (some g.recEpoch), .unprocessable g.gid)

/-- the results with which the library reports failure at this layer -/
def isRefusal : Res → Bool
  | .err _ | .unprocessable _ | .previouslyFailed => true
  | .handed _ | .panic => false

/-- a group without its exporter-secret cache -/
def Group.frame (g : Group) : Group := { g with secrets := [] }

/-- offering the same event `n` more times, at arbitrary later clock readings -/
def offerAgain (cfg : Cfg) (e : Ev) : List Nat → Store → Store
  | [], st => st
  | now :: rest, st => offerAgain cfg e rest (process cfg now st e).1

/-- MIP-01 rotation of the nostr group id of the group `gid` (as `sync_group_metadata_from_mls` stores it) -/
def rotate (st : Store) (gid : Nat) (nid : Bytes) : Store :=
  { st with groups := st.groups.map (fun g => if g.gid = gid then { g with nid := nid } else g) }

end MdkVerif.Wrap
