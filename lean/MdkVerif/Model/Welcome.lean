import MdkVerif.Model.Basic
import MdkVerif.Model.Store
/-
  Model.Welcome — the invitation state machine of one client:
  `MDK::process_welcome`, `accept_welcome`, `decline_welcome` (crates/mdk-core/src/welcomes.rs) over the
  storage model `Model.Store` (group records with state 0 active / 1 inactive / 2 pending, welcomes,
  processed-welcome records, relays) plus an abstract MLS side: the client's table of MLS groups
  `mls : gid ↦ (state token, epoch, member count)`.

  An invitation (kind-444 rumor) is represented by what the recipient's `preview_welcome` sees:
  the MLS group id, the inviter's post-commit state (token, epoch, member count), the group data of the
  `NostrGroupDataExtension`, whether the rumor carries an id, and its `shape`:
      0  well-formed and decodable by this client
      1  refused by `validate_welcome_event` (kind, tags, encoding tag)            → InvalidWelcomeMessage
      2  fails inside `preview_welcome` (content not base64 / not an MLS Welcome / no matching key
         package)                                              → a Failed processed-welcome record
  `accept` = `StagedWelcome::into_group` built with `.replace_old_group()`: it OVERWRITES an MLS group
  of that id the client already holds.

  The order of writes of `process_welcome` is the code's:
      validate → [rumor.id missing ⇒ Err] → dedup by wrapper id → dedup by rumor id (records the new
      wrapper, returns the stored welcome) → preview (failure records) → save_group(Pending) →
      replace_group_relays → save_processed_welcome → save_welcome
  (as of /repo 4010ddc + 0dcc511; `accept` / `decline` refuse a welcome that is already Accepted).
  Also modelled (group traffic, only as far as the invitation property needs it): processing a commit of
  the group (`deliverCommit`, incl. commits that ROTATE the nostr group id and the store's refusal of a rotation
  onto an id another record holds) and receiving an application message (`probe`).

  The NOSTR GROUP ID (`nid`; the routing key of kind-445 events) is a field of the group record, of the
  invitation and of the stored welcome.  `Store.saveGroup` carries the uniqueness rule both backends implement
  (memory: explicit check against its by-id index; SQLite: UNIQUE index + `ON CONFLICT(mls_group_id)`; tied to the
  source by `Generated.sqlSaveGroupConflictTarget`, `sqlNostrGroupIdUnique`, `memSaveGroupRefusesForeignNostrId`):
  an invitation whose id is held by ANOTHER record of the recipient fails at `save_group(Pending)`, the FIRST write
  of `process_welcome` — nothing has been written then (no processed-welcome record, no welcome, no MLS group:
  `preview_welcome` only stages).
-/
namespace MdkVerif.Welcome
open MdkVerif MdkVerif.Store

structure MlsSt where
  tok : Nat
  epoch : Nat
  members : Nat
  deriving DecidableEq, Repr, Inhabited

structure Invite where
  rid : Option Nat          -- rumor.id
  shape : Nat
  gid : Nat
  nid : Nat
  nameLen : Nat
  descLen : Nat
  admins : Nat
  relays : List Nat
  epoch : Nat               -- epoch of the group context in the welcome
  tok : Nat                 -- the inviter's post-commit state
  members : Nat
  welcomer : Nat
  deriving DecidableEq, Repr, Inhabited

structure Client where
  store : Store
  mls : List (Nat × MlsSt)
  deriving Repr, Inhabited

def Client.empty (b : Backend) : Client := { store := Store.empty b, mls := [] }

inductive ErrK where
  | invalidWelcome        -- Error::InvalidWelcomeMessage
  | previouslyFailed      -- Error::WelcomePreviouslyFailed
  | welcome               -- Error::Welcome(..)
  | group                 -- Error::Group(..)
  | missingRumorId        -- Error::MissingRumorEventId
  | noStored              -- (harness) no stored welcome to accept / decline
  deriving DecidableEq, Repr

inductive Res where
  | welcome (w : Store.Welcome)
  | done
  | err (k : ErrK)
  deriving DecidableEq, Repr

/-- the Pending group record `process_welcome` builds from the preview -/
def pendingGroup (m : Invite) : Group :=
  { gid := m.gid, nid := m.nid, nameLen := m.nameLen, descLen := m.descLen, admins := m.admins, img := 0,
    lastId := none, lastAt := none, lastProc := none, epoch := m.epoch, state := 2, selfUpd := 0 }

def welcomeOf (m : Invite) (rid wrapper : Nat) : Store.Welcome :=
  { id := rid, gid := m.gid, nid := m.nid, nameLen := m.nameLen, descLen := m.descLen, admins := m.admins,
    relays := m.relays.length, relayLen := 24, welcomer := m.welcomer, memberCount := m.members, state := 0,
    wrapper := wrapper }

def failedPw (wrapper : Nat) (m : Invite) : PW :=
  { wrapper := wrapper, welcomeId := m.rid, processedAt := 0, state := 1, reason := some 0 }

def okPw (wrapper rid : Nat) : PW :=
  { wrapper := wrapper, welcomeId := some rid, processedAt := 0, state := 0, reason := none }

/-- the tail of `process_welcome` for a rumor (id `rid`) that is neither known by its wrapper id nor by
    its rumor id: preview, then the four writes -/
def processFresh (c : Client) (wrapper : Nat) (m : Invite) (rid : Nat) : Client × Res :=
  if m.shape = 2 then                                                  -- preview_welcome fails
    ({ c with store := savePw c.store (failedPw wrapper m) }, .err .welcome)
  else
    match saveGroup c.store (pendingGroup m) with                      -- save_group(Pending)
    | none => (c, .err .group)
    | some s1 =>
      match replaceRelays s1 m.gid m.relays with                       -- replace_group_relays
      | none => ({ c with store := s1 }, .err .group)
      | some s2 =>
        match saveWelcome s2 (welcomeOf m rid wrapper) with              -- save_welcome, then save_processed_welcome (/repo fed41a9)
        | none => ({ c with store := s2 }, .err .welcome)
        | some s3 => ({ c with store := savePw s3 (okPw wrapper rid) }, .welcome (welcomeOf m rid wrapper))

/-- `MDK::process_welcome(wrapper_event_id, rumor)` -/
def process (c : Client) (wrapper : Nat) (m : Invite) : Client × Res :=
  if m.shape = 1 then (c, .err .invalidWelcome)                      -- validate_welcome_event
  else
    match m.rid with                                                   -- rumor_event.id.ok_or(..)? — before any write
    | none => (c, .err .missingRumorId)
    | some rid =>
      match findPw c.store wrapper with                                -- dedup on the wrapper id
      | some p =>
        if p.state = 1 then (c, .err .previouslyFailed)
        else match p.welcomeId with
          | some id => match findWelcome c.store id with
            | some w => (c, .welcome w)
            | none => (c, .err .welcome)
          | none => (c, .err .welcome)
      | none =>
        match findWelcome c.store rid with                             -- dedup on the rumor id
        | some sw =>
          -- the same rumor under another wrapper id: remember the wrapper, return the stored welcome
          ({ c with store := savePw c.store (okPw wrapper rid) }, .welcome sw)
        | none => processFresh c wrapper m rid

/-- `MDK::accept_welcome(stored welcome)`; `m` is what the stored welcome's event decodes to -/
def accept (c : Client) (m : Invite) : Client × Res :=
  match m.rid.bind (findWelcome c.store) with
  | none => (c, .err .noStored)
  | some sw =>
    if sw.state = 1 then (c, .err .welcome)                            -- already accepted: refused
    else if m.shape ≠ 0 then ({ c with store := savePw c.store (failedPw sw.wrapper m) }, .err .welcome)
    else
      let mls := ainsert m.gid { tok := m.tok, epoch := m.epoch, members := m.members } c.mls   -- into_group, replace_old_group
      match saveWelcome c.store { sw with state := 1 } with
      | none => ({ c with mls := mls }, .err .welcome)
      | some s1 =>
        match findGroup s1 m.gid with
        | none => ({ store := s1, mls := mls }, .done)
        | some g =>
          match saveGroup s1 { g with state := 0, selfUpd := 0 } with
          | none => ({ store := s1, mls := mls }, .err .group)
          | some s2 =>
            match replaceRelays s2 m.gid m.relays with
            | none => ({ store := s2, mls := mls }, .err .group)
            | some s3 => ({ store := s3, mls := mls }, .done)

/-- `MDK::decline_welcome(stored welcome)` -/
def decline (c : Client) (m : Invite) : Client × Res :=
  match m.rid.bind (findWelcome c.store) with
  | none => (c, .err .noStored)
  | some sw =>
    if sw.state = 1 then (c, .err .welcome)                            -- already accepted: refused
    else if m.shape ≠ 0 then ({ c with store := savePw c.store (failedPw sw.wrapper m) }, .err .welcome)
    else
      match saveWelcome c.store { sw with state := 2 } with
      | none => (c, .err .welcome)
      | some s1 =>
        match findGroup s1 m.gid with
        | none => ({ c with store := s1 }, .done)
        | some g =>
          match saveGroup s1 { g with state := 1 } with
          | none => ({ c with store := s1 }, .err .group)
          | some s2 => ({ c with store := s2 }, .done)

/-- the order of steps the three functions above transcribe (codes as in `tools/gen_model.py`:
    0 validate, 1 dedup lookup, 2 preview, 3 save_group, 4 replace_group_relays, 5 rumor-id check,
    6 save_processed_welcome, 7 save_welcome, 8 into_group, 9 get_group, 10 find_welcome_by_event_id,
    11 get_welcome) -/
def processOrder : List Nat := [0, 5, 1, 10, 10, 6, 2, 3, 4, 7, 6]
def acceptOrder : List Nat := [11, 2, 8, 7, 9, 3, 4]
def declineOrder : List Nat := [11, 2, 7, 9, 3]

inductive Op where
  | process (wrapper : Nat) (m : Invite)
  | accept (m : Invite)
  | decline (m : Invite)
  deriving Repr

def Op.invite : Op → Invite
  | .process _ m => m
  | .accept m => m
  | .decline m => m

def Op.isAccept : Op → Bool
  | .accept _ => true
  | _ => false

def apply (c : Client) : Op → Client × Res
  | .process w m => process c w m
  | .accept m => accept c m
  | .decline m => decline c m

def run (c : Client) : List Op → Client
  | [] => c
  | o :: os => run (apply c o).1 os

/-! ### the part of a group an invitation must not disturb -/

structure Proj where
  record : Option Group
  mls : Option MlsSt
  relays : Option (List Nat)
  deriving DecidableEq, Repr

def proj (c : Client) (gid : Nat) : Proj :=
  { record := findGroup c.store gid, mls := alookup gid c.mls, relays := alookup gid c.store.relays }

def isActive (c : Client) (gid : Nat) : Bool :=
  match findGroup c.store gid with
  | some g => g.state == 0
  | none => false

/-! ### group traffic (only what the invitation property needs) -/

/-- a commit of group `gid` as its members see it -/
structure Commit where
  gid : Nat
  nid : Nat                 -- the nostr group id the wrapper event is routed by (`h` tag): the id in force BEFORE the commit
  toNid : Nat               -- the nostr group id of the group data after the commit (≠ `nid`: the commit rotates the id)
  fromTok : Nat
  toTok : Nat
  toEpoch : Nat
  members : Nat
  nameLen : Nat             -- the group name after the commit (the record is re-synchronised from the MLS state)
  removesMe : Bool          -- the receiving client is removed by this commit
  deriving DecidableEq, Repr, Inhabited

/-- outcome of `process_message` on a commit, as far as the invitation property needs it -/
inductive DRes where
  | applied                 -- MessageProcessingResult::Commit
  | syncFailed              -- merged into the MLS state, then `sync_group_metadata_from_mls` was refused by the store
  | notApplied              -- not routed to the group / not decryptable in the client's state: no effect on any group
  deriving DecidableEq, Repr

/-- `MDK::exporter_secret(gid)`: get-or-create.  The secret STORED for (gid, current epoch) is answered if there is
    one — whichever state it was exported from: the cache is keyed by the epoch NUMBER — otherwise the secret of the
    current MLS state is exported and stored.  Secrets are named by the state token they belong to.  Called by
    `decrypt_message` for the group an incoming event is ROUTED to (before anything is known about the event), and by
    `process_commit` for the new epoch. -/
def exporterSecret (c : Client) (gid : Nat) : Client × Option Nat :=
  match alookup gid c.mls with
  | none => (c, none)
  | some st =>
    match getSecret c.store gid st.epoch with
    | none => (c, none)
    | some (some v) => (c, some v)
    | some none =>
      match saveSecret c.store gid st.epoch st.tok with
      | none => (c, none)
      | some s1 => ({ c with store := s1 }, some st.tok)

/-- the first steps of `process_message` for an event tagged `nid`: `find_group_by_nostr_group_id`, `load_mls_group`,
    `exporter_secret` of THAT group (stored if new).  Answers the record the event was routed to, its MLS state and the
    secret the outer layer will be opened with. -/
def routeEvent (c : Client) (nid : Nat) : Client × Option (Group × MlsSt × Option Nat) :=
  match findGroupNostr c.store nid with
  | none => (c, none)
  | some r =>
    match alookup r.gid c.mls with
    | none => (c, none)
    | some st =>
      let (c1, sec) := exporterSecret c r.gid
      (c1, some (r, st, sec))

/-- `process_message` of a commit.  The wrapper is routed by its `h` tag to the record that carries this nostr group
    id (no two records share one, theorem `nid_unique_inv`); its outer layer opens only with the exporter secret of
    the state it was made in — the receiver uses the secret it has CACHED for its current epoch number (the look-back
    over past epochs never helps here: in this engine a sender is never behind the receiver) — and the MLS layer
    accepts it only in the commit's parent state.  `process_commit` then MERGES the staged commit, caches the new
    epoch's exporter secret, and only afterwards calls `sync_group_metadata_from_mls`, whose `save_group` writes epoch,
    name and NOSTR GROUP ID of the new group data: if another record of this client holds that id the store refuses,
    the call fails after the merge (Unprocessable; the MLS group is one epoch ahead of its record — known mechanism
    store-limit-sync-failure). -/
def deliverCommit (c : Client) (k : Commit) : Client × DRes :=
  match routeEvent c k.nid with
  | (c1, none) => (c1, .notApplied)                  -- GroupNotFound
  | (c1, some (g, st, sec)) =>
    if g.gid ≠ k.gid then (c1, .notApplied)          -- another group's event under this record's id: cannot be opened
    else if sec ≠ some k.fromTok then (c1, .notApplied)
    else if st.tok ≠ k.fromTok then (c1, .notApplied)
    else if k.removesMe then
      let mls := ainsert k.gid { st with epoch := k.toEpoch, members := k.members } c1.mls
      match saveGroup c1.store { g with state := 1 } with
      | none => ({ c1 with mls := mls }, .syncFailed)
      | some s1 => ({ store := s1, mls := mls }, .applied)
    else
      let mls := ainsert k.gid { tok := k.toTok, epoch := k.toEpoch, members := k.members } c1.mls
      let c2 := (exporterSecret { c1 with mls := mls } k.gid).1
      match saveGroup c2.store { g with epoch := k.toEpoch, nameLen := k.nameLen, nid := k.toNid } with
      | none => (c2, .syncFailed)
      | some s1 => ({ c2 with store := s1 }, .applied)

/-- the commit applied in full (`none`: it did not, whatever the reason) -/
def applyCommit (c : Client) (k : Commit) : Option Client :=
  match deliverCommit c k with
  | (c', .applied) => some c'
  | _ => none

/-- storing the decrypted message: message row + last-message pointer -/
def storeProbe (c : Client) (gid seq : Nat) : Client :=
  match findGroup c.store gid with
  | none => c
  | some g =>
    let msg : Msg := { id := seq, gid := gid, pk := 0, kind := 9, created := seq, processed := seq, content := seq,
                       contentLen := 6, tag := 0, wrapper := seq, epoch := some g.epoch, state := 1 }
    match saveMessage c.store msg with
    | none => c
    | some s1 =>
      match saveGroup s1 { g with lastId := some seq, lastAt := some seq, lastProc := some seq } with
      | none => { c with store := s1 }
      | some s2 => { c with store := s2 }

/-- `process_message` of a fresh application message sent from state `senderTok` of group `gid`, tagged `nid`:
    routed by the tag, opened with the cached secret of the receiver's current epoch, decrypted by the MLS layer in the
    sender's state; the record's `state` is not consulted -/
def deliverApp (c : Client) (gid nid senderTok seq : Nat) : Client × Bool :=
  match routeEvent c nid with
  | (c1, none) => (c1, false)
  | (c1, some (g, st, sec)) =>
    if g.gid = gid ∧ sec = some senderTok ∧ st.tok = senderTok then (storeProbe c1 gid seq, true) else (c1, false)

/-- can the client read a fresh application message sent from state `senderTok` of group `gid` under tag `nid`? -/
def canDecrypt (c : Client) (gid nid senderTok : Nat) : Bool := (deliverApp c gid nid senderTok 0).2

/-! ### histories: invitation operations interleaved with group traffic -/

/-- everything the `invite` engine lets happen to the recipient: an invitation operation, the delivery of a
    commit of some group (any content: renames, removals, ROTATIONS of the nostr group id), the delivery of an
    application message of some group under any tag from any state -/
inductive TOp where
  | inv (o : Op)
  | commit (k : Commit)
  | probe (gid nid senderTok seq : Nat)
  deriving Repr

def tapply (c : Client) : TOp → Client
  | .inv o => (apply c o).1
  | .commit k => (deliverCommit c k).1
  | .probe gid nid tok seq => (deliverApp c gid nid tok seq).1

def trun (c : Client) : List TOp → Client
  | [] => c
  | o :: os => trun (tapply c o) os

end MdkVerif.Welcome
