/-
  Model.Keyring — interleaving model of `mdk_sqlite_storage::keyring::get_or_create_db_key`
  (crates/mdk-sqlite-storage/src/keyring.rs) for ANY number of threads and ANY schedule, plus
  `delete_db_key` as an unsynchronised external event, plus (second half) the interleaving model of
  concurrent `MdkSqliteStorage::new` calls on one path (lib.rs `new`).

  The code of one `get_or_create_db_key(service, id)` call, step by step:

      read      get_db_key            fast path, NO lock:  Entry::new + get_secret
                  Ok(Some k) → return Ok k ;  Err → return Err ;  Ok(None) → continue
      lock      KEY_GENERATION_LOCK.get_or_init(..).lock()     process-wide std Mutex; blocks while held
      read      get_db_key            re-read under the lock (same three outcomes; guard dropped on return)
      generate  EncryptionConfig::generate()                   getrandom; Err → return Err
      store     Entry::new + set_secret                        Err → return Err ; Ok → return Ok k
                (the guard `_guard` is dropped when the function returns: implicit unlock)

  POISONING.  KEY_GENERATION_LOCK is a `std::sync::Mutex`: when a thread panics while it holds the guard
  (a host-supplied keyring-core credential store that panics in get_secret / set_secret inside the
  locked section), the guard is dropped during unwinding and the mutex is marked POISONED — for the life
  of the process, for every (service, id).  From then on `lock()` still waits for the mutex but returns
  `Err(PoisonError)`.  What the code does with that result is a PARAMETER of the model (`fc`,
  instantiated by the driver and the theorems with the extracted fact
  `Generated.lockPoisonFailsClosed`):
      fc = true    `lock().map_err(..)?` — the error is returned: the caller FAILS CLOSED, nothing stored
      fc = false   `lock().ok()` and the like — the result is discarded and with it the guard: the
                   caller goes on into the "locked" section WITHOUT holding the lock
  (`unwrap_or_else(|e| e.into_inner())` would be a third, safe, behaviour — it keeps the guard; the
  translator refuses it loudly instead of guessing.)
  `Ev.panic t`: the current keyring call of caller `t` panics (no effect on the keyring itself).

  A keyring call is one atomic step (the credential store serialises its own operations).  What the
  environment decides is an INPUT of the step, never predicted: the bytes `generate()` returns (`fresh`)
  and whether the keyring / RNG call of this step fails (`ok = false`: store unavailable, entry of the
  wrong length, RNG failure).  Core Lean only; executable; closed terms reduce in the kernel.
-/
namespace MdkVerif.Keyring

/-- the four kinds of protocol step (codes shared with `Generated.keyringShape`) -/
inductive Act where
  | read | lock | generate | store
  deriving DecidableEq, Repr

def Act.code : Act → Nat
  | .read => 0 | .lock => 1 | .generate => 2 | .store => 3

/-- where a caller stands -/
inductive Pc where
  | start                 -- about to do the fast-path read
  | wantLock              -- fast path saw NoEntry; about to acquire KEY_GENERATION_LOCK
  | locked                -- holds the lock; about to re-read
  | gen                   -- re-read saw NoEntry; about to generate
  | store (k : Nat)       -- generated k; about to set_secret
  | done (k : Nat)        -- returned Ok(k)
  | failed                -- returned Err(..)
  deriving DecidableEq, Repr

/-- the protocol step a caller performs next -/
def Pc.act : Pc → Option Act
  | .start => some .read
  | .wantLock => some .lock
  | .locked => some .read
  | .gen => some .generate
  | .store _ => some .store
  | .done _ => none
  | .failed => none

/-- the program of one caller that finds no key: the order in which the program counters are visited -/
def happyPath (k : Nat) : List Pc := [.start, .wantLock, .locked, .gen, .store k]

/-- the step list of the model: read → lock → read → generate → store (as `Act.code`s) -/
def shape : List Nat := (happyPath 0).filterMap (fun p => p.act.map Act.code)

structure St where
  ring : Option Nat        -- the keyring entry for (service, id)
  lock : Option Nat        -- the thread holding KEY_GENERATION_LOCK
  pc : Nat → Pc
  stores : Nat             -- successful set_secret calls so far
  deletes : Nat            -- delete_db_key calls that removed an entry
  trace : List (Nat × Nat) -- (thread, Act.code) of every protocol step performed, latest first
  poisoned : Bool          -- KEY_GENERATION_LOCK is poisoned (sticky: std never clears it by itself)

/-- all callers at the start; the keyring holds `r`; `p`: the process-wide lock is already poisoned
    (by an earlier call, possibly for another key id) -/
def init (r : Option Nat) (p : Bool := false) : St :=
  { ring := r, lock := none, pc := fun _ => .start, stores := 0, deletes := 0, trace := [], poisoned := p }

def setPc (s : St) (t : Nat) (p : Pc) : St := { s with pc := fun u => if u = t then p else s.pc u }

def log (s : St) (t : Nat) (a : Act) : St := { s with trace := (t, a.code) :: s.trace }

inductive Ev where
  /-- thread `t` performs its next protocol step; `fresh`: what `generate()` returns if this is a
      generate step; `ok = false`: the keyring / RNG call of this step fails -/
  | step (t fresh : Nat) (ok : Bool)
  /-- somebody calls `delete_db_key` (takes no lock) -/
  | delete
  /-- the keyring call thread `t` is in panics (the credential store panics, before any effect) -/
  | panic (t : Nat)
  deriving DecidableEq, Repr

/-- `fc`: a poisoned lock makes the caller fail closed (`true`) or go on without the guard (`false`) -/
def stepThread (fc : Bool) (s : St) (t fresh : Nat) (ok : Bool) : St :=
  match s.pc t with
  | .start =>
      if ok then
        match s.ring with
        | some k => setPc (log s t .read) t (.done k)
        | none => setPc (log s t .read) t .wantLock
      else setPc (log s t .read) t .failed
  | .wantLock =>
      match s.lock with
      | none =>
          if s.poisoned then
            -- `lock()` acquires the mutex and returns Err(PoisonError { guard })
            if fc then setPc (log s t .lock) t .failed   -- `?`: guard dropped, Err(Keyring) returned
            else setPc (log s t .lock) t .locked         -- `.ok()`: guard dropped, the caller goes on
          else setPc (log { s with lock := some t } t .lock) t .locked
      | some _ => s                                    -- blocked (poisoned or not)
  | .locked =>
      if ok then
        match s.ring with
        | some k => setPc (log { s with lock := none } t .read) t (.done k)
        | none => setPc (log s t .read) t .gen
      else setPc (log { s with lock := none } t .read) t .failed
  | .gen =>
      if ok then setPc (log s t .generate) t (.store fresh)
      else setPc (log { s with lock := none } t .generate) t .failed
  | .store k =>
      if ok then setPc (log { s with ring := some k, stores := s.stores + 1, lock := none } t .store) t (.done k)
      else setPc (log { s with lock := none } t .store) t .failed
  | .done _ => s
  | .failed => s

/-- the keyring call of `t` panics: the caller's stack unwinds; if it holds the guard, the guard is
    dropped while panicking, which releases AND poisons the mutex.  A caller that has returned cannot
    panic any more. -/
def panicThread (s : St) (t : Nat) : St :=
  match s.pc t with
  | .done _ => s
  | .failed => s
  | _ =>
      if s.lock = some t then setPc { s with lock := none, poisoned := true } t .failed
      else setPc s t .failed

def step (fc : Bool) (s : St) : Ev → St
  | .step t fresh ok => stepThread fc s t fresh ok
  | .delete =>
      match s.ring with
      | some _ => { s with ring := none, deletes := s.deletes + 1 }
      | none => s
  | .panic t => panicThread s t

def run (fc : Bool) (s : St) : List Ev → St
  | [] => s
  | e :: es => run fc (step fc s e) es

def Ev.isDelete : Ev → Bool
  | .delete => true
  | _ => false

def Ev.isPanic : Ev → Bool
  | .panic _ => true
  | _ => false

/-- the schedule contains no `delete_db_key` -/
def noDelete (sched : List Ev) : Bool := sched.all (fun e => !e.isDelete)

/-! ### sequential reading: what one un-raced call returns (used by `Model.OpenMatrix`) -/

/-- `get_or_create_db_key` by a lone caller `t`: five steps suffice -/
def aloneSched (t fresh : Nat) : List Ev := List.replicate 5 (.step t fresh true)

/-! ## concurrent `MdkSqliteStorage::new` on ONE path (lib.rs `new`)

      pre     precreate_secure_database_file      O_CREAT|O_EXCL: Created (file was missing) | AlreadyExisted
      Created        → get_or_create_db_key  (the five steps above)
      AlreadyExisted → chk   keyring::get_db_key: Some k → use k ;
                                None → probe  is_database_encrypted(path):
                                         false → Err UnencryptedDatabaseWithEncryption
                                         true  → Err KeyringEntryMissingForExistingDatabase
      open k  Connection::open + PRAGMA key + validation read + migrations: an empty file becomes a
              database encrypted under k; an encrypted file opens iff its key is k (assumption on
              SQLCipher, exercised by the harness); anything else fails with WrongEncryptionKey.
   The keyring is assumed to work here (failures are covered by `Ev.step … false` above and by the
   sequential matrix) except that a credential call may PANIC (`NEv.panic`); SQLite's own file locking
   (`database is locked`) is not modelled. -/

inductive NFile where
  | missing | empty | enc (k : Nat)
  deriving DecidableEq, Repr

inductive NErr where
  | unencrypted     -- Error::UnencryptedDatabaseWithEncryption
  | keyMissing      -- Error::KeyringEntryMissingForExistingDatabase
  | wrongKey        -- Error::WrongEncryptionKey
  | keyring         -- Error::Keyring / KeyringNotInitialized
  deriving DecidableEq, Repr

inductive NPc where
  | pre                   -- about to precreate
  | kr                    -- Created: inside get_or_create_db_key (its own program counter is `NSt.k.pc t`)
  | chk                   -- AlreadyExisted: about to call get_db_key
  | probe                 -- no key in the keyring: about to call is_database_encrypted
  | opening (k : Nat)     -- has a key: about to open the connection
  | ok (k : Nat)          -- returned Ok(storage) opened under k
  | err (e : NErr)
  | panicked              -- the call unwound with a panic
  deriving DecidableEq, Repr

structure NSt where
  file : NFile
  k : St                  -- keyring entry, KEY_GENERATION_LOCK and the get_or_create program counters
  pc : Nat → NPc

/-- `p`: KEY_GENERATION_LOCK is already poisoned when the callers start -/
def ninit (p : Bool := false) : NSt := { file := .missing, k := init none p, pc := fun _ => .pre }

def nset (s : NSt) (t : Nat) (p : NPc) : NSt := { s with pc := fun u => if u = t then p else s.pc u }

/-- one step of thread `t`; `fresh` is what `generate()` returns if this is a generate step -/
def nstep (fc : Bool) (s : NSt) (t fresh : Nat) : NSt :=
  match s.pc t with
  | .pre =>
      match s.file with
      | .missing => nset { s with file := .empty } t .kr
      | _ => nset s t .chk
  | .kr =>
      match s.k.pc t with
      | .done k => nset s t (.opening k)               -- get_or_create_db_key returned Ok(k)
      | .failed => nset s t (.err .keyring)            -- … returned Err (with a working keyring: only
                                                       --   because the lock is poisoned)
      | _ => { s with k := stepThread fc s.k t fresh true }
  | .chk =>
      match s.k.ring with
      | some k => nset s t (.opening k)
      | none => nset s t .probe
  | .probe =>
      match s.file with
      | .enc _ => nset s t (.err .keyMissing)
      | _ => nset s t (.err .unencrypted)
  | .opening k =>
      match s.file with
      | .enc k' => if k = k' then nset s t (.ok k) else nset s t (.err .wrongKey)
      | _ => nset { s with file := .enc k } t (.ok k)
  | .ok _ => s
  | .err _ => s
  | .panicked => s

/-- the call of `t` panics (a credential call inside it does): inside `get_or_create_db_key` the
    keyring part unwinds as `panicThread` says; a call that has returned cannot panic -/
def npanic (s : NSt) (t : Nat) : NSt :=
  match s.pc t with
  | .ok _ => s
  | .err _ => s
  | .panicked => s
  | .kr => nset { s with k := panicThread s.k t } t .panicked
  | _ => nset s t .panicked

inductive NEv where
  /-- thread `t` performs its next step; `fresh`: what `generate()` returns if it is a generate step -/
  | step (t fresh : Nat)
  /-- the call of thread `t` panics -/
  | panic (t : Nat)
  deriving DecidableEq, Repr

def nstepEv (fc : Bool) (s : NSt) : NEv → NSt
  | .step t f => nstep fc s t f
  | .panic t => npanic s t

def nrun (fc : Bool) (s : NSt) : List NEv → NSt
  | [] => s
  | e :: es => nrun fc (nstepEv fc s e) es

/-- a panic-free schedule given as (thread, fresh) pairs -/
def nsteps (l : List (Nat × Nat)) : List NEv := l.map (fun p => .step p.1 p.2)

def NEv.isPanic : NEv → Bool
  | .panic _ => true
  | _ => false

end MdkVerif.Keyring
