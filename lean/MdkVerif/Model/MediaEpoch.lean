import MdkVerif.Generated
import MdkVerif.Model.Basic
import MdkVerif.Model.Media
/-
  MdkVerif.Model.MediaEpoch — `EncryptedMediaManager::decrypt_from_download` with its epoch hint, the
  per-client bookkeeping it reads, and `decrypt_group_image` (property C17).

  Symbolic cryptography (assumption A8): an HKDF output is the pair (input secret, info string); an AEAD
  ciphertext opens iff it is intact and key, nonce and associated data are the ones it was sealed with;
  SHA-256 is a token.  The model follows crates/mdk-core/src/encrypted_media/manager.rs:

    decrypt_from_download = try_decrypt_with_epoch_hint
                            → on NoExporterSecretForEpoch | DecryptionFailed: the CURRENT epoch's key
                            → any other error (HashVerificationFailed, UnknownSchemeVersion) is returned
    try_decrypt_with_epoch_hint: epoch := find_message_epoch_by_tag_content(group, "x <hash>")   (no hit: DecryptionFailed)
                                 secret := get_group_exporter_secret(group, epoch)               (none: NoExporterSecretForEpoch)
    the stored epoch of a RECEIVED message is the receiver's MLS epoch at processing time
    (messages/application.rs — open known finding `receiver-epoch-tag`), of a SENT message the sender's.
-/
namespace MdkVerif.MediaEpoch
open MdkVerif MdkVerif.Codec MdkVerif.Media

/-- HKDF-SHA256(secret).expand(info) — injective in both arguments (A8) -/
structure Key where
  secret : Nat
  info : Bytes
  deriving DecidableEq, Repr

/-- `MediaReference` (url irrelevant for decryption) -/
structure Reference where
  hash : Bytes
  mime : Bytes
  filename : Bytes
  version : Bytes
  nonce : Nat
  deriving DecidableEq, Repr

/-- an encrypted blob: what it was sealed with (A8), the plaintext token and its SHA-256 -/
structure Blob where
  key : Key
  nonce : Nat
  aad : Bytes
  plain : Nat
  plainHash : Bytes
  intact : Bool
  deriving DecidableEq, Repr

inductive MErr where
  | decryptionFailed      -- EncryptedMediaError::DecryptionFailed (AEAD failure / no hint)
  | noSecretForEpoch      -- EncryptedMediaError::NoExporterSecretForEpoch
  | hashFailed            -- EncryptedMediaError::HashVerificationFailed
  | groupNotFound         -- EncryptedMediaError::GroupNotFound
  | unknownVersion        -- EncryptedMediaError::UnknownSchemeVersion
  deriving DecidableEq, Repr

inductive MRes where
  | ok (plain : Nat)
  | err (e : MErr)
  deriving DecidableEq, Repr

/-- `get_scheme_label` -/
def schemeLabel (v : Bytes) : Option Bytes :=
  if v = Generated.defaultSchemeVersion then some Generated.mediaSchemeLabel else none

/-- `derive_encryption_key_with_secret` -/
def deriveKey (secret : Nat) (r : Reference) : Option Key :=
  match schemeLabel r.version with
  | none => none
  | some l => some { secret := secret, info := buildContext l r.hash r.mime r.filename Generated.mediaKeySuffix }

/-- `decrypt_and_verify`: AEAD under (key, reference nonce, AAD of the reference), then the hash check -/
def decryptAndVerify (b : Blob) (k : Key) (r : Reference) : MRes :=
  match schemeLabel r.version with
  | none => .err .unknownVersion
  | some l =>
    if b.intact && decide (b.key = k) && decide (b.nonce = r.nonce) &&
       decide (b.aad = buildAad l r.hash r.mime r.filename) then
      (if b.plainHash = r.hash then .ok b.plain else .err .hashFailed)
    else .err .decryptionFailed

/-- what `encrypt_for_upload` produces in a state whose exporter secret is `s` -/
def sealBlob (s : Nat) (r : Reference) (plain : Nat) : Blob :=
  { key := { secret := s, info := buildContext Generated.mediaSchemeLabel r.hash r.mime r.filename Generated.mediaKeySuffix },
    nonce := r.nonce, aad := buildAad Generated.mediaSchemeLabel r.hash r.mime r.filename,
    plain := plain, plainHash := r.hash, intact := true }

/-- lookup in a list keyed by byte strings (first hit) -/
def lookupB (k : Bytes) : List (Bytes × Nat) → Option Nat
  | [] => none
  | (k', v) :: r => if k' = k then some v else lookupB k r

/-- what a client holds for one group -/
structure MClient where
  /-- exporter secret of the current MLS state; `none`: the client has no such group -/
  cur : Option Nat
  /-- current MLS epoch number -/
  epoch : Nat
  /-- `group_exporter_secrets`: epoch number ↦ secret (stored lazily by `exporter_secret()`) -/
  secrets : List (Nat × Nat)
  /-- stored messages carrying an imeta tag: original hash ↦ stored epoch of the message -/
  tags : List (Bytes × Nat)
  deriving DecidableEq, Repr

def hintOf (c : MClient) (hash : Bytes) : Option Nat := lookupB hash c.tags

/-- `try_decrypt_with_epoch_hint` -/
def tryHint (c : MClient) (b : Blob) (r : Reference) : MRes :=
  match hintOf c r.hash with
  | none => .err .decryptionFailed
  | some e =>
    match alookup e c.secrets with
    | none => .err .noSecretForEpoch
    | some s =>
      match deriveKey s r with
      | none => .err .unknownVersion
      | some k => decryptAndVerify b k r

/-- the fallback of `decrypt_from_download`: `derive_encryption_key` (current epoch) + `decrypt_and_verify` -/
def tryCurrent (c : MClient) (b : Blob) (r : Reference) : MRes :=
  match c.cur with
  | none => .err .groupNotFound
  | some s =>
    match deriveKey s r with
    | none => .err .unknownVersion
    | some k => decryptAndVerify b k r

/-- `decrypt_from_download` -/
def decryptFromDownload (c : MClient) (b : Blob) (r : Reference) : MRes :=
  match tryHint c b r with
  | .ok p => .ok p
  | .err .noSecretForEpoch => tryCurrent c b r
  | .err .decryptionFailed => tryCurrent c b r
  | .err e => .err e

/-! ## the bookkeeping over a history -/

/-- `exporter_secret()`: store the current state's secret under the current epoch number unless
    something is already stored there -/
def touch (c : MClient) : MClient :=
  match c.cur with
  | none => c
  | some s => if (alookup c.epoch c.secrets).isSome then c else { c with secrets := (c.epoch, s) :: c.secrets }

inductive MOp where
  | touch                    -- any call that needs the current exporter secret (send, receive, encrypt, decrypt)
  | advance (s : Nat)        -- a commit is applied: next epoch, new secret
  | announce (h : Bytes)     -- a message carrying the imeta tag of hash h is processed (or sent)
  | forget (e : Nat)         -- the secret stored under epoch e is lost (pruning, restore, …)
  deriving DecidableEq, Repr

def step (c : MClient) : MOp → MClient
  | .touch => touch c
  | .advance s => { c with epoch := c.epoch + 1, cur := some s }
  | .announce h =>
    let c := touch c
    -- filed under the RECEIVER's epoch at processing time; the first stored message with this hash stays the hint
    if (lookupB h c.tags).isSome then c else { c with tags := c.tags ++ [(h, c.epoch)] }
  | .forget e => { c with secrets := aerase e c.secrets }

def run (c : MClient) (ops : List MOp) : MClient := ops.foldl step c

/-! ## group image (`decrypt_group_image`) -/

/-- the ChaCha20-Poly1305 key of a group-image blob -/
inductive IKey where
  | derived (seed : Nat)   -- v2: HKDF(seed, "mip01-image-encryption-v2")
  | raw (key : Nat)        -- v1: the 32 bytes of `image_key` themselves
  deriving DecidableEq, Repr

structure ImgBlob where
  key : IKey
  nonce : Nat
  plain : Nat
  /-- SHA-256 of the encrypted bytes -/
  hash : Nat
  intact : Bool
  deriving DecidableEq, Repr

inductive IErr where
  | hashFailed | decryptionFailed
  deriving DecidableEq, Repr

inductive IRes where
  | ok (plain : Nat)
  | err (e : IErr)
  deriving DecidableEq, Repr

def hashMismatch (expected : Option Nat) (actual : Nat) : Bool :=
  match expected with
  | some e => decide (e ≠ actual)
  | none => false

/-- `decrypt_group_image`: blob hash first (when one is expected), then the v2 key, then the v1 key -/
def imageDecrypt (b : ImgBlob) (expected : Option Nat) (imageKey nonce : Nat) : IRes :=
  if hashMismatch expected b.hash then .err .hashFailed
  else if b.intact && decide (b.key = .derived imageKey) && decide (b.nonce = nonce) then .ok b.plain
  else if b.intact && decide (b.key = .raw imageKey) && decide (b.nonce = nonce) then .ok b.plain
  else .err .decryptionFailed

end MdkVerif.MediaEpoch
