import MdkVerif.Model.Basic
/-
  MdkVerif.Model.Client — one MDK instance and one group: `process_message` with its error recovery
  (mdk-core/src/messages/{process,error_handling,commit,application,proposal,decryption}.rs), the local
  operations that publish events (create_message, self_update, update_group_data, leave_group,
  merge/clear_pending_commit; groups.rs), the epoch-snapshot manager as used by them, and restart.

  OpenMLS and the outer NIP-44 layer are symbolic (DESIGN §5.2/§5.3): an MLS state is the list of
  commits applied since the group was created (`path`, by ciphertext identity: a re-wrapped copy of a
  commit is the same commit), an exporter secret is identified by
  the path it was exported from, a ciphertext by the event number of its first publication.
-/
namespace MdkVerif.Client
open MdkVerif

abbrev Path := List Nat

/-- the fields of the `NostrGroupDataExtension` the model tracks (name / description tokens, the admin
    set, the relay set as small numbers, the nostr group id as a number: 0 = the id chosen at creation) -/
structure GData where
  name : Nat
  desc : Nat
  admins : List Nat
  relays : List Nat
  nid : Nat
  deriving DecidableEq, Repr, Inhabited

/-- `NostrGroupDataUpdate`: the argument of `update_group_data`, every field optional -/
structure DataUpd where
  name : Option Nat := none
  desc : Option Nat := none
  admins : Option (List Nat) := none
  relays : Option (List Nat) := none
  nid : Option Nat := none
  deriving DecidableEq, Repr, Inhabited

inductive Body where
  | selfUpdate
  /-- a GroupContextExtensions commit: it carries the WHOLE new extension (`update_group_context_extensions`
      replaces the extension; `update_group_data` computes it from the committer's MLS state and the update) -/
  | setData (d : GData)
  | removeLeavers (who : List Nat)      -- admin's auto-commit of pending self-removals / `remove_members`
  | addMembers (who : List Nat)         -- `add_members` (inline Add proposals; the joiners come in by their welcomes)
  deriving DecidableEq, Repr, Inhabited

/-- a queued stand-alone proposal OTHER than a member's own leave (kept next to `props` in the OpenMLS proposal store;
    used by `Model/Proposal.lean`, which follows `process_proposal` for every proposal type — the functions of this
    file never touch it) -/
inductive QP where
  | rm (src target : Nat)      -- Remove(target) proposed by member `src` ≠ target
  | add (src who : Nat)        -- Add(key package of `who`) proposed by member `src`
  deriving DecidableEq, Repr, Inhabited

inductive Kind where
  | app (mid msgTs tok : Nat)
  | commit (body : Body) (swept : List Nat)   -- `swept`: leavers whose pending proposals the committer's store held
  | leave                                      -- a member's proposal to remove itself
  deriving DecidableEq, Repr, Inhabited

/-- a published kind-445 wrapper event -/
structure Ev where
  n : Nat              -- event number (publication order)
  ts : Nat             -- wrapper created_at (offset)
  idnum : Nat          -- order-relevant prefix of the wrapper id
  cipher : Nat         -- identity of the MLS ciphertext (= n unless re-wrapped)
  sender : Nat
  path : Path          -- MLS state the message was created in (also identifies the outer key)
  kind : Kind
  tag : Nat := 0       -- the `h` tag: the nostr group id of the publisher's stored record when the wrapper was built
                       -- (`build_message_event`); 0 = the id chosen at creation.  Not authenticated: anyone can re-wrap
  sweptX : List QP := []   -- a commit: the queued proposals other than leaves it references (Model/Proposal.lean only)
  deriving DecidableEq, Repr, Inhabited

def baseEpoch : Nat := 1
def epochOf (p : Path) : Nat := baseEpoch + p.length

structure MsgRow where
  mid : Nat
  author : Nat
  state : Nat          -- 0 created 1 processed 3 epoch_invalidated
  epoch : Nat          -- epoch tag (the RECEIVER's epoch at processing time)
  wrapper : Nat
  msgTs : Nat
  tok : Nat
  deriving DecidableEq, Repr, Inhabited

structure Rec where
  state : Nat          -- 0 created 1 processed 2 processed_commit 3 failed 4 epoch_invalidated 5 retryable
  epoch : Option Nat
  hasGroup : Bool      -- mls_group_id recorded
  mid : Option Nat
  deriving DecidableEq, Repr, Inhabited

/-- everything a group snapshot copies (MLS tables, the group record, exporter secrets) -/
structure GState where
  path : Path
  members : List Nat
  admins : List Nat
  name : Nat
  desc : Nat
  relays : List Nat                     -- relay set of the extension (sorted, no duplicates)
  nid : Nat                             -- nostr group id of the extension
  secrets : List (Nat × Path)          -- stored exporter secrets, by epoch NUMBER
  pending : Option Ev                   -- own staged commit
  props : List Nat                      -- queued leave proposals (who)
  consumed : List Nat                   -- ciphertexts whose ratchet generation was used
  past : List Path                      -- states whose message secrets are retained
  recEpoch : Nat                        -- stored record
  recName : Nat
  recAdmins : List Nat
  recDesc : Nat
  recRelays : List Nat                  -- the group_relays table
  recNid : Nat                          -- the record's nostr_group_id: what incoming `h` tags are looked up by
  last : Option (Nat × Nat)             -- cached last message (mid, msgTs)
  active : Bool := true                 -- false once a commit removing the own leaf was merged (record state Inactive)
  xq : List QP := []                    -- queued proposals other than leaves (Model/Proposal.lean only)
  deriving DecidableEq, Repr, Inhabited

structure Snap where
  epoch : Nat
  commit : Nat         -- idnum of the applied commit's wrapper
  ts : Nat             -- its timestamp; 0 after a restart (hydrated entry)
  saved : GState
  deriving DecidableEq, Repr, Inhabited

structure Cl where
  id : Nat
  persistent : Bool
  retention : Nat
  maxPast : Nat
  hasGroup : Bool
  g : GState
  msgs : List MsgRow
  recs : List (Nat × Rec)
  mgr : List Snap                       -- oldest first
  deriving Repr, Inhabited

inductive Res where
  | app (mid : Nat) | commit | proposalCommitted (e : Ev) | pending | ignored
  | unprocessable | previouslyFailed | err (kind : Nat) | ev (e : Ev) | ok | skip
  deriving Repr, Inhabited, DecidableEq

-- error kinds
def eGroupNotFound := 1
def eMessage := 2
def eNonAdmin := 3
def eGroup := 4
def eUpdExts := 5      -- Error::UpdateGroupContextExts
def eSelfUpdate := 6   -- Error::SelfUpdate
def eOwnLeaf := 7      -- Error::OwnLeafNotFound
def eExportSecret := 8 -- Error::ExportSecret
def eMergePending := 10 -- Error::MergePendingCommit
def eCreateMessage := 11 -- Error::CreateMessage
def eOther := 9

/-! ### records and rows -/

def getRec (c : Cl) (n : Nat) : Option Rec := alookup n c.recs
def setRec (c : Cl) (n : Nat) (r : Rec) : Cl := { c with recs := ainsert n r c.recs }

/-- `record_failure`: keeps the message id of an existing record; epoch / group fall back to it -/
def recordFailure (c : Cl) (n : Nat) (hasGroup : Bool) (epoch : Option Nat) : Cl :=
  let old := getRec c n
  let ep := match epoch with
    | some e => some e
    | none => old.bind (·.epoch)
  let hg := hasGroup || (old.map (·.hasGroup)).getD false
  setRec c n { state := 3, epoch := ep, hasGroup := hg, mid := old.bind (·.mid) }

def upsertRow (r : MsgRow) : List MsgRow → List MsgRow
  | [] => [r]
  | h :: t => if h.mid == r.mid then r :: t else h :: upsertRow r t

/-- `update_last_message_if_newer` with distinct message timestamps (ties are not generated) -/
def updLast (g : GState) (mid msgTs : Nat) : GState :=
  match g.last with
  | none => { g with last := some (mid, msgTs) }
  | some (_, t) => if msgTs > t then { g with last := some (mid, msgTs) } else g

/-- `exporter_secret()`: export and store the current epoch's secret unless one is stored -/
def ensureSecret (g : GState) : GState :=
  match alookup (epochOf g.path) g.secrets with
  | some _ => g
  | none => { g with secrets := ainsert (epochOf g.path) g.path g.secrets }

/-- the client after `exporter_secret()` made sure the current epoch's secret is stored -/
def withSecret (c : Cl) : Cl := { c with g := ensureSecret c.g }

/-- `sync_group_metadata_from_mls` -/
def syncRec (g : GState) : GState :=
  { g with recEpoch := epochOf g.path, recName := g.name, recAdmins := g.admins, recDesc := g.desc,
           recRelays := g.relays, recNid := g.nid }

/-! ### applying a commit to the symbolic MLS state -/

def applyBody (g : GState) (b : Body) : GState :=
  match b with
  | .selfUpdate => g
  | .setData d => { g with name := d.name, desc := d.desc, admins := d.admins, relays := d.relays, nid := d.nid }
  | .removeLeavers who => { g with members := g.members.filter (fun m => !(who.contains m)), admins := g.admins }
  | .addMembers who => { g with members := g.members ++ who.filter (fun m => !(g.members.contains m)) }

def mergeCommit (maxPast : Nat) (g : GState) (e : Ev) : GState :=
  match e.kind with
  | .commit b swept =>
    let g1 := applyBody g b
    let g2 := { g1 with members := g1.members.filter (fun m => !(swept.contains m)) }
    { g2 with path := g.path ++ [e.cipher], pending := none, props := [], xq := [], past := ((g.path :: g.past).take maxPast) }
  | _ => g

/-! ### the snapshot manager as process_commit uses it -/

def mgrCreate (c : Cl) (epoch : Nat) (e : Ev) : Cl :=
  let q := c.mgr ++ [{ epoch := epoch, commit := e.idnum, ts := e.ts, saved := c.g }]
  { c with mgr := q.drop (q.length - c.retention) }

def isBetter (c : Cl) (epoch : Nat) (e : Ev) : Bool :=
  match c.mgr.find? (·.epoch == epoch) with
  | none => false
  | some s =>
    if s.ts == 0 then false
    else if e.ts < s.ts then true
    else if e.ts > s.ts then false
    else decide (e.idnum < s.commit)

def findIdx (q : List Snap) (epoch : Nat) : Option Nat :=
  match q with
  | [] => none
  | s :: t => if s.epoch == epoch then some 0 else (findIdx t epoch).map (· + 1)

/-- `rollback_to_epoch` + the invalidation / retry marking of `handle_processing_error` -/
def rollbackTo (c : Cl) (epoch : Nat) : Option Cl :=
  match findIdx c.mgr epoch with
  | none => none
  | some i =>
    match c.mgr.drop i with
    | [] => none
    | s :: _ =>
      let msgs := c.msgs.map (fun m => if m.epoch > epoch then { m with state := 3 } else m)
      let recs := c.recs.map (fun (p : Nat × Rec) =>
        let r := p.2
        if r.hasGroup && (match r.epoch with | some k => k > epoch | none => false) then (p.1, { r with state := 4 })
        else p)
      let recs := recs.map (fun (p : Nat × Rec) =>
        let r := p.2
        if r.hasGroup && r.state == 3 && r.epoch.isNone then (p.1, { r with state := 5 }) else p)
      some { c with g := s.saved, mgr := c.mgr.take i, msgs := msgs, recs := recs }

/-! ### process_message -/

def isAdmin (g : GState) (who : Nat) : Bool := g.admins.contains who

/-- outer layer: the stored secret of the current epoch number (exported on demand by `ensureSecret`),
    then the STORED secrets of up to 5 past epoch numbers -/
def outerOpens (g : GState) (e : Ev) : Bool :=
  let cur := epochOf g.path
  (match alookup cur g.secrets with
   | some p => p == e.path
   | none => false) ||
  (List.range 5).any (fun k =>
    decide (k + 1 ≤ cur) &&
    (match alookup (cur - (k + 1)) g.secrets with
     | some p => p == e.path
     | none => false))

/-- `find_group_by_nostr_group_id(h tag)`: with one group held, the group is found iff the tag is the id in the
    stored record NOW (the id in force) -/
def routes (c : Cl) (e : Ev) : Bool := c.hasGroup && e.tag == c.g.recNid

def failUnprocessable (c : Cl) (e : Ev) : Cl × Res :=
  (recordFailure c e.n true (some c.g.recEpoch), .unprocessable)

/-- `return_own_commit` -/
def returnOwnCommit (c : Cl) : Cl × Res := ({ c with g := syncRec c.g }, .commit)

def storeApp (c : Cl) (e : Ev) (mid msgTs tok : Nat) : Cl × Res :=
  let cur := epochOf c.g.path
  let row : MsgRow := { mid := mid, author := e.sender, state := 1, epoch := cur, wrapper := e.n, msgTs := msgTs, tok := tok }
  let c1 := { c with msgs := upsertRow row c.msgs, g := updLast c.g mid msgTs }
  (setRec c1 e.n { state := 1, epoch := some cur, hasGroup := true, mid := some mid }, .app mid)

def isPureSelfUpdate (b : Body) (swept : List Nat) : Bool :=
  match b with
  | .selfUpdate => swept.isEmpty
  | _ => false

/-- the commit removes the receiver's own leaf (by its body or by a swept leave proposal of the receiver) -/
def removesMe (me : Nat) (b : Body) (swept : List Nat) : Bool :=
  swept.contains me || (match b with
                        | .removeLeavers who => who.contains me
                        | _ => false)

/-- `process_commit` after staging succeeded -/
def processCommit (c : Cl) (e : Ev) (b : Body) (swept : List Nat) : Cl × Res :=
  if !(isAdmin c.g e.sender || isPureSelfUpdate b swept) then
    (recordFailure c e.n true (some c.g.recEpoch), .err eNonAdmin)
  else
    let cur := epochOf c.g.path
    let c1 := mgrCreate c cur e
    let g1 := mergeCommit c.maxPast c1.g e
    if removesMe c.id b swept then
      -- `handle_local_member_eviction`: the commit IS merged (the MLS group moves on and becomes inactive), but no
      -- exporter secret is stored and the record is NOT synced: it keeps epoch and data, its state becomes Inactive;
      -- the dedup record says Processed (not ProcessedCommit) under the record's (old) epoch
      (setRec { c1 with g := { g1 with active := false } } e.n { state := 1, epoch := some c.g.recEpoch, hasGroup := true, mid := none }, .commit)
    else
    let g2 := syncRec (ensureSecret g1)
    (setRec { c1 with g := g2 } e.n { state := 2, epoch := some (epochOf g2.path), hasGroup := true, mid := none }, .commit)

/-- `CannotDecryptOwnMessage` -/
def ownMessage (c : Cl) (e : Ev) : Cl × Res :=
  match getRec c e.n with
  | none => (c, .err eMessage)
  | some r =>
    if r.state == 0 then
      match r.mid with
      | none => (c, .err eMessage)
      | some mid =>
        match c.msgs.find? (·.mid == mid) with
        | none => (c, .err eMessage)
        | some row =>
          let c1 := { c with msgs := upsertRow { row with state := 1 } c.msgs }
          (setRec c1 e.n { r with state := 1 }, .app mid)
    else if r.state == 5 then
      match r.mid.bind (fun mid => c.msgs.find? (·.mid == mid)) with
      | some row =>
        let c1 := { c with msgs := upsertRow { row with state := 1 } c.msgs }
        (setRec c1 e.n { r with state := 1 }, .app row.mid)
      | none => (c, .unprocessable)
    else if r.state == 2 then returnOwnCommit c
    else (c, .unprocessable)

/-- what a commit from another epoch ends in when it is not (or cannot be made) the better one -/
def notBetterResult (c : Cl) (e : Ev) : Cl × Res :=
  match getRec c e.n with
  | some r => if r.state == 2 then returnOwnCommit c else failUnprocessable c e
  | none => failUnprocessable c e

/-- `ProcessMessageWrongEpoch` (commits only): MIP-03 comparison, rollback, re-processing (`retry`) -/
def wrongEpochCommit (retry : Cl → Option (Cl × Res)) (c : Cl) (e : Ev) (ee : Nat) : Cl × Res :=
  if isBetter c ee e then
    match rollbackTo c ee with
    | some c1 =>
      match retry c1 with
      | some r => r
      | none => notBetterResult c e
    | none => notBetterResult c e
  else notBetterResult c e

/-- steps 1–4 of `process_message` (after the dedup check) -/
def step1 (retry : Cl → Option (Cl × Res)) (nextEv : Nat) (c : Cl) (e : Ev) : Cl × Res :=
  -- `decrypt_message`: the group is looked up by the `h` tag; not found → GroupNotFound, and the failure record has
  -- neither group id nor epoch (so a later rollback never makes it Retryable)
  if !(routes c e) then (recordFailure c e.n false none, .err eGroupNotFound)
  -- an evicted member: `try_decrypt_with_recent_epochs` starts with `exporter_secret()?` of the CURRENT MLS epoch, which an
  -- inactive group cannot export: every routed event fails here (the failure record carries the group id, no epoch)
  else if !c.g.active then (recordFailure c e.n true none, .err eExportSecret)
  else
    -- `exporter_secret()` stores the current secret as a side effect of trying it
    let c := withSecret c
    if !outerOpens c.g e then (recordFailure c e.n true none, .err eMessage)
    else
      let cur := epochOf c.g.path
      let ee := epochOf e.path
      match e.kind with
      | .commit b swept =>
        if ee != cur then wrongEpochCommit retry c e ee
        else if e.sender == c.id then
          (match c.g.pending with
           | some p =>
             -- OwnCommitPending: snapshot, merge the pending commit
             let c1 := mgrCreate c cur e
             let g1 := mergeCommit c.maxPast c1.g p
             let g2 := syncRec (ensureSecret g1)
             (setRec { c1 with g := g2 } e.n { state := 2, epoch := some (epochOf g2.path), hasGroup := true, mid := none }, .commit)
           | none => ownMessage c e)
        -- OpenMLS decrypts the commit first (consuming the sender's handshake-ratchet generation, which is
        -- persisted at once); mdk snapshots only afterwards, so the snapshot already holds the consumption and
        -- the same ciphertext can never be processed again after a rollback (SecretReuseError)
        else if c.g.consumed.contains e.cipher then failUnprocessable c e
        else processCommit { c with g := { c.g with consumed := e.cipher :: c.g.consumed } } e b swept
      | .leave =>
        if ee != cur then failUnprocessable c e
        else if e.sender == c.id then ownMessage c e
        else if c.g.consumed.contains e.cipher then failUnprocessable c e
        else
          let g1 := { c.g with consumed := e.cipher :: c.g.consumed }
          if isAdmin c.g c.id then
            -- auto-commit: the receiver stages a commit removing the leaver (and whatever else is queued)
            let who := (e.sender :: g1.props).eraseDups
            let ne : Ev := { n := nextEv, ts := 0, idnum := 0, cipher := nextEv, sender := c.id, path := g1.path, kind := .commit (.removeLeavers who) [], tag := g1.recNid }
            let g2 := ensureSecret { g1 with props := who, pending := some ne }
            (setRec { c with g := g2 } e.n { state := 1, epoch := some cur, hasGroup := true, mid := none }, .proposalCommitted ne)
          else
            let g2 := { g1 with props := (e.sender :: g1.props).eraseDups }
            (setRec { c with g := g2 } e.n { state := 1, epoch := some cur, hasGroup := true, mid := none }, .pending)
      | .app mid msgTs tok =>
        if ee > cur then failUnprocessable c e
        else if ee < cur && !(c.g.past.contains e.path) then failUnprocessable c e
        else if e.sender == c.id then ownMessage c e
        else if c.g.consumed.contains e.cipher then failUnprocessable c e
        else storeApp { c with g := { c.g with consumed := e.cipher :: c.g.consumed } } e mid msgTs tok

/-- `process_message`, one pass: step 0 (dedup) then `step1` -/
def deliverOnce (retry : Cl → Option (Cl × Res)) (nextEv : Nat) (c : Cl) (e : Ev) : Cl × Res :=
  match getRec c e.n with
  | some r =>
    if r.state == 3 || r.state == 4 then
      -- `extract_mls_group_id_from_event`: the same lookup by tag decides between Unprocessable and PreviouslyFailed
      (c, if routes c e then .unprocessable else .previouslyFailed)
    else step1 retry nextEv c e
  | none => step1 retry nextEv c e

/-- `process_message` with its recursive re-processing after a rollback; `fuel` bounds the recursion
    (structural, so closed terms reduce in the kernel) -/
def deliverN : Nat → Nat → Cl → Ev → Cl × Res
  | 0, nextEv, c, e => deliverOnce (fun _ => none) nextEv c e
  | f + 1, nextEv, c, e => deliverOnce (fun c1 => some (deliverN f nextEv c1 e)) nextEv c e

def deliver (c : Cl) (e : Ev) (nextEv : Nat) : Cl × Res := deliverN 3 nextEv c e

/-! ### local operations -/

/-- `create_message` -/
def send (c : Cl) (n ts idnum mid msgTs tok : Nat) : Cl × Res :=
  if !c.hasGroup then (c, .err eGroup)
  else if !c.g.active then (c, .err eOwnLeaf)       -- evicted: `own_leaf().ok_or(OwnLeafNotFound)`
  -- openmls refuses to create an application message while proposals are queued in the own store (a received leave
  -- proposal that no admin has committed yet, or the own one)
  else if !c.g.props.isEmpty then (c, .err eCreateMessage)
  else
    -- openmls `create_message` works with a staged commit pending (observed; it refuses only an
    -- inactive group); the message belongs to the current, pre-commit epoch
    let g := ensureSecret c.g
    let cur := epochOf g.path
    let e : Ev := { n := n, ts := ts, idnum := idnum, cipher := n, sender := c.id, path := g.path, kind := .app mid msgTs tok, tag := g.recNid }
    let row : MsgRow := { mid := mid, author := c.id, state := 0, epoch := cur, wrapper := n, msgTs := msgTs, tok := tok }
    let c1 := { c with g := updLast g mid msgTs, msgs := upsertRow row c.msgs }
    (setRec c1 n { state := 0, epoch := some cur, hasGroup := true, mid := some mid }, .ev e)

/-- the error kind openmls' refusal of a second pending commit surfaces as, per operation -/
def pendingErr : Body → Nat
  | .selfUpdate => eSelfUpdate          -- `self_update_with_new_signer(..)?`
  | .setData _ => eUpdExts              -- `update_group_context_extensions(..)?`
  | .removeLeavers _ => eGroup          -- `remove_members(..).map_err(Error::Group)`
  | .addMembers _ => eGroup             -- `add_members(..).map_err(Error::Group)`

/-- `self_update` / `update_group_data` / `remove_members` after their argument checks: the admin check
    (`is_leaf_node_admin` of the own leaf against the MLS state), then stage a commit (it sweeps the queued
    proposals: openmls commit builders consume the proposal store) and publish it -/
def stageCommit (c : Cl) (n ts idnum : Nat) (b : Body) (needAdmin : Bool) : Cl × Res :=
  if !c.hasGroup then (c, .err eGroup)
  else if !c.g.active then (c, .err eOwnLeaf)       -- evicted: `load_mls_signer` / `own_leaf().ok_or(OwnLeafNotFound)`
  else if needAdmin && !(isAdmin c.g c.id) then (c, .err eGroup)
  else if c.g.pending.isSome then (c, .err (pendingErr b))
  else
    let g := ensureSecret c.g
    let e : Ev := { n := n, ts := ts, idnum := idnum, cipher := n, sender := c.id, path := g.path, kind := .commit b g.props, tag := g.recNid }
    let c1 := { c with g := { g with pending := some e } }
    (setRec c1 n { state := 2, epoch := some (epochOf g.path), hasGroup := true, mid := none }, .ev e)

/-- insertion into a sorted duplicate-free list (`BTreeSet::insert`) -/
def insertNat (x : Nat) : List Nat → List Nat
  | [] => [x]
  | y :: ys => if x < y then x :: y :: ys else if x = y then y :: ys else y :: insertNat x ys

/-- `iter().collect::<BTreeSet<_>>()` -/
def canonSet (l : List Nat) : List Nat := l.foldr insertNat []

/-- the extension value of an MLS state -/
def dataOf (g : GState) : GData :=
  { name := g.name, desc := g.desc, admins := g.admins, relays := g.relays, nid := g.nid }

/-- `update_group_data`: the fields that are specified replace the current ones -/
def applyUpd (d : GData) (u : DataUpd) : GData :=
  { name := u.name.getD d.name, desc := u.desc.getD d.desc,
    admins := (u.admins.map canonSet).getD d.admins,
    relays := (u.relays.map canonSet).getD d.relays, nid := u.nid.getD d.nid }

/-- `validate_admin_update`: not empty, all of them current members (of the MLS state; queued removals
    are not looked at) -/
def adminUpdateOk (g : GState) (a : List Nat) : Bool := !a.isEmpty && a.all (fun x => g.members.contains x)

/-- the admin list of an update is present and refused by `validate_admin_update` -/
def adminsArgBad (g : GState) (u : DataUpd) : Bool :=
  match u.admins with
  | some a => !(adminUpdateOk g a)
  | none => false

/-- `update_group_data`: the new admin set is validated FIRST (before the caller's own admin check, so a
    non-admin caller with a bad list is told about the list), then `update_group_data_extension` -/
def updateData (c : Cl) (n ts idnum : Nat) (u : DataUpd) : Cl × Res :=
  if !c.hasGroup then (c, .err eGroup)
  else if adminsArgBad c.g u then (c, .err eUpdExts)
  else stageCommit c n ts idnum (.setData (applyUpd (dataOf c.g) u)) true

/-- `remove_members`: own leaf, admin check, then "No matching members found to remove"; the commit names the
    members that matched -/
def removeMembers (c : Cl) (n ts idnum : Nat) (who : List Nat) : Cl × Res :=
  if !c.hasGroup then (c, .err eGroup)
  else if !c.g.active then (c, .err eOwnLeaf)
  else if !(isAdmin c.g c.id) then (c, .err eGroup)
  else if (who.filter (fun m => c.g.members.contains m)).isEmpty then (c, .err eGroup)
  else stageCommit c n ts idnum (.removeLeavers (who.filter (fun m => c.g.members.contains m))) true

/-- `add_members`: own leaf, admin check, "At least one relay is required to invite members" (the STORED relay
    table), openmls refuses a key package of somebody who is a member already -/
def addMembers (c : Cl) (n ts idnum : Nat) (who : List Nat) : Cl × Res :=
  if !c.hasGroup then (c, .err eGroup)
  else if !c.g.active then (c, .err eOwnLeaf)
  else if !(isAdmin c.g c.id) then (c, .err eGroup)
  else if c.g.recRelays.isEmpty then (c, .err eGroup)
  else if who.any (fun m => c.g.members.contains m) then (c, .err eGroup)
  else stageCommit c n ts idnum (.addMembers who) true

/-- what a welcome gives the joiner (`process_welcome` + `accept_welcome`): the inviter's post-commit state and a
    record in step with it — no exporter secret stored yet, no past epochs, nothing queued or consumed -/
def joinState (g : GState) : GState :=
  { g with secrets := [], pending := none, props := [], consumed := [], past := [], last := none, active := true }

/-- the state the add commit `e` (staged on the inviter's state `g`) leads to -/
def welcomeState (maxPast : Nat) (g : GState) (e : Ev) : GState := joinState (syncRec (mergeCommit maxPast g e))

/-- a client that holds no group accepts the welcome: dedup records and configuration stay (a welcome for a group
    the client holds already is the business of C16's model, not of this one: no-op here) -/
def join (c : Cl) (g : GState) : Cl := if c.hasGroup then c else { c with hasGroup := true, g := g, mgr := [] }

/-- `leave_group` -/
def leave (c : Cl) (n ts idnum : Nat) : Cl × Res :=
  if !c.hasGroup then (c, .err eGroup)
  else if !c.g.active then (c, .err eOwnLeaf)
  else if c.g.pending.isSome then (c, .err eGroup)  -- openmls refuses while a commit is pending (`map_err(Error::Group)`)
  else
    -- openmls queues the own Remove proposal in the own proposal store as well
    let g0 := ensureSecret c.g
    let g := { g0 with props := (c.id :: g0.props).eraseDups }
    let e : Ev := { n := n, ts := ts, idnum := idnum, cipher := n, sender := c.id, path := g.path, kind := .leave, tag := g.recNid }
    (setRec { c with g := g } n { state := 2, epoch := some (epochOf g.path), hasGroup := true, mid := none }, .ev e)

/-- `merge_pending_commit` (no snapshot is taken here) -/
def merge (c : Cl) : Cl × Res :=
  if !c.hasGroup then (c, .err eGroup)
  else if !c.g.active then (c, .err eMergePending)  -- openmls refuses to merge on an inactive group
  else
    match c.g.pending with
    | some p => ({ c with g := syncRec (mergeCommit c.maxPast c.g p) }, .ok)
    | none => ({ c with g := syncRec c.g }, .ok)

def clear (c : Cl) : Cl × Res :=
  if !c.hasGroup then (c, .err eGroup) else ({ c with g := { c.g with pending := none } }, .ok)

/-- drop the instance and reopen the database: the manager's timestamps are lost (hydration) -/
def restart (c : Cl) : Cl × Res :=
  if c.persistent then ({ c with mgr := c.mgr.map (fun s => { s with ts := 0 }) }, .ok) else (c, .skip)

/-- the extension `create_group` writes: description token 0, relays `[1]`, nostr group id 0 -/
def initData (admins : List Nat) (name : Nat) : GData := { name := name, desc := 0, admins := admins, relays := [1], nid := 0 }

/-- the state `create_group` / the welcome leaves -/
def initG (members admins : List Nat) (name : Nat) : GState :=
  { path := [], members := members, admins := admins, name := name, desc := 0, relays := [1], nid := 0, secrets := [], pending := none, props := [], consumed := [], past := [], recEpoch := baseEpoch, recName := name, recAdmins := admins, recDesc := 0, recRelays := [1], recNid := 0, last := none }

def initCl (id : Nat) (persistent : Bool) (retention : Nat) (members admins : List Nat) (name : Nat) : Cl :=
  { id := id, persistent := persistent, retention := retention, maxPast := 5, hasGroup := true, g := initG members admins name, msgs := [], recs := [], mgr := [] }

end MdkVerif.Client
