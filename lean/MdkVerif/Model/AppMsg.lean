/-
  MdkVerif.Model.AppMsg — application messages: what a client stores for an incoming kind-445 wrapper
  that carries an MLS *application* message, and for a message it sends itself (property C04).
  Import-free, executable, kernel-reducible.

  Follows crates/mdk-core/src/messages/{process.rs, decryption.rs, application.rs, validation.rs, create.rs}
  and `save_message` of both storages (an upsert keyed by (mls_group_id, id) that replaces every column).

  What is abstract, and on which assumption (DESIGN §5.3):
  * A8 — the NIP-01 id is SHA-256 of the canonical serialisation of (pubkey, created_at, kind, tags,
    content).  It is modelled as the tuple itself (`Id.hash body`): injective, i.e. collision free.  An id
    that is not the hash of anything in play (32 random bytes an attacker pre-sets) is `Id.raw n`;
    `Id.raw n ≠ Id.hash b` is the pre-image half of A8.
  * A1/A3 — the MLS layer: a ciphertext (`Ciphertext`) was produced by exactly one member (`sender`, the
    identity in the credential of the leaf that signed and encrypted it — unforgeable), in one MLS group,
    and carries a payload the SENDER chose freely (`rumor`: every field incl. `pubkey` and a pre-set `id`).
    It opens at a receiver iff the receiver is in that group and state (`mlsOk`, decided by the caller of
    the model — the theorems hold for every value of it), and at most once: opening consumes the sender's
    ratchet generation (`cid` enters `seen`), so the same ciphertext in a fresh wrapper is refused.
  * the outer layer: a wrapper names a group by its `h` tag and is NIP-44-encrypted under the exporter
    secret of some group (`outer`); it opens iff the two agree and the receiver is a member.
-/
namespace MdkVerif.AppMsg

/-- the fields NIP-01 hashes; `pubkey` and the others are numbers naming byte strings -/
structure Body where
  pubkey : Nat
  createdAt : Nat
  kind : Nat
  tags : Nat
  content : Nat
  deriving DecidableEq, Repr, Inhabited

inductive Id where
  | hash (b : Body)
  | raw (n : Nat)
  deriving DecidableEq, Repr, Inhabited

/-- the decrypted payload: an unsigned Nostr event whose every field the sender chose -/
structure Rumor where
  body : Body
  presetId : Option Id
  deriving DecidableEq, Repr, Inhabited

def nip01Id (r : Rumor) : Id := .hash r.body

/-- `UnsignedEvent::id()` / `ensure_id()`: a pre-set id is returned unverified -/
def trustedId (r : Rumor) : Id := r.presetId.getD (nip01Id r)

structure Ciphertext where
  cid : Nat          -- identity of the MLS ciphertext (sender leaf + generation)
  gid : Nat          -- MLS group it was created in
  sender : Nat       -- the MLS-authenticated sender identity
  rumor : Rumor
  deriving DecidableEq, Repr, Inhabited

structure Wrapper where
  wid : Nat          -- wrapper event id
  hTag : Nat         -- group named by the h tag
  outer : Nat        -- group whose exporter secret encrypted the content
  mlsOk : Bool       -- the MLS layer can open it at this receiver now (epoch / membership / ratchet window)
  ct : Ciphertext
  deriving DecidableEq, Repr, Inhabited

/-- a stored message row; `sender` and `wrapper` record which event wrote it (`wrapper_event_id` is a real
    column, `sender` is a ghost field used only by the theorems and the oracle) -/
structure Row where
  gid : Nat
  id : Id
  author : Nat
  createdAt : Nat
  kind : Nat
  tags : Nat
  content : Nat
  wrapper : Nat
  sender : Nat
  deriving DecidableEq, Repr, Inhabited

def Row.body (r : Row) : Body := ⟨r.author, r.createdAt, r.kind, r.tags, r.content⟩

structure Store where
  rows : List Row
  seen : List Nat        -- consumed ciphertexts
  failed : List Nat      -- wrapper ids with a Failed processed-message record
  echoed : List Nat      -- own wrappers whose echo was already processed (record state Created → Processed)
  deriving Repr, Inhabited

def Store.empty : Store := ⟨[], [], [], []⟩

/-- `save_message`: INSERT … ON CONFLICT(mls_group_id, id) DO UPDATE SET every column -/
def upsert (row : Row) : List Row → List Row
  | [] => [row]
  | r :: rs => if r.gid = row.gid ∧ r.id = row.id then row :: rs else r :: upsert row rs

def findRow (gid : Nat) (id : Id) : List Row → Option Row
  | [] => none
  | r :: rs => if r.gid = gid ∧ r.id = id then some r else findRow gid id rs

inductive Res where
  | app (id : Id)
  | refused
  deriving DecidableEq, Repr, Inhabited

def mkRow (gid : Nat) (id : Id) (r : Rumor) (wid sender : Nat) : Row :=
  { gid := gid, id := id, author := r.body.pubkey, createdAt := r.body.createdAt, kind := r.body.kind,
    tags := r.body.tags, content := r.body.content, wrapper := wid, sender := sender }

def fail (s : Store) (wid : Nat) : Store × Res := ({ s with failed := wid :: s.failed }, .refused)

/-- `process_application_message`: author check, id (recomputed iff `recompute`), upsert -/
def processApp (recompute : Bool) (s : Store) (w : Wrapper) : Store × Res :=
  let r := w.ct.rumor
  if r.body.pubkey ≠ w.ct.sender then fail s w.wid           -- verify_rumor_author → AuthorMismatch
  else
    let id := if recompute then nip01Id r else trustedId r
    ({ s with rows := upsert (mkRow w.hTag id r w.wid w.ct.sender) s.rows }, .app id)

/-- `process_message` of client `me`, member of the groups `mine`, for an application-message wrapper -/
def recv (recompute : Bool) (me : Nat) (mine : List Nat) (s : Store) (w : Wrapper) : Store × Res :=
  if w.wid ∈ s.failed then (s, .refused)                           -- step 0: blocked for ever
  else if w.hTag ∉ mine then fail s w.wid                           -- GroupNotFound
  else if w.outer ≠ w.hTag then fail s w.wid                        -- outer decryption fails
  else if w.ct.gid ≠ w.hTag then fail s w.wid                       -- MLS: wrong group id
  else if w.ct.sender = me then                                     -- CannotDecryptOwnMessage: cached copy or nothing
    if w.wid ∈ s.echoed then (s, .refused)                          -- record already Processed → Unprocessable
    else match s.rows.find? (fun r => r.wrapper = w.wid ∧ r.gid = w.hTag) with
      | some r => ({ s with echoed := w.wid :: s.echoed }, .app r.id)  -- first echo: only the state columns change
      | none => fail s w.wid                                         -- no processed-message record for this wrapper
  else if !w.mlsOk then fail s w.wid
  else if w.ct.cid ∈ s.seen then fail s w.wid                       -- generation already consumed
  else processApp recompute { s with seen := w.ct.cid :: s.seen } w

/-- `create_message`: the caller's rumor is stored under `ensure_id()` (a pre-set id is kept) and under the
    caller's `pubkey` field (not checked against the own identity) -/
def send (me : Nat) (s : Store) (gid : Nat) (r : Rumor) (wid : Nat) : Store :=
  { s with rows := upsert (mkRow gid (trustedId r) r wid me) s.rows }

/-- an own rumor as an honest application builds it: own pubkey, no id or the right id -/
def honest (me : Nat) (r : Rumor) : Bool :=
  r.body.pubkey = me && (r.presetId = none || r.presetId = some (nip01Id r))

inductive Op where
  | recv (w : Wrapper)
  | send (gid : Nat) (r : Rumor) (wid : Nat)
  deriving Repr, Inhabited

def step (recompute : Bool) (me : Nat) (mine : List Nat) (s : Store) : Op → Store
  | .recv w => (recv recompute me mine s w).1
  | .send g r wid => send me s g r wid

def run (recompute : Bool) (me : Nat) (mine : List Nat) : Store → List Op → Store
  | s, [] => s
  | s, o :: os => run recompute me mine (step recompute me mine s o) os

/-- the identity on whose behalf an operation writes: the authenticated sender of a received event, the
    client itself for an own message -/
def Op.actor (me : Nat) : Op → Nat
  | .recv w => w.ct.sender
  | .send _ _ _ => me

/-- local sends are honest (hypothesis on histories: the local application is not the adversary) -/
def Op.ok (me : Nat) : Op → Bool
  | .recv _ => true
  | .send _ r _ => honest me r

end MdkVerif.AppMsg
