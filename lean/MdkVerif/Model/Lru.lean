/-
  MdkVerif.Model.Lru — `lru::LruCache` (crate lru 0.16.3) as the memory backend uses it.

  1. `Lru κ α`: the cache as a RECENCY-ORDERED association list (most recently used first) with a
     capacity.  `get` / `getMod` promote, `peek` / `contains` / `iter` do not, `put` of a held key
     replaces the value and promotes, `put` of a new key at capacity evicts the LAST entry (the least
     recently used one) and reports it, `pop` removes.  (`capturing_put`, `get`, `get_mut`, `peek`,
     `pop`, `iter` of lru 0.16.3; capacity is a `NonZeroUsize`, hence `0 < cap` in `Lru.WF`.)
  2. the same cache split into its two components — the CONTENT (a plain association list, position
     irrelevant) and the RECENCY QUEUE of its keys (`qTouch`, `qPromote`, `qRemove`) — which is how
     `Model/MemLru.lean` carries the nine caches of the backend: content tables in the shape of the
     unbounded store model plus one queue per cache.  `Proofs/Lru.lean` proves that the two
     presentations are the same cache (`keys_put`, `keys_get`, `keys_pop`, `lookup_put`).

  Import-free (core Lean only).
-/
namespace MdkVerif.Lru

variable {κ α : Type} [DecidableEq κ]

/-! ## association lists over an arbitrary key type -/

def lookup (k : κ) : List (κ × α) → Option α
  | [] => none
  | (k', v) :: r => if k' = k then some v else lookup k r

def erase (k : κ) (l : List (κ × α)) : List (κ × α) := l.filter (fun p => decide (p.1 ≠ k))

/-- insert-or-replace, position of a held key kept (the reference map of `lru_refines_map`) -/
def insert (k : κ) (v : α) : List (κ × α) → List (κ × α)
  | [] => [(k, v)]
  | (k', v') :: r => if k' = k then (k, v) :: r else (k', v') :: insert k v r

def keys (l : List (κ × α)) : List κ := l.map Prod.fst

/-! ## 1. the cache as a recency-ordered association list -/

structure Lru (κ α : Type) where
  cap : Nat
  items : List (κ × α)        -- most recently used first
  deriving Repr

def Lru.empty (cap : Nat) : Lru κ α := { cap := cap, items := [] }

def Lru.peek (c : Lru κ α) (k : κ) : Option α := lookup k c.items
def Lru.contains (c : Lru κ α) (k : κ) : Bool := (lookup k c.items).isSome
def Lru.len (c : Lru κ α) : Nat := c.items.length
/-- `iter()`: most recently used first, no promotion -/
def Lru.iter (c : Lru κ α) : List (κ × α) := c.items

/-- `get` / `get_mut` without a change of the value: promotes a held key -/
def Lru.get (c : Lru κ α) (k : κ) : Lru κ α × Option α :=
  match lookup k c.items with
  | none => (c, none)
  | some v => ({ c with items := (k, v) :: erase k c.items }, some v)

/-- `get_mut` followed by a mutation `f` of the value -/
def Lru.getMod (c : Lru κ α) (k : κ) (f : α → α) : Lru κ α :=
  match lookup k c.items with
  | none => c
  | some v => { c with items := (k, f v) :: erase k c.items }

/-- `put`: second component = the evicted entry, if any -/
def Lru.put (c : Lru κ α) (k : κ) (v : α) : Lru κ α × Option (κ × α) :=
  if (lookup k c.items).isSome then ({ c with items := (k, v) :: erase k c.items }, none)
  else if c.items.length < c.cap then ({ c with items := (k, v) :: c.items }, none)
  else ({ c with items := (k, v) :: c.items.dropLast }, c.items.getLast?)

def Lru.pop (c : Lru κ α) (k : κ) : Lru κ α × Option α :=
  ({ c with items := erase k c.items }, lookup k c.items)

/-- `iter_mut()` applying `f` to every value: no promotion, order kept -/
def Lru.mapVals (c : Lru κ α) (f : κ → α → α) : Lru κ α :=
  { c with items := c.items.map (fun p => (p.1, f p.1 p.2)) }

/-- well-formed: a real capacity, never more entries than the capacity, keys pairwise distinct -/
structure Lru.WF (c : Lru κ α) : Prop where
  pos : 0 < c.cap
  size : c.items.length ≤ c.cap
  nodup : (keys c.items).Nodup

/-! ### operations and observations (for the refinement statement) -/

inductive LOp (κ α : Type) where
  | get (k : κ)
  | peek (k : κ)
  | contains (k : κ)
  | put (k : κ) (v : α)
  | pop (k : κ)
  deriving Repr

def LOp.key : LOp κ α → κ
  | .get k => k
  | .peek k => k
  | .contains k => k
  | .put k _ => k
  | .pop k => k

inductive LObs (κ α : Type) where
  | val (o : Option α)
  | bool (b : Bool)
  | evicted (e : Option (κ × α))
  deriving Repr, DecidableEq

def Lru.step (c : Lru κ α) : LOp κ α → Lru κ α × LObs κ α
  | .get k => let r := c.get k; (r.1, .val r.2)
  | .peek k => (c, .val (c.peek k))
  | .contains k => (c, .bool (c.contains k))
  | .put k v => let r := c.put k v; (r.1, .evicted r.2)
  | .pop k => let r := c.pop k; (r.1, .val r.2)

/-- the reference: an unbounded association list — nothing is ever evicted, reads do not reorder -/
def mapStep (m : List (κ × α)) : LOp κ α → List (κ × α) × LObs κ α
  | .get k => (m, .val (lookup k m))
  | .peek k => (m, .val (lookup k m))
  | .contains k => (m, .bool (lookup k m).isSome)
  | .put k v => (insert k v m, .evicted none)
  | .pop k => (erase k m, .val (lookup k m))

def Lru.run (c : Lru κ α) (ops : List (LOp κ α)) : Lru κ α := ops.foldl (fun c o => (c.step o).1) c

def Lru.observe (c : Lru κ α) : List (LOp κ α) → List (LObs κ α)
  | [] => []
  | o :: os => (c.step o).2 :: Lru.observe (c.step o).1 os

def mapObserve (m : List (κ × α)) : List (LOp κ α) → List (LObs κ α)
  | [] => []
  | o :: os => (mapStep m o).2 :: mapObserve (mapStep m o).1 os

/-! ## 2. content + recency queue -/

/-- `put` on the queue of keys: a held key moves to the front, a new key is pushed and, at capacity,
    the last key leaves (second component) -/
def qTouch (cap : Nat) (k : κ) (q : List κ) : List κ × Option κ :=
  if k ∈ q then (k :: q.filter (fun x => decide (x ≠ k)), none)
  else if q.length < cap then (k :: q, none)
  else (k :: q.dropLast, q.getLast?)

/-- `get` / `get_mut` on the queue: a held key moves to the front -/
def qPromote (k : κ) (q : List κ) : List κ :=
  if k ∈ q then k :: q.filter (fun x => decide (x ≠ k)) else q

/-- `pop` on the queue -/
def qRemove (k : κ) (q : List κ) : List κ := q.filter (fun x => decide (x ≠ k))

end MdkVerif.Lru
