import MdkVerif.Generated
import MdkVerif.Model.Client
/-
  MdkVerif.Model.Proposal — `process_message` with `process_proposal` (mdk-core/src/messages/proposal.rs) followed for
  EVERY proposal type a member can send, and everything that depends on the OpenMLS proposal store:

  * triage by proposal type (the proposer's role is never looked at, only the RECEIVER's):
      Add                      → stored pending                                   (`PendingProposal`)
      Remove(other)            → stored pending                                   (`PendingProposal`)
      Remove(self) = leave     → receiver not admin: stored pending; receiver admin: stored, then auto-committed
      Update / GroupContextExtensions / anything else → marked processed, nothing stored (`IgnoredProposal`)
  * `auto_commit_proposal` (since repair 0339cde) first looks whether the commit can be built at all — no commit is pending
    already, no queued Remove names the receiver itself (its own leave, somebody else's proposal) — and otherwise KEEPS the
    proposal as a pending one (`PendingProposal`, record Processed).  Before the repair it stored the proposal, failed in
    `commit_to_pending_proposals`, and answered `Unprocessable` + Failed record with the proposal left in the store; which of
    the two the code does is the regenerated fact `Generated.autoCommitChecksBeforeStore` (`checksFirst`), and the model follows it
  * every commit builder consumes the WHOLE store (`consume_proposal_store`, OpenMLS default and forced by
    `commit_to_pending_proposals`): leaves and foreign Remove / Add proposals alike, by REFERENCE — a receiver can stage
    such a commit only if it holds every referenced proposal (else the commit fails in OpenMLS after its ratchet
    generation was consumed: `Unprocessable`, Failed record); staging comes before mdk's authorisation check
  * a commit that contains the committer's own removal cannot be built (per operation: the same error kinds as a second
    pending commit); `create_message` is refused while anything is queued

  Built on `Model/Client.lean` (same `Cl` / `GState` / `Ev`, the foreign proposals live in `GState.xq`, what a commit
  references of them in `Ev.sweptX`; snapshots copy them with the rest of the MLS state).  `Client.step1` is the special
  case "nothing foreign is queued or referenced, every referenced leave is held, no auto-commit on top of a pending
  commit": `Proofs/Proposal.lean` (`deliverP_agrees`, `stageCommitP_agrees`, …).
-/
namespace MdkVerif.Proposal
open MdkVerif MdkVerif.Client

/-- the type of a stand-alone proposal as `process_proposal` distinguishes them -/
inductive PK where
  | remove (target : Nat)
  | add (who : Nat)
  | update
  | gce
  | other                      -- PreSharedKey, ReInit, ExternalInit, custom …
  deriving DecidableEq, Repr, Inhabited

/-- a published event: `prop = some p` — a stand-alone proposal of type p crafted with the MLS library (the carrier's
    `kind` is then not looked at); `prop = none` — an event of `Model.Client` (`.leave` = Remove of the sender itself, as
    `leave_group` sends it) -/
structure PEv where
  e : Ev
  prop : Option PK := none
  deriving DecidableEq, Repr, Inhabited

/-- the proposal an event carries, if it is one -/
def propKind (x : PEv) : Option PK :=
  match x.prop with
  | some p => some p
  | none => match x.e.kind with
            | .leave => some (.remove x.e.sender)
            | _ => none

/-! ### the proposal store -/

/-- targets of the queued Remove proposals other than leaves -/
def xTargets (q : List QP) : List Nat := q.filterMap (fun p => match p with | .rm _ t => some t | .add _ _ => none)
/-- whom the queued Add proposals would add -/
def xAdds (q : List QP) : List Nat := q.filterMap (fun p => match p with | .add _ w => some w | .rm _ _ => none)

/-- `pending_removed_members_pubkeys`: leavers and targets of foreign Remove proposals — those whose leaf is (still)
    occupied (`member_at(removed)`; only an evicted member's store can name somebody who is gone) -/
def pendingRemoved (g : GState) : List Nat := ((g.props ++ xTargets g.xq).filter (fun m => g.members.contains m)).eraseDups
/-- `pending_added_members_pubkeys` -/
def pendingAdded (g : GState) : List Nat := (xAdds g.xq).eraseDups

/-- nothing is queued -/
def storeEmpty (g : GState) : Bool := g.props.isEmpty && g.xq.isEmpty

/-- a commit over the whole store would have to remove its own author: OpenMLS refuses to build it -/
def storeRemoves (g : GState) (me : Nat) : Bool := g.props.contains me || (xTargets g.xq).contains me

/-- `store_pending_proposal` (Remove / Add): the own-leave queue for a self-removal, `xq` for everything else -/
def storeProp (g : GState) (sender : Nat) (p : PK) : GState :=
  match p with
  | .remove t => if t == sender then { g with props := (sender :: g.props).eraseDups }
                 else { g with xq := (QP.rm sender t :: g.xq).eraseDups }
  | .add w => { g with xq := (QP.add sender w :: g.xq).eraseDups }
  | _ => g

/-! ### commits -/

/-- a commit that carries nothing but its author's own key update -/
def isPureSelfUpdateP (b : Body) (swept : List Nat) (sx : List QP) : Bool := isPureSelfUpdate b swept && sx.isEmpty

/-- the commit removes the receiver's own leaf -/
def removesMeP (me : Nat) (b : Body) (swept : List Nat) (sx : List QP) : Bool :=
  removesMe me b swept || (xTargets sx).contains me

/-- the referenced foreign proposals carried out on the member list: removals first, then additions -/
def applyX (members : List Nat) (sx : List QP) : List Nat :=
  let m1 := members.filter (fun m => !((xTargets sx).contains m))
  m1 ++ ((xAdds sx).eraseDups).filter (fun w => !(m1.contains w))

/-- merging a staged commit: `Client.mergeCommit` plus the referenced foreign proposals -/
def mergeCommitP (maxPast : Nat) (g : GState) (e : Ev) : GState :=
  let g1 := mergeCommit maxPast g e
  match e.kind with
  | .commit _ _ => { g1 with members := applyX g1.members e.sweptX }
  | _ => g1

/-- the receiver holds every proposal the commit references (OpenMLS cannot stage the commit otherwise) -/
def holdsRefs (g : GState) (swept : List Nat) (sx : List QP) : Bool :=
  swept.all (fun m => g.props.contains m) && sx.all (fun p => g.xq.contains p)

/-- `process_commit` after staging succeeded (`Client.processCommit` with the foreign proposals taken into account) -/
def processCommitP (c : Cl) (e : Ev) (b : Body) (swept : List Nat) : Cl × Res :=
  if !(isAdmin c.g e.sender || isPureSelfUpdateP b swept e.sweptX) then
    (recordFailure c e.n true (some c.g.recEpoch), .err eNonAdmin)
  else
    let cur := epochOf c.g.path
    let c1 := mgrCreate c cur e
    let g1 := mergeCommitP c.maxPast c1.g e
    if removesMeP c.id b swept e.sweptX then
      -- eviction (as in `Client.processCommit`), decided from the STAGED commit (`self_removed()`, repair e46593e; regenerated
      -- fact `Generated.evictionFromStagedCommit`) — also when the same commit adds somebody, who then takes the freed leaf (the
      -- model has no leaf positions and never needed them for this: before the repair the code looked at `own_leaf()` after the
      -- merge and missed exactly that case).  OpenMLS merges only the public part and does NOT empty the proposal store
      (setRec { c1 with g := { g1 with active := false, props := c.g.props, xq := c.g.xq } } e.n { state := 1, epoch := some c.g.recEpoch, hasGroup := true, mid := none }, .commit)
    else
    let g2 := syncRec (ensureSecret g1)
    (setRec { c1 with g := g2 } e.n { state := 2, epoch := some (epochOf g2.path), hasGroup := true, mid := none }, .commit)

/-! ### process_proposal -/

/-- `auto_commit_proposal` checks BEFORE storing whether the automatic commit can be built (regenerated from
    messages/proposal.rs on every run; `true` since repair 0339cde) -/
abbrev checksFirst : Bool := Generated.autoCommitChecksBeforeStore

/-- `auto_commit_proposal` on the state in which the proposal is already stored (`g1`): the staged commit references
    everything queued, by reference, and carries nothing of its own -/
def autoCommitEv (c : Cl) (g1 : GState) (nextEv : Nat) : Ev :=
  { n := nextEv, ts := 0, idnum := 0, cipher := nextEv, sender := c.id, path := g1.path,
    kind := .commit .selfUpdate g1.props, tag := g1.recNid, sweptX := g1.xq }

/-- `process_proposal` for a proposal of type p from member `e.sender` that OpenMLS has decrypted and validated
    (`c`: the receiver after `exporter_secret()` and with the sender's ratchet generation consumed) -/
def processProposal (nextEv : Nat) (c : Cl) (e : Ev) (p : PK) : Cl × Res :=
  let cur := epochOf c.g.path
  let done : Rec := { state := 1, epoch := some cur, hasGroup := true, mid := none }
  match p with
  | .update | .gce | .other => (setRec c e.n done, .ignored)
  | .add _ => (setRec { c with g := storeProp c.g e.sender p } e.n done, .pending)
  | .remove t =>
    let g1 := storeProp c.g e.sender p
    if t == e.sender && isAdmin c.g c.id then
      -- the commit cannot be built while one is pending or when the store asks for the receiver's own removal (the sender is
      -- never the receiver here — `step1P` hands one's own proposal to `ownMessage` — so "before" or "after" storing this
      -- proposal makes no difference to that test)
      if g1.pending.isSome || storeRemoves g1 c.id then
        if checksFirst then (setRec { c with g := g1 } e.n done, .pending)     -- kept as a pending proposal
        else failUnprocessable { c with g := g1 } e                              -- (before 0339cde: stored, then the failure)
      else
        let ne := autoCommitEv c g1 nextEv
        let g2 := ensureSecret { g1 with pending := some ne }
        (setRec { c with g := g2 } e.n done, .proposalCommitted ne)
    else (setRec { c with g := g1 } e.n done, .pending)

/-! ### process_message -/

/-- steps 1–4 of `process_message` (after the dedup check): `Client.step1` with the proposal store -/
def step1P (retry : Cl → Option (Cl × Res)) (nextEv : Nat) (c : Cl) (x : PEv) : Cl × Res :=
  let e := x.e
  if !(routes c e) then (recordFailure c e.n false none, .err eGroupNotFound)
  else if !c.g.active then (recordFailure c e.n true none, .err eExportSecret)
  else
    let c := withSecret c
    if !outerOpens c.g e then (recordFailure c e.n true none, .err eMessage)
    else
      let cur := epochOf c.g.path
      let ee := epochOf e.path
      match propKind x with
      | some p =>
        if ee != cur then failUnprocessable c e
        else if e.sender == c.id then ownMessage c e
        else if c.g.consumed.contains e.cipher then failUnprocessable c e
        else processProposal nextEv { c with g := { c.g with consumed := e.cipher :: c.g.consumed } } e p
      | none =>
        match e.kind with
        | .commit b swept =>
          if ee != cur then wrongEpochCommit retry c e ee
          else if e.sender == c.id then
            (match c.g.pending with
             | some pc =>
               let c1 := mgrCreate c cur e
               let g1 := mergeCommitP c.maxPast c1.g pc
               let g2 := syncRec (ensureSecret g1)
               (setRec { c1 with g := g2 } e.n { state := 2, epoch := some (epochOf g2.path), hasGroup := true, mid := none }, .commit)
             | none => ownMessage c e)
          else if c.g.consumed.contains e.cipher then failUnprocessable c e
          else
            let c2 := { c with g := { c.g with consumed := e.cipher :: c.g.consumed } }
            -- OpenMLS decrypts (the generation is consumed), then fails to stage a commit whose referenced proposals it does not hold
            if !(holdsRefs c.g swept e.sweptX) then failUnprocessable c2 e
            else processCommitP c2 e b swept
        | .leave => failUnprocessable c e      -- unreachable: `propKind` answers `some` for a leave
        | .app mid msgTs tok =>
          if ee > cur then failUnprocessable c e
          else if ee < cur && !(c.g.past.contains e.path) then failUnprocessable c e
          else if e.sender == c.id then ownMessage c e
          else if c.g.consumed.contains e.cipher then failUnprocessable c e
          else storeApp { c with g := { c.g with consumed := e.cipher :: c.g.consumed } } e mid msgTs tok

/-- `process_message`, one pass -/
def deliverOnceP (retry : Cl → Option (Cl × Res)) (nextEv : Nat) (c : Cl) (x : PEv) : Cl × Res :=
  match getRec c x.e.n with
  | some r =>
    if r.state == 3 || r.state == 4 then (c, if routes c x.e then .unprocessable else .previouslyFailed)
    else step1P retry nextEv c x
  | none => step1P retry nextEv c x

def deliverNP : Nat → Nat → Cl → PEv → Cl × Res
  | 0, nextEv, c, x => deliverOnceP (fun _ => none) nextEv c x
  | f + 1, nextEv, c, x => deliverOnceP (fun c1 => some (deliverNP f nextEv c1 x)) nextEv c x

def deliverP (c : Cl) (x : PEv) (nextEv : Nat) : Cl × Res := deliverNP 3 nextEv c x

/-! ### local operations -/

/-- `create_message`: refused while ANY proposal is queued -/
def sendP (c : Cl) (n ts idnum mid msgTs tok : Nat) : Cl × Res :=
  if !c.hasGroup then (c, .err eGroup)
  else if !c.g.active then (c, .err eOwnLeaf)
  else if !(storeEmpty c.g) then (c, .err eCreateMessage)
  else send c n ts idnum mid msgTs tok

/-- `self_update` and `remove_members` refuse to go on when the commit they just staged produced a Welcome ("Found welcomes
    when …") — which happens exactly when the store held an Add proposal; `update_group_data` and `add_members` drop /
    ignore that Welcome silently -/
def welcomeRefused (b : Body) (q : List QP) : Bool :=
  (match b with
   | .selfUpdate => true
   | .removeLeavers _ => true
   | _ => false) && !(xAdds q).isEmpty

/-- `self_update` / `update_group_data` / `remove_members` / `add_members` after their argument checks: the commit
    references the WHOLE store; it cannot be built while a commit is pending or when the store holds the committer's
    own removal (both surface as the same per-operation error kind) -/
def stageCommitP (c : Cl) (n ts idnum : Nat) (b : Body) (needAdmin : Bool) : Cl × Res :=
  if !c.hasGroup then (c, .err eGroup)
  else if !c.g.active then (c, .err eOwnLeaf)
  else if needAdmin && !(isAdmin c.g c.id) then (c, .err eGroup)
  else if c.g.pending.isSome || storeRemoves c.g c.id then (c, .err (pendingErr b))
  else
    let g := ensureSecret c.g
    let e : Ev := { n := n, ts := ts, idnum := idnum, cipher := n, sender := c.id, path := g.path, kind := .commit b g.props, tag := g.recNid, sweptX := g.xq }
    let c1 := { c with g := { g with pending := some e } }
    -- the error is raised AFTER the commit was staged (and its dedup record written — under an event id nobody ever sees, so
    -- the record is left out here): the call fails, nothing is published, the pending commit stays and blocks the group
    if welcomeRefused b g.xq then (c1, .err eGroup)
    else (setRec c1 n { state := 2, epoch := some (epochOf g.path), hasGroup := true, mid := none }, .ev e)

def updateDataP (c : Cl) (n ts idnum : Nat) (u : DataUpd) : Cl × Res :=
  if !c.hasGroup then (c, .err eGroup)
  else if adminsArgBad c.g u then (c, .err eUpdExts)
  else stageCommitP c n ts idnum (.setData (applyUpd (dataOf c.g) u)) true

def removeMembersP (c : Cl) (n ts idnum : Nat) (who : List Nat) : Cl × Res :=
  if !c.hasGroup then (c, .err eGroup)
  else if !c.g.active then (c, .err eOwnLeaf)
  else if !(isAdmin c.g c.id) then (c, .err eGroup)
  else if (who.filter (fun m => c.g.members.contains m)).isEmpty then (c, .err eGroup)
  else stageCommitP c n ts idnum (.removeLeavers (who.filter (fun m => c.g.members.contains m))) true

def addMembersP (c : Cl) (n ts idnum : Nat) (who : List Nat) : Cl × Res :=
  if !c.hasGroup then (c, .err eGroup)
  else if !c.g.active then (c, .err eOwnLeaf)
  else if !(isAdmin c.g c.id) then (c, .err eGroup)
  else if c.g.recRelays.isEmpty then (c, .err eGroup)
  else if who.any (fun m => c.g.members.contains m) then (c, .err eGroup)
  else stageCommitP c n ts idnum (.addMembers who) true

/-- `merge_pending_commit` -/
def mergeP (c : Cl) : Cl × Res :=
  if !c.hasGroup then (c, .err eGroup)
  else if !c.g.active then (c, .err eMergePending)
  else
    match c.g.pending with
    | some p => ({ c with g := syncRec (mergeCommitP c.maxPast c.g p) }, .ok)
    | none => ({ c with g := syncRec c.g }, .ok)

/-- what a welcome gives the joiner: nothing queued -/
def welcomeStateP (maxPast : Nat) (g : GState) (e : Ev) : GState :=
  { joinState (syncRec (mergeCommitP maxPast g e)) with xq := [] }

/-- the events a member crafts with the MLS library directly: a stand-alone proposal of type p created in the crafter's
    current state (nothing is kept in the crafter's own store or records) -/
def craftProp (c : Cl) (n ts idnum : Nat) (p : PK) : PEv :=
  { e := { n := n, ts := ts, idnum := idnum, cipher := n, sender := c.id, path := c.g.path, kind := .leave, tag := c.g.recNid }, prop := some p }

end MdkVerif.Proposal
