import MdkVerif.Generated
import MdkVerif.Model.Codec
import MdkVerif.Model.Tags
/-
  MdkVerif.Model.Media — MIP-04 media encryption, the byte strings that bind a file to its metadata
  (property C17, media part).  crates/mdk-core/src/encrypted_media/crypto.rs:

    build_hkdf_context(label, hash, mime, filename, suffix) = label 00 hash 00 mime 00 filename 00 suffix
    build_aad(label, hash, mime, filename)                  = label 00 hash 00 mime 00 filename

  (layout re-extracted on every run: `Generated.mediaContextAsModelled`, `Generated.mediaAadAsModelled`).
  HKDF-SHA256 and ChaCha20-Poly1305 themselves are assumption A8 (injective / opens iff unchanged): the
  model compares the INPUTS of the primitives, the harness compares their outputs.
-/
namespace MdkVerif.Media
open MdkVerif.Codec MdkVerif.Tags

def buildContext (label hash mime filename suffix : Bytes) : Bytes :=
  label ++ 0 :: (hash ++ 0 :: (mime ++ 0 :: (filename ++ 0 :: suffix)))

def buildAad (label hash mime filename : Bytes) : Bytes :=
  label ++ 0 :: (hash ++ 0 :: (mime ++ 0 :: filename))

/-- the context `derive_encryption_key` feeds to HKDF-Expand -/
def keyContext (hash mime filename : Bytes) : Bytes :=
  buildContext Generated.mediaSchemeLabel hash mime filename Generated.mediaKeySuffix

/-- the associated data of `encrypt_data_with_aad` / `decrypt_data_with_aad` -/
def aad (hash mime filename : Bytes) : Bytes :=
  buildAad Generated.mediaSchemeLabel hash mime filename

def nulFree (b : Bytes) : Bool := !b.contains 0

end MdkVerif.Media
