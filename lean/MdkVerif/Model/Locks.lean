import MdkVerif.Model.Store
/-
  MdkVerif.Model.Locks — interleaving semantics of the lock protocol the two storage backends
  exhibit (C19).

  * A storage method is a `Prog`: a tree of *lock sections*.  A section runs atomically (it is the
    code executed from one lock acquisition to the next acquisition or release): it updates the
    shared state and decides, from the state it saw, how the method continues (another section, or
    `done r`).  `sec` acquires a lock and releases it at the end of the step; `hold` acquires a lock
    and KEEPS it while the rest of the method runs (a nested section: the sections that follow are
    executed with that lock held; everything is released when the method is done); `act` is a step
    that acquires nothing (code run under the locks already held, after an inner section ended).
  * A thread is a queue of operations; a configuration is the shared state, the thread pool
    (`Nat → queue`, so any number of threads) and the completion log; a schedule is any list of
    thread ids, each entry lets that thread run its next section.  `step` itself does not look at
    the locks; `enabled c t` says that the lock `t`'s next step acquires is compatible with the locks
    the threads hold, `respects c sched` that every step of a schedule is enabled.  Theorems about
    un-nested sections hold for EVERY schedule; the nested-section theorem is about the schedules
    that respect the locks (the ones the lock implementation allows), the deadlock theorem says that
    such a schedule can always be extended.
  * `lockProg` gives, for every operation of the sequential store model, the section structure of
    the real method on each backend (memory: `inner` / `group_snapshots` RwLocks; sqlite: the
    connection mutex).  Its section sequence is tied to `Generated.lockShape` (extracted from the
    source) by `Props.C19.lockProg_follows_shape`, its sequential meaning to `Store.step` by
    `Props.C19.lockProg_sequential`.

  What is NOT modelled: the lock implementation, the memory model, SQLite's own threading — a
  section is atomic by assumption (that is what holding the lock is for).
-/
namespace MdkVerif.Locks
open MdkVerif MdkVerif.Store

/-- lock id × mode: lock 0 = memory `inner`, 1 = memory `group_snapshots`, 2 = sqlite connection;
    mode 0 = shared, 1 = exclusive -/
abbrev Lock := Nat × Nat

inductive Prog (σ ρ : Type) where
  | done (r : ρ)
  /-- acquire `lk`, run `upd`, release `lk`; go on with `next` (chosen from the state seen) -/
  | sec (lk : Lock) (upd : σ → σ) (next : σ → Prog σ ρ)
  /-- acquire `lk`, run `upd`, KEEP `lk`: `body` runs with `lk` held; released when the method is done -/
  | hold (lk : Lock) (upd : σ → σ) (body : σ → Prog σ ρ)
  /-- a step under the locks already held: acquires nothing -/
  | act (upd : σ → σ) (next : σ → Prog σ ρ)

namespace Prog
variable {σ ρ : Type}

/-- sequential execution: all sections back to back -/
def run : Prog σ ρ → σ → σ × ρ
  | .done r, s => (s, r)
  | .sec _ upd next, s => run (next s) (upd s)
  | .hold _ upd body, s => run (body s) (upd s)
  | .act upd next, s => run (next s) (upd s)

/-- at most one step: the method completes in one step -/
def single : Prog σ ρ → Prop
  | .done _ => True
  | .sec _ _ next => ∀ s, ∃ r, next s = .done r
  | .hold _ _ body => ∀ s, ∃ r, body s = .done r
  | .act _ next => ∀ s, ∃ r, next s = .done r

/-- the lock sections the program executes are, in order, a prefix of `l`, where a section (one per
    ACQUISITION) is the list of locks held at that moment in acquisition order — the locks `h`
    already held, then the acquired one -/
def follows : Prog σ ρ → List Lock → List (List Lock) → Prop
  | .done _, _, _ => True
  | .sec _ _ _, _, [] => False
  | .sec lk _ next, h, l :: ls => l = h ++ [lk] ∧ ∀ s, follows (next s) h ls
  | .hold _ _ _, _, [] => False
  | .hold lk _ body, h, l :: ls => l = h ++ [lk] ∧ ∀ s, follows (body s) (h ++ [lk]) ls
  | .act _ next, h, l => ∀ s, follows (next s) h l

/-- sections entered by taking a shared (read) lock do not modify the state -/
def readsPure : Prog σ ρ → Prop
  | .done _ => True
  | .sec lk upd next => (lk.2 = 0 → ∀ s, upd s = s) ∧ ∀ s, readsPure (next s)
  | .hold lk upd body => (lk.2 = 0 → ∀ s, upd s = s) ∧ ∀ s, readsPure (body s)
  | .act _ next => ∀ s, readsPure (next s)

/-- no nested section: `sec` only -/
def flat : Prog σ ρ → Prop
  | .done _ => True
  | .sec _ _ next => ∀ s, flat (next s)
  | .hold _ _ _ => False
  | .act _ _ => False

/-- `some r` iff the program is `done r` -/
def isDone : Prog σ ρ → Option ρ
  | .done r => some r
  | _ => none

/-- one step in state `s`: the new state, what is left, and the lock that stays held (if any) -/
def adv : Prog σ ρ → σ → σ × Prog σ ρ × List Lock
  | .done r, s => (s, .done r, [])
  | .sec _ upd next, s => (upd s, next s, [])
  | .hold lk upd body, s => (upd s, body s, [lk])
  | .act upd next, s => (upd s, next s, [])

/-- the lock the next step acquires -/
def acquires : Prog σ ρ → Option Lock
  | .sec lk _ _ => some lk
  | .hold lk _ _ => some lk
  | _ => none

/-- lock acquisition respects the order `rank` (on lock ids): every acquisition is of a lock whose
    rank is at least `b`, where `b` exceeds the rank of every lock held -/
def ordered (rank : Nat → Nat) : Nat → Prog σ ρ → Prop
  | _, .done _ => True
  | b, .sec lk _ next => b ≤ rank lk.1 ∧ ∀ s, ordered rank b (next s)
  | b, .hold lk _ body => b ≤ rank lk.1 ∧ ∀ s, ordered rank (rank lk.1 + 1) (body s)
  | b, .act _ next => ∀ s, ordered rank b (next s)

/-- a one-section method -/
def atomic (lk : Lock) (f : σ → σ × ρ) : Prog σ ρ :=
  .sec lk (fun s => (f s).1) (fun s => .done (f s).2)

/-- check-then-act: a first section that only evaluates `chk`, then (if it held) a second section -/
def cta (lk1 lk2 : Lock) (chk : σ → Bool) (err : ρ) (act : σ → σ × ρ) : Prog σ ρ :=
  .sec lk1 (fun s => s) (fun s => if chk s then atomic lk2 act else .done err)

/-- the atomic counterpart of `cta`: check and act in ONE section -/
def fused (lk : Lock) (chk : σ → Bool) (err : ρ) (act : σ → σ × ρ) : Prog σ ρ :=
  atomic lk (fun s => if chk s then act s else (s, err))

/-- the continuation chosen by the first section when it runs in state `s` -/
def cont : Prog σ ρ → σ → Prog σ ρ
  | .sec _ _ next, s => next s
  | .hold _ _ body, s => body s
  | .act _ next, s => next s
  | p, _ => p

/-- the state change made by the first section when it runs in state `s` -/
def effect : Prog σ ρ → σ → σ
  | .sec _ upd _, s => upd s
  | .hold _ upd _, s => upd s
  | .act upd _, s => upd s
  | _, s => s

end Prog

/-- a queued operation: its name `op`, what is left of it, how many sections already ran, and the
    locks it holds between steps (those taken by `hold`, in acquisition order) -/
structure Item (ι σ ρ : Type) where
  op : ι
  rem : Prog σ ρ
  pc : Nat
  held : List Lock := []

structure Cfg (ι σ ρ : Type) where
  st : σ
  thr : Nat → List (Item ι σ ρ)
  log : List (Nat × ι × ρ)          -- completions (thread, op, result), oldest first

variable {ι σ ρ : Type}

def setThr (thr : Nat → List (Item ι σ ρ)) (t : Nat) (q : List (Item ι σ ρ)) : Nat → List (Item ι σ ρ) :=
  fun u => if u = t then q else thr u

/-- thread `t` runs its next section (no-op if it has nothing left).  When what is left after the
    step is `done r` the operation completes in this very step (and releases every lock it held). -/
def step (c : Cfg ι σ ρ) (t : Nat) : Cfg ι σ ρ :=
  match c.thr t with
  | [] => c
  | it :: rest =>
    match (it.rem.adv c.st).2.1.isDone with
    | some r => { st := (it.rem.adv c.st).1, thr := setThr c.thr t rest, log := c.log ++ [(t, it.op, r)] }
    | none =>
      { st := (it.rem.adv c.st).1,
        thr := setThr c.thr t ({ op := it.op, rem := (it.rem.adv c.st).2.1, pc := it.pc + 1,
                                 held := it.held ++ (it.rem.adv c.st).2.2 } :: rest),
        log := c.log }

def exec (c : Cfg ι σ ρ) (sched : List Nat) : Cfg ι σ ρ := sched.foldl step c

/-! ## which steps the locks allow -/

/-- two acquisitions of the same lock exclude each other unless both are shared -/
def conflict (a b : Lock) : Bool := a.1 == b.1 && (a.2 != 0 || b.2 != 0)

/-- the locks thread `u` holds between steps (only the operation at the head of its queue can be
    under way) -/
def Cfg.holds (c : Cfg ι σ ρ) (u : Nat) : List Lock :=
  match c.thr u with
  | it :: _ => it.held
  | [] => []

/-- the lock that `t`'s next step acquires (if any) conflicts with no lock held by any thread
    (including `t` itself: the locks are not re-entrant) -/
def enabled (c : Cfg ι σ ρ) (t : Nat) : Prop :=
  ∀ it rest, c.thr t = it :: rest → ∀ lk, it.rem.acquires = some lk → ∀ u l, l ∈ c.holds u → conflict lk l = false

/-- every step of the schedule is one the locks allow -/
def respects (c : Cfg ι σ ρ) : List Nat → Prop
  | [] => True
  | t :: r => enabled c t ∧ respects (step c t) r

/-- `enabled`, checked against the threads in `us` only (decidable; sound when all other threads
    are idle, `Proofs.Locks.respects_of_respectsB`) -/
def enabledB (c : Cfg ι σ ρ) (t : Nat) (us : List Nat) : Bool :=
  match c.thr t with
  | it :: _ =>
    match it.rem.acquires with
    | some lk => us.all (fun u => (c.holds u).all (fun l => !conflict lk l))
    | none => true
  | [] => true

def respectsB (c : Cfg ι σ ρ) (us : List Nat) : List Nat → Bool
  | [] => true
  | t :: r => enabledB c t us && respectsB (step c t) us r

/-- initial configuration: thread `t` is to run `ops t`, each op `i` being the program `prog i` -/
def init (prog : ι → Prog σ ρ) (ops : Nat → List ι) (s0 : σ) : Cfg ι σ ρ :=
  { st := s0, thr := fun t => (ops t).map (fun i => { op := i, rem := prog i, pc := 0 }), log := [] }

/-- sequential run of a list of operations: final state and the results in order -/
def seqRun (prog : ι → Prog σ ρ) : List ι → σ → σ × List ρ
  | [], s => (s, [])
  | i :: is, s =>
    let r := (prog i).run s
    let rest := seqRun prog is r.1
    (rest.1, r.2 :: rest.2)

/-! ## check-then-act operations and their atomic counterparts -/

/-- which operations are check-then-act, and their parts -/
structure CtaOps (ι σ ρ : Type) where
  is : ι → Bool
  lk1 : ι → Lock
  lk2 : ι → Lock
  chk : ι → σ → Bool
  err : ι → ρ
  act : ι → σ → σ × ρ

namespace CtaOps

/-- `prog` really has the check-then-act form `K` says -/
def describes (K : CtaOps ι σ ρ) (prog : ι → Prog σ ρ) : Prop :=
  ∀ i, K.is i = true → prog i = Prog.cta (K.lk1 i) (K.lk2 i) (K.chk i) (K.err i) (K.act i)

/-- the same operations, every check-then-act replaced by ONE section that checks and acts -/
def fuse (K : CtaOps ι σ ρ) (prog : ι → Prog σ ρ) : ι → Prog σ ρ :=
  fun i => if K.is i then Prog.fused (K.lk2 i) (K.chk i) (K.err i) (K.act i) else prog i

/-- thread `t`'s next step is the first section of a check-then-act whose check passes
    (it changes nothing; the act follows in a later step) -/
def passes (K : CtaOps ι σ ρ) (c : Cfg ι σ ρ) (t : Nat) : Bool :=
  match c.thr t with
  | it :: _ => K.is it.op && it.pc == 0 && K.chk it.op c.st
  | [] => false

/-- the schedule with those first-section steps removed: the fused op runs where the ACT ran -/
def reduce (K : CtaOps ι σ ρ) (c : Cfg ι σ ρ) : List Nat → List Nat
  | [] => []
  | t :: r => if K.passes c t then reduce K (step c t) r else t :: reduce K (step c t) r

/-- side condition at one step: while another thread `u` is between the two sections of a
    check-then-act (its check has passed), this step does not falsify `u`'s check -/
def stableStep (K : CtaOps ι σ ρ) (c : Cfg ι σ ρ) (t : Nat) : Prop :=
  ∀ u, u ≠ t → ∀ it rest, c.thr u = it :: rest → K.is it.op = true → it.pc > 0 →
    K.chk it.op c.st = true → K.chk it.op (step c t).st = true

/-- the side condition along a whole schedule -/
def stable (K : CtaOps ι σ ρ) (c : Cfg ι σ ρ) : List Nat → Prop
  | [] => True
  | t :: r => K.stableStep c t ∧ stable K (step c t) r

/-- the side condition checked for the threads in `us` only (decidable; see
    `Proofs.Locks.stable_of_stableB`: sound when all other threads are idle) -/
def stableStepB (K : CtaOps ι σ ρ) (c : Cfg ι σ ρ) (t : Nat) (us : List Nat) : Bool :=
  us.all (fun u => u == t ||
    match c.thr u with
    | it :: _ => !(K.is it.op && decide (it.pc > 0) && K.chk it.op c.st) || K.chk it.op (step c t).st
    | [] => true)

def stableB (K : CtaOps ι σ ρ) (c : Cfg ι σ ρ) (us : List Nat) : List Nat → Bool
  | [] => true
  | t :: r => stableStepB K c t us && stableB K (step c t) us r

end CtaOps

/-! ## nested sections: an outer lock held across an inner section -/

/-- the part of the state an outer lock protects, as a projection with an update -/
structure Lens (σ β : Type) where
  get : σ → β
  set : β → σ → σ

/-- which operations are NESTED sections and their parts.  A nested operation takes the outer lock
    `(S, exclusive)` and does `pre` on the protected part `β` (step 1, the lock stays held); unless
    `early` already answers, it takes the inner lock `lkI` and does `mid` (step 2: the inner section;
    `mid` may depend on the protected part seen at step 1); after the inner lock is released it does
    `post` on the protected part (which may depend on the state the inner section saw) and releases
    the outer lock (step 3). -/
structure NestOps (ι σ ρ β : Type) where
  L : Lens σ β
  S : Nat
  is : ι → Bool
  lkI : ι → Lock
  pre : ι → β → β
  early : ι → β → Option ρ
  mid : ι → β → σ → σ
  post : ι → σ → β → β
  res : ι → ρ

namespace NestOps
variable {β : Type}

/-- step 3 of a nested operation whose inner section saw `s1` -/
def tail (K : NestOps ι σ ρ β) (i : ι) (s1 : σ) : Prog σ ρ :=
  .act (fun s2 => K.L.set (K.post i s1 (K.L.get s2)) s2) (fun _ => .done (K.res i))

/-- steps 2 and 3 of a nested operation that saw the protected part `b0` at step 1 -/
def inner (K : NestOps ι σ ρ β) (i : ι) (b0 : β) : Prog σ ρ :=
  .sec (K.lkI i) (K.mid i b0) (fun s1 => K.tail i s1)

/-- the nested program -/
def nested (K : NestOps ι σ ρ β) (i : ι) : Prog σ ρ :=
  .hold (K.S, 1) (fun s => K.L.set (K.pre i (K.L.get s)) s) (fun s0 =>
    match K.early i (K.L.get s0) with
    | some r => .done r
    | none => K.inner i (K.L.get s0))

/-- what the three steps do when nothing runs in between -/
def eff (K : NestOps ι σ ρ β) (i : ι) (s : σ) : σ × ρ :=
  match K.early i (K.L.get s) with
  | some r => (K.L.set (K.pre i (K.L.get s)) s, r)
  | none =>
    let s1 := K.L.set (K.pre i (K.L.get s)) s
    let s2 := K.mid i (K.L.get s) s1
    (K.L.set (K.post i s1 (K.L.get s2)) s2, K.res i)

def describes (K : NestOps ι σ ρ β) (prog : ι → Prog σ ρ) : Prop :=
  ∀ i, K.is i = true → prog i = K.nested i

/-- the same operations, every nested one replaced by ONE section (under the outer lock) -/
def fuse (K : NestOps ι σ ρ β) (prog : ι → Prog σ ρ) : ι → Prog σ ρ :=
  fun i => if K.is i then Prog.atomic (K.S, 1) (K.eff i) else prog i

/-- a section that does not take the outer lock neither reads nor writes the protected part:
    it commutes with every change of that part, its continuation does not depend on it, and it
    leaves it as it is -/
def indep (K : NestOps ι σ ρ β) (upd : σ → σ) (next : σ → Prog σ ρ) : Prop :=
  ∀ s x, upd (K.L.set x s) = K.L.set x (upd s) ∧ next (K.L.set x s) = next s ∧ K.L.get (upd s) = K.L.get s

/-- a program made of un-nested sections, each of which either takes the outer lock or is
    independent of the protected part -/
def good (K : NestOps ι σ ρ β) : Prog σ ρ → Prop
  | .done _ => True
  | .sec lk upd next => (lk.1 ≠ K.S → K.indep upd next) ∧ ∀ s, good K (next s)
  | .hold _ _ _ => False
  | .act _ _ => False

/-- thread `t`'s next step is step 1 of a nested operation that goes on to its inner section, or
    step 3 of one: these steps have no counterpart in the run of the fused operations (the fused
    operation runs where the INNER section ran) -/
def skips (K : NestOps ι σ ρ β) (c : Cfg ι σ ρ) (t : Nat) : Bool :=
  match c.thr t with
  | it :: _ => K.is it.op && ((it.pc == 0 && (K.early it.op (K.L.get c.st)).isNone) || it.pc == 2)
  | [] => false

def reduce (K : NestOps ι σ ρ β) (c : Cfg ι σ ρ) : List Nat → List Nat
  | [] => []
  | t :: r => if K.skips c t then reduce K (step c t) r else t :: reduce K (step c t) r

end NestOps

/-- the completions of thread `t`, oldest first -/
def logOf (log : List (Nat × ι × ρ)) (t : Nat) : List (Nat × ι × ρ) := log.filter (fun e => e.1 == t)

/-! ## lock-level view: who holds and who waits (for deadlock freedom) -/

/-- a lock-level snapshot of the thread pool: the locks each thread holds and the one it waits for -/
structure LockState where
  holds : Nat → List Nat
  waits : Nat → Option Nat

/-- `t` waits for a lock that `u` holds -/
def LockState.waitsFor (L : LockState) (t u : Nat) : Prop :=
  ∃ l, L.waits t = some l ∧ l ∈ L.holds u

/-- the protocol "never request a lock while holding one" -/
def LockState.noNested (L : LockState) : Prop :=
  ∀ t, L.waits t ≠ none → L.holds t = []

/-- the protocol "request a lock only if it is above (in `rank`) every lock held" -/
def LockState.orderedBy (L : LockState) (rank : Nat → Nat) : Prop :=
  ∀ t l, L.waits t = some l → ∀ h, h ∈ L.holds t → rank h < rank l

/-- a wait-for chain t₀ → t₁ → … -/
def LockState.chain (L : LockState) : List Nat → Prop
  | [] => True
  | [_] => True
  | a :: b :: r => L.waitsFor a b ∧ LockState.chain L (b :: r)

/-- when no method nests lock acquisitions, a thread is idle, waits for one lock while holding
    none, or holds exactly one lock -/
inductive Phase where
  | idle
  | waiting (l : Nat)
  | holding (l : Nat)

def LockState.ofPhases (ph : Nat → Phase) : LockState where
  holds := fun t => match ph t with
    | .holding l => [l]
    | _ => []
  waits := fun t => match ph t with
    | .waiting l => some l
    | _ => none

/-! ## the section structure of the storage methods -/

/-- the sections `Generated.lockShape` lists for (backend, method): one per lock acquisition, each
    the list of locks held at that moment in acquisition order, the acquired one last -/
def shapeOf (b : Backend) (m : Nat) : Option (List (List Lock)) :=
  let bn := match b with
    | .mem => 0
    | .sql => 1
  (Generated.lockShape.find? (fun e => e.1 == bn && e.2.1 == m)).map (·.2.2.2.1)

/-- the order in which locks may be taken while others are held: `group_snapshots` (lock 1) before
    `inner` (lock 0); the sqlite connection (lock 2) is never combined with another lock -/
def lockRank : Nat → Nat
  | 1 => 0
  | 0 => 1
  | _ => 2

/-- the locks of one section are taken in strictly increasing rank (in particular no lock twice) -/
def stackOrdered (rank : Nat → Nat) : Nat → List Lock → Bool
  | _, [] => true
  | b, l :: ls => decide (b ≤ rank l.1) && stackOrdered rank (rank l.1 + 1) ls

def lkInnerR : Lock := (0, 0)
def lkInnerW : Lock := (0, 1)
def lkSnapsR : Lock := (1, 0)
def lkSnapsW : Lock := (1, 1)
def lkConn : Lock := (2, 1)

/-- the second section of memory `rollback_group_to_snapshot` (`restore_group_scoped_snapshot`):
    everything `restoreFrom` does except touching the snapshot map, which the first section did -/
def restoreInner (s : Store) (p : Snap) : Store :=
  match restoreFrom s p with
  | some s' => { s' with snaps := s.snaps }
  | none => s

/-- sqlite `replace_group_relays`, second section: DELETE + INSERTs under a savepoint; the foreign
    key makes an INSERT fail (⇒ ROLLBACK TO) when the group row is missing -/
def sqlReplaceRelaysAct (gid : Nat) (rs : List Nat) (s : Store) : Store × String :=
  let rs' := sortBy natLt rs.eraseDups
  if (findGroup s gid).isNone && !rs'.isEmpty then (s, "err")
  else ({ s with relays := ainsert gid rs' s.relays }, "ok")

/-- sqlite `save_group_exporter_secret`, second section: INSERT OR REPLACE, FK-checked -/
def sqlSaveSecretAct (gid epoch v : Nat) (s : Store) : Store × String :=
  if (findGroup s gid).isNone then (s, "err")
  else ({ s with secrets := upsertSecret gid epoch v s.secrets }, "ok")

def exists? (gid : Nat) (s : Store) : Bool := (findGroup s gid).isSome

/-- method number in `Generated.lockShape` (the fixed numbering of tools/lockshape.py);
    `updLast` and `dump` are harness composites, not trait methods -/
def methodOf : Op → Option Nat
  | .saveGroup _ => some 0
  | .findGroup _ => some 1
  | .findGroupNostr _ => some 2
  | .allGroups => some 3
  | .saveMessage _ => some 4
  | .findMessage _ _ => some 5
  | .messages _ _ _ _ => some 6
  | .lastMessage _ _ => some 7
  | .savePm _ => some 8
  | .findPm _ => some 9
  | .invalMsgs _ _ => some 10
  | .invalPms _ _ => some 11
  | .findInvalMsgs _ => some 12
  | .findInvalPms _ => some 13
  | .failedRetry _ => some 14
  | .markRetryable _ => some 15
  | .findEpochByTag _ _ _ => some 16
  | .admins _ => some 17
  | .relays _ => some 18
  | .replaceRelays _ _ => some 19
  | .getSecret _ _ => some 20
  | .saveSecret _ _ _ => some 21
  | .saveWelcome _ => some 22
  | .findWelcome _ => some 23
  | .pendingWelcomes _ _ => some 24
  | .savePw _ => some 25
  | .findPw _ => some 26
  | .snapCreate _ _ _ => some 27
  | .snapRollback _ _ => some 28
  | .snapRelease _ _ => some 29
  | .snapList _ => some 30
  | .snapPrune _ => some 31
  | .mlsWrite _ _ _ => some 90      -- write_tree / tree / delete_tree stand for the OpenMLS
  | .mlsRead _ _ => some 91         -- `StorageProvider` methods (all of which are one section,
  | .mlsDelete _ _ => some 92       -- `Props.C19.provider_methods_single_section`)
  | .updLast _ _ _ _ => none
  | .dump => none

/-- does the operation only read? (memory takes the shared lock for these) -/
def isRead : Op → Bool
  | .findGroup _ | .findGroupNostr _ | .allGroups | .findMessage _ _ | .messages _ _ _ _
  | .lastMessage _ _ | .findPm _ | .findInvalMsgs _ | .findInvalPms _ | .failedRetry _
  | .findEpochByTag _ _ _ | .admins _ | .relays _ | .getSecret _ _ | .findWelcome _
  | .pendingWelcomes _ _ | .findPw _ | .mlsRead _ _ | .snapList _ | .dump => true
  | _ => false

/-- the whole operation in one section -/
def whole (lk : Lock) (op : Op) : Prog Store String := Prog.atomic lk (fun s => Store.step s op)

/-- the snapshot map, the part of the memory store that the `group_snapshots` lock protects -/
def snapsLens : Lens Store (List Snap) :=
  { get := fun s => s.snaps, set := fun x s => { s with snaps := x } }

def lookSnap (b : List Snap) (gid name : Nat) : Option Snap := b.find? (fun p => p.gid == gid && p.name == name)

/-- memory `create_group_snapshot` / `rollback_group_to_snapshot` as NESTED sections (lock order
    `group_snapshots` → `inner`), the form they have once the `group_snapshots` write guard is held
    across the capture + insert / across the restore:
    * rollback: under `group_snapshots.write` the snapshot is removed from the map (`?`-return when
      it is not there); with that guard still held `restore_group_scoped_snapshot` takes
      `inner.write` and restores the group; then both guards are dropped;
    * create: `group_snapshots.write` is taken (nothing is done yet); with it held
      `create_group_scoped_snapshot` takes `inner.read` and captures the group; after `inner` is
      released the capture is inserted into the map; then the guard is dropped. -/
def memNest : NestOps Op Store String (List Snap) where
  L := snapsLens
  S := 1
  is := fun op => match op with
    | .snapCreate _ _ _ | .snapRollback _ _ => true
    | _ => false
  lkI := fun op => match op with
    | .snapCreate _ _ _ => lkInnerR
    | _ => lkInnerW
  pre := fun op b => match op with
    | .snapRollback g n => dropSnap g n b
    | _ => b
  early := fun op b => match op with
    | .snapRollback g n => (match lookSnap b g n with
        | none => some "err"
        | some _ => none)
    | _ => none
  mid := fun op b s => match op with
    | .snapRollback g n => (match lookSnap b g n with
        | some p => restoreInner s p
        | none => s)
    | _ => s
  post := fun op s1 b => match op with
    | .snapCreate g n ts => dropSnap g n b ++ [takeSnap s1 g n ts]
    | _ => b
  res := fun _ => "ok"

/-- memory backend: one `inner` section per method, except `create_group_snapshot` and
    `rollback_group_to_snapshot`, which use BOTH locks:
    * `nested = false` (the source up to the repair of finding `mem-snapshot-two-locks`): two SEPARATE
      sections — create: `inner.read` then `group_snapshots.write`; rollback: `group_snapshots.write`
      (a temporary guard) then `inner.write`;
    * `nested = true` (the repaired source): `memNest`, `group_snapshots.write` held across the
      `inner` section.
    Which one the CURRENT source has is read off `Generated.lockShape` (`memSnapNested`).
    (`save_message` used to be check-then-act — existence check under the read
    lock, insertion under the write lock; since /repo 6aa9b6e the check is inside the write-lock
    section.  Should the source regress, `Generated.lockShape` changes and
    `Props.C19.lockProg_follows_shape` no longer checks.) -/
def memProgWith (nested : Bool) : Op → Prog Store String
  | .snapCreate gid name ts =>
    if nested then memNest.nested (.snapCreate gid name ts)
    else
    .sec lkInnerR (fun s => s) (fun s =>
      let p := takeSnap s gid name ts
      Prog.atomic lkSnapsW (fun s' => ({ s' with snaps := dropSnap gid name s'.snaps ++ [p] }, "ok")))
  | .snapRollback gid name =>
    if nested then memNest.nested (.snapRollback gid name)
    else
    .sec lkSnapsW (fun s => { s with snaps := dropSnap gid name s.snaps }) (fun s =>
      match findSnap s gid name with
      | none => .done "err"
      | some p => Prog.atomic lkInnerW (fun s' => (restoreInner s' p, "ok")))
  | .snapRelease gid name => whole lkSnapsW (.snapRelease gid name)
  | .snapList gid => whole lkSnapsR (.snapList gid)
  | .snapPrune t => whole lkSnapsW (.snapPrune t)
  | .updLast gid c p i =>
    -- harness composite: find_group_by_mls_group_id, then save_group of the updated record
    .sec lkInnerR (fun s => s) (fun s =>
      match findGroup s gid with
      | none => .done "err"
      | some g => Prog.atomic lkInnerW (fun s' =>
          match saveGroup s' (updLast g (c, p, i)) with
          | some s'' => (s'', if dominates g (c, p, i) then "true" else "false")
          | none => (s', "err")))
  | op => whole (if isRead op then lkInnerR else lkInnerW) op

/-- the two shapes `tools/lockshape.py` can report for the two memory methods that use both locks -/
def shapeTwoSections : List (List Lock) × List (List Lock) := ([[lkInnerR], [lkSnapsW]], [[lkSnapsW], [lkInnerW]])
def shapeNested : List (List Lock) × List (List Lock) := ([[lkSnapsW], [lkSnapsW, lkInnerR]], [[lkSnapsW], [lkSnapsW, lkInnerW]])

/-- does the CURRENT source hold `group_snapshots` across the `inner` section in
    `create_group_snapshot` (method 27) and `rollback_group_to_snapshot` (method 28)? -/
def memSnapNested : Bool :=
  shapeOf .mem 27 == some shapeNested.1 && shapeOf .mem 28 == some shapeNested.2

def memProg : Op → Prog Store String := memProgWith memSnapNested

/-- sqlite backend: every `with_connection` / `connection.lock()` is one section.  Six methods
    call `find_group_by_mls_group_id` first (own section) and then open a second section. -/
def sqlProg : Op → Prog Store String
  | .messages gid l o so =>
    if (l.getD Generated.defaultMessageLimit) < 1 || (l.getD Generated.defaultMessageLimit) > Generated.maxMessageLimit then .done "err"
    else Prog.cta lkConn lkConn (exists? gid) "err" (fun s =>
      let off := if o.getD 0 ≥ two63 then (if Generated.sqlOffsetClamped then two63 - 1 else 0) else o.getD 0
      (s, listShow Msg.show (page (listing s gid (so.getD 0)) off (l.getD Generated.defaultMessageLimit))))
  | .lastMessage gid so =>
    Prog.cta lkConn lkConn (exists? gid) "err" (fun s => (s, optShow Msg.show (listing s gid so).head?))
  | .relays gid =>
    Prog.cta lkConn lkConn (exists? gid) "err" (fun s => (s, natList ((alookup gid s.relays).getD [])))
  | .replaceRelays gid rs =>
    Prog.cta lkConn lkConn (exists? gid) "err" (sqlReplaceRelaysAct gid rs)
  | .getSecret gid e =>
    Prog.cta lkConn lkConn (exists? gid) "err" (fun s =>
      (s, optShow toString ((s.secrets.find? (fun t => t.1 == gid && t.2.1 == e)).map (·.2.2))))
  | .saveSecret gid e v =>
    Prog.cta lkConn lkConn (exists? gid) "err" (sqlSaveSecretAct gid e v)
  | .updLast gid c p i =>
    .sec lkConn (fun s => s) (fun s =>
      match findGroup s gid with
      | none => .done "err"
      | some g => Prog.atomic lkConn (fun s' =>
          match saveGroup s' (updLast g (c, p, i)) with
          | some s'' => (s'', if dominates g (c, p, i) then "true" else "false")
          | none => (s', "err")))
  | op => whole lkConn op

def lockProg : Backend → Op → Prog Store String
  | .mem => memProg
  | .sql => sqlProg

/-- which operations are a single section on which backend (everything but the listed ones) -/
def singleOp : Backend → Op → Bool
  | .mem, .snapCreate _ _ _ | .mem, .snapRollback _ _ | _, .updLast _ _ _ _ => false
  | .sql, .messages _ _ _ _ | .sql, .lastMessage _ _ | .sql, .relays _ | .sql, .replaceRelays _ _
  | .sql, .getSecret _ _ | .sql, .saveSecret _ _ _ => false
  | _, _ => true

/-! ## per-group projection (for the frame property) -/

/-- everything the store holds for group `g` (its record, relays, exporter secrets, OpenMLS rows,
    messages, snapshots) -/
structure GroupView where
  group : Option Group
  relays : Option (List Nat)
  secrets : List (Nat × Nat)
  mls : List (Nat × Nat)
  msgs : List Msg
  snaps : List Snap

def view (s : Store) (g : Nat) : GroupView :=
  { group := findGroup s g, relays := alookup g s.relays, secrets := groupSecrets s g, mls := groupMls s g,
    msgs := groupMsgs s g, snaps := s.snaps.filter (·.gid == g) }

/-- the group a writing operation is addressed to (`snap_rollback` is left to C09, whose theorem is
    exactly that a rollback changes one group only) -/
def opGroup : Op → Option Nat
  | .saveGroup g => some g.gid
  | .saveMessage m => some m.gid
  | .invalMsgs g _ => some g
  | .replaceRelays g _ => some g
  | .saveSecret g _ _ => some g
  | .mlsWrite g _ _ => some g
  | .mlsDelete g _ => some g
  | .snapCreate g _ _ => some g
  | .snapRelease g _ => some g
  | _ => none

end MdkVerif.Locks
