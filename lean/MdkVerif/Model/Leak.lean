/-
  MdkVerif.Model.Leak — a small semantics of *rendering* for property C14
  ("logs and errors never carry group identifiers or secrets").

  Import-free, executable, kernel-reducible (Nat, List, structures; structural recursion only).

  * A rendered text is a list of `Atom`s.  `Atom.pub n` stands for any public piece of text,
    `Atom.sec k n` for an occurrence — in ANY spelling: hex, upper-case hex, `[1, 2, 3]` byte list,
    base64 — of protected value number `n` of kind `k` (the five kinds the property lists).
  * Every argument expression of a tracing call / error format / free-text error constructor /
    manual `Debug`-`Display` impl has a CLASS (`Cls`), assigned by tools/gen_leak.py from the
    current source.  A class is *sensitive* when a value of it may contain a `sec` atom.
  * A value (`Val`) is a leaf of some class, a text BUILT at one of the extracted sites from argument
    values (free text of an error payload is built at an `errCtor` site; an mdk error value is formatted
    by an `errFmt` row), or a value behind a redacting wrapper (`Secret<T>`, `"[REDACTED]"`).
  * `fits T c v` says that `v` is a possible run-time value of an argument of class `c`, given the
    extracted tables `T` — this is where the meaning of a class is fixed: a leaf of a clean class
    carries only `pub` atoms (the TRUSTED part: the classification rules of the translator and
    "third-party Display/Debug is clean"), sensitive leaves carry anything.
-/
namespace MdkVerif.Leak

/-- the five protected kinds of value of C14 -/
inductive SecKind where
  | mlsGroupId | nostrGroupId | exporterSecret | imageKey | dbKey
  deriving DecidableEq, Repr, Inhabited

inductive Atom where
  | pub (n : Nat)
  | sec (k : SecKind) (n : Nat)
  deriving DecidableEq, Repr, Inhabited

def Atom.isPub : Atom → Bool
  | .pub _ => true
  | .sec _ _ => false

/-- argument classes (the translator's lattice; order is irrelevant) -/
inductive Cls where
  | const        -- literal / named constant / label of a field-less enum / &'static str
  | count        -- len() / count()
  | number       -- epoch, timestamp, kind, leaf index, size, bool …
  | errOpaque    -- a third-party error value rendered with {} / {:?}   (TRUSTED clean)
  | errMdk       -- an error value of one of the mdk error enums (formatted by an `errFmt` row), or a
                 --   third-party error whose type the translator could not tell apart
  | text         -- free text of a String payload (built at an `errCtor` site)
  | eventId      -- Nostr event id (wrapper / rumor / commit id): public, NOT one of the protected values
  | pubkey       -- Nostr public key / credential identity: public
  | publicMeta   -- other public metadata: MIME label, file path, keyring entry label, blob hash, tag echo
  | redacted     -- a value behind a redacting wrapper (`Secret<T>`, `[REDACTED]` literal field)
  | groupId      -- MLS group id (GroupId, hex or Debug)
  | nostrGroupId -- Nostr group id
  | secret       -- exporter secret, image key / nonce / seed, DB key, any key material
  | snapshotName -- name of a stored group snapshot (mdk's own names embed the group id hex)
  | unknown      -- no rule matched: treated as possibly sensitive
  deriving DecidableEq, Repr, Inhabited

def Cls.sensitive : Cls → Bool
  | .groupId | .nostrGroupId | .secret | .snapshotName | .unknown => true
  | _ => false

inductive Kind where
  | log | errFmt | errCtor | fmtImpl | derived
  deriving DecidableEq, Repr, Inhabited

/-- one extracted site: a tracing call, an error-enum variant, a construction of a free-text payload,
    a manual Debug/Display impl, or a derived Debug of a type holding a sensitive field -/
structure Site where
  id : Nat
  kind : Kind
  args : List Cls
  deriving DecidableEq, Repr, Inhabited

def Site.clean (s : Site) : Bool := s.args.all (fun c => !c.sensitive)

/-- the extracted tables a run is interpreted against -/
structure Tables where
  logSites : List Site
  errorFormats : List Site
  errorCtors : List Site
  fmtImpls : List Site
  deriving Repr, Inhabited

def findSite (id : Nat) : List Site → Option Site
  | [] => none
  | s :: r => if s.id = id then some s else findSite id r

def Tables.buildersClean (T : Tables) : Bool :=
  T.errorFormats.all Site.clean && T.errorCtors.all Site.clean

/-- run-time values of arguments -/
inductive Val where
  | leaf (c : Cls) (atoms : List Atom)
  | built (site : Nat) (args : List Val)
  | wrapped (inner : Val)
  deriving Repr, Inhabited

mutual
  /-- the atoms a value contributes to the rendered record -/
  def Val.render : Val → List Atom
    | .leaf _ atoms => atoms
    | .built _ args => renderL args
    | .wrapped _ => []            -- `Secret(***)` / `[REDACTED]`: fixed text whatever is inside
  def renderL : List Val → List Atom
    | [] => []
    | v :: vs => v.render ++ renderL vs
end

def allPub (l : List Atom) : Bool := l.all Atom.isPub

mutual
  /-- `fits T c v`: `v` is a possible value of an argument of class `c` -/
  def fits (T : Tables) : Cls → Val → Bool
    | c, .leaf c' atoms =>
        if c = .text || c = .redacted then false
        else if c = .errMdk then (c' = .errOpaque || c' = .const) && allPub atoms   -- third-party error / fixed text
        else c' = c && (c.sensitive || allPub atoms)
    | c, .built sid args =>
        if c = .text then
          match findSite sid T.errorCtors with
          | some s => fitsL T s.args args
          | none => false
        else if c = .errMdk then
          match findSite sid T.errorFormats with
          | some s => fitsL T s.args args
          | none => false
        else false
    | c, .wrapped _ => c = .redacted
  def fitsL (T : Tables) : List Cls → List Val → Bool
    | [], [] => true
    | c :: cs, v :: vs => fits T c v && fitsL T cs vs
    | _, _ => false
end

/-- one emitted record / rendered value: the site that produced it and its argument values -/
structure Record where
  site : Nat
  args : List Val
  deriving Repr, Inhabited

def Record.render (r : Record) : List Atom := renderL r.args

/-- `r` can be produced by a site of table `tbl` -/
def emittedBy (T : Tables) (tbl : List Site) (r : Record) : Bool :=
  match findSite r.site tbl with
  | some s => fitsL T s.args r.args
  | none => false

/-- verdict used by the driver: does the table allow a protected value at this site? -/
def siteVerdict (tbl : List Site) (id : Nat) : String :=
  match findSite id tbl with
  | some s => if s.clean then "clean" else "sensitive"
  | none => "absent"

end MdkVerif.Leak
