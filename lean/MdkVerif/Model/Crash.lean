import MdkVerif.Model.Store
/-
  MdkVerif.Model.Crash — statement-level model of an API call on the SQLite backend (C12).

  An API call is a list of statements executed on ONE connection in autocommit mode.  `exec f` is
  a data statement (its effect `f` on the database contents), `read` a SELECT, `begin` / `commit`
  an explicit transaction (BEGIN IMMEDIATE … COMMIT), `savepoint` / `release` a SAVEPOINT …
  RELEASE pair (which, outside a transaction, opens one: SQLite semantics).
  Process death after `k` statements (`crashAt k`): what is found on reopening is the COMMITTED
  contents; the working copy of an open transaction is dropped.

  Not modelled: durability below the statement level (fsync, journal / WAL recovery) — that an
  interrupted COMMIT is all-or-nothing is SQLite's guarantee.
-/
namespace MdkVerif.Crash

inductive Stmt (δ : Type) where
  | exec (f : δ → δ)
  | read
  | begin
  | commit
  | savepoint
  | release

structure Db (δ : Type) where
  committed : δ
  work : Option δ        -- working copy of the open transaction, if any
  depth : Nat            -- nesting depth (transaction = 1, savepoints inside add 1 each)

variable {δ : Type}

def Db.fresh (d : δ) : Db δ := { committed := d, work := none, depth := 0 }

/-- what the connection itself sees -/
def Db.cur (d : Db δ) : δ := d.work.getD d.committed

def step (d : Db δ) : Stmt δ → Db δ
  | .exec f =>
    match d.work with
    | some w => { d with work := some (f w) }
    | none => { d with committed := f d.committed }          -- autocommit
  | .read => d
  | .begin =>
    match d.work with
    | none => { d with work := some d.committed, depth := 1 }
    | some _ => d                                             -- "cannot start a transaction within a transaction"
  | .commit =>
    match d.work with
    | some w => { committed := w, work := none, depth := 0 }
    | none => d
  | .savepoint =>
    match d.work with
    | none => { d with work := some d.committed, depth := 1 }
    | some _ => { d with depth := d.depth + 1 }
  | .release =>
    match d.work with
    | some w => if d.depth ≤ 1 then { committed := w, work := none, depth := 0 } else { d with depth := d.depth - 1 }
    | none => d

def run (d : Db δ) (l : List (Stmt δ)) : Db δ := l.foldl step d

/-- contents found after the process died having executed `k` statements of the call -/
def crashAt (k : Nat) (call : List (Stmt δ)) (d0 : δ) : δ := (run (Db.fresh d0) (call.take k)).committed

/-- contents after the uninterrupted call -/
def complete (call : List (Stmt δ)) (d0 : δ) : δ := (run (Db.fresh d0) call).committed

/-- the effect of a list of data statements -/
def effect (body : List (δ → δ)) (d : δ) : δ := body.foldl (fun x f => f x) d

/-- a call that SELECTs (`reads` statements) and then runs `body` inside BEGIN … COMMIT when
    `inTxn`, bare otherwise -/
def txnCall (inTxn : Bool) (reads : Nat) (body : List (δ → δ)) : List (Stmt δ) :=
  List.replicate reads .read ++
    (if inTxn then [.begin] ++ body.map .exec ++ [.commit] else body.map .exec)

/-- the same with SAVEPOINT … RELEASE -/
def savepointCall (inSp : Bool) (reads : Nat) (body : List (δ → δ)) : List (Stmt δ) :=
  List.replicate reads .read ++
    (if inSp then [.savepoint] ++ body.map .exec ++ [.release] else body.map .exec)

end MdkVerif.Crash
