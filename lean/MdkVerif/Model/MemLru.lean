import MdkVerif.Model.Store
import MdkVerif.Model.Lru
/-
  MdkVerif.Model.MemLru — the memory backend (`crates/mdk-memory-storage`) WITH its LRU caches.

  `Model/Store.lean` (`.mem` flavour) treats the nine caches of `MdkMemoryStorageInner` as unbounded
  maps.  Here every cache is what the code keeps: its content plus its recency order, with the
  capacity `cache_size` (`ValidationLimits::with_cache_size`, the same for all nine caches) and the
  per-group message cap `max_messages_per_group`.

  Representation (see `Model/Lru.lean` §2 and `Proofs/Lru.lean`): the CONTENT of the caches is a
  `Store` value `u` of the `.mem` flavour (the tables of the unbounded model: an entry is in the
  table iff it is in the cache), the RECENCY ORDER of each cache is a queue of its keys, most
  recently used first.  An operation is: the content change the code performs (the function of
  `Model/Store.lean`, the code path is the same), the queue operations in the code's order
  (`put` → `qTouch`, `get_mut` → `qPromote`, `pop` → `qRemove`, `peek`/`iter`/`iter_mut` → nothing),
  and for every key a `put` pushes out, the removal of that key from the content of THAT cache only.

  cache (lib.rs)                 key            content            queue       put / get_mut / pop by
  groups_cache                   mls group id   u.groups           qGroups     save_group put; restore pop+put
  groups_by_nostr_id_cache       nostr id       u.byNid            qByNid      save_group pop(stale)+put; restore pop+put
  group_relays_cache             mls group id   u.relays           qRelays     replace_group_relays put; restore pop+put
  group_exporter_secrets_cache   (gid, epoch)   u.secrets          qSecrets    save_group_exporter_secret put; restore pop*+put*
  welcomes_cache                 event id       u.welcomes         qWelcomes   save_welcome put
  processed_welcomes_cache       wrapper id     u.pws              qPws        save_processed_welcome put
  messages_cache                 message id     byId               qById       save_message put (+pop of the cap victim);
                                                                               invalidate_messages get_mut — NO trait method reads it
  messages_by_group_cache        mls group id   u.msgs (by gid)    qMsgGroups  save_message get_mut / put; invalidate_messages get_mut
  processed_messages_cache       wrapper id     u.pms              qPms        save_processed_message put; mark_retryable get_mut
  (all reads — find_*, messages, last_message, all_groups, pending_welcomes, admins, group_relays,
   get_group_exporter_secret, find_invalidated_*, find_failed_*, find_message_epoch_by_tag_content,
   create_group_snapshot — use `peek` / `iter` only: they never change a recency order.)
  The OpenMLS tables and the snapshot map are `HashMap`s: unbounded, as in `Model/Store.lean`.

  One place where the code iterates a `HashMap` and the ORDER matters once a capacity is reached is resolved by a
  choice argument `ch` of `step` (theorems quantify over every `ch`):
    * `restore_group_scoped_snapshot`: `for (epoch, secret) in snapshot.group_exporter_secrets` puts
      the group's secrets back in map order; `ch` lists the epochs in the order used.
  `save_message` at `max_messages_per_group` is deterministic since /repo 3a82aa4: the victim is the minimum of the
  comparator chain re-extracted into `Generated.memCapVictimKeys` (0 = created_at, 1 = processed_at, 2 = id;
  `Generated.memCapVictimIsMin`) — the last message of the default listing order.  (Before: `min_by_key(created_at)`
  over the map, i.e. among equally old messages whichever the map yielded first, so the message the group's
  last-message pointer designates could be the victim.)
  Everything else is deterministic.  `MemoryStorageSnapshot` (`create_snapshot` / `restore_snapshot`,
  inherent methods, not part of the storage traits, not called by mdk-core) is not modelled.
-/
namespace MdkVerif.MemLru
open MdkVerif MdkVerif.Store MdkVerif.Lru

structure MemStore where
  cap : Nat                       -- cache_size
  msgCap : Nat                    -- max_messages_per_group
  u : Store                       -- content of the caches (+ OpenMLS tables, snapshot map), `.mem`
  byId : List (Nat × Msg)         -- content of messages_cache
  qGroups : List Nat
  qByNid : List Nat
  qRelays : List Nat
  qSecrets : List (Nat × Nat)
  qWelcomes : List Nat
  qPws : List Nat
  qById : List Nat
  qMsgGroups : List Nat
  qPms : List Nat
  evlog : List (Nat × Nat)        -- evictions so far, newest first: (cache code, key code); bookkeeping only
  deriving Repr

def MemStore.empty (cap msgCap : Nat) : MemStore :=
  { cap := cap, msgCap := msgCap, u := Store.empty .mem, byId := [], qGroups := [], qByNid := [], qRelays := [],
    qSecrets := [], qWelcomes := [], qPws := [], qById := [], qMsgGroups := [], qPms := [], evlog := [] }

/-! cache codes of `evlog`: 0 groups, 1 groups_by_nostr_id, 2 group_relays, 3 exporter secrets (key code
    gid*1000+epoch), 4 welcomes, 5 processed_welcomes, 6 messages (by id), 7 messages_by_group (a whole
    group's map), 8 processed_messages, 9 the per-group message cap (key = message id) -/

/-! ## `put` per cache: touch the queue, drop what was pushed out from that cache's content -/

def putGroups (s : MemStore) (gid : Nat) : MemStore :=
  let r := qTouch s.cap gid s.qGroups
  match r.2 with
  | none => { s with qGroups := r.1 }
  | some e => { s with qGroups := r.1, u := { s.u with groups := s.u.groups.filter (·.gid != e) }, evlog := (0, e) :: s.evlog }

def putByNid (s : MemStore) (nid : Nat) : MemStore :=
  let r := qTouch s.cap nid s.qByNid
  match r.2 with
  | none => { s with qByNid := r.1 }
  | some e => { s with qByNid := r.1, u := { s.u with byNid := aerase e s.u.byNid }, evlog := (1, e) :: s.evlog }

def putRelays (s : MemStore) (gid : Nat) : MemStore :=
  let r := qTouch s.cap gid s.qRelays
  match r.2 with
  | none => { s with qRelays := r.1 }
  | some e => { s with qRelays := r.1, u := { s.u with relays := aerase e s.u.relays }, evlog := (2, e) :: s.evlog }

def putSecrets (s : MemStore) (k : Nat × Nat) : MemStore :=
  let r := qTouch s.cap k s.qSecrets
  match r.2 with
  | none => { s with qSecrets := r.1 }
  | some e => { s with qSecrets := r.1,
                       u := { s.u with secrets := s.u.secrets.filter (fun t => !(t.1 == e.1 && t.2.1 == e.2)) },
                       evlog := (3, e.1 * 1000 + e.2) :: s.evlog }

def putWelcomes (s : MemStore) (id : Nat) : MemStore :=
  let r := qTouch s.cap id s.qWelcomes
  match r.2 with
  | none => { s with qWelcomes := r.1 }
  | some e => { s with qWelcomes := r.1, u := { s.u with welcomes := s.u.welcomes.filter (·.id != e) }, evlog := (4, e) :: s.evlog }

def putPws (s : MemStore) (w : Nat) : MemStore :=
  let r := qTouch s.cap w s.qPws
  match r.2 with
  | none => { s with qPws := r.1 }
  | some e => { s with qPws := r.1, u := { s.u with pws := s.u.pws.filter (·.wrapper != e) }, evlog := (5, e) :: s.evlog }

def putById (s : MemStore) (id : Nat) : MemStore :=
  let r := qTouch s.cap id s.qById
  match r.2 with
  | none => { s with qById := r.1 }
  | some e => { s with qById := r.1, byId := aerase e s.byId, evlog := (6, e) :: s.evlog }

/-- a new group's message map is put: the map pushed out takes ALL messages of its group with it
    (their copies in `messages_cache` stay behind) -/
def putMsgGroups (s : MemStore) (gid : Nat) : MemStore :=
  let r := qTouch s.cap gid s.qMsgGroups
  match r.2 with
  | none => { s with qMsgGroups := r.1 }
  | some e => { s with qMsgGroups := r.1, u := { s.u with msgs := s.u.msgs.filter (·.gid != e) }, evlog := (7, e) :: s.evlog }

def putPms (s : MemStore) (w : Nat) : MemStore :=
  let r := qTouch s.cap w s.qPms
  match r.2 with
  | none => { s with qPms := r.1 }
  | some e => { s with qPms := r.1, u := { s.u with pms := s.u.pms.filter (·.wrapper != e) }, evlog := (8, e) :: s.evlog }

/-! ## groups.rs -/

/-- `save_group`: validation, collision check (`peek` of the by-nostr-id cache), removal of the stale index
    entry (`peek` of the primary cache, `pop` of the old nostr id), `put` into the primary cache, `put` into the
    by-nostr-id cache — in this order; each `put` may push out the least recently used entry of ITS cache -/
def saveGroup (s : MemStore) (g : Group) : Option MemStore :=
  match Store.saveGroup s.u g with
  | none => none
  | some u' =>
    let qn := match findGroup s.u g.gid with
      | some old => if old.nid != g.nid then qRemove old.nid s.qByNid else s.qByNid
      | none => s.qByNid
    some (putByNid (putGroups { s with u := u', qByNid := qn } g.gid) g.nid)

def replaceRelays (s : MemStore) (gid : Nat) (rs : List Nat) : Option MemStore :=
  match Store.replaceRelays s.u gid rs with
  | none => none
  | some u' => some (putRelays { s with u := u' } gid)

def saveSecret (s : MemStore) (gid epoch v : Nat) : Option MemStore :=
  match Store.saveSecret s.u gid epoch v with
  | none => none
  | some u' => some (putSecrets { s with u := u' } (gid, epoch))

/-! ## messages.rs -/

/-- a field of the comparator chain: 0 = created_at, 1 = processed_at, otherwise the id -/
def fieldOf (k : Nat) (m : Msg) : Nat := if k = 0 then m.created else if k = 1 then m.processed else m.id

/-- `a.k₁.cmp(&b.k₁).then_with(|| a.k₂.cmp(&b.k₂))… == Less` -/
def chainLt : List Nat → Msg → Msg → Bool
  | [], _, _ => false
  | k :: ks, a, b => decide (fieldOf k a < fieldOf k b) || (fieldOf k a == fieldOf k b && chainLt ks a b)

/-- the order the eviction minimises (the chain as extracted; `max_by` flips it) -/
def capLt (a b : Msg) : Bool :=
  if Generated.memCapVictimIsMin then chainLt Generated.memCapVictimKeys a b else chainLt Generated.memCapVictimKeys b a

/-- `min_by`: the least element (the first of several equally small ones) -/
def argMin (lt : Msg → Msg → Bool) : List Msg → Option Msg
  | [] => none
  | m :: t => match argMin lt t with
    | none => some m
    | some b => if lt b m then some b else some m

/-- the victim of the per-group cap -/
def victim (gm : List Msg) : Option Nat := (argMin capLt gm).map (·.id)

/-- does this `save_message` push a message out of its group's map? -/
def capHit (s : MemStore) (m : Msg) : Bool :=
  decide (m.gid ∈ s.qMsgGroups) && !(groupMsgs s.u m.gid).any (·.id == m.id) &&
    decide ((groupMsgs s.u m.gid).length ≥ s.msgCap)

/-- `save_message`.  Group check (`peek`), then `messages_by_group_cache.get_mut(group)`:
    held → promoted; a NEW id at `max_messages_per_group` first removes the victim (`victim`: the last message of the
    default listing order) from the map and `pop`s it from `messages_cache`; then insert/replace in the map.  Not held → `put` of a fresh one-message map.
    Finally `messages_cache.put(id)`. -/
def saveMessage (s : MemStore) (m : Msg) : Option MemStore :=
  if (findGroup s.u m.gid).isNone then none
  else if m.gid ∈ s.qMsgGroups then
    let s1 : MemStore :=
      if capHit s m then
        match victim (groupMsgs s.u m.gid) with
        | some v => { s with u := { s.u with msgs := s.u.msgs.filter (fun x => !(x.gid == m.gid && x.id == v)) },
                             byId := aerase v s.byId, qById := qRemove v s.qById, evlog := (9, v) :: s.evlog }
        | none => s
      else s
    let s2 := { s1 with u := { s1.u with msgs := upsertMsg m s1.u.msgs }, qMsgGroups := qPromote m.gid s1.qMsgGroups }
    some (putById { s2 with byId := ainsert m.id m s2.byId } m.id)
  else
    let s2 := putMsgGroups { s with u := { s.u with msgs := upsertMsg m s.u.msgs } } m.gid
    some (putById { s2 with byId := ainsert m.id m s2.byId } m.id)

def savePm (s : MemStore) (p : PM) : MemStore := putPms { s with u := Store.savePm s.u p } p.wrapper

/-- `get_mut` of `messages_cache` for one invalidated id: promoted and marked, if held -/
def byIdInvalidate (acc : List (Nat × Msg) × List Nat) (id : Nat) : List (Nat × Msg) × List Nat :=
  match alookup id acc.1 with
  | none => acc
  | some m => (ainsert id { m with state := 3 } acc.1, qPromote id acc.2)

/-- `invalidate_messages_after_epoch`: `get_mut` of the group's map (promoted if held), the marking, then one
    `get_mut` of `messages_cache` per invalidated id (in map order — unobservable, see `byId`) -/
def invalMsgs (s : MemStore) (gid epoch : Nat) : MemStore × List Nat :=
  let r := Store.invalMsgs s.u gid epoch
  let b := r.2.foldl byIdInvalidate (s.byId, s.qById)
  ({ s with u := r.1, qMsgGroups := qPromote gid s.qMsgGroups, byId := b.1, qById := b.2 }, r.2)

/-- `invalidate_processed_messages_after_epoch`: `iter_mut`, no promotion -/
def invalPms (s : MemStore) (gid epoch : Nat) : MemStore × List Nat :=
  let r := Store.invalPms s.u gid epoch
  ({ s with u := r.1 }, r.2)

/-- `mark_processed_message_retryable`: `get_mut` promotes a held record whatever its state — also when
    the call then answers `NotFound` because the record is not `Failed` -/
def markRetryable (s : MemStore) (w : Nat) : MemStore × Bool :=
  let s1 := { s with qPms := qPromote w s.qPms }
  match Store.markRetryable s.u w with
  | none => (s1, false)
  | some u' => ({ s1 with u := u' }, true)

/-! ## welcomes.rs -/

def saveWelcome (s : MemStore) (w : Welcome) : Option MemStore :=
  match Store.saveWelcome s.u w with
  | none => none
  | some u' => some (putWelcomes { s with u := u' } w.id)

def savePw (s : MemStore) (p : PW) : MemStore := putPws { s with u := Store.savePw s.u p } p.wrapper

/-! ## lib.rs: group-scoped snapshots -/

/-- the order in which the restore puts the group's secrets back: the epochs of `ch` that the snapshot holds,
    then the remaining ones in list order, every epoch once -/
def secOrder (ch : List Nat) (es : List Nat) : List Nat :=
  ((ch.filter (· ∈ es)) ++ es).eraseDups

/-- `create_group_snapshot`: `peek` / `iter` only -/
def snapCreate (s : MemStore) (gid name ts : Nat) : Option MemStore :=
  match Store.snapCreate s.u gid name ts with
  | none => none
  | some u' => some { s with u := u' }

/-- `rollback_group_to_snapshot` → `restore_group_scoped_snapshot`: `peek` of the primary cache for the current
    nostr id, `pop` of the record, of that index entry (only if the record was held), of the relays, of every held
    secret of the group; then `put` of the snapshot's record into both group caches, of its relays (if any), of
    its secrets one by one — every `put` under the capacity of its cache -/
def snapRollback (s : MemStore) (gid name : Nat) (ch : List Nat) : Option MemStore :=
  match findSnap s.u gid name with
  | none => none
  | some p =>
    match restoreFrom s.u p with
    | none => none
    | some u' =>
      let qn := match findGroup s.u p.gid with
        | some old => qRemove old.nid s.qByNid
        | none => s.qByNid
      let s1 : MemStore := { s with u := u', qGroups := qRemove p.gid s.qGroups, qByNid := qn,
                                    qRelays := qRemove p.gid s.qRelays,
                                    qSecrets := s.qSecrets.filter (fun k => k.1 != p.gid) }
      let s2 := match p.group with
        | some g => putByNid (putGroups s1 p.gid) g.nid
        | none => s1
      let s3 := if p.relays.isEmpty then s2 else putRelays s2 p.gid
      some ((secOrder ch (p.secrets.map (·.1))).foldl (fun acc e => putSecrets acc (p.gid, e)) s3)

/-! ## the step function: the operations of `Store.Op`, same observation text -/

def updLastOp (s : MemStore) (gid : Nat) (k : Nat × Nat × Nat) : MemStore × String :=
  match findGroup s.u gid with
  | none => (s, "err")
  | some g =>
    match saveGroup s (updLast g k) with
    | some s' => (s', if dominates g k then "true" else "false")
    | none => (s, "err")

def okErr (o : Option MemStore) (s : MemStore) : MemStore × String :=
  match o with
  | some s' => (s', "ok")
  | none => (s, "err")

/-- one operation; `ch` resolves the map-order choice of the restore (ignored by every other operation).
    Reads answer from the content (`peek` / `iter`): the text `Store.step` renders for the `.mem` flavour. -/
def step (s : MemStore) (op : Op) (ch : List Nat) : MemStore × String :=
  match op with
  | .saveGroup g => okErr (saveGroup s g) s
  | .saveMessage m => okErr (saveMessage s m) s
  | .savePm p => (savePm s p, "ok")
  | .invalMsgs gid e => let r := invalMsgs s gid e; (r.1, natList (sortBy natLt r.2))
  | .invalPms gid e => let r := invalPms s gid e; (r.1, natList (sortBy natLt r.2))
  | .markRetryable w => let r := markRetryable s w; (r.1, if r.2 then "ok" else "err")
  | .updLast gid c p i => updLastOp s gid (c, p, i)
  | .replaceRelays gid rs => okErr (replaceRelays s gid rs) s
  | .saveSecret gid e v => okErr (saveSecret s gid e v) s
  | .saveWelcome w => okErr (saveWelcome s w) s
  | .savePw p => (savePw s p, "ok")
  | .mlsWrite gid k v => ({ s with u := mlsWrite s.u gid k v }, "ok")
  | .mlsDelete gid k => ({ s with u := mlsDelete s.u gid k }, "ok")
  | .snapCreate gid name ts => okErr (snapCreate s gid name ts) s
  | .snapRollback gid name => okErr (snapRollback s gid name ch) s
  | .snapRelease gid name => ({ s with u := snapRelease s.u gid name }, "ok")
  | .snapPrune t => let r := snapPrune s.u t; ({ s with u := r.1 }, toString r.2)
  | op => (s, (Store.step s.u op).2)

def run (s : MemStore) : List (Op × List Nat) → MemStore
  | [] => s
  | (o, ch) :: r => run (step s o ch).1 r

/-- observations of a history, every operation with its own choice -/
def observe (s : MemStore) : List (Op × List Nat) → List String
  | [] => []
  | (o, ch) :: r => (step s o ch).2 :: observe (step s o ch).1 r

/-! ## the choices the driver enumerates (every order a `HashMap` can yield) -/

def insertAll (x : Nat) : List Nat → List (List Nat)
  | [] => [[x]]
  | y :: ys => (x :: y :: ys) :: (insertAll x ys).map (y :: ·)

def perms : List Nat → List (List Nat)
  | [] => [[]]
  | x :: xs => (perms xs).flatMap (insertAll x)

def choices (s : MemStore) : Op → List (List Nat)
  | .snapRollback gid name =>
    match findSnap s.u gid name with
    | none => [[]]
    | some p => if p.secrets.length ≤ 1 ∨ p.secrets.length > 5 then [[]] else perms ((p.secrets.map (·.1)).eraseDups)
  | _ => [[]]

/-- number of evictions logged so far, per cache code 0..9 -/
def evCounts (s : MemStore) : List Nat :=
  (List.range 10).map (fun c => (s.evlog.filter (·.1 == c)).length)

end MdkVerif.MemLru
