/-
  MdkVerif.Model.Basic — shared vocabulary of the executable model.
  Import-free (core Lean only) so that the driver links as a `lean_exe`.
  Everything is over `Nat`, `List`, `Option` and plain structures so that closed
  terms reduce in the kernel (`decide`, `rfl`).
-/
namespace MdkVerif

/-- storage backend a model instance describes -/
inductive Backend where
  | mem | sql
  deriving DecidableEq, Repr, Inhabited

/-- insertion into a list sorted by the strict order `lt` (stable: after equal keys) -/
def insertBy {α : Type} (lt : α → α → Bool) (x : α) : List α → List α
  | [] => [x]
  | y :: ys => if lt x y then x :: y :: ys else y :: insertBy lt x ys

/-- insertion sort by the strict order `lt` -/
def sortBy {α : Type} (lt : α → α → Bool) : List α → List α
  | [] => []
  | x :: xs => insertBy lt x (sortBy lt xs)

/-- association-list lookup -/
def alookup {α : Type} (k : Nat) : List (Nat × α) → Option α
  | [] => none
  | (k', v) :: r => if k' = k then some v else alookup k r

/-- association-list insert-or-replace (keeps position of an existing key) -/
def ainsert {α : Type} (k : Nat) (v : α) : List (Nat × α) → List (Nat × α)
  | [] => [(k, v)]
  | (k', v') :: r => if k' = k then (k, v) :: r else (k', v') :: ainsert k v r

def aerase {α : Type} (k : Nat) (l : List (Nat × α)) : List (Nat × α) :=
  l.filter (fun p => p.1 != k)

def optStr (o : Option Nat) : String :=
  match o with
  | none => "-"
  | some n => toString n

def joinWith (sep : String) : List String → String
  | [] => ""
  | [x] => x
  | x :: xs => x ++ sep ++ joinWith sep xs

def natList (l : List Nat) : String := "[" ++ joinWith "," (l.map toString) ++ "]"

end MdkVerif
