import MdkVerif.Generated
/-
  Model.Identity — the Nostr identity bound to a leaf (C05, last sentence: "No accepted commit or proposal changes the
  Nostr identity bound to an existing member").  Imports only the regenerated facts.

  What is modelled, and where it is in the code:
  * a group state as the receiver holds it: the ratchet tree's leaves `leaf index ↦ credential` (association list; a blank leaf
    is an absent key), the admin identities of the group-data extension, the receiver's proposal store;
  * `credIdentity` = `BasicCredential::try_from(cred)?` + `parse_credential_identity(identity())?` (key_packages.rs): this is how
    `get_members`, `validate_commit_authorization`, `validate_proposal_identity`, `validate_commit_identities` read the Nostr
    identity off a leaf.  The comparison is on the parsed 32-byte x-only public key, not on the signature key;
  * a staged commit as OpenMLS hands it to `process_commit`: sender, queued proposals (kind, proposer, by reference or inline),
    the update path's leaf credential;
  * mdk's checks exactly as coded in messages/validation.rs, in the order of messages/commit.rs `process_commit`
    (authorisation → identities → snapshot → merge); their SHAPE is the regenerated `codeShape` (tools/gen_model.py), so the
    functions below follow the source when a comparison is deleted or the order changes;
  * `process_proposal` for stand-alone proposals (messages/proposal.rs): which kinds reach the proposal store;
  * OpenMLS 0.8.1's own rules as EXPLICIT ASSUMPTION PARAMETERS (`MlsRules`), each with the place it was read from:
      - `refusesCredChange = false`: OpenMLS does NOT refuse a credential change.  `treesync::errors::LeafNodeUpdateError::
        IdentityMismatch` is declared and never raised; `validate_update_proposals` (group/public_group/validation.rs:467) checks
        sender type, committer ≠ proposer, capabilities, extension support — never the credential; the commit builder offers
        `self_update_with_new_signer` (group/mls_group/updates.rs:62) precisely to change credential + signature key;
      - `inlineUpdateRefused = true`: an Update proposal carried by value in a commit is refused
        (`ProposalIn::validate`, messages/proposals_in.rs:116: no sender context → `CommitterIncludedOwnUpdate`);
      - `ownUpdateRefused = true`: a by-reference Update whose proposer is the committer is refused (ValSem111, validation.rs:483);
      - `refNeedsStore = true`: a by-reference proposal must be in the receiver's proposal store
        (`ProposalQueue::from_committed_proposals` → `ProposalNotFound`);
      - application order of `apply_proposals` (group/public_group/diff/apply_proposals.rs): updates, removes, adds (leftmost
        blank leaf, else a new leaf on the right), then the update path replaces the committer's leaf.
-/
namespace MdkVerif.Identity

abbrev Ident := Nat
abbrev Leaf := Nat

/-- a leaf node's credential as mdk can read it -/
inductive Cred where
  | basic (id : Ident) (sigKey : Nat)   -- BasicCredential whose identity is a valid 32-byte x-only key; the leaf's signature key
  | badId (tag : Nat)                   -- BasicCredential whose identity does not parse (`Error::KeyPackage`)
  | notBasic (tag : Nat)                -- not a BasicCredential (`Error::BasicCredential`)
deriving DecidableEq, Repr

inductive Err where
  | notBasic | badIdentity | identityChange | nonAdmin | nonMember | mls
deriving DecidableEq, Repr

instance : DecidableEq (Except Err Unit) := fun a b =>
  match a, b with
  | .ok (), .ok () => isTrue rfl
  | .error e, .error f => if h : e = f then isTrue (by rw [h]) else isFalse (by intro x; cases x; exact h rfl)
  | .ok _, .error _ => isFalse (by intro x; cases x)
  | .error _, .ok _ => isFalse (by intro x; cases x)

/-- `BasicCredential::try_from(c)?` then `parse_credential_identity(identity())?` -/
def credIdentity : Cred → Except Err Ident
  | .basic i _ => .ok i
  | .badId _ => .error .badIdentity
  | .notBasic _ => .error .notBasic

abbrev Tree := List (Leaf × Cred)

def lookup (l : Leaf) : Tree → Option Cred
  | [] => none
  | (k, c) :: t => if k = l then some c else lookup l t

def blank (l : Leaf) (t : Tree) : Tree := t.filter (fun kc => kc.1 ≠ l)
def setLeaf (l : Leaf) (c : Cred) (t : Tree) : Tree := (l, c) :: blank l t

def maxKey : Tree → Nat
  | [] => 0
  | (k, _) :: t => max k (maxKey t)

/-- OpenMLS `add_leaf`: the leftmost blank leaf, else a new one on the right (`maxKey + 1` is provably free) -/
def firstFree (t : Tree) : Leaf :=
  match (List.range (maxKey t + 1)).find? (fun n => (lookup n t).isNone) with
  | some n => n
  | none => maxKey t + 1

inductive Sender where
  | member (l : Leaf) | external | newMemberCommit | newMemberProposal
deriving DecidableEq, Repr

inductive Prop' where
  | add (c : Cred) | remove (l : Leaf) | update (c : Cred) | other (tag : Nat)
deriving DecidableEq, Repr

structure QProp where
  p : Prop'
  sender : Sender
  byRef : Bool
deriving DecidableEq, Repr

structure Staged where
  sender : Sender
  props : List QProp
  path : Option Cred
deriving DecidableEq, Repr

structure St where
  tree : Tree
  admins : List Ident
  store : List QProp        -- the receiver's proposal store (pending proposals)
deriving DecidableEq, Repr

def isUpdate (q : QProp) : Bool := match q.p with | .update _ => true | _ => false

/-! ### the shape of mdk's validation, regenerated from the source -/
structure Shape where
  inspectsUpdates : Bool     -- validate_commit_identities iterates `staged_commit.update_proposals()` and nothing else
  updateCompared : Bool      -- … and refuses when stored and proposed identity differ (`IdentityChangeNotAllowed`, propagated)
  inspectsPath : Bool        -- validate_commit_identities looks at `staged_commit.update_path_leaf_node()`
  pathCompared : Bool        -- … and refuses when the committer's stored and new identity differ
  identitiesChecked : Bool   -- process_commit calls validate_commit_identities (propagated) before merge_staged_commit
  authFirst : Bool           -- process_commit calls validate_commit_authorization (propagated) before validate_commit_identities
  updateStored : Bool        -- process_proposal puts a stand-alone Update proposal into the proposal store
deriving DecidableEq, Repr

def codeShape : Shape :=
  { inspectsUpdates := Generated.identInspectedKinds == [2]
    updateCompared := Generated.identUpdateCompared
    inspectsPath := Generated.identPathInspected
    pathCompared := Generated.identPathCompared
    identitiesChecked := Generated.commitCheckOrder.contains 1 && Generated.commitCheckOrder.idxOf 1 < Generated.commitCheckOrder.idxOf 3
    authFirst := Generated.commitCheckOrder.contains 0 && Generated.commitCheckOrder.idxOf 0 < Generated.commitCheckOrder.idxOf 1
    updateStored := Generated.proposalKindsStored.contains 2 }

/-- the shape the theorems are about (what the source looked like when they were proved) -/
def provedShape : Shape :=
  { inspectsUpdates := true, updateCompared := true, inspectsPath := true, pathCompared := true,
    identitiesChecked := true, authFirst := true, updateStored := false }

/-- `validate_identity_unchanged` behind the two parses (error of the stored credential first, as coded) -/
def compareIdent (compared : Bool) (cur new : Cred) : Except Err Unit :=
  match credIdentity cur with
  | .error e => .error e
  | .ok a =>
    match credIdentity new with
    | .error e => .error e
    | .ok b => if compared && a ≠ b then .error .identityChange else .ok ()

/-- `validate_proposal_identity` (only ever called for Update proposals of a staged commit) -/
def validateProposalIdentity (sh : Shape) (t : Tree) (q : QProp) : Except Err Unit :=
  match q.p with
  | .update c =>
    match q.sender with
    | .member l =>
      match lookup l t with
      | some cur => compareIdent sh.updateCompared cur c
      | none => .ok ()            -- "Member not found … handle gracefully"
    | _ => .ok ()                 -- "Non-member senders cannot send Update proposals"
  | _ => .ok ()

def validateUpdates (sh : Shape) (t : Tree) : List QProp → Except Err Unit
  | [] => .ok ()
  | q :: qs =>
    match validateProposalIdentity sh t q with
    | .error e => .error e
    | .ok () => validateUpdates sh t qs

def validatePath (sh : Shape) (t : Tree) (s : Staged) : Except Err Unit :=
  match s.path with
  | none => .ok ()
  | some c =>
    match s.sender with
    | .member l =>
      match lookup l t with
      | some cur => compareIdent sh.pathCompared cur c
      | none => .ok ()            -- `if let … && let Some(..) = member_at(..)` without else
    | _ => .ok ()

/-- `validate_commit_identities` -/
def validateCommitIdentities (sh : Shape) (t : Tree) (s : Staged) : Except Err Unit :=
  match (if sh.inspectsUpdates then validateUpdates sh t (s.props.filter isUpdate) else .ok ()) with
  | .error e => .error e
  | .ok () => if sh.inspectsPath then validatePath sh t s else .ok ()

/-- `is_pure_self_update_commit` -/
def isPureSelfUpdate (s : Staged) (l : Leaf) : Bool :=
  (s.path.isSome || s.props.any isUpdate) &&
  s.props.all isUpdate &&
  (s.props.filter isUpdate).all (fun q => q.sender == .member l)

/-- `validate_commit_authorization` -/
def validateAuthorization (st : St) (s : Staged) : Except Err Unit :=
  match s.sender with
  | .member l =>
    match lookup l st.tree with
    | none => .error .nonMember
    | some cur =>
      match credIdentity cur with
      | .error e => .error e
      | .ok me => if st.admins.contains me || isPureSelfUpdate s l then .ok () else .error .nonAdmin
  | _ => .error .nonMember

/-- the two checks at the head of `process_commit`, in the order the source has them -/
def mdkValidate (sh : Shape) (st : St) (s : Staged) : Except Err Unit :=
  let ident := if sh.identitiesChecked then validateCommitIdentities sh st.tree s else .ok ()
  if sh.authFirst then
    match validateAuthorization st s with
    | .error e => .error e
    | .ok () => ident
  else
    match ident with
    | .error e => .error e
    | .ok () => validateAuthorization st s

/-! ### OpenMLS (assumed) -/
structure MlsRules where
  refusesCredChange : Bool
  inlineUpdateRefused : Bool
  ownUpdateRefused : Bool
  refNeedsStore : Bool
deriving DecidableEq, Repr

/-- what was found in openmls 0.8.1 -/
def openmls081 : MlsRules :=
  { refusesCredChange := false, inlineUpdateRefused := true, ownUpdateRefused := true, refNeedsStore := true }

def credKept (t : Tree) (l : Leaf) (c : Cred) : Bool :=
  match lookup l t with
  | some cur => decide (cur = c) || (match cur, c with | .basic a _, .basic b _ => a == b | _, _ => false)
  | none => true

/-- does OpenMLS hand the commit to mdk as a staged commit at all? (only the rules that matter for identities) -/
def mlsAdmits (R : MlsRules) (st : St) (s : Staged) : Bool :=
  s.props.all (fun q =>
    (!(R.refNeedsStore && q.byRef) || st.store.contains q) &&
    (!(isUpdate q) ||
      ((!R.inlineUpdateRefused || q.byRef) &&
       (!R.ownUpdateRefused || q.sender != s.sender) &&
       (!R.refusesCredChange || (match q.sender, q.p with | .member l, .update c => credKept st.tree l c | _, _ => true))))) &&
  (!R.refusesCredChange || (match s.sender, s.path with | .member l, some c => credKept st.tree l c | _, _ => true))

/-- `apply_proposals` + update path: updates, removes, adds, then the committer's leaf -/
def applyUpdates (t : Tree) : List QProp → Tree
  | [] => t
  | q :: qs =>
    match q.p, q.sender with
    | .update c, .member l => applyUpdates (setLeaf l c t) qs
    | _, _ => applyUpdates t qs

def applyRemoves (t : Tree) : List QProp → Tree
  | [] => t
  | q :: qs =>
    match q.p with
    | .remove l => applyRemoves (blank l t) qs
    | _ => applyRemoves t qs

def applyAdds (t : Tree) : List QProp → Tree
  | [] => t
  | q :: qs =>
    match q.p with
    | .add c => applyAdds (setLeaf (firstFree t) c t) qs
    | _ => applyAdds t qs

def applyPath (t : Tree) (s : Staged) : Tree :=
  match s.path, s.sender with
  | some c, .member l => setLeaf l c t
  | _, _ => t

def applyCommit (t : Tree) (s : Staged) : Tree :=
  applyPath (applyAdds (applyRemoves (applyUpdates t s.props) s.props) s.props) s

/-- leaves named by a Remove proposal of the commit -/
def removed (s : Staged) (l : Leaf) : Bool := s.props.any (fun q => q.p == .remove l)

/-- receiving a commit: OpenMLS first, then mdk's two checks, then the merge -/
def processCommit (sh : Shape) (R : MlsRules) (st : St) (s : Staged) : St × Except Err Unit :=
  if !mlsAdmits R st s then (st, .error .mls) else
  match mdkValidate sh st s with
  | .error e => (st, .error e)
  | .ok () => ({ st with tree := applyCommit st.tree s, store := [] }, .ok ())

/-- `process_proposal` for a stand-alone proposal of a member: Add and Remove are stored (an admin auto-commits a self-remove —
    Model.Proposal), everything else, Update included, is ignored.  The tree is never touched. -/
def storesProposal (sh : Shape) (q : QProp) : Bool :=
  match q.p with
  | .add _ => Generated.proposalKindsStored.contains 0
  | .remove _ => Generated.proposalKindsStored.contains 1
  | .update _ => sh.updateStored
  | .other _ => false

def processProposal (sh : Shape) (st : St) (q : QProp) : St :=
  match q.sender with
  | .member l =>
    match lookup l st.tree with
    | some _ => if storesProposal sh q then { st with store := q :: st.store } else st
    | none => st
  | _ => st

/-- the set of member identities as `get_members` reads it (fails when a credential does not parse) -/
def members : Tree → Except Err (List Ident)
  | [] => .ok []
  | (_, c) :: t =>
    match credIdentity c with
    | .error e => .error e
    | .ok i => match members t with
      | .error e => .error e
      | .ok r => .ok (i :: r)

end MdkVerif.Identity
