import MdkVerif.Model.Ratchet
import MdkVerif.Proofs.Ratchet
/-
  C02, window part — application messages under reordering inside / outside the three configured windows
  (`MdkConfig::out_of_order_tolerance` T, `maximum_forward_distance` F, `max_past_epochs` P).

  Model: `Model/Ratchet.lean` (OpenMLS 0.8.1's DecryptionRatchet / MessageSecretsStore as read from its source —
  an ASSUMPTION about the dependency, checked against the real crate by the `msgwin` correspondence run — and what
  mdk-core does with the verdict).  All statements are for ALL T, F, P, all burst sizes and all delivery lists.
-/
namespace MdkVerif.Props.C02Win
open MdkVerif.Ratchet

/-! ## one sender's messages of one epoch at one receiver (the ratchet) -/

/-- **exactly_once**, for ANY delivery list (any order, any repetition, no window hypothesis): no generation is
    ever accepted twice -/
theorem exactly_once (T F : Nat) (l : List Nat) : (acceptedGens T F Ratchet.new l).Nodup :=
  (acceptedGens_nodup l (inv_new T)).1

/-- **inside_windows_all_stored** (ratchet level): if the delivery list offers every generation once and never offers
    one more than `F` ahead of the head nor more than `T` behind it (`inWin`, decided on the list alone), then every
    offer is accepted, and a second offer of any of them afterwards is refused and leaves the ratchet as it is -/
theorem inside_windows_all_accepted (T F : Nat) (l : List Nat) (hn : l.Nodup) (hw : inWin T F 0 l = true) :
    (run T F Ratchet.new l).2 = l.map (fun _ => Verdict.accepted) ∧
    acceptedGens T F Ratchet.new l = l ∧
    ∀ g ∈ l, (recv T F (run T F Ratchet.new l).1 g).2 ≠ .accepted ∧
             (recv T F (run T F Ratchet.new l).1 g).1 = (run T F Ratchet.new l).1 := by
  have h := run_inside (T := T) (F := F) l (inv_new T) hn (by simp) hw
  refine ⟨h.1, h.2, ?_⟩
  intro g hg
  have inv := run_inv (T := T) (F := F) l (inv_new T)
  rw [h.2] at inv
  have hne : (recv T F (run T F Ratchet.new l).1 g).2 ≠ .accepted := by
    intro hacc
    exact (recv_accepted_inv inv hacc).1 (by simp [hg])
  exact ⟨hne, recv_refused_same inv hne⟩

/-- the hypothesis is satisfiable by a non-trivial permutation: T = 2, F = 3, seven messages -/
example : inWin 2 3 0 [1, 0, 3, 2, 5, 4, 6] = true ∧ [1, 0, 3, 2, 5, 4, 6].Nodup := by decide
example : (run 2 3 Ratchet.new [1, 0, 3, 2, 5, 4, 6]).2 = List.replicate 7 Verdict.accepted := by decide
/-- … and it is not vacuous the other way: the same seven messages reversed leave the window (T = 2) -/
example : inWin 2 3 0 [6, 5, 4, 3, 2, 1, 0] = false := by decide
example : (run 2 3 Ratchet.new [3, 2, 1, 0]).2 = [.accepted, .accepted, .tooOld, .tooOld] := by decide

/-- **outside_window_refused**: the verdict on the next offer, for every state a delivery list can lead to, in terms of
    the history alone (`A` = the generations accepted so far, `headOf A` = one more than the largest of them):
    too far ahead, too old, or already used ⇒ refused with exactly that verdict; accepted iff none of the three (and the
    generation is not `u32::MAX`); a refusal never changes the ratchet; `IndexOutOfBounds` cannot happen -/
theorem outside_window_refused (T F : Nat) (l : List Nat) (g : Nat) :
    let r := (run T F Ratchet.new l).1
    let A := acceptedGens T F Ratchet.new l
    r.head = headOf A.reverse ∧
    ((r.head < u32Max - F ∧ g > r.head + F) → recv T F r g = (r, .tooFarAhead)) ∧
    (¬ (r.head < u32Max - F ∧ g > r.head + F) → (g < r.head ∧ r.head - g > T) → recv T F r g = (r, .tooOld)) ∧
    ((recv T F r g).2 = .reused ↔ (g ≤ r.head + F ∨ u32Max - F ≤ r.head) ∧ r.head ≤ g + T ∧ g ∈ A) ∧
    ((recv T F r g).2 = .accepted ↔ (g ≤ r.head + F ∨ u32Max - F ≤ r.head) ∧ r.head ≤ g + T ∧ g < u32Max ∧ g ∉ A) ∧
    ((recv T F r g).2 ≠ .accepted → (recv T F r g).1 = r) ∧
    (recv T F r g).2 ≠ .indexOutOfBounds := by
  intro r A
  have inv : Inv T r A.reverse := by simpa using run_inv (T := T) (F := F) l (inv_new T)
  have sp := recv_spec (F := F) inv g
  refine ⟨inv.hd, fun h => recv_tooFar h, fun h1 h2 => recv_tooOld h1 h2, ?_, ?_, sp.2.1, sp.2.2.1⟩
  · rw [sp.2.2.2.2.2]
    unfold TooFar TooOld
    simp only [List.mem_reverse]
    constructor
    · intro ⟨a, b, c, d⟩; exact ⟨by omega, by omega, d⟩
    · intro ⟨a, b, d⟩
      have := inv.lt g (by simpa using d)
      exact ⟨by omega, by omega, this, d⟩
  · rw [sp.2.2.2.2.1]
    unfold TooFar TooOld
    simp only [List.mem_reverse]
    constructor
    · intro ⟨a, b, c, d⟩; exact ⟨by omega, by omega, c, d⟩
    · intro ⟨a, b, c, d⟩; exact ⟨by omega, by omega, c, d⟩

/-- the three refusals at work: T = 1, F = 2 -/
example : (run 1 2 Ratchet.new [3, 0, 1, 2, 2, 4, 1]).2 =
    [.tooFarAhead, .accepted, .accepted, .accepted, .reused, .accepted, .tooOld] := by decide

/-! ## window_monotone -/

/-- one offer, from states with the same history: what the smaller windows accept the larger ones accept -/
theorem window_monotone_step (T T' F F' : Nat) (hT : T ≤ T') (hF : F ≤ F') (r r' : Ratchet) (sim : Sim T r r') (g : Nat)
    (h : (recv T F r g).2 = .accepted) : (recv T' F' r' g).2 = .accepted := by
  have nf : ¬ TooFar F r g := fun hf => by rw [recv_tooFar hf] at h; cases h
  exact (sim_step hT hF sim g (fun hf => absurd hf nf)).2 h

/-- a larger TOLERANCE accepts, offer by offer, everything a smaller one accepts — for every delivery list -/
theorem window_monotone_T (T T' F : Nat) (hT : T ≤ T') (l : List Nat) (i : Nat)
    (h : (run T F Ratchet.new l).2[i]? = some .accepted) : (run T' F Ratchet.new l).2[i]? = some .accepted :=
  sim_run hT (Nat.le_refl F) l ⟨rfl, by simp [Ratchet.new]⟩ (farOK_same T F _ l) i h

/-- the full statement for the FORWARD DISTANCE … -/
def window_monotone_F_full : Prop :=
  ∀ (T F F' : Nat), F ≤ F' → ∀ (l : List Nat) (i : Nat),
    (run T F Ratchet.new l).2[i]? = some .accepted → (run T F' Ratchet.new l).2[i]? = some .accepted

/-- … is FALSE of OpenMLS's ratchet: with T = 2, generation 3 offered first is too far ahead for F = 1 (refused, nothing
    changes) and generation 0 is then accepted; with F = 5 generation 3 is accepted, the head jumps to 4, the queue is
    cut to T = 2 entries, and generation 0 is then too old.  (Not a defect of mdk: a property of the windows.) -/
theorem window_monotone_F_full_false : ¬ window_monotone_F_full := by
  intro h
  have := h 2 1 5 (by decide) [3, 0] 1 (by decide)
  revert this; decide

/-- what holds: a larger forward distance (and tolerance) accepts everything the smaller ones accept on every delivery
    list on which the smaller configuration never refuses an offer as too far ahead -/
theorem window_monotone_partial (T T' F F' : Nat) (hT : T ≤ T') (hF : F ≤ F') (l : List Nat)
    (hfar : Verdict.tooFarAhead ∉ (run T F Ratchet.new l).2) (i : Nat)
    (h : (run T F Ratchet.new l).2[i]? = some .accepted) : (run T' F' Ratchet.new l).2[i]? = some .accepted :=
  sim_run hT hF l ⟨rfl, by simp [Ratchet.new]⟩ (farOK_of_none l hfar) i h

example : Verdict.tooFarAhead ∉ (run 1 2 Ratchet.new [1, 0, 2, 4, 3]).2 := by decide

/-- inside the smaller windows is inside the larger ones -/
theorem window_monotone (T T' F F' : Nat) (hT : T ≤ T') (hF : F ≤ F') (l : List Nat) (hn : l.Nodup)
    (hw : inWin T F 0 l = true) :
    inWin T' F' 0 l = true ∧ (run T' F' Ratchet.new l).2 = l.map (fun _ => Verdict.accepted) :=
  ⟨inWin_mono hT hF 0 l hw, (inside_windows_all_accepted T' F' l hn (inWin_mono hT hF 0 l hw)).1⟩

/-! ## the past-epoch window (the message-secrets store) -/

inductive SOp where
  | commit                          -- a commit is merged: the epoch advances
  | offer (m sender g : Nat)        -- an application message of epoch m is offered
  deriving DecidableEq, Repr

def runStore (T F P : Nat) : Store → List SOp → Store
  | s, [] => s
  | s, .commit :: l => runStore T F P (advance P s) l
  | s, .offer m sender g :: l => runStore T F P (mlsRecv T F s m sender g).1 l

theorem runStore_pastOK (T F P e0 : Nat) (ops : List SOp) (s : Store) (h : PastOK P e0 s) :
    PastOK P e0 (runStore T F P s ops) := by
  induction ops generalizing s with
  | nil => exact h
  | cons o l ih =>
    cases o with
    | commit => exact ih _ (pastOK_advance h)
    | offer m sender g => exact ih _ (pastOK_mlsRecv h T F m sender g)

/-- **past-epoch window**: after ANY history of commits and offers, a message of epoch `m` finds no secrets
    (`epochGone`) iff the receiver is more than `P` epochs past `m` (or `m` is from before it joined) -/
theorem epoch_window (T F P e0 : Nat) (ops : List SOp) (m sender g : Nat) :
    let s := runStore T F P { epoch := e0, cur := [], pastTrees := [] } ops
    ((mlsRecv T F s m sender g).2 = .epochGone ↔ m < s.epoch ∧ (s.epoch - m > P ∨ m < e0)) ∧
    ((mlsRecv T F s m sender g).2 = .epochGone → (mlsRecv T F s m sender g).1 = s) := by
  intro s
  have ok : PastOK P e0 s := runStore_pastOK T F P e0 ops _ (pastOK_init P e0)
  have key := treeFor_none_iff ok m
  unfold mlsRecv
  cases ht : treeFor s m with
  | none => exact ⟨by simp [← key, ht], fun _ => rfl⟩
  | some t =>
    have hne : ¬ (m < s.epoch ∧ (s.epoch - m > P ∨ m < e0)) := by rw [← key, ht]; simp
    simp only
    have ng : (recv T F ((tlookup sender t).getD Ratchet.new) g).2 ≠ .epochGone := by
      unfold recv takePast
      repeat' split
      all_goals simp
    by_cases ha : (recv T F ((tlookup sender t).getD Ratchet.new) g).2 = .accepted
    · simp [ha, hne]
    · simp [ha, hne, ng]

end MdkVerif.Props.C02Win
