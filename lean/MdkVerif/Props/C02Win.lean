import MdkVerif.Model.Ratchet
import MdkVerif.Proofs.Ratchet
/-
  C02, window part — application messages under reordering inside / outside the three configured windows
  (`MdkConfig::out_of_order_tolerance` T, `maximum_forward_distance` F, `max_past_epochs` P).

  Model: `Model/Ratchet.lean` (OpenMLS 0.8.1's DecryptionRatchet / MessageSecretsStore as read from its source —
  an ASSUMPTION about the dependency, checked against the real crate by the `msgwin` correspondence run — and what
  mdk-core does with the verdict).  All statements are for ALL T, F, P, all burst sizes and all delivery lists.
-/
namespace MdkVerif.Props.C02Win
open MdkVerif.Ratchet

/-! ## one sender's messages of one epoch at one receiver (the ratchet) -/

/-- **exactly_once**, for ANY delivery list (any order, any repetition, no window hypothesis): no generation is
    ever accepted twice -/
theorem exactly_once (T F : Nat) (l : List Nat) : (acceptedGens T F Ratchet.new l).Nodup :=
  (acceptedGens_nodup l (inv_new T)).1

/-- **inside_windows_all_stored** (ratchet level): if the delivery list offers every generation once and never offers
    one more than `F` ahead of the head nor more than `T` behind it (`inWin`, decided on the list alone), then every
    offer is accepted, and a second offer of any of them afterwards is refused and leaves the ratchet as it is -/
theorem inside_windows_all_accepted (T F : Nat) (l : List Nat) (hn : l.Nodup) (hw : inWin T F 0 l = true) :
    (run T F Ratchet.new l).2 = l.map (fun _ => Verdict.accepted) ∧
    acceptedGens T F Ratchet.new l = l ∧
    ∀ g ∈ l, (recv T F (run T F Ratchet.new l).1 g).2 ≠ .accepted ∧
             (recv T F (run T F Ratchet.new l).1 g).1 = (run T F Ratchet.new l).1 := by
  have h := run_inside (T := T) (F := F) l (inv_new T) hn (by simp) hw
  refine ⟨h.1, h.2, ?_⟩
  intro g hg
  have inv := run_inv (T := T) (F := F) l (inv_new T)
  rw [h.2] at inv
  have hne : (recv T F (run T F Ratchet.new l).1 g).2 ≠ .accepted := by
    intro hacc
    exact (recv_accepted_inv inv hacc).1 (by simp [hg])
  exact ⟨hne, recv_refused_same inv hne⟩

/-- the hypothesis is satisfiable by a non-trivial permutation: T = 2, F = 3, seven messages -/
example : inWin 2 3 0 [1, 0, 3, 2, 5, 4, 6] = true ∧ [1, 0, 3, 2, 5, 4, 6].Nodup := by decide
example : (run 2 3 Ratchet.new [1, 0, 3, 2, 5, 4, 6]).2 = List.replicate 7 Verdict.accepted := by decide
/-- … and it is not vacuous the other way: the same seven messages reversed leave the window (T = 2) -/
example : inWin 2 3 0 [6, 5, 4, 3, 2, 1, 0] = false := by decide
example : (run 2 3 Ratchet.new [3, 2, 1, 0]).2 = [.accepted, .accepted, .tooOld, .tooOld] := by decide

/-- **outside_window_refused**: the verdict on the next offer, for every state a delivery list can lead to, in terms of
    the history alone (`A` = the generations accepted so far, `headOf A` = one more than the largest of them):
    too far ahead, too old, or already used ⇒ refused with exactly that verdict; accepted iff none of the three (and the
    generation is not `u32::MAX`); a refusal never changes the ratchet; `IndexOutOfBounds` cannot happen -/
theorem outside_window_refused (T F : Nat) (l : List Nat) (g : Nat) :
    let r := (run T F Ratchet.new l).1
    let A := acceptedGens T F Ratchet.new l
    r.head = headOf A.reverse ∧
    ((r.head < u32Max - F ∧ g > r.head + F) → recv T F r g = (r, .tooFarAhead)) ∧
    (¬ (r.head < u32Max - F ∧ g > r.head + F) → (g < r.head ∧ r.head - g > T) → recv T F r g = (r, .tooOld)) ∧
    ((recv T F r g).2 = .reused ↔ (g ≤ r.head + F ∨ u32Max - F ≤ r.head) ∧ r.head ≤ g + T ∧ g ∈ A) ∧
    ((recv T F r g).2 = .accepted ↔ (g ≤ r.head + F ∨ u32Max - F ≤ r.head) ∧ r.head ≤ g + T ∧ g < u32Max ∧ g ∉ A) ∧
    ((recv T F r g).2 ≠ .accepted → (recv T F r g).1 = r) ∧
    (recv T F r g).2 ≠ .indexOutOfBounds := by
  intro r A
  have inv : Inv T r A.reverse := by simpa using run_inv (T := T) (F := F) l (inv_new T)
  have sp := recv_spec (F := F) inv g
  refine ⟨inv.hd, fun h => recv_tooFar h, fun h1 h2 => recv_tooOld h1 h2, ?_, ?_, sp.2.1, sp.2.2.1⟩
  · rw [sp.2.2.2.2.2]
    unfold TooFar TooOld
    simp only [List.mem_reverse]
    constructor
    · intro ⟨a, b, c, d⟩; exact ⟨by omega, by omega, d⟩
    · intro ⟨a, b, d⟩
      have := inv.lt g (by simpa using d)
      exact ⟨by omega, by omega, this, d⟩
  · rw [sp.2.2.2.2.1]
    unfold TooFar TooOld
    simp only [List.mem_reverse]
    constructor
    · intro ⟨a, b, c, d⟩; exact ⟨by omega, by omega, c, d⟩
    · intro ⟨a, b, c, d⟩; exact ⟨by omega, by omega, c, d⟩

/-- the three refusals at work: T = 1, F = 2 -/
example : (run 1 2 Ratchet.new [3, 0, 1, 2, 2, 4, 1]).2 =
    [.tooFarAhead, .accepted, .accepted, .accepted, .reused, .accepted, .tooOld] := by decide

/-! ## window_monotone -/

/-- one offer, from states with the same history: what the smaller windows accept the larger ones accept -/
theorem window_monotone_step (T T' F F' : Nat) (hT : T ≤ T') (hF : F ≤ F') (r r' : Ratchet) (sim : Sim T r r') (g : Nat)
    (h : (recv T F r g).2 = .accepted) : (recv T' F' r' g).2 = .accepted := by
  have nf : ¬ TooFar F r g := fun hf => by rw [recv_tooFar hf] at h; cases h
  exact (sim_step hT hF sim g (fun hf => absurd hf nf)).2 h

/-- a larger TOLERANCE accepts, offer by offer, everything a smaller one accepts — for every delivery list -/
theorem window_monotone_T (T T' F : Nat) (hT : T ≤ T') (l : List Nat) (i : Nat)
    (h : (run T F Ratchet.new l).2[i]? = some .accepted) : (run T' F Ratchet.new l).2[i]? = some .accepted :=
  sim_run hT (Nat.le_refl F) l ⟨rfl, by simp [Ratchet.new]⟩ (farOK_same T F _ l) i h

/-- the full statement for the FORWARD DISTANCE … -/
def window_monotone_F_full : Prop :=
  ∀ (T F F' : Nat), F ≤ F' → ∀ (l : List Nat) (i : Nat),
    (run T F Ratchet.new l).2[i]? = some .accepted → (run T F' Ratchet.new l).2[i]? = some .accepted

/-- … is FALSE of OpenMLS's ratchet: with T = 2, generation 3 offered first is too far ahead for F = 1 (refused, nothing
    changes) and generation 0 is then accepted; with F = 5 generation 3 is accepted, the head jumps to 4, the queue is
    cut to T = 2 entries, and generation 0 is then too old.  (Not a defect of mdk: a property of the windows.) -/
theorem window_monotone_F_full_false : ¬ window_monotone_F_full := by
  intro h
  have := h 2 1 5 (by decide) [3, 0] 1 (by decide)
  revert this; decide

/-- what holds: a larger forward distance (and tolerance) accepts everything the smaller ones accept on every delivery
    list on which the smaller configuration never refuses an offer as too far ahead -/
theorem window_monotone_partial (T T' F F' : Nat) (hT : T ≤ T') (hF : F ≤ F') (l : List Nat)
    (hfar : Verdict.tooFarAhead ∉ (run T F Ratchet.new l).2) (i : Nat)
    (h : (run T F Ratchet.new l).2[i]? = some .accepted) : (run T' F' Ratchet.new l).2[i]? = some .accepted :=
  sim_run hT hF l ⟨rfl, by simp [Ratchet.new]⟩ (farOK_of_none l hfar) i h

example : Verdict.tooFarAhead ∉ (run 1 2 Ratchet.new [1, 0, 2, 4, 3]).2 := by decide

/-- inside the smaller windows is inside the larger ones -/
theorem window_monotone (T T' F F' : Nat) (hT : T ≤ T') (hF : F ≤ F') (l : List Nat) (hn : l.Nodup)
    (hw : inWin T F 0 l = true) :
    inWin T' F' 0 l = true ∧ (run T' F' Ratchet.new l).2 = l.map (fun _ => Verdict.accepted) :=
  ⟨inWin_mono hT hF 0 l hw, (inside_windows_all_accepted T' F' l hn (inWin_mono hT hF 0 l hw)).1⟩

/-! ## the past-epoch window (the message-secrets store) -/

inductive SOp where
  | commit                          -- a commit is merged: the epoch advances
  | offer (m sender g : Nat)        -- an application message of epoch m is offered
  deriving DecidableEq, Repr

def runStore (T F P : Nat) : Store → List SOp → Store
  | s, [] => s
  | s, .commit :: l => runStore T F P (advance P s) l
  | s, .offer m sender g :: l => runStore T F P (mlsRecv T F s m sender g).1 l

theorem runStore_pastOK (T F P e0 : Nat) (ops : List SOp) (s : Store) (h : PastOK P e0 s) :
    PastOK P e0 (runStore T F P s ops) := by
  induction ops generalizing s with
  | nil => exact h
  | cons o l ih =>
    cases o with
    | commit => exact ih _ (pastOK_advance h)
    | offer m sender g => exact ih _ (pastOK_mlsRecv h T F m sender g)

/-- **past-epoch window**: after ANY history of commits and offers, a message of epoch `m` finds no secrets
    (`epochGone`) iff the receiver is more than `P` epochs past `m` (or `m` is from before it joined) -/
theorem epoch_window (T F P e0 : Nat) (ops : List SOp) (m sender g : Nat) :
    let s := runStore T F P { epoch := e0, cur := [], pastTrees := [] } ops
    ((mlsRecv T F s m sender g).2 = .epochGone ↔ m < s.epoch ∧ (s.epoch - m > P ∨ m < e0)) ∧
    ((mlsRecv T F s m sender g).2 = .epochGone → (mlsRecv T F s m sender g).1 = s) := by
  intro s
  have ok : PastOK P e0 s := runStore_pastOK T F P e0 ops _ (pastOK_init P e0)
  have key := treeFor_none_iff ok m
  unfold mlsRecv
  cases ht : treeFor s m with
  | none => exact ⟨by simp [← key, ht], fun _ => rfl⟩
  | some t =>
    have hne : ¬ (m < s.epoch ∧ (s.epoch - m > P ∨ m < e0)) := by rw [← key, ht]; simp
    simp only
    have ng : (recv T F ((tlookup sender t).getD Ratchet.new) g).2 ≠ .epochGone := by
      unfold recv takePast
      repeat' split
      all_goals simp
    by_cases ha : (recv T F ((tlookup sender t).getD Ratchet.new) g).2 = .accepted
    · simp [ha, hne]
    · simp [ha, hne, ng]

/-! ## the mdk client: what is stored -/

inductive COp where
  | send (n mid tok : Nat)
  | commit
  | deliver (w : Msg)
  deriving DecidableEq, Repr

def runCl : Cl → List COp → Cl
  | c, [] => c
  | c, .send n mid tok :: l => runCl (send c n mid tok).1 l
  | c, .commit :: l => runCl (applyCommit c) l
  | c, .deliver w :: l => runCl (deliver c w).1 l

/-- every client a history of sends, commits and deliveries can lead to retains exactly the last
    `min P (epoch - joined)` epochs (the hypothesis `PastOK` of the theorems below) -/
theorem reachable_pastOK (ops : List COp) (c : Cl) (h : PastOK c.cfg.P c.joined c.st) :
    PastOK (runCl c ops).cfg.P (runCl c ops).joined (runCl c ops).st := by
  induction ops generalizing c with
  | nil => exact h
  | cons o l ih =>
    cases o with
    | send n mid tok => exact ih _ h
    | commit => exact ih _ (pastOK_advance h)
    | deliver w =>
      apply ih
      obtain ⟨h1, h2, _, h4⟩ := deliver_frame c w
      rw [h1, h2]
      rcases h4 with h4 | h4
      · rw [h4]; exact h
      · rw [h4]; exact pastOK_mlsRecv h _ _ _ _ _

theorem init_pastOK (id : Nat) (cfg : Cfg) (e0 : Nat) : PastOK (initCl id cfg e0).cfg.P (initCl id cfg e0).joined (initCl id cfg e0).st :=
  pastOK_init cfg.P e0

/-- **inside_windows_all_stored**: one sender's burst of one epoch, offered for the first time to a receiver that has not
    yet seen a message of that sender in that epoch, in ANY order that stays inside the out-of-order and forward-distance
    windows (`inWin`, decided on the delivery list), while the receiver is at most `max_past_epochs` — and at most
    mdk's fixed `DEFAULT_EPOCH_LOOKBACK` — epochs past the burst's epoch: every delivery returns the message, every
    message ends in exactly the row its sender gave it (id, author, content token; state Processed), and a second
    offer of any of them is `Unprocessable` and changes neither rows nor ratchets -/
theorem inside_windows_all_stored (c : Cl) (m s : Nat) (ws : List Msg)
    (ok : PastOK c.cfg.P c.joined c.st)
    (hs : s ≠ c.id) (hj : c.joined ≤ m) (hme : m ≤ c.st.epoch)
    (hP : c.st.epoch - m ≤ c.cfg.P) (hL : c.st.epoch - m ≤ c.cfg.L)
    (first : ∀ t, treeFor c.st m = some t → tlookup s t = none)
    (same : ∀ w ∈ ws, w.sender = s ∧ w.epoch = m)
    (gens : (ws.map (·.gen)).Nodup) (wrappers : (ws.map (·.n)).Nodup) (mids : (ws.map (·.mid)).Nodup)
    (fresh : ∀ w ∈ ws, tlookup w.n c.recs = none)
    (hw : inWin c.cfg.T c.cfg.F 0 (ws.map (·.gen)) = true) :
    (deliverAll c ws).2 = ws.map (fun w => Res.app w.mid) ∧
    (∀ w ∈ ws, findRow w.mid (deliverAll c ws).1.rows = some ⟨w.mid, s, 1, c.st.epoch, w.tok⟩) ∧
    (∀ k, k ∉ ws.map (·.mid) → findRow k (deliverAll c ws).1.rows = findRow k c.rows) ∧
    (∀ w ∈ ws, (deliver (deliverAll c ws).1 w).2 = .unprocessable ∧
               (deliver (deliverAll c ws).1 w).1.rows = (deliverAll c ws).1.rows ∧
               (deliver (deliverAll c ws).1 w).1.st = (deliverAll c ws).1.st) := by
  obtain ⟨r, ch⟩ := chain_of_window ok hs hj hme hP hL
  have hr : r = Ratchet.new := by
    obtain ⟨t, ht, e⟩ := ch.tree
    rw [first t ht] at e
    exact e.symm
  subst hr
  obtain ⟨a1, ⟨r', chr, invr⟩, a3, _, a5, a6, a7, _⟩ :=
    deliverAll_inside ws ch (inv_new c.cfg.T) same gens (by simp) wrappers mids
      (by intro w hw rc hrc; rw [fresh w hw] at hrc; cases hrc) hw
  refine ⟨a1, a5, a6, ?_⟩
  intro w hwm
  obtain ⟨hws, hwe⟩ := same w hwm
  have e0 : deliver (deliverAll c ws).1 w = step1 (deliverAll c ws).1 w :=
    deliver_eq_step1 (by intro rc hrc; rw [a7 w hwm] at hrc; cases hrc; simp)
  have hne : (recv (deliverAll c ws).1.cfg.T (deliverAll c ws).1.cfg.F r' w.gen).2 ≠ .accepted := by
    rw [a3]
    intro hacc
    exact (recv_accepted_inv invr hacc).1 (by simp; exact ⟨w, hwm, rfl⟩)
  rw [e0, step1_refuse chr w hws hwe hne]
  exact ⟨rfl, rfl, rfl⟩

/-- the hypotheses are satisfiable: receiver 1 (T = 2, F = 3, P = 1) is one epoch past a burst of five that arrives in
    the order 1 0 3 2 4 -/
def rx : Cl := applyCommit (initCl 1 ⟨2, 3, 1, 5⟩ 1)
def burst : List Msg := [⟨11, 0, 1, 1, 101, 7⟩, ⟨10, 0, 1, 0, 100, 6⟩, ⟨13, 0, 1, 3, 103, 9⟩, ⟨12, 0, 1, 2, 102, 8⟩, ⟨14, 0, 1, 4, 104, 10⟩]
example : (deliverAll rx burst).2 = [.app 101, .app 100, .app 103, .app 102, .app 104] ∧
    (deliverAll rx burst).1.rows.length = 5 ∧ inWin 2 3 0 (burst.map (·.gen)) = true := by decide

/-- **exactly_once at the client**: ANY list of wrappers carrying messages of one sender and one epoch — any order, any
    repetition, the same generation under different wrappers — offered to a receiver that can open that chain: the
    deliveries that return a message have pairwise different generations (`appGens`: the generations of the deliveries
    whose result was `app`) -/
theorem exactly_once_client (c : Cl) (m s : Nat) (r : Ratchet) (A : List Nat) (ch : Chain c m s r) (inv : Inv c.cfg.T r A)
    (ws : List Msg) (same : ∀ w ∈ ws, w.sender = s ∧ w.epoch = m) :
    (appGens c ws).Nodup ∧ ∀ g ∈ appGens c ws, g ∉ A :=
  appGens_nodup ws ch inv same

/-- the same wrapper three times and its generation under a second wrapper: one acceptance -/
example : appGens rx [⟨11, 0, 1, 1, 101, 7⟩, ⟨11, 0, 1, 1, 101, 7⟩, ⟨15, 0, 1, 1, 101, 7⟩, ⟨10, 0, 1, 0, 100, 6⟩, ⟨11, 0, 1, 1, 101, 7⟩] = [1, 0] := by decide

/-- the full statement: the CONFIGURED windows alone (no mention of the fixed outer look-back) … -/
def inside_windows_all_stored_full : Prop :=
  ∀ (c : Cl) (m s : Nat) (ws : List Msg), PastOK c.cfg.P c.joined c.st → s ≠ c.id → c.joined ≤ m → m ≤ c.st.epoch →
    c.st.epoch - m ≤ c.cfg.P →
    (∀ t, treeFor c.st m = some t → tlookup s t = none) → (∀ w ∈ ws, w.sender = s ∧ w.epoch = m) →
    (ws.map (·.gen)).Nodup → (ws.map (·.n)).Nodup → (ws.map (·.mid)).Nodup → (∀ w ∈ ws, tlookup w.n c.recs = none) →
    inWin c.cfg.T c.cfg.F 0 (ws.map (·.gen)) = true →
    (deliverAll c ws).2 = ws.map (fun w => Res.app w.mid)

/-- receiver with `max_past_epochs = 8` (look-back 5 as in mdk-core), six commits after it joined in epoch 1 -/
def rx8 : Cl := applyCommit (applyCommit (applyCommit (applyCommit (applyCommit (applyCommit (initCl 1 ⟨5, 1000, 8, 5⟩ 1))))))

/-- … is FALSE of mdk: a message six epochs old is inside `max_past_epochs = 8` (OpenMLS still holds its secrets), but
    the outer layer only tries the exporter secrets of 5 past epochs — `Err`, a Failed record, blocked for ever
    (corpus/C02/msgwin_past_epochs_capped.trace replays this on the implementation) -/
theorem witness_past_epochs_capped :
    rx8.st.epoch = 7 ∧ (treeFor rx8.st 1).isSome = true ∧
    (deliver rx8 ⟨1, 0, 1, 1, 1, 2⟩).2 = .errMessage ∧
    (deliver (deliver rx8 ⟨1, 0, 1, 1, 1, 2⟩).1 ⟨1, 0, 1, 1, 1, 2⟩).2 = .unprocessable ∧
    (deliver rx8 ⟨3, 0, 2, 0, 2, 3⟩).2 = .app 2 := by decide

theorem inside_windows_all_stored_full_false : ¬ inside_windows_all_stored_full := by
  intro h
  have ok : PastOK rx8.cfg.P rx8.joined rx8.st := reachable_pastOK [.commit, .commit, .commit, .commit, .commit, .commit] _ (init_pastOK 1 ⟨5, 1000, 8, 5⟩ 1)
  have := h rx8 1 0 [⟨1, 0, 1, 1, 1, 2⟩] ok (by decide) (by decide) (by decide) (by decide) (by decide) (by decide)
    (by decide) (by decide) (by decide) (by decide) (by decide)
  revert this; decide

/-- **outside the windows, at the client**: an offer OpenMLS refuses (too far ahead, too old, reused) is `Unprocessable`,
    leaves rows and ratchets as they are, and leaves a Failed record — which makes every later offer of the same wrapper
    `Unprocessable` without a look (step-0 dedup), whatever the windows would say by then -/
theorem refused_without_effect_and_for_ever (c : Cl) (m s : Nat) (r : Ratchet) (ch : Chain c m s r) (w : Msg)
    (hs : w.sender = s) (hm : w.epoch = m) (notBlocked : ∀ rc, tlookup w.n c.recs = some rc → rc.state ≠ 3)
    (href : (recv c.cfg.T c.cfg.F r w.gen).2 ≠ .accepted) :
    (deliver c w).2 = .unprocessable ∧ (deliver c w).1.rows = c.rows ∧ (deliver c w).1.st = c.st ∧
    deliver (deliver c w).1 w = ((deliver c w).1, .unprocessable) := by
  rw [deliver_eq_step1 notBlocked, step1_refuse ch w hs hm href]
  refine ⟨rfl, rfl, rfl, ?_⟩
  unfold deliver
  have : tlookup w.n (recordFailure c w.n (some c.st.epoch)).recs =
      some ⟨3, some c.st.epoch, (tlookup w.n c.recs).bind (·.mid)⟩ := by
    simp only [recordFailure]; exact tlookup_tinsert_self _ _ _
  rw [this]; simp

/-- observed consequence (outside the property's hypothesis): T = 1, F = 2; generation 3 arrives first (too far ahead),
    then 0 1 2; now generation 3 is the very next one — and its wrapper is refused for ever -/
def rx12 : Cl := initCl 1 ⟨1, 2, 1, 5⟩ 1
theorem witness_refused_once_lost_for_ever :
    (deliverAll rx12 [⟨3, 0, 1, 3, 3, 4⟩, ⟨0, 0, 1, 0, 0, 1⟩, ⟨1, 0, 1, 1, 1, 2⟩, ⟨2, 0, 1, 2, 2, 3⟩, ⟨3, 0, 1, 3, 3, 4⟩]).2 =
      [.unprocessable, .app 0, .app 1, .app 2, .unprocessable] := by decide

/-! ## the sender's own copy -/

def commits : Nat → Cl → Cl
  | 0, c => c
  | k + 1, c => commits k (applyCommit c)

theorem commits_frame (k : Nat) (c : Cl) :
    (commits k c).rows = c.rows ∧ (commits k c).recs = c.recs ∧ (commits k c).id = c.id ∧ (commits k c).cfg = c.cfg ∧
    (commits k c).joined = c.joined ∧ (commits k c).st.epoch = c.st.epoch + k ∧
    (PastOK c.cfg.P c.joined c.st → PastOK c.cfg.P c.joined (commits k c).st) := by
  induction k generalizing c with
  | zero => simp [commits]
  | succ k ih =>
    obtain ⟨a, b, d, e, f, g, h⟩ := ih (applyCommit c)
    simp only [commits]
    refine ⟨a, b, d, e, f, ?_, fun ok => h (pastOK_advance ok)⟩
    rw [g]; simp only [applyCommit, advance]; omega

/-- **own_copy_confirmed**: the sender's own message, returning from the relay after `k` further commits with `k` inside
    `max_past_epochs` (and the fixed look-back), is returned and its cached row goes Created → Processed; a second echo is
    `Unprocessable` and changes nothing -/
theorem own_copy_confirmed (c : Cl) (ok : PastOK c.cfg.P c.joined c.st) (n mid tok k : Nat)
    (hk : k ≤ c.cfg.P) (hk' : k ≤ c.cfg.L) :
    let w := (send c n mid tok).2
    let c2 := commits k (send c n mid tok).1
    (deliver c2 w).2 = .app mid ∧
    findRow mid (deliver c2 w).1.rows = some ⟨mid, c.id, 1, c.st.epoch, tok⟩ ∧
    (deliver (deliver c2 w).1 w).2 = .unprocessable ∧ (deliver (deliver c2 w).1 w).1 = (deliver c2 w).1 := by
  intro w c2
  obtain ⟨f1, f2, f3, f4, f5, f6, f7⟩ := commits_frame k (send c n mid tok).1
  have hrec : tlookup w.n c2.recs = some ⟨0, some c.st.epoch, some mid⟩ := by
    show tlookup n c2.recs = _
    rw [f2]; simp only [send]; exact tlookup_tinsert_self _ _ _
  have hrow : findRow mid c2.rows = some ⟨mid, c.id, 0, c.st.epoch, tok⟩ := by
    rw [f1]; simp only [send]; exact findRow_upsert_self ⟨mid, c.id, 0, c.st.epoch, tok⟩ c.rows
  have hep : c2.st.epoch = c.st.epoch + k := by rw [f6]; rfl
  have ok2 : PastOK c.cfg.P c.joined c2.st := f7 ok
  have hj : c.joined ≤ c.st.epoch := ok.1
  have houter : outerOpens c2 w.epoch = true := by
    unfold outerOpens
    have e1 : c2.joined = c.joined := by rw [f5]; rfl
    have e2 : c2.cfg = c.cfg := by rw [f4]; rfl
    have e3 : w.epoch = c.st.epoch := rfl
    rw [e1, e2, e3, hep]; simp; omega
  have htree : ∃ t, treeFor c2.st w.epoch = some t := by
    cases ht : treeFor c2.st w.epoch with
    | none =>
      have := (treeFor_none_iff ok2 w.epoch).mp ht
      have e3 : w.epoch = c.st.epoch := rfl
      omega
    | some t => exact ⟨t, rfl⟩
  obtain ⟨t, ht⟩ := htree
  have hid : w.sender = c2.id := by rw [f3]; rfl
  have e : deliver c2 w = ({ c2 with rows := upsertRow ⟨mid, c.id, 1, c.st.epoch, tok⟩ c2.rows, recs := tinsert w.n ⟨1, some c.st.epoch, some mid⟩ c2.recs }, .app mid) := by
    unfold deliver
    rw [hrec]
    simp only [Nat.zero_ne_add_one, if_false]
    unfold step1
    rw [houter, ht]
    simp only [Bool.not_true, Bool.false_eq_true, if_false, hid, if_true]
    unfold ownMessage
    rw [hrec]
    simp only [if_true, hrow]
  rw [e]
  refine ⟨rfl, findRow_upsert_self ⟨mid, c.id, 1, c.st.epoch, tok⟩ c2.rows, ?_⟩
  have hrec2 : tlookup w.n (tinsert w.n (⟨1, some c.st.epoch, some mid⟩ : Rec) c2.recs) = some ⟨1, some c.st.epoch, some mid⟩ :=
    tlookup_tinsert_self _ _ _
  unfold deliver
  simp only [hrec2]
  unfold step1
  simp only [outerOpens] at houter ⊢
  simp only [houter, ht, Bool.not_true, Bool.false_eq_true, if_false, hid, if_true]
  unfold ownMessage
  simp [hrec2]

end MdkVerif.Props.C02Win
