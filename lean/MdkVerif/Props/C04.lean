import MdkVerif.Generated
import MdkVerif.Model.AppMsg
/-
  C04 — Stored messages are bound to their authenticated sender and to their own content.
  Property theorems only.  The model (`Model/AppMsg.lean`) takes as a PARAMETER whether the id of a
  received rumor is recomputed from its content; the theorems instantiate it with the fact
  `Generated.rumorIdRecomputed`, re-extracted from messages/application.rs on every run.  On mdk before
  9fd9ca0 the fact was `false` (the pre-set id of the decrypted JSON was the storage key) and `id_bound` /
  `no_foreign_overwrite` were false — `preset_id_overwrites_when_not_recomputed` below is the closed
  witness, stated about the model function with the flag as an argument so that it is provable whatever
  the current code says.
-/
namespace MdkVerif.Props.C04
open MdkVerif MdkVerif.AppMsg List

/-- the behaviour of the current code (regenerated fact) -/
abbrev rc : Bool := Generated.rumorIdRecomputed

/-- the tie: the current source recomputes the id (fails to build when the repair is reverted) -/
theorem rc_true : rc = true := by decide

/-- a stored row is sound: attributed to the authenticated sender, and its id is the NIP-01 hash of exactly
    the stored author / timestamp / kind / tags / content -/
def RowOk (r : Row) : Prop := r.author = r.sender ∧ r.id = .hash r.body

def Inv (s : Store) : Prop := ∀ r ∈ s.rows, RowOk r

/-! ### helper facts about `upsert` and `recv` -/

theorem mem_upsert {row r : Row} {rows : List Row} (h : r ∈ upsert row rows) : r = row ∨ r ∈ rows := by
  induction rows with
  | nil => simp [upsert] at h; exact Or.inl h
  | cons x xs ih =>
    simp only [upsert] at h
    split at h
    · rcases List.mem_cons.mp h with h | h
      · exact Or.inl h
      · exact Or.inr (List.mem_cons_of_mem _ h)
    · rcases List.mem_cons.mp h with h | h
      · exact Or.inr (by simp [h])
      · rcases ih h with h | h
        · exact Or.inl h
        · exact Or.inr (List.mem_cons_of_mem _ h)

/-- an upsert removes nothing but a row with the SAME key -/
theorem upsert_keeps {row r : Row} {rows : List Row} (h : r ∈ rows) (hk : ¬ (r.gid = row.gid ∧ r.id = row.id)) :
    r ∈ upsert row rows := by
  induction rows with
  | nil => simp at h
  | cons x xs ih =>
    simp only [upsert]
    rcases List.mem_cons.mp h with h | h
    · subst h
      rw [if_neg hk]; simp
    · split
      · exact List.mem_cons_of_mem _ h
      · exact List.mem_cons_of_mem _ (ih h)

/-- every way `recv` can change the rows: not at all, or one upsert of the row built from an event whose
    author check passed, under the id the flag selects -/
theorem recv_rows (b : Bool) (me : Nat) (mine : List Nat) (s : Store) (w : Wrapper) :
    (recv b me mine s w).1.rows = s.rows ∨
    (w.ct.rumor.body.pubkey = w.ct.sender ∧ w.ct.sender ≠ me ∧ w.ct.cid ∉ s.seen ∧
      (recv b me mine s w).1.rows =
        upsert (mkRow w.hTag (if b then nip01Id w.ct.rumor else trustedId w.ct.rumor) w.ct.rumor w.wid w.ct.sender) s.rows) := by
  unfold recv
  split
  · exact Or.inl rfl
  · split
    · exact Or.inl rfl
    · split
      · exact Or.inl rfl
      · split
        · exact Or.inl rfl
        · split
          · split
            · exact Or.inl rfl
            · split <;> exact Or.inl rfl
          · split
            · exact Or.inl rfl
            · split
              · exact Or.inl rfl
              · rename_i hme _ hseen
                by_cases hpk : w.ct.rumor.body.pubkey = w.ct.sender
                · exact Or.inr ⟨hpk, hme, hseen, by simp [processApp, hpk]⟩
                · exact Or.inl (by simp [processApp, hpk, fail])

theorem mkRow_ok (g : Nat) (r : Rumor) (wid x : Nat) (h : r.body.pubkey = x) : RowOk (mkRow g (nip01Id r) r wid x) := by
  constructor
  · simp [mkRow, h]
  · simp [mkRow, nip01Id, Row.body]

theorem honest_trustedId {me : Nat} {r : Rumor} (h : honest me r = true) : trustedId r = nip01Id r ∧ r.body.pubkey = me := by
  simp only [honest, Bool.and_eq_true, Bool.or_eq_true, decide_eq_true_eq] at h
  refine ⟨?_, h.1⟩
  rcases h.2 with h2 | h2 <;> simp [trustedId, h2]

/-! ### the invariant, for all histories -/

theorem inv_step (me : Nat) (mine : List Nat) (s : Store) (o : Op) (hs : Inv s) (ho : o.ok me = true) :
    Inv (step rc me mine s o) := by
  intro r hr
  cases o with
  | recv w =>
    simp only [step] at hr
    rcases recv_rows rc me mine s w with h | ⟨hpk, _, _, h⟩
    · rw [h] at hr; exact hs r hr
    · rw [h] at hr
      rcases mem_upsert hr with h1 | h1
      · subst h1; simp only [rc_true, if_true]; exact mkRow_ok _ _ _ _ hpk
      · exact hs r h1
  | send g ru wid =>
    simp only [step, send] at hr
    obtain ⟨hid, hpk⟩ := honest_trustedId (by simpa [Op.ok] using ho)
    rcases mem_upsert hr with h1 | h1
    · subst h1; rw [hid]; exact mkRow_ok _ _ _ _ hpk
    · exact hs r h1

theorem inv_run (me : Nat) (mine : List Nat) : ∀ (ops : List Op) (s : Store), Inv s → (∀ o ∈ ops, o.ok me = true) →
    Inv (run rc me mine s ops)
  | [], s, hs, _ => hs
  | o :: os, s, hs, ho => by
    simp only [run]
    exact inv_run me mine os _ (inv_step me mine s o hs (ho o (by simp))) (fun o' h => ho o' (by simp [h]))

/-- **author_bound.**  After ANY history of received wrappers (arbitrary rumors, ids, h tags, replays, MLS
    verdicts) and honest own sends, every stored row is attributed to the identity the MLS layer
    authenticated as the sender of the event that wrote it. -/
theorem author_bound (me : Nat) (mine : List Nat) (ops : List Op) (hok : ∀ o ∈ ops, o.ok me = true) :
    ∀ r ∈ (run rc me mine Store.empty ops).rows, r.author = r.sender :=
  fun r hr => (inv_run me mine ops Store.empty (by intro r h; simp [Store.empty] at h) hok r hr).1

/-- **id_bound.**  … and its id is the NIP-01 hash of exactly the stored author, timestamp, kind, tags and
    content. -/
theorem id_bound (me : Nat) (mine : List Nat) (ops : List Op) (hok : ∀ o ∈ ops, o.ok me = true) :
    ∀ r ∈ (run rc me mine Store.empty ops).rows, r.id = .hash r.body :=
  fun r hr => (inv_run me mine ops Store.empty (by intro r h; simp [Store.empty] at h) hok r hr).2

/-- the hypotheses are satisfiable by a non-trivial history: a forged author, a pre-set foreign id, a
    replay and an own message — and the store ends up with three rows -/
example : ∃ ops : List Op, (∀ o ∈ ops, o.ok 3 = true) ∧ (run rc 3 [0, 1] Store.empty ops).rows.length = 3 := by
  refine ⟨[.recv ⟨10, 0, 0, true, ⟨1, 0, 2, ⟨⟨2, 5, 9, 0, 7⟩, none⟩⟩⟩,
           .recv ⟨11, 0, 0, true, ⟨2, 0, 1, ⟨⟨2, 5, 9, 0, 8⟩, none⟩⟩⟩,                             -- forged author
           .recv ⟨12, 0, 0, true, ⟨3, 0, 1, ⟨⟨1, 6, 9, 0, 8⟩, some (.hash ⟨2, 5, 9, 0, 7⟩)⟩⟩⟩,     -- pre-set foreign id
           .recv ⟨13, 0, 0, true, ⟨1, 0, 2, ⟨⟨2, 5, 9, 0, 7⟩, none⟩⟩⟩,                             -- replayed ciphertext
           .send 1 ⟨⟨3, 7, 9, 0, 1⟩, none⟩ 14], ?_, ?_⟩ <;> decide

/-! ### no foreign overwrite -/

/-- **no_foreign_overwrite.**  In any reachable store, an event written on behalf of X (a received wrapper
    whose MLS-authenticated sender is X, whatever rumor it carries; or an own honest send, X = the client)
    leaves every row whose author is Y ≠ X exactly as it was — in the group of the event and in every
    other group. -/
theorem no_foreign_overwrite (me : Nat) (mine : List Nat) (ops : List Op) (hok : ∀ o ∈ ops, o.ok me = true)
    (o : Op) (ho : o.ok me = true) (r : Row)
    (hr : r ∈ (run rc me mine Store.empty ops).rows) (hne : r.author ≠ o.actor me) :
    r ∈ (step rc me mine (run rc me mine Store.empty ops) o).rows := by
  have hinv := inv_run me mine ops Store.empty (by intro r h; simp [Store.empty] at h) hok
  have hrow := hinv r hr
  cases o with
  | recv w =>
    simp only [step]
    rcases recv_rows rc me mine (run rc me mine Store.empty ops) w with h | ⟨hpk, _, _, h⟩
    · rw [h]; exact hr
    · rw [h]
      apply upsert_keeps hr
      intro ⟨_, hid⟩
      simp only [rc_true, if_true, mkRow, nip01Id] at hid
      rw [hrow.2] at hid
      have : r.body = w.ct.rumor.body := by injection hid
      have hp : r.author = w.ct.rumor.body.pubkey := by
        have := congrArg Body.pubkey this; simpa [Row.body] using this
      exact hne (by simp [Op.actor, hp, hpk])
  | send g ru wid =>
    simp only [step, send]
    obtain ⟨hid, hpk⟩ := honest_trustedId (by simpa [Op.ok] using ho)
    apply upsert_keeps hr
    intro ⟨_, hid2⟩
    simp only [mkRow, hid, nip01Id] at hid2
    rw [hrow.2] at hid2
    have : r.body = ru.body := by injection hid2
    have hp : r.author = ru.body.pubkey := by
      have := congrArg Body.pubkey this; simpa [Row.body] using this
    exact hne (by simp [Op.actor, hp, hpk])

/-- non-vacuity: a store holding C's message, and B's event carrying a rumor with the pre-set id of that
    message — the hypotheses hold and the event does write a (second) row -/
example :
    let ops : List Op := [.recv ⟨10, 0, 0, true, ⟨1, 0, 2, ⟨⟨2, 5, 9, 0, 7⟩, none⟩⟩⟩]
    let o : Op := .recv ⟨12, 0, 0, true, ⟨3, 0, 1, ⟨⟨1, 6, 9, 0, 8⟩, some (.hash ⟨2, 5, 9, 0, 7⟩)⟩⟩⟩
    (∀ x ∈ ops, x.ok 3 = true) ∧ o.ok 3 = true ∧
    (∃ r ∈ (run rc 3 [0] Store.empty ops).rows, r.author ≠ o.actor 3) ∧
    (step rc 3 [0] (run rc 3 [0] Store.empty ops) o).rows.length = 2 := by decide

/-! ### no second copy -/

theorem seen_mono (b : Bool) (me : Nat) (mine : List Nat) (s : Store) (o : Op) (c : Nat) (h : c ∈ s.seen) :
    c ∈ (step b me mine s o).seen := by
  cases o with
  | send g r wid => simpa [step, send] using h
  | recv w =>
    simp only [step, recv, fail, processApp]
    repeat' split
    all_goals simp_all

theorem seen_mono_run (b : Bool) (me : Nat) (mine : List Nat) (c : Nat) : ∀ (ops : List Op) (s : Store), c ∈ s.seen →
    c ∈ (run b me mine s ops).seen
  | [], _, h => h
  | o :: os, s, h => by simp only [run]; exact seen_mono_run b me mine c os _ (seen_mono b me mine s o c h)

/-- an accepted foreign message has consumed its ciphertext -/
theorem app_consumes (b : Bool) (me : Nat) (mine : List Nat) (s : Store) (w : Wrapper) (id : Id)
    (hne : w.ct.sender ≠ me) (h : (recv b me mine s w).2 = .app id) : w.ct.cid ∈ (recv b me mine s w).1.seen := by
  revert h
  simp only [recv, fail, processApp]
  repeat' split
  all_goals simp_all

/-- a consumed ciphertext is refused and changes no row, under any wrapper -/
theorem consumed_refused (b : Bool) (me : Nat) (mine : List Nat) (s : Store) (w : Wrapper)
    (hne : w.ct.sender ≠ me) (h : w.ct.cid ∈ s.seen) :
    (recv b me mine s w).2 = .refused ∧ (recv b me mine s w).1.rows = s.rows := by
  simp only [recv, fail, processApp]
  repeat' split
  all_goals simp_all

/-- **no_second_copy.**  Once a wrapper of another member's message was accepted, the same MLS ciphertext
    under ANY other wrapper (fresh id, fresh signer, any h tag, any outer key) delivered after ANY further
    history is refused and changes no row. -/
theorem no_second_copy (me : Nat) (mine : List Nat) (s : Store) (w w' : Wrapper) (id : Id) (later : List Op)
    (hne : w.ct.sender ≠ me) (hacc : (recv rc me mine s w).2 = .app id) (hsame : w'.ct = w.ct) :
    let s2 := run rc me mine (recv rc me mine s w).1 later
    (recv rc me mine s2 w').2 = .refused ∧ (recv rc me mine s2 w').1.rows = s2.rows := by
  intro s2
  have h1 := app_consumes rc me mine s w id hne hacc
  have h2 := seen_mono_run rc me mine w.ct.cid later _ h1
  exact consumed_refused rc me mine s2 w' (by rw [hsame]; exact hne) (by rw [hsame]; exact h2)

example : ∃ (s : Store) (w : Wrapper) (id : Id), w.ct.sender ≠ 3 ∧ (recv rc 3 [0] s w).2 = .app id :=
  ⟨Store.empty, ⟨10, 0, 0, true, ⟨1, 0, 2, ⟨⟨2, 5, 9, 0, 7⟩, none⟩⟩⟩, .hash ⟨2, 5, 9, 0, 7⟩, by decide, by decide⟩

/-- a forged `pubkey` field is refused and writes nothing, whoever it names -/
theorem forged_author_refused (b : Bool) (me : Nat) (mine : List Nat) (s : Store) (w : Wrapper)
    (h : w.ct.rumor.body.pubkey ≠ w.ct.sender) :
    (recv b me mine s w).2 ≠ .app (nip01Id w.ct.rumor) ∨ w.ct.sender = me ∨ (recv b me mine s w).1.rows = s.rows := by
  rcases recv_rows b me mine s w with h1 | ⟨hpk, _, _, _⟩
  · exact Or.inr (Or.inr h1)
  · exact absurd hpk h

/-! ### regression witness: the defect `preset-rumor-id` (mdk before 9fd9ca0) -/

/-- With the id NOT recomputed (`recompute = false`, the code before the repair): C's message is stored;
    B — authenticated as B, author field B — sends a rumor whose pre-set id is the id of C's message.  It is
    accepted, C's row is gone, the row under C's id now carries B's author and content, and its id is no
    longer the hash of its fields.  With `recompute = true` the same history leaves C's row intact. -/
theorem preset_id_overwrites_when_not_recomputed :
    let cMsg : Wrapper := ⟨10, 0, 0, true, ⟨1, 0, 2, ⟨⟨2, 5, 9, 0, 7⟩, none⟩⟩⟩
    let bMsg : Wrapper := ⟨12, 0, 0, true, ⟨3, 0, 1, ⟨⟨1, 6, 9, 0, 8⟩, some (.hash ⟨2, 5, 9, 0, 7⟩)⟩⟩⟩
    let cRow : Row := mkRow 0 (.hash ⟨2, 5, 9, 0, 7⟩) cMsg.ct.rumor 10 2
    (cRow ∈ (run false 3 [0] Store.empty [.recv cMsg]).rows) ∧
    (cRow ∉ (run false 3 [0] Store.empty [.recv cMsg, .recv bMsg]).rows) ∧
    (∃ r ∈ (run false 3 [0] Store.empty [.recv cMsg, .recv bMsg]).rows, r.id = .hash ⟨2, 5, 9, 0, 7⟩ ∧ r.author = 1 ∧ r.id ≠ .hash r.body) ∧
    (cRow ∈ (run true 3 [0] Store.empty [.recv cMsg, .recv bMsg]).rows) := by decide

end MdkVerif.Props.C04
