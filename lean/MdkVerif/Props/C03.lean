import MdkVerif.Model.Knowledge
/-
  C03 — Only members of the sending epoch ever obtain a message's plaintext.
  Symbolic model: cryptographic secrecy itself is ASSUMED (a wrapper opens exactly for the holders of
  the secrets of the state it was made in); what is proved is that the wrapper logic — welcomes, commits,
  eviction, rollback, retention, feeding of arbitrary events in arbitrary order — never gives a client the
  secrets of a state in which it is not a member, for every world and every history.
-/
namespace MdkVerif.Props.C03
open MdkVerif.Knowledge

/-- the knowledge invariant of client `me` -/
structure Inv (w : World) (me : Nat) (c : Client) : Prop where
  heldMember : ∀ s, s ∈ c.held → memberOf w me s = true
  curHeld : ∀ gid s, c.cur gid = some s → s ∈ c.held ∧ gidOf w s = some gid
  msgMember : ∀ mid s, (mid, s) ∈ c.msgs → memberOf w me s = true

theorem inv_empty (w : World) (me : Nat) : Inv w me Client.empty := by
  constructor <;> simp [Client.empty]

theorem inv_step (w : World) (hw : w.wf) (me : Nat) (c : Client) (st : Step) (h : Inv w me c) :
    Inv w me (step w me c st) := by
  obtain ⟨h1, h2, h3⟩ := h
  cases st with
  | create s =>
    simp only [step]
    cases hs : w s with
    | none => exact ⟨h1, h2, h3⟩
    | some g =>
      simp only
      split
      · rename_i hc
        simp only [Bool.and_eq_true] at hc
        refine ⟨?_, ?_, h3⟩
        · intro s' hs'
          simp only [setCur, List.mem_cons] at hs'
          rcases hs' with e | e
          · subst e; simpa [memberOf, hs] using hc.2
          · exact h1 s' e
        · intro gid s' hcur
          simp only [setCur] at hcur
          by_cases e : gid = g.gid
          · simp [e] at hcur; subst hcur; exact ⟨by simp [setCur], by simp [gidOf, hs, e]⟩
          · simp [e] at hcur
            obtain ⟨a, b⟩ := h2 gid s' hcur
            exact ⟨by simp [setCur, a], b⟩
      · exact ⟨h1, h2, h3⟩
  | apply frm to =>
    simp only [step]
    cases hf : w frm with
    | none => exact ⟨h1, h2, h3⟩
    | some gf =>
      cases ht : w to with
      | none => exact ⟨h1, h2, h3⟩
      | some gt =>
        simp only
        split
        · rename_i hc
          simp only [Bool.and_eq_true, beq_iff_eq] at hc
          split
          · rename_i hm
            refine ⟨?_, ?_, h3⟩
            · intro s' hs'
              simp only [setCur, List.mem_cons] at hs'
              rcases hs' with e | e
              · subst e; simpa [memberOf, ht] using hm
              · exact h1 s' e
            · intro gid s' hcur
              simp only [setCur] at hcur
              by_cases e : gid = gf.gid
              · simp [e] at hcur; subst hcur
                exact ⟨by simp [setCur], by simp [gidOf, ht, e, hc.1.2]⟩
              · simp [e] at hcur
                obtain ⟨a, b⟩ := h2 gid s' hcur
                exact ⟨by simp [setCur, a], b⟩
          · refine ⟨h1, ?_, h3⟩
            intro gid s' hcur
            simp only [setCur] at hcur
            by_cases e : gid = gf.gid
            · simp [e] at hcur
            · simp [e] at hcur; exact h2 gid s' hcur
        · exact ⟨h1, h2, h3⟩
  | join s =>
    simp only [step]
    cases hs : w s with
    | none => exact ⟨h1, h2, h3⟩
    | some g =>
      simp only
      split
      · rename_i hc
        have hmem : me ∈ g.members := hw s g hs me (by simpa using hc)
        refine ⟨?_, ?_, h3⟩
        · intro s' hs'
          simp only [setCur, List.mem_cons] at hs'
          rcases hs' with e | e
          · subst e; simp [memberOf, hs, hmem]
          · exact h1 s' e
        · intro gid s' hcur
          simp only [setCur] at hcur
          by_cases e : gid = g.gid
          · simp [e] at hcur; subst hcur; exact ⟨by simp [setCur], by simp [gidOf, hs, e]⟩
          · simp [e] at hcur
            obtain ⟨a, b⟩ := h2 gid s' hcur
            exact ⟨by simp [setCur, a], b⟩
      · exact ⟨h1, h2, h3⟩
  | send mid s =>
    simp only [step]
    cases hs : w s with
    | none => exact ⟨h1, h2, h3⟩
    | some g =>
      simp only
      split
      · rename_i hc
        have hcur : c.cur g.gid = some s := by simpa using hc
        refine ⟨h1, h2, ?_⟩
        intro mid' s' hm
        simp only [List.mem_cons] at hm
        rcases hm with e | e
        · cases e; exact h1 s (h2 g.gid s hcur).1
        · exact h3 mid' s' e
      · exact ⟨h1, h2, h3⟩
  | recv mid s =>
    simp only [step]
    split
    · rename_i hc
      refine ⟨h1, h2, ?_⟩
      intro mid' s' hm
      simp only [List.mem_cons] at hm
      rcases hm with e | e
      · cases e; exact h1 s (by simpa using hc)
      · exact h3 mid' s' e
    · exact ⟨h1, h2, h3⟩
  | rollback s =>
    simp only [step]
    cases hs : w s with
    | none => exact ⟨h1, h2, h3⟩
    | some g =>
      simp only
      split
      · rename_i hc
        simp only [Bool.and_eq_true] at hc
        refine ⟨h1, ?_, h3⟩
        intro gid s' hcur
        simp only [setCur] at hcur
        by_cases e : gid = g.gid
        · simp [e] at hcur; subst hcur
          exact ⟨by simpa [setCur] using hc.1, by simp [gidOf, hs, e]⟩
        · simp [e] at hcur; exact h2 gid s' hcur
      · exact ⟨h1, h2, h3⟩
  | forget s =>
    simp only [step]
    have drop : ∀ (hne : ∀ gid, c.cur gid ≠ some s), Inv w me { c with held := c.held.filter (· != s) } := by
      intro hne
      refine ⟨?_, ?_, h3⟩
      · intro s' hs'
        exact h1 s' (List.mem_filter.mp hs').1
      · intro gid s' hcur
        obtain ⟨a, b⟩ := h2 gid s' hcur
        refine ⟨?_, b⟩
        have : s' ≠ s := by intro e; subst e; exact hne gid hcur
        simp [List.mem_filter, a, this]
    cases hs : w s with
    | none =>
      simp only
      apply drop
      intro gid hcur
      have := (h2 gid s hcur).2
      simp [gidOf, hs] at this
    | some g =>
      simp only
      split
      · exact ⟨h1, h2, h3⟩
      · rename_i hc
        apply drop
        intro gid hcur
        have hg := (h2 gid s hcur).2
        simp [gidOf, hs] at hg
        subst hg
        simp [hcur] at hc

theorem inv_run (w : World) (hw : w.wf) (me : Nat) (c : Client) (steps : List Step) (h : Inv w me c) :
    Inv w me (run w me c steps) := by
  induction steps generalizing c with
  | nil => exact h
  | cons st rest ih => exact ih _ (inv_step w hw me c st h)

/-- **knowledge_inv.**  In every world and after every history of steps — own operations and ANY events
    fed in ANY order — a client holds the secrets of a state only if it is a member in that state. -/
theorem knowledge_inv (w : World) (hw : w.wf) (me : Nat) (steps : List Step) (s : Nat)
    (h : s ∈ (run w me Client.empty steps).held) : memberOf w me s = true :=
  (inv_run w hw me _ steps (inv_empty w me)).heldMember s h

/-- **C03.**  Every message row a client stores was sent in a state in which that client is a member —
    never-members, ex-members (for states after their removal), members of other groups and joiners (for
    states before they joined) store nothing of it, whatever they are fed. -/
theorem C03 (w : World) (hw : w.wf) (me : Nat) (steps : List Step) (mid s : Nat)
    (h : (mid, s) ∈ (run w me Client.empty steps).msgs) : memberOf w me s = true :=
  (inv_run w hw me _ steps (inv_empty w me)).msgMember mid s h

/-- secrets enter only through the three doors: creating the group, a welcome that names the client, a
    commit applied from the client's current state to a state in which it is a member -/
theorem held_only_by (w : World) (me : Nat) (c : Client) (st : Step) (s : Nat)
    (h : s ∈ (step w me c st).held) :
    s ∈ c.held ∨ st = .create s ∨ st = .join s ∨ ∃ frm, st = .apply frm s ∧ c.cur ((w frm).map (·.gid) |>.getD 0) = some frm := by
  cases st with
  | create s' =>
    simp only [step] at h
    cases hs : w s' with
    | none => simp [hs] at h; exact Or.inl h
    | some g =>
      simp only [hs] at h
      split at h
      · simp only [setCur, List.mem_cons] at h
        rcases h with e | e
        · subst e; exact Or.inr (Or.inl rfl)
        · exact Or.inl e
      · exact Or.inl h
  | join s' =>
    simp only [step] at h
    cases hs : w s' with
    | none => simp [hs] at h; exact Or.inl h
    | some g =>
      simp only [hs] at h
      split at h
      · simp only [setCur, List.mem_cons] at h
        rcases h with e | e
        · subst e; exact Or.inr (Or.inr (Or.inl rfl))
        · exact Or.inl e
      · exact Or.inl h
  | apply frm to =>
    simp only [step] at h
    cases hf : w frm with
    | none => simp [hf] at h; exact Or.inl h
    | some gf =>
      cases ht : w to with
      | none => simp [hf, ht] at h; exact Or.inl h
      | some gt =>
        simp only [hf, ht] at h
        split at h
        · rename_i hc
          simp only [Bool.and_eq_true, beq_iff_eq] at hc
          split at h
          · simp only [setCur, List.mem_cons] at h
            rcases h with e | e
            · subst e; exact Or.inr (Or.inr (Or.inr ⟨frm, rfl, by simp [hf, hc.2]⟩))
            · exact Or.inl e
          · exact Or.inl (by simpa [setCur] using h)
        · exact Or.inl h
  | send mid s' =>
    simp only [step] at h
    cases hs : w s' with
    | none => simp [hs] at h; exact Or.inl h
    | some g => simp only [hs] at h; split at h <;> exact Or.inl h
  | recv mid s' => simp only [step] at h; split at h <;> exact Or.inl h
  | rollback s' =>
    simp only [step] at h
    cases hs : w s' with
    | none => simp [hs] at h; exact Or.inl h
    | some g => simp only [hs] at h; split at h <;> first | exact Or.inl (by simpa [setCur] using h) | exact Or.inl h
  | forget s' =>
    simp only [step] at h
    cases hs : w s' with
    | none => simp [hs] at h; exact Or.inl h.1
    | some g =>
      simp only [hs] at h
      split at h
      · exact Or.inl h
      · exact Or.inl (List.mem_filter.mp h).1

/-- **evicted.**  Once a client has applied the commit that removes it, the group has no current state for
    it: `create_message` (`send`) in ANY state of that group is refused, rollbacks are refused, and it holds
    no secret of the new state — so it can neither send nor read what is sent from then on. -/
theorem evicted_cannot_send_or_read (w : World) (me : Nat) (c : Client) (frm to : Nat) (gf gt : GState)
    (hf : w frm = some gf) (ht : w to = some gt) (hp : gt.parent = some frm) (hg : gt.gid = gf.gid)
    (hcur : c.cur gf.gid = some frm) (hout : gt.members.contains me = false) (hnot : to ∉ c.held) :
    let c' := step w me c (.apply frm to)
    c'.cur gf.gid = none ∧ to ∉ c'.held ∧
    (∀ mid s g, w s = some g → g.gid = gf.gid → step w me c' (.send mid s) = c') ∧
    (∀ mid, step w me c' (.recv mid to) = c') := by
  have hout' : me ∉ gt.members := by simpa using hout
  have hc' : step w me c (.apply frm to) = setCur c gf.gid none := by
    simp [step, hf, ht, hp, hg, hcur, hout']
  simp only [hc']
  refine ⟨by simp [setCur], by simpa [setCur] using hnot, ?_, ?_⟩
  · intro mid s g hs hgid
    simp [step, hs, setCur, hgid]
  · intro mid
    have : to ∉ (setCur c gf.gid none).held := by simpa [setCur] using hnot
    simp [step, this]

/-- **joiner.**  A client that enters a group through a welcome holds, of that group, exactly the state
    the welcome leads to: a message sent in any EARLIER state is refused, whatever order events arrive in
    (until the client itself gains another state through one of the three doors). -/
theorem joiner_reads_nothing_earlier (w : World) (me s : Nat) (g : GState) (hs : w s = some g)
    (hadd : g.added.contains me = true) (mid p : Nat) (hp : p ≠ s) :
    let c := step w me Client.empty (.join s)
    c.held = [s] ∧ step w me c (.recv mid p) = c := by
  have hadd' : me ∈ g.added := by simpa using hadd
  have hc : step w me Client.empty (.join s) = { setCur Client.empty g.gid (some s) with held := [s] } := by
    simp [step, hs, hadd', Client.empty]
  simp only [hc]
  refine ⟨by simp, ?_⟩
  simp [step, setCur, hp]

/-! ### non-vacuity: a world with an add, a removal and a later message -/

/-- states 0 (A,B) → 1 (A,B,C; C added) → 2 (A,C; B removed), all of group 7 -/
def demo : World := fun s =>
  match s with
  | 0 => some { gid := 7, epoch := 1, members := [10, 11], parent := none, added := [11] }
  | 1 => some { gid := 7, epoch := 2, members := [10, 11, 12], parent := some 0, added := [12] }
  | 2 => some { gid := 7, epoch := 3, members := [10, 12], parent := some 1, added := [] }
  | _ => none

theorem demo_wf : demo.wf := by
  intro s g hs c hc
  match s with
  | 0 => simp [demo] at hs; subst hs; simp at hc; simp [hc]
  | 1 => simp [demo] at hs; subst hs; simp at hc; simp [hc]
  | 2 => simp [demo] at hs; subst hs; simp at hc
  | n + 3 => simp [demo] at hs

/-- B (11) joins in state 0, follows to 1, is removed in 2 and is then fed everything again: it keeps the
    messages of states 0 and 1, gets neither message 30 (sent in state 2) nor a way to send (40, 41 refused);
    C (12) joined in state 1, follows to 2 and never gets message 10 (state 0); an outsider (13) gets nothing. -/
example :
    let feed : List Step := [.recv 10 0, .recv 20 1, .recv 30 2, .apply 0 1, .apply 1 2, .recv 30 2, .recv 10 0]
    let b := run demo 11 Client.empty ([.join 0, .recv 10 0, .apply 0 1, .recv 20 1, .apply 1 2, .send 40 2, .send 41 1] ++ feed)
    let c := run demo 12 Client.empty ([.join 1] ++ feed)
    let o := run demo 13 Client.empty feed
    (b.msgs.map (·.1)).eraseDups = [10, 20] ∧ b.cur 7 = none ∧
    (c.msgs.map (·.1)).eraseDups = [30, 20] ∧ c.cur 7 = some 2 ∧ o.msgs = [] := by decide

end MdkVerif.Props.C03
