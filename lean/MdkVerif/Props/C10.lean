import MdkVerif.Model.Store
import MdkVerif.Proofs.Store
import MdkVerif.Proofs.Sort
import MdkVerif.Proofs.Refine
import MdkVerif.Props.C10Lru
import MdkVerif.Props.C10Limits
/-
  C10 — Memory and SQLite backends are observably the same store, and both agree with the plain
  reading of the storage contract.  The statements below are about the store model on EITHER backend
  (`s.backend` is arbitrary unless stated), for all stores, keys and values.
-/
namespace MdkVerif.Props.C10
open MdkVerif MdkVerif.Store List

/-! ### 1. a lookup returns the last value saved under that key (and saving one key never disturbs
    another) -/

theorem group_last_write_wins (s s' : Store) (g : Group) (h : saveGroup s g = some s') :
    findGroup s' g.gid = some g ∧ ∀ k, k ≠ g.gid → findGroup s' k = findGroup s k := by
  unfold saveGroup at h
  have key : ∀ bn, (findGroup { s with groups := replaceGroup g s.groups, byNid := bn } g.gid = some g ∧
      ∀ k, k ≠ g.gid → findGroup { s with groups := replaceGroup g s.groups, byNid := bn } k = findGroup s k) := by
    intro bn
    exact ⟨find_replaceGroup_self g _, fun k hk => find_replaceGroup_ne g _ k hk⟩
  repeat' split at h
  all_goals (cases h <;> first | exact key _ | exact ⟨find_replaceGroup_self g _, fun k hk => find_replaceGroup_ne g _ k hk⟩)

theorem find_upsertMsg_self (m : Msg) (l : List Msg) :
    (upsertMsg m l).find? (fun x => x.gid == m.gid && x.id == m.id) = some m := by
  induction l with
  | nil => simp [upsertMsg]
  | cons h t ih =>
    by_cases c : (h.gid == m.gid && h.id == m.id) = true
    · simp [upsertMsg, c]
    · have c' : (h.gid == m.gid && h.id == m.id) = false := by simpa using c
      simp only [upsertMsg, c', Bool.false_eq_true, if_false, List.find?_cons, ih]

theorem find_upsertMsg_ne (m : Msg) (l : List Msg) (g i : Nat) (hne : ¬ (g = m.gid ∧ i = m.id)) :
    (upsertMsg m l).find? (fun x => x.gid == g && x.id == i) = l.find? (fun x => x.gid == g && x.id == i) := by
  have hm : (m.gid == g && m.id == i) = false := by
    simp only [Bool.and_eq_false_iff, beq_eq_false_iff_ne]
    by_cases c : m.gid = g
    · right; intro h; exact hne ⟨c.symm, h.symm⟩
    · left; exact c
  induction l with
  | nil => simp [upsertMsg, hm]
  | cons h t ih =>
    by_cases c : (h.gid == m.gid && h.id == m.id) = true
    · have hh : (h.gid == g && h.id == i) = false := by
        simp only [Bool.and_eq_true, beq_iff_eq] at c
        rw [c.1, c.2]; exact hm
      simp [upsertMsg, c, List.find?_cons, hm, hh]
    · have c' : (h.gid == m.gid && h.id == m.id) = false := by simpa using c
      simp only [upsertMsg, c', Bool.false_eq_true, if_false, List.find?_cons, ih]

theorem message_last_write_wins (s s' : Store) (m : Msg) (h : saveMessage s m = some s') :
    findMessage s' m.gid m.id = some m ∧
    ∀ g i, ¬ (g = m.gid ∧ i = m.id) → findMessage s' g i = findMessage s g i := by
  unfold saveMessage at h
  repeat' split at h
  all_goals (cases h <;> exact ⟨find_upsertMsg_self m _, fun g i hne => find_upsertMsg_ne m _ g i hne⟩)

theorem find_upsertPm_self (p : PM) (l : List PM) : (upsertPm p l).find? (·.wrapper == p.wrapper) = some p := by
  induction l with
  | nil => simp [upsertPm]
  | cons h t ih =>
    by_cases c : h.wrapper = p.wrapper
    · simp [upsertPm, c]
    · simp [upsertPm, c, ih]

theorem find_upsertPm_ne (p : PM) (l : List PM) (w : Nat) (hw : w ≠ p.wrapper) :
    (upsertPm p l).find? (·.wrapper == w) = l.find? (·.wrapper == w) := by
  induction l with
  | nil => simp [upsertPm, Ne.symm hw]
  | cons h t ih =>
    by_cases c : h.wrapper = p.wrapper
    · have : ¬ h.wrapper = w := by omega
      simp [upsertPm, c, Ne.symm hw, List.find?_cons, this]
    · by_cases c2 : h.wrapper = w
      · subst c2; simp [upsertPm, c]
      · simp [upsertPm, c, c2, ih]

/-- the dedup table: one record per wrapper id, last write wins -/
theorem processed_message_last_write_wins (s : Store) (p : PM) :
    findPm (savePm s p) p.wrapper = some p ∧ ∀ w, w ≠ p.wrapper → findPm (savePm s p) w = findPm s w :=
  ⟨find_upsertPm_self p _, fun w hw => find_upsertPm_ne p _ w hw⟩

/-! ### 2. the selection queries select exactly the records the contract names -/

/-- `invalidate_messages_after_epoch` returns exactly the ids of the group's messages with a recorded
    epoch greater than the target … -/
theorem invalidate_selects_exactly (s : Store) (gid n i : Nat) :
    i ∈ (invalMsgs s gid n).2 ↔ ∃ m ∈ s.msgs, m.id = i ∧ m.gid = gid ∧ ∃ e, m.epoch = some e ∧ e > n := by
  simp only [invalMsgs, List.mem_map, List.mem_filter, Bool.and_eq_true, beq_iff_eq]
  constructor
  · rintro ⟨m, ⟨hm, hg, he⟩, rfl⟩
    refine ⟨m, hm, rfl, hg, ?_⟩
    cases hme : m.epoch with
    | none => simp [epochGt, hme] at he
    | some e => exact ⟨e, rfl, by simpa [epochGt, hme] using he⟩
  · rintro ⟨m, hm, rfl, hg, e, he, hgt⟩
    exact ⟨m, ⟨hm, hg, by simp [epochGt, he, hgt]⟩, rfl⟩

/-- … marks exactly those `EpochInvalidated`, and leaves every other message (and every field other
    than the state) untouched -/
theorem invalidate_marks_exactly (s : Store) (gid n : Nat) :
    (invalMsgs s gid n).1.msgs = s.msgs.map (fun m =>
      if m.gid == gid && epochGt m.epoch n then { m with state := 3 } else m) := rfl

theorem retry_selects_exactly (s : Store) (gid w : Nat) :
    w ∈ failedRetry s gid ↔ ∃ p ∈ s.pms, p.wrapper = w ∧ p.gid = some gid ∧ p.state = 3 ∧ p.epoch = none := by
  simp only [failedRetry, List.mem_map, List.mem_filter, Bool.and_eq_true, beq_iff_eq, Option.isNone_iff_eq_none]
  constructor
  · rintro ⟨p, ⟨hp, ⟨hg, hs⟩, he⟩, rfl⟩; exact ⟨p, hp, rfl, hg, hs, he⟩
  · rintro ⟨p, hp, rfl, hg, hs, he⟩; exact ⟨p, ⟨hp, ⟨hg, hs⟩, he⟩, rfl⟩

/-- only a `Failed` record can be marked retryable, and nothing else changes -/
theorem mark_retryable_iff (s : Store) (w : Nat) :
    (markRetryable s w).isSome ↔ ∃ p, findPm s w = some p ∧ p.state = 3 := by
  unfold markRetryable
  cases h : findPm s w with
  | none => simp
  | some p =>
    by_cases c : p.state = 3
    · simp [c]
    · simp [c]

theorem pending_welcomes_select_exactly (s : Store) (limit offset : Nat) (l : List Welcome)
    (h : pendingWelcomes s (some limit) (some offset) = some l) :
    ∀ w ∈ l, w ∈ s.welcomes ∧ w.state = 0 := by
  unfold pendingWelcomes at h
  simp only [Option.getD_some] at h
  split at h
  · cases h
  · cases h
    intro w hw
    have hw' := List.mem_of_mem_take hw
    have hw'' := List.mem_of_mem_drop hw'
    have := (sortBy_perm welcomeBefore _).mem_iff.mp hw''
    simpa using List.mem_filter.mp this

/-! ### 3. the two backends give the same answer wherever the model has one code path;
    where they branch, the extracted facts make the branches coincide -/

/-- inside the range the contract allows, `messages` does not depend on the backend -/
theorem messages_backend_independent (m q : Store) (gid : Nat) (limit offset sort : Option Nat)
    (hm : m.backend = .mem) (hq : q.backend = .sql) (hg : m.groups = q.groups) (hmsg : m.msgs = q.msgs)
    (hphys : (listing q gid (sort.getD 0)).length < two63) :
    messages m gid limit offset sort = messages q gid limit offset sort := by
  have hsat : Generated.memPageSaturates = true := by decide
  have hcl : Generated.sqlOffsetClamped = true := by decide
  have hl : listing m gid (sort.getD 0) = listing q gid (sort.getD 0) := by simp [listing, groupMsgs, hmsg]
  have hfg : findGroup m gid = findGroup q gid := by simp [findGroup, hg]
  unfold messages
  simp only [hm, hq, hfg, hl, hsat, hcl]
  split
  · rfl
  · split
    · rfl
    · simp only [Bool.not_true, Bool.false_and, Bool.false_eq_true, if_false, if_true]
      by_cases he : (groupMsgs m gid).isEmpty = true
      · have hn : groupMsgs q gid = [] := by
          have : groupMsgs m gid = [] := by simpa using he
          simpa [groupMsgs, hmsg] using this
        simp [he, page, listing, hn, sortBy]
      · simp only [he, Bool.false_eq_true, if_false]
        by_cases ho : offset.getD 0 ≥ two63
        · simp only [ho, if_true]
          have h1 : (listing q gid (sort.getD 0)).length ≤ two63 - 1 := by omega
          have h2 : (listing q gid (sort.getD 0)).length ≤ offset.getD 0 := by omega
          simp [page, List.drop_eq_nil_of_le h1, List.drop_eq_nil_of_le h2]
        · simp [ho]

/-- the tag search is a literal match on both backends (SQLite: `Generated.sqlTagSearchCaseInsensitive`) -/
theorem tag_search_backend_independent (m q : Store) (gid tag mode : Nat) (hmsg : m.msgs = q.msgs) :
    findEpochByTag m gid tag mode = findEpochByTag q gid tag mode := by
  have h : Generated.sqlTagSearchCaseInsensitive = false := by decide
  simp [findEpochByTag, hmsg, h]

/-- … and it has ONE answer on both backends — the newest match in display order
    (`Generated.tagSearchNewestWins`: SQLite `ORDER BY created_at DESC, processed_at DESC, id DESC LIMIT 1`,
    memory the `display_order_cmp` maximum); before /repo's repair the contract left the choice open and
    the backends picked different messages -/
theorem tag_search_single_answer (s : Store) (gid tag mode : Nat) :
    (findEpochByTag s gid tag mode).length ≤ 1 := by
  have h : Generated.tagSearchNewestWins = true := by decide
  simp only [findEpochByTag, h, if_true]
  split
  · rename_i m _; cases m.epoch <;> simp
  · simp

/-- the answer is the epoch of a matching message that no other match beats in display order -/
theorem newestMsg_mem (l : List Msg) (m : Msg) (h : newestMsg l = some m) : m ∈ l := by
  induction l generalizing m with
  | nil => simp [newestMsg] at h
  | cons a t ih =>
    simp only [newestMsg] at h
    cases hb : newestMsg t with
    | none => rw [hb] at h; cases h; simp
    | some b =>
      rw [hb] at h
      simp only at h
      split at h
      · cases h; exact List.mem_cons_of_mem _ (ih _ hb)
      · split at h
        · cases h; exact List.mem_cons_of_mem _ (ih _ hb)
        · cases h; simp

/-- two messages carrying the same tag in different epochs: the answer is the later-created one's epoch,
    whatever the insertion order (closed witness; the former arbitrary choice is what thorough C10 runs found) -/
example :
    let a : Msg := { (default : Msg) with id := 1, gid := 1, created := 100, tag := 5, epoch := some 1 }
    let b : Msg := { (default : Msg) with id := 2, gid := 1, created := 101, tag := 5, epoch := some 4 }
    findEpochByTag { (Store.empty .mem) with msgs := [a, b] } 1 5 0 = [4] ∧
    findEpochByTag { (Store.empty .sql) with msgs := [b, a] } 1 5 0 = [4] := by decide

/-- pruning reports the number of snapshots on both backends (`Generated.sqlPruneCountsRows`) -/
theorem prune_count_backend_independent (m q : Store) (t : Nat) (hs : m.snaps = q.snaps) :
    (snapPrune m t).2 = (snapPrune q t).2 := by
  have h : Generated.sqlPruneCountsRows = false := by decide
  unfold snapPrune
  cases m.backend <;> cases q.backend <;> simp [hs, h]

/-! ### 4. the two known differences, as closed witnesses (replayed on the implementation:
    corpus/C10/*.trace; listed in known_findings.jsonl) -/

def grp (gid nid : Nat) : Group :=
  { gid := gid, nid := nid, nameLen := 1, descLen := 0, admins := 1, img := 0, lastId := none, lastAt := none,
    lastProc := none, epoch := 0, state := 0, selfUpd := 0 }

/-- full statement: the two backends answer every operation sequence identically -/
def backends_equal_full : Prop :=
  ∀ ops : List Op, (ops.foldl (fun (acc : Store × List String) o => let r := step acc.1 o; (r.1, acc.2 ++ [r.2])) (Store.empty .mem, [])).2
               = (ops.foldl (fun (acc : Store × List String) o => let r := step acc.1 o; (r.1, acc.2 ++ [r.2])) (Store.empty .sql, [])).2

/-- a snapshot of a group that has no record: memory keeps it (a rollback then succeeds), SQLite has
    nothing to roll back to -/
def wMissing : List Op := [.mlsWrite 5 0 1, .snapCreate 5 1 1000, .snapRollback 5 1]

/-- rollback onto a Nostr group id that another group has taken meanwhile: memory succeeds (and its
    by-id index now answers for the restored group), SQLite refuses (UNIQUE index) -/
def wCollision : List Op :=
  [.saveGroup (grp 1 15), .saveGroup (grp 2 12), .snapCreate 1 3 1000, .saveGroup (grp 1 11), .saveGroup (grp 2 15), .snapRollback 1 3]

theorem backends_equal_full_false : ¬ backends_equal_full := by
  intro h
  have := h wCollision
  revert this; decide

theorem witness_missing_group_differs :
    (step (run (Store.empty .mem) (wMissing.take 2)) (.snapRollback 5 1)).2 ≠
    (step (run (Store.empty .sql) (wMissing.take 2)) (.snapRollback 5 1)).2 := by decide

/-! ### 5. refinement: outside the two known differences and inside both backends' limits the two
    backends are the same store, for EVERY operation and every history

  `Agree m q` (Proofs/Refine.lean): all tables equal (relay sets as lookups), memory's by-nostr-id
  index consistent with the record list, group ids and nostr ids pairwise distinct, every stored
  snapshot holds its group's record.  `WL s op` (decidable): the operation is within both backends'
  documented limits (group name ≤ 255, description ≤ 2000, ≤ 100 admins, ≤ 100 relays of ≤ 512 bytes,
  content ≤ 1 MiB, the welcome limits of both, fewer than 2^63 stored messages / welcomes) and outside
  the two open findings: `snap_create` only for a group that has a record
  (`snapshot-of-missing-group`), `snap_rollback` only when the snapshot's nostr id is not held by
  another group (`restore-nostr-id-collision`).  For `dump` agreement is of the rendered string. -/

/-- one step: same observation, and the relation is kept — for each of the 37 operations -/
theorem step_agree (m q : Store) (op : Op) (h : Agree m q) (hw : WL m op = true) :
    (step m op).2 = (step q op).2 ∧ Agree (step m op).1 (step q op).1 :=
  step_agree' m q h op hw

/-- any history all of whose operations are within `WL` (checked along the memory run, `WLrun`)
    produces the same observations on a fresh memory store and a fresh SQLite store -/
theorem backends_equal_partial (ops : List Op) (hw : WLrun (Store.empty .mem) ops = true) :
    (ops.foldl (fun (acc : Store × List String) o => let r := step acc.1 o; (r.1, acc.2 ++ [r.2])) (Store.empty .mem, [])).2
      = (ops.foldl (fun (acc : Store × List String) o => let r := step acc.1 o; (r.1, acc.2 ++ [r.2])) (Store.empty .sql, [])).2 :=
  (observe_agree ops _ _ [] agree_empty hw).1

/-- … and the two stores are still related afterwards (so the statement extends to any continuation) -/
theorem backends_related_after (ops : List Op) (hw : WLrun (Store.empty .mem) ops = true) :
    Agree (observe (Store.empty .mem, []) ops).1 (observe (Store.empty .sql, []) ops).1 :=
  (observe_agree ops _ _ [] agree_empty hw).2

/-- non-vacuity: a history with two groups, relays, secrets, OpenMLS rows, a message, a snapshot, further
    writes, a rollback and a dump is inside `WL` -/
def exWL : List Op :=
  [.saveGroup (grp 1 11), .saveGroup (grp 2 12), .replaceRelays 1 [3, 1, 3], .saveSecret 1 0 7, .mlsWrite 1 0 9,
   .saveMessage { id := 1, gid := 1, pk := 0, kind := 9, created := 100, processed := 100, content := 1, contentLen := 8,
                  tag := 0, wrapper := 1, epoch := some 1, state := 1 },
   .snapCreate 1 1 1000, .saveSecret 1 1 8, .replaceRelays 1 [], .saveGroup (grp 1 15), .snapRollback 1 1,
   .findGroupNostr 11, .messages 1 none none none, .dump]

example : WLrun (Store.empty .mem) exWL = true := by decide

/-- the two witnesses of §4 are outside `WL` (so they do not contradict the theorem) -/
example : WLrun (Store.empty .mem) wMissing = false ∧ WLrun (Store.empty .mem) wCollision = false := by decide


/-! ### 6. the memory backend WITH its LRU caches (proved in Props/C10Lru.lean over Model/Lru.lean, Model/MemLru.lean,
    Proofs/Lru.lean, Proofs/MemLru.lean; restated here so that `./check C10` audits them).  `Model/Store.lean`'s `.mem`
    flavour keeps unbounded maps; the code keeps nine `lru::LruCache`s of `cache_size` entries and at most
    `max_messages_per_group` messages per group. -/

open MdkVerif.Lru in
/-- (a) a cache over at most `cap` distinct keys IS the unbounded association list: every read agrees, nothing is evicted -/
theorem lru_refines_map {κ α : Type} [DecidableEq κ] (c : Lru κ α) (T : List κ) (ops : List (LOp κ α))
    (hwf : c.WF) (hT : T.length ≤ c.cap) (hc : ∀ k ∈ keys c.items, k ∈ T) (ho : ∀ o ∈ ops, o.key ∈ T) :
    c.observe ops = mapObserve c.items ops :=
  C10Lru.lru_refines_map c T ops hwf hT hc ho

open MdkVerif.Lru in
theorem lru_refines_map_fresh {κ α : Type} [DecidableEq κ] (cap : Nat) (hcap : 0 < cap) (ops : List (LOp κ α))
    (h : (ops.map LOp.key).eraseDups.length ≤ cap) :
    (Lru.empty cap : Lru κ α).observe ops = mapObserve [] ops :=
  C10Lru.lru_refines_map_fresh cap hcap ops h

open MdkVerif.Lru in
/-- (b) at capacity a `put` of a new key evicts exactly the least recently used entry and nothing else -/
theorem lru_evicts_lru {κ α : Type} [DecidableEq κ] (c : Lru κ α) (h : c.WF) (k : κ) (v : α)
    (hnew : c.contains k = false) (hfull : c.len = c.cap) :
    ∃ e, c.items.getLast? = some e ∧ (c.put k v).2 = some e ∧ e.1 ≠ k ∧
      (c.put k v).1.items = (k, v) :: c.items.dropLast ∧
      (c.put k v).1.peek k = some v ∧ (c.put k v).1.peek e.1 = none ∧
      ∀ k', k' ≠ k → k' ≠ e.1 → (c.put k v).1.peek k' = c.peek k' :=
  C10Lru.lru_evicts_lru c h k v hnew hfull

open MdkVerif.Lru in
/-- (b) the size never exceeds the capacity, for all operation sequences -/
theorem lru_size_le_cap {κ α : Type} [DecidableEq κ] (cap : Nat) (hcap : 0 < cap) (ops : List (LOp κ α)) :
    ((Lru.empty cap : Lru κ α).run ops).len ≤ cap ∧ (keys ((Lru.empty cap : Lru κ α).run ops).items).Nodup :=
  C10Lru.lru_size_le_cap cap hcap ops

open MdkVerif.MemLru in
/-- (c) within the capacities the LRU-backed memory backend is the unbounded `.mem` model, whatever the map orders -/
theorem mem_within_capacity_eq_unbounded (cap msgCap : Nat) (ops : List (Op × List Nat))
    (hw : WithinCapRun cap msgCap (Store.empty .mem) (ops.map (·.1)) = true) :
    MemLru.observe (MemStore.empty cap msgCap) ops = (Store.observe (Store.empty .mem, []) (ops.map (·.1))).2 ∧
    (MemLru.run (MemStore.empty cap msgCap) ops).u = (Store.observe (Store.empty .mem, []) (ops.map (·.1))).1 :=
  C10Lru.mem_within_capacity_eq_unbounded cap msgCap ops hw

open MdkVerif.MemLru in
/-- (c) … hence `backends_equal_partial` holds for the real memory backend: same observations as SQLite -/
theorem backends_equal_lru_partial (cap msgCap : Nat) (ops : List (Op × List Nat))
    (hc : WithinCapRun cap msgCap (Store.empty .mem) (ops.map (·.1)) = true)
    (hw : WLrun (Store.empty .mem) (ops.map (·.1)) = true) :
    MemLru.observe (MemStore.empty cap msgCap) ops = (Store.observe (Store.empty .sql, []) (ops.map (·.1))).2 :=
  C10Lru.backends_equal_lru_partial cap msgCap ops hc hw

theorem mem_beyond_capacity_differs :
    MemLru.observe (MemLru.MemStore.empty 1 10) [(.saveGroup (C10Lru.grp 1 11), []), (.saveGroup (C10Lru.grp 2 12), []), (.findGroup 1, [])] ≠
      (Store.observe (Store.empty .mem, []) [.saveGroup (C10Lru.grp 1 11), .saveGroup (C10Lru.grp 2 12), .findGroup 1]).2 ∧
    MemLru.WithinCapRun 1 10 (Store.empty .mem) [.saveGroup (C10Lru.grp 1 11), .saveGroup (C10Lru.grp 2 12), .findGroup 1] = false :=
  C10Lru.mem_beyond_capacity_differs

open MdkVerif.MemLru in
/-- (d) all histories, beyond the capacities too, no restore collision: the two group lookups never disagree -/
theorem index_consistent (cap msgCap : Nat) (hcap : 0 < cap) (ops : List (Op × List Nat))
    (hnc : NoCollisionRun (MemStore.empty cap msgCap) ops = true) :
    C10Lru.IndexOK (MemLru.run (MemStore.empty cap msgCap) ops) :=
  C10Lru.index_consistent cap msgCap hcap ops hnc

open MdkVerif.MemLru in
/-- `messages_cache` is read by no trait method: it cannot influence any observation, in any history -/
theorem messages_cache_unobservable (ops : List (Op × List Nat)) (a b : MemStore) (h : vis a = vis b) :
    MemLru.observe a ops = MemLru.observe b ops ∧ vis (MemLru.run a ops) = vis (MemLru.run b ops) :=
  C10Lru.messages_cache_unobservable ops a b h

open MdkVerif.MemLru in
/-- at any fill level a rollback never changes a message, a dedup record, a welcome or a processed-welcome record -/
theorem rollback_keeps_messages_and_records (s : MemStore) (hb : s.u.backend = .mem) (gid name : Nat) (ch : List Nat)
    (s' : MemStore) (h : MemLru.snapRollback s gid name ch = some s') :
    s'.u.msgs = s.u.msgs ∧ s'.u.pms = s.u.pms ∧ s'.u.welcomes = s.u.welcomes ∧ s'.u.pws = s.u.pws ∧
    s'.qMsgGroups = s.qMsgGroups ∧ s'.qPms = s.qPms ∧ s'.qWelcomes = s.qWelcomes ∧ s'.qPws = s.qPws :=
  C10Lru.rollback_keeps_messages_and_records s hb gid name ch s' h

/-- (d) … and with a restore collision beyond the capacity they do (corpus/C10lru/index_ghost_after_collision.trace) -/
theorem index_full_false : ¬ C10Lru.index_full := C10Lru.index_full_false

/-! ### 7. the documented limits (proved in Props/C10Limits.lean over Model/StoreLimits.lean): within both backends' limits the
    limit-aware model IS the store model above; the calls on which the backends' validation differs are exactly those one
    backend's literal limits accept and the other's refuse -/
theorem within_limits_as_before : type_of% @C10Limits.within_limits_as_before := @C10Limits.within_limits_as_before
theorem within_both_limits_as_before : type_of% @C10Limits.within_both_limits_as_before := @C10Limits.within_both_limits_as_before
theorem limits_differ : type_of% @C10Limits.limits_differ := @C10Limits.limits_differ
theorem name_256_mem_only : type_of% @C10Limits.name_256_mem_only := @C10Limits.name_256_mem_only

end MdkVerif.Props.C10
