import MdkVerif.Model.Client
import MdkVerif.Proofs.Client
import MdkVerif.Props.C06Wrap
import MdkVerif.Proofs.Store
/-
  C08 — The stored group record always mirrors the MLS state.
  `Inv c`: the record (epoch, name, description, admins, relays, nostr group id) equals what the client's MLS
  state says (`Synced`: every field `sync_group_metadata_from_mls` copies that the model tracks), and the same holds
  of every state saved in a rollback snapshot.  Proved for the initial state and preserved by EVERY
  operation of the client model (process_message in all branches incl. rollback and re-processing,
  create_message, the commit-staging operations, leave, merge/clear pending, restart), hence true
  after every API call of every history.
-/
namespace MdkVerif.Props.C08
open MdkVerif MdkVerif.Client

/-- an ACTIVE group's record mirrors its MLS state (an evicted member's record is frozen at eviction on purpose:
    `handle_local_member_eviction` only marks it Inactive), and every state saved in a snapshot was in step -/
def Inv (c : Cl) : Prop := (c.g.active = true → Synced c.g) ∧ ∀ s ∈ c.mgr, Synced s.saved

theorem inv_init (id : Nat) (p : Bool) (r : Nat) (ms as : List Nat) (name : Nat) : Inv (initCl id p r ms as name) := by
  constructor
  · intro _; simp [initCl, initG, Synced, epochOf]
  · intro s hs; simp [initCl] at hs

theorem inv_setRec (c : Cl) (n : Nat) (r : Rec) (h : Inv c) : Inv (setRec c n r) := h
theorem inv_recordFailure (c : Cl) (n : Nat) (b : Bool) (e : Option Nat) (h : Inv c) : Inv (recordFailure c n b e) := h
theorem inv_withSecret (c : Cl) (h : Inv c) : Inv (withSecret c) :=
  ⟨fun ha => synced_withSecret c (h.1 (by rw [← withSecret_active]; exact ha)), h.2⟩

/-- a snapshot is taken of an active, hence synced, state -/
theorem inv_mgrCreate (c : Cl) (ep : Nat) (e : Ev) (h : Inv c) (hs : Synced c.g) : Inv (mgrCreate c ep e) := by
  refine ⟨h.1, ?_⟩
  intro s hs'
  simp only [mgrCreate] at hs'
  have := List.mem_of_mem_drop hs'
  rcases List.mem_append.mp this with hm | hm
  · exact h.2 s hm
  · simp at hm; subst hm; exact hs

theorem synced_updLast (g : GState) (m t : Nat) (h : Synced g) : Synced (updLast g m t) := by
  unfold updLast
  split
  · exact h
  · split <;> exact h

theorem updLast_active (g : GState) (m t : Nat) : (updLast g m t).active = g.active := by
  unfold updLast
  split
  · rfl
  · split <;> rfl

theorem inv_rollbackTo (c c1 : Cl) (ep : Nat) (h : Inv c) (hr : rollbackTo c ep = some c1) : Inv c1 := by
  unfold rollbackTo at hr
  split at hr
  · cases hr
  · rename_i i _
    split at hr
    · cases hr
    · rename_i s rest hd
      cases hr
      have hs : s ∈ c.mgr := List.mem_of_mem_drop (by rw [hd]; simp)
      exact ⟨fun _ => h.2 s hs, fun t ht => h.2 t (List.mem_of_mem_take ht)⟩

theorem inv_returnOwnCommit (c : Cl) (h : Inv c) : Inv (returnOwnCommit c).1 :=
  ⟨fun _ => synced_syncRec _, h.2⟩

theorem inv_failUnprocessable (c : Cl) (e : Ev) (h : Inv c) : Inv (failUnprocessable c e).1 := h

theorem inv_notBetterResult (c : Cl) (e : Ev) (h : Inv c) : Inv (notBetterResult c e).1 := by
  unfold notBetterResult
  split
  · split
    · exact inv_returnOwnCommit c h
    · exact h
  · exact h

theorem inv_ownMessage (c : Cl) (e : Ev) (h : Inv c) : Inv (ownMessage c e).1 := by
  unfold ownMessage
  repeat' split
  all_goals first | exact h | exact inv_returnOwnCommit c h | exact ⟨h.1, h.2⟩

theorem inv_storeApp (c : Cl) (e : Ev) (m t k : Nat) (h : Inv c) : Inv (storeApp c e m t k).1 :=
  ⟨fun ha => synced_updLast _ _ _ (h.1 (by rw [← updLast_active c.g m t]; exact ha)), h.2⟩

/-- `process_commit` of an ACTIVE client: afterwards the record is in step again — or the client was evicted
    (then it is inactive and its record stays where it was) -/
theorem inv_processCommit (c : Cl) (e : Ev) (b : Body) (sw : List Nat) (h : Inv c) (ha : c.g.active = true) :
    Inv (processCommit c e b sw).1 := by
  have hs := h.1 ha
  unfold processCommit
  split
  · exact h
  · split
    · refine ⟨fun hact => ?_, (inv_mgrCreate c _ e h hs).2⟩
      simp [setRec] at hact
    · exact ⟨fun _ => synced_syncRec _, (inv_mgrCreate c _ e h hs).2⟩

theorem inv_wrongEpochCommit (retry : Cl → Option (Cl × Res)) (c : Cl) (e : Ev) (ee : Nat) (h : Inv c)
    (hretry : ∀ c1 r, Inv c1 → retry c1 = some r → Inv r.1) : Inv (wrongEpochCommit retry c e ee).1 := by
  unfold wrongEpochCommit
  split
  · split
    · rename_i c1 hr
      split
      · rename_i r hrr
        exact hretry c1 r (inv_rollbackTo c c1 ee h hr) hrr
      · exact inv_notBetterResult c e h
    · exact inv_notBetterResult c e h
  · exact inv_notBetterResult c e h

theorem inv_step1 (retry : Cl → Option (Cl × Res)) (nx : Nat) (c : Cl) (e : Ev) (h : Inv c)
    (hretry : ∀ c1 r, Inv c1 → retry c1 = some r → Inv r.1) : Inv (step1 retry nx c e).1 := by
  have hw := inv_withSecret c h
  unfold step1
  split
  · exact h
  · split
    · exact h
    · rename_i _ hact
      have ha : c.g.active = true := by simpa using hact
      have haw : (withSecret c).g.active = true := by rw [withSecret_active]; exact ha
      have hsw : Synced (withSecret c).g := hw.1 haw
      simp only
      split
      · exact hw
      · split
        · -- commit
          split
          · exact inv_wrongEpochCommit retry _ e _ hw hretry
          · split
            · split
              · exact ⟨fun _ => synced_syncRec _, (inv_mgrCreate _ _ e hw hsw).2⟩
              · exact inv_ownMessage _ e hw
            · split
              · exact hw
              · exact inv_processCommit _ e _ _ ⟨fun _ => hsw, hw.2⟩ haw
        · -- leave
          split
          · exact hw
          · split
            · exact inv_ownMessage _ e hw
            · split
              · exact hw
              · have hg : Synced { (withSecret c).g with consumed := e.cipher :: (withSecret c).g.consumed } := hsw
                split
                · refine ⟨fun _ => ?_, hw.2⟩
                  apply synced_ensureSecret
                  exact hsw
                · exact ⟨fun _ => hsw, hw.2⟩
        · -- app
          split
          · exact hw
          · split
            · exact hw
            · split
              · exact inv_ownMessage _ e hw
              · split
                · exact hw
                · exact inv_storeApp _ e _ _ _ ⟨fun _ => hsw, hw.2⟩

theorem inv_deliverOnce (retry : Cl → Option (Cl × Res)) (nx : Nat) (c : Cl) (e : Ev) (h : Inv c)
    (hretry : ∀ c1 r, Inv c1 → retry c1 = some r → Inv r.1) : Inv (deliverOnce retry nx c e).1 := by
  unfold deliverOnce
  split
  · split
    · exact h
    · exact inv_step1 retry nx c e h hretry
  · exact inv_step1 retry nx c e h hretry

/-- `process_message` preserves the invariant, for every fuel (incl. the re-processing after rollback) -/
theorem inv_deliverN (fuel nx : Nat) (c : Cl) (e : Ev) (h : Inv c) : Inv (deliverN fuel nx c e).1 := by
  induction fuel generalizing c with
  | zero =>
    exact inv_deliverOnce _ nx c e h (by intro c1 r _ hr; cases hr)
  | succ f ih =>
    apply inv_deliverOnce _ nx c e h
    intro c1 r hc1 hr
    cases hr
    exact ih c1 hc1

theorem inv_send (c : Cl) (n ts idn mid mts tok : Nat) (h : Inv c) : Inv (send c n ts idn mid mts tok).1 := by
  unfold send
  split
  · exact h
  · split
    · exact h
    · rename_i _ hact
      have ha : c.g.active = true := by simpa using hact
      split
      · exact h
      · exact ⟨fun _ => synced_updLast _ _ _ (synced_ensureSecret _ (h.1 ha)), h.2⟩

theorem inv_stageCommit (c : Cl) (n ts idn : Nat) (b : Body) (na : Bool) (h : Inv c) : Inv (stageCommit c n ts idn b na).1 := by
  unfold stageCommit
  split
  · exact h
  · split
    · exact h
    · rename_i _ hact
      have ha : c.g.active = true := by simpa using hact
      repeat' split
      all_goals first | exact h | exact ⟨fun _ => synced_ensureSecret _ (h.1 ha), h.2⟩

theorem inv_updateData (c : Cl) (n ts idn : Nat) (u : DataUpd) (h : Inv c) : Inv (updateData c n ts idn u).1 := by
  unfold updateData
  repeat' split
  all_goals first | exact h | exact inv_stageCommit c n ts idn _ true h

theorem inv_removeMembers (c : Cl) (n ts idn : Nat) (who : List Nat) (h : Inv c) : Inv (removeMembers c n ts idn who).1 := by
  unfold removeMembers
  repeat' split
  all_goals first | exact h | exact inv_stageCommit c n ts idn _ true h

theorem inv_addMembers (c : Cl) (n ts idn : Nat) (who : List Nat) (h : Inv c) : Inv (addMembers c n ts idn who).1 := by
  unfold addMembers
  repeat' split
  all_goals first | exact h | exact inv_stageCommit c n ts idn _ true h

theorem inv_leave (c : Cl) (n ts idn : Nat) (h : Inv c) : Inv (leave c n ts idn).1 := by
  unfold leave
  split
  · exact h
  · split
    · exact h
    · rename_i _ hact
      have ha : c.g.active = true := by simpa using hact
      split
      · exact h
      · exact ⟨fun _ => synced_ensureSecret _ (h.1 ha), h.2⟩

theorem inv_merge (c : Cl) (h : Inv c) : Inv (merge c).1 := by
  unfold merge
  split
  · exact h
  · split
    · exact h
    · split <;> exact ⟨fun _ => synced_syncRec _, h.2⟩

theorem inv_clear (c : Cl) (h : Inv c) : Inv (clear c).1 := by
  unfold clear
  split
  · exact h
  · exact ⟨h.1, h.2⟩

theorem inv_restart (c : Cl) (h : Inv c) : Inv (restart c).1 := by
  unfold restart
  split
  · refine ⟨h.1, ?_⟩
    intro s hs
    simp only [List.mem_map] at hs
    obtain ⟨t, ht, rfl⟩ := hs
    exact h.2 t ht
  · exact h

/-- a welcome puts the joiner in a state whose record is in step (`welcomeState` ends in `syncRec`) -/
theorem synced_welcomeState (mp : Nat) (g : GState) (e : Ev) : Synced (welcomeState mp g e) := by
  have := synced_syncRec (mergeCommit mp g e)
  simpa [welcomeState, joinState, Synced] using this

theorem inv_join (c : Cl) (mp : Nat) (g : GState) (e : Ev) (h : Inv c) : Inv (join c (welcomeState mp g e)) := by
  unfold join
  split
  · exact h
  · exact ⟨fun _ => synced_welcomeState mp g e, fun s hs => by cases hs⟩

/-- client operations -/
inductive COp where
  | deliver (e : Ev) (nx : Nat)
  | send (n ts idn mid mts tok : Nat)
  | stage (n ts idn : Nat) (b : Body) (needAdmin : Bool)
  | data (n ts idn : Nat) (u : DataUpd)
  | remove (n ts idn : Nat) (who : List Nat)
  | add (n ts idn : Nat) (who : List Nat)
  | join (mp : Nat) (g : GState) (e : Ev)      -- accept the welcome of add commit `e` staged on state `g`
  | leave (n ts idn : Nat)
  | merge | clear | restart

def cstep (c : Cl) : COp → Cl
  | .deliver e nx => (deliver c e nx).1
  | .send n ts idn mid mts tok => (send c n ts idn mid mts tok).1
  | .stage n ts idn b na => (stageCommit c n ts idn b na).1
  | .data n ts idn u => (updateData c n ts idn u).1
  | .remove n ts idn who => (removeMembers c n ts idn who).1
  | .add n ts idn who => (addMembers c n ts idn who).1
  | .join mp g e => join c (welcomeState mp g e)
  | .leave n ts idn => (Client.leave c n ts idn).1
  | .merge => (merge c).1
  | .clear => (clear c).1
  | .restart => (restart c).1

/-- **sync_inv**: after every API call of every history — deliveries in all branches incl. rollback, re-processing
    and eviction, create_message, self-update, group-data updates, add / remove members, accepting a welcome, leave,
    merge / clear pending, restart — the stored record of an ACTIVE group mirrors the MLS state in every field the
    model tracks: epoch, name, description, admins, relays, nostr group id.  (An evicted member's record is frozen by
    `handle_local_member_eviction`: see `eviction_freezes_record`.) -/
theorem sync_inv (id : Nat) (p : Bool) (r : Nat) (ms as : List Nat) (name : Nat) (ops : List COp)
    (ha : (ops.foldl cstep (initCl id p r ms as name)).g.active = true) :
    Synced (ops.foldl cstep (initCl id p r ms as name)).g := by
  have : ∀ (ops : List COp) (c : Cl), Inv c → Inv (ops.foldl cstep c) := by
    intro ops
    induction ops with
    | nil => intro c h; exact h
    | cons o os ih =>
      intro c h
      apply ih
      cases o with
      | deliver e nx => exact inv_deliverN 3 nx c e h
      | send n ts idn mid mts tok => exact inv_send c n ts idn mid mts tok h
      | stage n ts idn b na => exact inv_stageCommit c n ts idn b na h
      | data n ts idn u => exact inv_updateData c n ts idn u h
      | remove n ts idn who => exact inv_removeMembers c n ts idn who h
      | add n ts idn who => exact inv_addMembers c n ts idn who h
      | join mp g e => exact inv_join c mp g e h
      | leave n ts idn => exact inv_leave c n ts idn h
      | merge => exact inv_merge c h
      | clear => exact inv_clear c h
      | restart => exact inv_restart c h
  exact (this ops _ (inv_init id p r ms as name)).1 ha

/-! ## routing: incoming events are looked up by the nostr group id IN FORCE

  `process_message` finds the group by the event's `h` tag (`find_group_by_nostr_group_id`); with one group held
  that is `routes c e`: the tag equals the id in the stored record now.  The record's id follows the MLS state
  (`sync_inv`), so it changes when a rotation commit is applied, comes back when a rollback restores the snapshot
  taken before it, and survives a restart. -/

theorem routes_def (c : Cl) (e : Ev) : routes c e = true ↔ (c.hasGroup = true ∧ e.tag = c.g.recNid) := by
  simp [routes]

/-- no Failed / EpochInvalidated record blocks the event at the dedup step -/
def NotBlocked (c : Cl) (e : Ev) : Prop := ∀ r, getRec c e.n = some r → r.state ≠ 3 ∧ r.state ≠ 4

theorem notBlocked_of_none (c : Cl) (e : Ev) (h : getRec c e.n = none) : NotBlocked c e := by
  intro r hr; rw [h] at hr; cases hr

theorem deliverOnce_notBlocked (retry : Cl → Option (Cl × Res)) (nx : Nat) (c : Cl) (e : Ev) (h : NotBlocked c e) :
    deliverOnce retry nx c e = step1 retry nx c e := by
  unfold deliverOnce
  cases hr : getRec c e.n with
  | none => rfl
  | some r =>
    obtain ⟨h3, h4⟩ := h r hr
    simp [h3, h4]

theorem ownMessage_ne_gnf (c : Cl) (e : Ev) : (ownMessage c e).2 ≠ .err eGroupNotFound := by
  unfold ownMessage
  repeat' split
  all_goals simp [eMessage, eGroupNotFound, returnOwnCommit]

theorem notBetterResult_ne_gnf (c : Cl) (e : Ev) : (notBetterResult c e).2 ≠ .err eGroupNotFound := by
  unfold notBetterResult
  repeat' split
  all_goals simp [returnOwnCommit, failUnprocessable]

/-- one pass past the group lookup, with no rollback triggered, never reports GroupNotFound -/
theorem step1_routed_ne_gnf (retry : Cl → Option (Cl × Res)) (nx : Nat) (c : Cl) (e : Ev)
    (hr : routes c e = true) (hnb : isBetter c (epochOf e.path) e = false) :
    (step1 retry nx c e).2 ≠ .err eGroupNotFound := by
  unfold step1
  simp only [hr, Bool.not_true, Bool.false_eq_true, if_false]
  split
  · simp [eExportSecret, eGroupNotFound]
  · split
    · simp [eMessage, eGroupNotFound]
    · split
      · -- commit
        split
        · unfold wrongEpochCommit
          simp only [withSecret_isBetter, hnb, Bool.false_eq_true, if_false]
          exact notBetterResult_ne_gnf _ e
        · split
          · split
            · simp
            · exact ownMessage_ne_gnf _ e
          · split
            · simp [failUnprocessable]
            · unfold processCommit
              repeat' split
              all_goals simp [eNonAdmin, eGroupNotFound]
      · -- leave
        split
        · simp [failUnprocessable]
        · split
          · exact ownMessage_ne_gnf _ e
          · split
            · simp [failUnprocessable]
            · split <;> simp
      · -- app
        split
        · simp [failUnprocessable]
        · split
          · simp [failUnprocessable]
          · split
            · exact ownMessage_ne_gnf _ e
            · split
              · simp [failUnprocessable]
              · simp [storeApp]

/-- **routes_iff_current_id**.  For every client state, event and fuel, an event that is not blocked by its
    dedup record is looked up by its `h` tag:
    * tag ≠ the id in force (or no group held): the call returns `GroupNotFound` and changes NOTHING but the
      failure record — which carries neither group id nor epoch;
    * tag = the id in force: the call gets past the lookup — it never returns `GroupNotFound`, provided the event
      does not trigger a rollback (`isBetter … = false`; without that the statement is false of the code:
      `routed_full_false`, finding `retagged-commit-rollback`). -/
theorem routes_iff_current_id (fuel nx : Nat) (c : Cl) (e : Ev) (hb : NotBlocked c e) :
    (routes c e = false → deliverN fuel nx c e = (recordFailure c e.n false none, .err eGroupNotFound)) ∧
    (routes c e = true → isBetter c (epochOf e.path) e = false → (deliverN fuel nx c e).2 ≠ .err eGroupNotFound) := by
  constructor
  · intro hr
    cases fuel <;> simp only [deliverN] <;> rw [deliverOnce_notBlocked _ nx c e hb] <;> unfold step1 <;> simp [hr]
  · intro hr hnb
    cases fuel <;> simp only [deliverN] <;> rw [deliverOnce_notBlocked _ nx c e hb] <;>
      exact step1_routed_ne_gnf _ nx c e hr hnb

/-- … and a blocked event is answered from its record alone; which answer tells whether its tag is in force -/
theorem blocked_result (fuel nx : Nat) (c : Cl) (e : Ev) (r : Rec) (h : getRec c e.n = some r) (hs : r.state = 3 ∨ r.state = 4) :
    deliverN fuel nx c e = (c, if routes c e then .unprocessable else .previouslyFailed) := by
  cases fuel <;> simp only [deliverN, deliverOnce, h] <;> rcases hs with hs | hs <;> simp [hs]

/-- the unrouted event leaves the projection (and everything but its record) alone -/
theorem unrouted_frame (fuel nx : Nat) (c : Cl) (e : Ev) (hb : NotBlocked c e) (hr : routes c e = false) :
    proj (deliverN fuel nx c e).1 = proj c ∧ (deliverN fuel nx c e).1.g = c.g ∧ (deliverN fuel nx c e).1.mgr = c.mgr ∧
    getRec (deliverN fuel nx c e).1 e.n =
      some { state := 3, epoch := (getRec c e.n).bind (·.epoch), hasGroup := ((getRec c e.n).map (·.hasGroup)).getD false, mid := (getRec c e.n).bind (·.mid) } := by
  rw [(routes_iff_current_id fuel nx c e hb).1 hr]
  refine ⟨rfl, rfl, rfl, ?_⟩
  simp [recordFailure, setRec, getRec, Store.alookup_ainsert_self]

theorem findIdx_some (q : List Snap) (ep i : Nat) (h : findIdx q ep = some i) :
    ∃ s rest, q.drop i = s :: rest ∧ s.epoch = ep := by
  induction q generalizing i with
  | nil => simp [findIdx] at h
  | cons x t ih =>
    by_cases hx : (x.epoch == ep) = true
    · simp only [findIdx, hx, if_true, Option.some.injEq] at h
      subst h
      exact ⟨x, t, rfl, by simpa using hx⟩
    · have hx' : (x.epoch == ep) = false := by simpa using hx
      simp only [findIdx, hx', Bool.false_eq_true, if_false] at h
      cases hj : findIdx t ep with
      | none => simp [hj] at h
      | some j =>
        simp only [hj, Option.map_some, Option.some.injEq] at h
        subst h
        obtain ⟨s, rest, hd, hs⟩ := ih j hj
        exact ⟨s, rest, by simpa using hd, hs⟩

/-- **rollback_restores_routing**: a rollback to epoch `ep` puts back the group state saved in the snapshot of
    `ep` — record included — so from then on events are routed by the id that snapshot holds (the id that was in
    force when the commit leaving `ep` was applied), whatever id was in force before the rollback -/
theorem rollback_restores_routing (c c1 : Cl) (ep : Nat) (h : rollbackTo c ep = some c1) :
    ∃ s ∈ c.mgr, s.epoch = ep ∧ c1.g = s.saved ∧ c1.hasGroup = c.hasGroup ∧
      ∀ e, routes c1 e = (c.hasGroup && e.tag == s.saved.recNid) := by
  unfold rollbackTo at h
  cases hi : findIdx c.mgr ep with
  | none => simp [hi] at h
  | some i =>
    obtain ⟨s, rest, hd, hs⟩ := findIdx_some c.mgr ep i hi
    simp only [hi, hd, Option.some.injEq] at h
    subst h
    exact ⟨s, List.mem_of_mem_drop (by rw [hd]; exact List.mem_cons_self), hs, rfl, rfl, fun e => rfl⟩

/-- **restart_keeps_routing**: reopening the database changes neither the id in force nor, therefore, which
    events are routed -/
theorem restart_keeps_routing (c : Cl) (e : Ev) :
    (restart c).1.g.recNid = c.g.recNid ∧ routes (restart c).1 e = routes c e := by
  unfold restart; split <;> exact ⟨rfl, rfl⟩

/-- applying a commit (that leaves the receiver in the group) moves the id in force to the commit's (`setData`)
    or keeps it (anything else) -/
theorem processCommit_routing (c : Cl) (e : Ev) (b : Body) (sw : List Nat) (hk : e.kind = .commit b sw)
    (ha : (isAdmin c.g e.sender || isPureSelfUpdate b sw) = true) (hme : removesMe c.id b sw = false) :
    (processCommit c e b sw).1.g.recNid = (match b with | .setData d => d.nid | _ => c.g.nid) := by
  unfold processCommit
  simp only [ha, hme, Bool.not_true, Bool.false_eq_true, if_false]
  have hd := ensureSecret_data (mergeCommit c.maxPast (mgrCreate c (epochOf c.g.path) e).g e)
  simp only [setRec, syncRec, hd.2.2.1]
  cases b <;> simp [mergeCommit, hk, applyBody, mgrCreate]

/-- **eviction_freezes_record**: a commit that removes the receiver is merged (the MLS state moves on, the
    roster no longer contains the receiver's removal target) but the stored record is NOT synced: it keeps its
    epoch and every data field, the group becomes inactive, the dedup record says Processed under the OLD epoch,
    and the snapshot of the state before is taken as for any commit -/
theorem eviction_freezes_record (c : Cl) (e : Ev) (b : Body) (sw : List Nat) (hk : e.kind = .commit b sw)
    (ha : (isAdmin c.g e.sender || isPureSelfUpdate b sw) = true) (hme : removesMe c.id b sw = true) :
    (processCommit c e b sw).2 = .commit ∧ (processCommit c e b sw).1.g.active = false ∧
    (processCommit c e b sw).1.g.path = c.g.path ++ [e.cipher] ∧
    (processCommit c e b sw).1.g.recEpoch = c.g.recEpoch ∧ (processCommit c e b sw).1.g.recName = c.g.recName ∧
    (processCommit c e b sw).1.g.recDesc = c.g.recDesc ∧ (processCommit c e b sw).1.g.recAdmins = c.g.recAdmins ∧
    (processCommit c e b sw).1.g.recRelays = c.g.recRelays ∧ (processCommit c e b sw).1.g.recNid = c.g.recNid ∧
    getRec (processCommit c e b sw).1 e.n = some { state := 1, epoch := some c.g.recEpoch, hasGroup := true, mid := none } ∧
    (processCommit c e b sw).1.msgs = c.msgs := by
  unfold processCommit
  rw [if_neg (by simp [ha]), if_pos hme]
  refine ⟨rfl, rfl, ?_, ?_, ?_, ?_, ?_, ?_, ?_, ?_, rfl⟩
  all_goals first
    | (simp [setRec, getRec, Store.alookup_ainsert_self]; done)
    | (cases b <;> simp [setRec, mergeCommit, hk, applyBody, mgrCreate])

theorem step1_evicted (retry : Cl → Option (Cl × Res)) (nx : Nat) (c : Cl) (e : Ev) (ha : c.g.active = false) :
    step1 retry nx c e = if routes c e then (recordFailure c e.n true none, .err eExportSecret)
                         else (recordFailure c e.n false none, .err eGroupNotFound) := by
  unfold step1
  cases hr : routes c e <;> simp [ha]

/-- **evicted_deliver**: an evicted member processes nothing any more: whatever is delivered, for every fuel, the
    call is refused (blocked by its record, not routed, or `ExportSecret` — the inactive MLS group cannot export the
    current epoch's secret, which `process_message` asks for first) and nothing changes but the event's failure record -/
theorem evicted_deliver (fuel nx : Nat) (c : Cl) (e : Ev) (ha : c.g.active = false) :
    ((deliverN fuel nx c e).1 = c ∨ ∃ hg, (deliverN fuel nx c e).1 = recordFailure c e.n hg none) ∧
    ((deliverN fuel nx c e).2 = .unprocessable ∨ (deliverN fuel nx c e).2 = .previouslyFailed ∨
     (deliverN fuel nx c e).2 = .err eGroupNotFound ∨ (deliverN fuel nx c e).2 = .err eExportSecret) ∧
    proj (deliverN fuel nx c e).1 = proj c := by
  have key : ∀ retry, ((deliverOnce retry nx c e).1 = c ∨ ∃ hg, (deliverOnce retry nx c e).1 = recordFailure c e.n hg none) ∧
      ((deliverOnce retry nx c e).2 = .unprocessable ∨ (deliverOnce retry nx c e).2 = .previouslyFailed ∨
       (deliverOnce retry nx c e).2 = .err eGroupNotFound ∨ (deliverOnce retry nx c e).2 = .err eExportSecret) := by
    intro retry
    have hs : ((step1 retry nx c e).1 = c ∨ ∃ hg, (step1 retry nx c e).1 = recordFailure c e.n hg none) ∧
        ((step1 retry nx c e).2 = .unprocessable ∨ (step1 retry nx c e).2 = .previouslyFailed ∨
         (step1 retry nx c e).2 = .err eGroupNotFound ∨ (step1 retry nx c e).2 = .err eExportSecret) := by
      rw [step1_evicted retry nx c e ha]
      cases hr : routes c e
      · exact ⟨Or.inr ⟨false, by simp⟩, Or.inr (Or.inr (Or.inl (by simp)))⟩
      · exact ⟨Or.inr ⟨true, by simp⟩, Or.inr (Or.inr (Or.inr (by simp)))⟩
    unfold deliverOnce
    split
    · split
      · refine ⟨Or.inl rfl, ?_⟩
        split
        · exact Or.inl rfl
        · exact Or.inr (Or.inl rfl)
      · exact hs
    · exact hs
  have k2 : ∀ retry, proj (deliverOnce retry nx c e).1 = proj c := by
    intro retry
    rcases (key retry).1 with h | ⟨hg, h⟩ <;> rw [h]
    rfl
  cases fuel with
  | zero => exact ⟨(key _).1, (key _).2, k2 _⟩
  | succ f => exact ⟨(key _).1, (key _).2, k2 _⟩

/-- **evicted_cannot_act**: … and every local operation that would publish something is refused without any effect:
    create_message, self-update / remove / add (commit staging), leave — `OwnLeafNotFound`; update_group_data the same
    (or, first, the complaint about its admin list); merge_pending_commit is refused too -/
theorem evicted_cannot_act (c : Cl) (hg : c.hasGroup = true) (ha : c.g.active = false) :
    (∀ n ts idn mid mts tok, send c n ts idn mid mts tok = (c, .err eOwnLeaf)) ∧
    (∀ n ts idn b na, stageCommit c n ts idn b na = (c, .err eOwnLeaf)) ∧
    (∀ n ts idn who, removeMembers c n ts idn who = (c, .err eOwnLeaf)) ∧
    (∀ n ts idn who, addMembers c n ts idn who = (c, .err eOwnLeaf)) ∧
    (∀ n ts idn, leave c n ts idn = (c, .err eOwnLeaf)) ∧
    (∀ n ts idn u, updateData c n ts idn u = (c, .err eOwnLeaf) ∨ updateData c n ts idn u = (c, .err eUpdExts)) ∧
    merge c = (c, .err eMergePending) := by
  refine ⟨?_, ?_, ?_, ?_, ?_, ?_, ?_⟩
  · intro n ts idn mid mts tok; simp [send, hg, ha]
  · intro n ts idn b na; simp [stageCommit, hg, ha]
  · intro n ts idn who; simp [removeMembers, hg, ha]
  · intro n ts idn who; simp [addMembers, hg, ha]
  · intro n ts idn; simp [leave, hg, ha]
  · intro n ts idn u
    unfold updateData
    simp only [hg, Bool.not_true, Bool.false_eq_true, if_false]
    split
    · exact Or.inr rfl
    · left; simp [stageCommit, hg, ha]
  · simp [merge, hg, ha]

/-! ### closed witnesses (replayed on the implementation: corpus/C08/rotation_in_flight.trace,
    corpus/C06/retagged_commit_rollback.trace) -/

def wc0 : Cl := initCl 2 false 5 [0, 1, 2] [0, 1] 1
/-- admin 0 rotates the id 0 → 8 -/
def wRot : Ev := { n := 1, ts := 20, idnum := 5, cipher := 1, sender := 0, path := [], kind := .commit (.setData { initData [0, 1] 1 with nid := 8 }) [] }
/-- a message of member 1 sent BEFORE the rotation (state `[]`, tag 0) … -/
def wOld : Ev := { n := 2, ts := 15, idnum := 3, cipher := 2, sender := 1, path := [], kind := .app 0 101 1 }
/-- … and one sent after it (state `[1]`, tag 8) -/
def wNew : Ev := { n := 3, ts := 25, idnum := 4, cipher := 3, sender := 1, path := [1], kind := .app 1 102 2, tag := 8 }
/-- member 1's sibling of the rotation commit, earlier wrapper timestamp, re-published under the NEW id 8 -/
def wSibRetag : Ev := { n := 4, ts := 19, idnum := 9, cipher := 4, sender := 1, path := [], kind := .commit .selfUpdate [], tag := 8 }
def wOld2 : Ev := { wOld with n := 5, cipher := 5, kind := .app 2 103 3 }

/-- `h-rotation-in-flight`: after the rotation commit the in-flight message under the old id is not routed:
    GroupNotFound, a Failed record without group and epoch, PreviouslyFailed on every later offer; the message
    published under the new id is processed -/
theorem witness_rotation_in_flight :
    let c1 := (deliver wc0 wRot 0).1
    c1.g.recNid = 8 ∧ (deliver c1 wOld 0).2 = .err eGroupNotFound ∧
    getRec (deliver c1 wOld 0).1 2 = some { state := 3, epoch := none, hasGroup := false, mid := none } ∧
    (deliver (deliver c1 wOld 0).1 wOld 0).2 = .previouslyFailed ∧ (deliver c1 wOld 0).1.msgs = [] ∧
    (deliver c1 wNew 0).2 = .app 1 ∧
    -- before the rotation commit the same message is routed and stored
    (deliver wc0 wOld 0).2 = .app 0 := by decide

/-- routing follows a ROLLBACK: the retagged better sibling makes the client roll back to the snapshot taken
    before the rotation; the id in force is 0 again: an event under 0 is processed, one under 8 no longer is.
    (The retagged sibling itself is looked up again after the rollback — under the restored id — and refused:
    a routed event that ends in GroupNotFound, and a refusal with an effect: `retagged-commit-rollback`.) -/
theorem witness_rollback_restores_routing :
    let c1 := (deliver wc0 wRot 0).1
    let c2 := (deliver c1 wSibRetag 0).1
    routes c1 wSibRetag = true ∧ (deliver c1 wSibRetag 0).2 = .err eGroupNotFound ∧
    c2.g.path = [] ∧ c2.g.recNid = 0 ∧ c2.mgr = [] ∧
    (deliver c2 wOld2 0).2 = .app 2 ∧ (deliver c2 wNew 0).2 = .err eGroupNotFound ∧
    (deliver c2 wRot 0).2 = .unprocessable := by decide

/-- the statement of `routes_iff_current_id` without the no-rollback hypothesis -/
def routed_full : Prop :=
  ∀ (c : Cl) (e : Ev) (nx : Nat), NotBlocked c e → routes c e = true → (deliver c e nx).2 ≠ .err eGroupNotFound

theorem routed_full_false : ¬ routed_full := by
  intro h
  have := h (deliver wc0 wRot 0).1 wSibRetag 0 (notBlocked_of_none _ _ (by decide)) (by decide)
  revert this; decide

/-- non-vacuity of `routes_iff_current_id`: both cases occur -/
example : NotBlocked (deliver wc0 wRot 0).1 wOld ∧ routes (deliver wc0 wRot 0).1 wOld = false ∧
    NotBlocked (deliver wc0 wRot 0).1 wNew ∧ routes (deliver wc0 wRot 0).1 wNew = true ∧
    isBetter (deliver wc0 wRot 0).1 (epochOf wNew.path) wNew = false := by
  exact ⟨notBlocked_of_none _ _ (by decide), by decide, notBlocked_of_none _ _ (by decide), by decide, by decide⟩

/-! ### routing (second half of the property): incoming events are matched to the group by the nostr group id
    currently in force and never to a different group — proved in Props/C06Wrap.lean over Model.Wrap (several groups
    per client), re-exported here so that they are obligations of this property -/
theorem wrap_accept_iff : type_of% @C06Wrap.wrap_accept_iff := @C06Wrap.wrap_accept_iff
theorem wrap_accept_unique : type_of% @C06Wrap.wrap_accept_unique := @C06Wrap.wrap_accept_unique
theorem wrap_routes_only_by_current_id : type_of% @C06Wrap.wrap_routes_only_by_current_id := @C06Wrap.wrap_routes_only_by_current_id
theorem wrap_old_id_no_longer_routes : type_of% @C06Wrap.wrap_old_id_no_longer_routes := @C06Wrap.wrap_old_id_no_longer_routes

end MdkVerif.Props.C08
