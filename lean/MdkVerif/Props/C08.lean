import MdkVerif.Model.Client
import MdkVerif.Proofs.Client
/-
  C08 — The stored group record always mirrors the MLS state.
  `Inv c`: the record (epoch, name, description, admins, relays, nostr group id) equals what the client's MLS
  state says (`Synced`: every field `sync_group_metadata_from_mls` copies that the model tracks), and the same holds
  of every state saved in a rollback snapshot.  Proved for the initial state and preserved by EVERY
  operation of the client model (process_message in all branches incl. rollback and re-processing,
  create_message, the commit-staging operations, leave, merge/clear pending, restart), hence true
  after every API call of every history.
-/
namespace MdkVerif.Props.C08
open MdkVerif MdkVerif.Client

def Inv (c : Cl) : Prop := Synced c.g ∧ ∀ s ∈ c.mgr, Synced s.saved

theorem inv_init (id : Nat) (p : Bool) (r : Nat) (ms as : List Nat) (name : Nat) : Inv (initCl id p r ms as name) := by
  constructor
  · simp [initCl, initG, Synced, epochOf]
  · intro s hs; simp [initCl] at hs

theorem inv_setRec (c : Cl) (n : Nat) (r : Rec) (h : Inv c) : Inv (setRec c n r) := h
theorem inv_recordFailure (c : Cl) (n : Nat) (b : Bool) (e : Option Nat) (h : Inv c) : Inv (recordFailure c n b e) := h
theorem inv_withSecret (c : Cl) (h : Inv c) : Inv (withSecret c) := ⟨synced_withSecret c h.1, h.2⟩

theorem inv_mgrCreate (c : Cl) (ep : Nat) (e : Ev) (h : Inv c) : Inv (mgrCreate c ep e) := by
  refine ⟨h.1, ?_⟩
  intro s hs
  simp only [mgrCreate] at hs
  have := List.mem_of_mem_drop hs
  rcases List.mem_append.mp this with hm | hm
  · exact h.2 s hm
  · simp at hm; subst hm; exact h.1

theorem inv_with_synced_g (c : Cl) (g : GState) (h : Inv c) (hg : Synced g) : Inv { c with g := g } := ⟨hg, h.2⟩

theorem synced_updLast (g : GState) (m t : Nat) (h : Synced g) : Synced (updLast g m t) := by
  unfold updLast
  split
  · exact h
  · split <;> exact h

theorem inv_rollbackTo (c c1 : Cl) (ep : Nat) (h : Inv c) (hr : rollbackTo c ep = some c1) : Inv c1 := by
  unfold rollbackTo at hr
  split at hr
  · cases hr
  · rename_i i _
    split at hr
    · cases hr
    · rename_i s rest hd
      cases hr
      have hs : s ∈ c.mgr := List.mem_of_mem_drop (by rw [hd]; simp)
      exact ⟨h.2 s hs, fun t ht => h.2 t (List.mem_of_mem_take ht)⟩

theorem inv_returnOwnCommit (c : Cl) (h : Inv c) : Inv (returnOwnCommit c).1 :=
  ⟨synced_syncRec _, h.2⟩

theorem inv_failUnprocessable (c : Cl) (e : Ev) (h : Inv c) : Inv (failUnprocessable c e).1 := h

theorem inv_notBetterResult (c : Cl) (e : Ev) (h : Inv c) : Inv (notBetterResult c e).1 := by
  unfold notBetterResult
  split
  · split
    · exact inv_returnOwnCommit c h
    · exact h
  · exact h

theorem inv_ownMessage (c : Cl) (e : Ev) (h : Inv c) : Inv (ownMessage c e).1 := by
  unfold ownMessage
  repeat' split
  all_goals first | exact h | exact inv_returnOwnCommit c h | exact ⟨h.1, h.2⟩

theorem inv_storeApp (c : Cl) (e : Ev) (m t k : Nat) (h : Inv c) : Inv (storeApp c e m t k).1 :=
  ⟨synced_updLast _ _ _ h.1, h.2⟩

theorem inv_processCommit (c : Cl) (e : Ev) (b : Body) (sw : List Nat) (h : Inv c) : Inv (processCommit c e b sw).1 := by
  unfold processCommit
  split
  · exact h
  · exact ⟨synced_syncRec _, (inv_mgrCreate c _ e h).2⟩

theorem inv_wrongEpochCommit (retry : Cl → Option (Cl × Res)) (c : Cl) (e : Ev) (ee : Nat) (h : Inv c)
    (hretry : ∀ c1 r, Inv c1 → retry c1 = some r → Inv r.1) : Inv (wrongEpochCommit retry c e ee).1 := by
  unfold wrongEpochCommit
  split
  · split
    · rename_i c1 hr
      split
      · rename_i r hrr
        exact hretry c1 r (inv_rollbackTo c c1 ee h hr) hrr
      · exact inv_notBetterResult c e h
    · exact inv_notBetterResult c e h
  · exact inv_notBetterResult c e h

theorem inv_step1 (retry : Cl → Option (Cl × Res)) (nx : Nat) (c : Cl) (e : Ev) (h : Inv c)
    (hretry : ∀ c1 r, Inv c1 → retry c1 = some r → Inv r.1) : Inv (step1 retry nx c e).1 := by
  have hw := inv_withSecret c h
  unfold step1
  split
  · exact h
  · simp only
    split
    · exact hw
    · split
      · -- commit
        split
        · exact inv_wrongEpochCommit retry _ e _ hw hretry
        · split
          · split
            · exact ⟨synced_syncRec _, (inv_mgrCreate _ _ e hw).2⟩
            · exact inv_ownMessage _ e hw
          · split
            · exact hw
            · exact inv_processCommit _ e _ _ ⟨hw.1, hw.2⟩
      · -- leave
        split
        · exact hw
        · split
          · exact inv_ownMessage _ e hw
          · split
            · exact hw
            · have hg : Synced { (withSecret c).g with consumed := e.cipher :: (withSecret c).g.consumed } := hw.1
              split
              · refine ⟨?_, hw.2⟩
                apply synced_ensureSecret
                exact hw.1
              · exact ⟨hw.1, hw.2⟩
      · -- app
        split
        · exact hw
        · split
          · exact hw
          · split
            · exact inv_ownMessage _ e hw
            · split
              · exact hw
              · exact inv_storeApp _ e _ _ _ ⟨hw.1, hw.2⟩

theorem inv_deliverOnce (retry : Cl → Option (Cl × Res)) (nx : Nat) (c : Cl) (e : Ev) (h : Inv c)
    (hretry : ∀ c1 r, Inv c1 → retry c1 = some r → Inv r.1) : Inv (deliverOnce retry nx c e).1 := by
  unfold deliverOnce
  split
  · split
    · exact h
    · exact inv_step1 retry nx c e h hretry
  · exact inv_step1 retry nx c e h hretry

/-- `process_message` preserves the invariant, for every fuel (incl. the re-processing after rollback) -/
theorem inv_deliverN (fuel nx : Nat) (c : Cl) (e : Ev) (h : Inv c) : Inv (deliverN fuel nx c e).1 := by
  induction fuel generalizing c with
  | zero =>
    exact inv_deliverOnce _ nx c e h (by intro c1 r _ hr; cases hr)
  | succ f ih =>
    apply inv_deliverOnce _ nx c e h
    intro c1 r hc1 hr
    cases hr
    exact ih c1 hc1

theorem inv_send (c : Cl) (n ts idn mid mts tok : Nat) (h : Inv c) : Inv (send c n ts idn mid mts tok).1 := by
  unfold send
  split
  · exact h
  · exact ⟨synced_updLast _ _ _ (synced_ensureSecret _ h.1), h.2⟩

theorem inv_stageCommit (c : Cl) (n ts idn : Nat) (b : Body) (na : Bool) (h : Inv c) : Inv (stageCommit c n ts idn b na).1 := by
  unfold stageCommit
  repeat' split
  all_goals first | exact h | exact ⟨synced_ensureSecret _ h.1, h.2⟩

theorem inv_updateData (c : Cl) (n ts idn : Nat) (u : DataUpd) (h : Inv c) : Inv (updateData c n ts idn u).1 := by
  unfold updateData
  repeat' split
  all_goals first | exact h | exact inv_stageCommit c n ts idn _ true h

theorem inv_leave (c : Cl) (n ts idn : Nat) (h : Inv c) : Inv (leave c n ts idn).1 := by
  unfold leave
  split
  · exact h
  · exact ⟨synced_ensureSecret _ h.1, h.2⟩

theorem inv_merge (c : Cl) (h : Inv c) : Inv (merge c).1 := by
  unfold merge
  split
  · exact h
  · split <;> exact ⟨synced_syncRec _, h.2⟩

theorem inv_clear (c : Cl) (h : Inv c) : Inv (clear c).1 := by
  unfold clear
  split
  · exact h
  · exact ⟨h.1, h.2⟩

theorem inv_restart (c : Cl) (h : Inv c) : Inv (restart c).1 := by
  unfold restart
  split
  · refine ⟨h.1, ?_⟩
    intro s hs
    simp only [List.mem_map] at hs
    obtain ⟨t, ht, rfl⟩ := hs
    exact h.2 t ht
  · exact h

/-- client operations -/
inductive COp where
  | deliver (e : Ev) (nx : Nat)
  | send (n ts idn mid mts tok : Nat)
  | stage (n ts idn : Nat) (b : Body) (needAdmin : Bool)
  | data (n ts idn : Nat) (u : DataUpd)
  | leave (n ts idn : Nat)
  | merge | clear | restart

def cstep (c : Cl) : COp → Cl
  | .deliver e nx => (deliver c e nx).1
  | .send n ts idn mid mts tok => (send c n ts idn mid mts tok).1
  | .stage n ts idn b na => (stageCommit c n ts idn b na).1
  | .data n ts idn u => (updateData c n ts idn u).1
  | .leave n ts idn => (Client.leave c n ts idn).1
  | .merge => (merge c).1
  | .clear => (clear c).1
  | .restart => (restart c).1

/-- **sync_inv**: after every API call of every history the stored record mirrors the MLS state -/
theorem sync_inv (id : Nat) (p : Bool) (r : Nat) (ms as : List Nat) (name : Nat) (ops : List COp) :
    Synced (ops.foldl cstep (initCl id p r ms as name)).g := by
  have : ∀ (ops : List COp) (c : Cl), Inv c → Inv (ops.foldl cstep c) := by
    intro ops
    induction ops with
    | nil => intro c h; exact h
    | cons o os ih =>
      intro c h
      apply ih
      cases o with
      | deliver e nx => exact inv_deliverN 3 nx c e h
      | send n ts idn mid mts tok => exact inv_send c n ts idn mid mts tok h
      | stage n ts idn b na => exact inv_stageCommit c n ts idn b na h
      | data n ts idn u => exact inv_updateData c n ts idn u h
      | leave n ts idn => exact inv_leave c n ts idn h
      | merge => exact inv_merge c h
      | clear => exact inv_clear c h
      | restart => exact inv_restart c h
  exact (this ops _ (inv_init id p r ms as name)).1

end MdkVerif.Props.C08
