import MdkVerif.Model.Client
import MdkVerif.Proofs.Client
import MdkVerif.Proofs.RestartSim
import MdkVerif.Generated
/-
  C11 — Restarting on persistent storage is invisible.
  In the model a restart drops the in-memory snapshot manager and re-hydrates it from the stored
  snapshot names: everything survives except the applied commits' timestamps.
-/
namespace MdkVerif.Props.C11
open MdkVerif MdkVerif.Client

/-- a restart changes nothing but the manager's timestamps -/
theorem restart_only_forgets_timestamps (c : Cl) :
    (restart c).1 = c ∨ (restart c).1 = { c with mgr := c.mgr.map (fun s => { s with ts := 0 }) } := by
  unfold restart; split
  · right; rfl
  · left; rfl

theorem restart_proj (c : Cl) : proj (restart c).1 = proj c := by
  unfold restart; split <;> rfl

theorem restart_keeps_records (c : Cl) : (restart c).1.recs = c.recs ∧ (restart c).1.msgs = c.msgs ∧ (restart c).1.g = c.g := by
  unfold restart; split <;> simp

/-- after a restart no candidate is ever judged better (every entry is hydrated) -/
theorem restart_disables_comparison (c : Cl) (hp : c.persistent = true) (ee : Nat) (e : Ev) :
    isBetter (restart c).1 ee e = false := by
  unfold restart isBetter
  simp only [hp, if_true]
  cases h : (c.mgr.map (fun s => { s with ts := 0 })).find? (·.epoch == ee) with
  | none => rfl
  | some s =>
    have := List.mem_of_find?_eq_some h
    simp only [List.mem_map] at this
    obtain ⟨t, _, rfl⟩ := this
    simp

/-- the full statement: a delivery after a restart behaves as without the restart -/
def restart_invisible_full : Prop :=
  ∀ (c : Cl) (e : Ev), proj (deliver (restart c).1 e 0).1 = proj (deliver c e 0).1

def by0p : Cl := initCl 2 true 5 [0, 1, 2] [0, 1] 1
def cA : Ev := { n := 1, ts := 20, idnum := 7, cipher := 1, sender := 1, path := [], kind := .commit .selfUpdate [] }
def cB : Ev := { n := 2, ts := 19, idnum := 9, cipher := 2, sender := 0, path := [], kind := .commit (.setData { initData [0, 1] 1 with name := 4 }) [] }

/-- `hydrated-timestamp-zero`: apply A, restart, the better B arrives: refused; without the restart it wins -/
theorem restart_invisible_full_false : ¬ restart_invisible_full := by
  intro h
  have := h (deliver by0p cA 0).1 cB
  revert this; decide

/-- when no competing commit is pending (nothing the client would roll back for), the restart is
    invisible to the next delivery's verdict on the MIP-03 comparison -/
theorem restart_invisible_when_not_better (c : Cl) (hp : c.persistent = true) (ee : Nat) (e : Ev)
    (h : isBetter c ee e = false) : isBetter (restart c).1 ee e = isBetter c ee e := by
  rw [restart_disables_comparison c hp, h]

/-! ## histories: any operation sequence, restarts inserted anywhere (Proofs/RestartSim.lean)

  `run c ops` = final client and the results of all calls of `ops` but the restarts; `strip ops` = `ops` without
  its restarts.  `Sim c c'`: `c'` equals `c` except that timestamps of the snapshot manager may be 0. -/

open MdkVerif.Props.C08 (COp)

/-- **monotonicity** of the MIP-03 comparison in the manager's timestamps: zeroing them can only turn "better"
    into "not better" -/
theorem isBetter_monotone (c c' : Cl) (h : Sim c c') (ee : Nat) (e : Ev) :
    isBetter c' ee e = true → isBetter c ee e = true := isBetter_mono c c' h.mgr ee e

/-- one delivery on related clients: same result, related clients — provided a candidate that wins in the
    restart-free run (`winsAt`: the delivery gets as far as the comparison of `ProcessMessageWrongEpoch` and is judged
    better) wins in the restarted run too.  No other branch of `process_message` needs anything. -/
theorem deliver_simulation (c c' : Cl) (h : Sim c c') (e : Ev) (nx : Nat)
    (hb : winsAt c e = true → isBetter c' (epochOf e.path) e = true) :
    Sim (deliver c e nx).1 (deliver c' e nx).1 ∧ (deliver c' e nx).2 = (deliver c e nx).2 := sim_deliver h e nx hb

/-- the one-step statement that was open: a delivery right after a restart answers and ends as without the restart,
    for EVERY client and event, unless the uninterrupted client would roll back for it (`restart_invisible_full` minus
    exactly the witness' situation) -/
theorem restart_invisible_step (c : Cl) (e : Ev) (nx : Nat) (h : winsAt c e = false) :
    (deliver (restart c).1 e nx).2 = (deliver c e nx).2 ∧ proj (deliver (restart c).1 e nx).1 = proj (deliver c e nx).1 := by
  have := sim_deliver (sim_restart_right (Sim.refl c)) e nx (by intro hw; rw [h] at hw; cases hw)
  exact ⟨this.2, this.1.proj⟩

example : winsAt (deliver by0p cA 0).1 cB = true := by decide     -- the witness is excluded by the hypothesis …
example : winsAt (deliver by0p cA 0).1 cA = false := by decide    -- … a re-delivery or a worse competitor is not

/-- every client operation is a simulation; only a delivery that is a stale win is excluded -/
theorem op_simulation (c c' : Cl) (h : Sim c c') (o : COp) (hs : staleWin c c' o = false) :
    Sim (rstep c o).1 (rstep c' o).1 ∧ (rstep c' o).2 = (rstep c o).2 := sim_rstep h o hs

/-- every operation that is not a delivery: no hypothesis at all -/
theorem local_op_simulation (c c' : Cl) (h : Sim c c') (o : COp) (hd : ∀ e nx, o ≠ .deliver e nx) :
    Sim (rstep c o).1 (rstep c' o).1 ∧ (rstep c' o).2 = (rstep c o).2 := by
  refine sim_rstep h o ?_
  cases o with
  | deliver e nx => exact absurd rfl (hd e nx)
  | _ => rfl

/-- a restart of one side keeps the clients related (it is invisible until a comparison looks at a timestamp) -/
theorem restart_keeps_sim (c c' : Cl) (h : Sim c c') : Sim c (restart c').1 := sim_restart_right h

/-- a restart hydrates every snapshot of a persistent client … -/
theorem restart_hydrates_all (c : Cl) (hp : c.persistent = true) (ep : Nat)
    (h : (c.mgr.find? (·.epoch == ep)).isSome = true) : hydratedAt (restart c).1 ep = true := by
  unfold restart hydratedAt
  simp only [hp, if_true]
  cases hf : (c.mgr.map (fun s => { s with ts := 0 })).find? (·.epoch == ep) with
  | none =>
    rw [List.find?_map] at hf
    simp only [Option.map_eq_none_iff] at hf
    have : (c.mgr.find? (·.epoch == ep)) = none := hf
    rw [this] at h; cases h
  | some s =>
    have := List.mem_of_find?_eq_some hf
    simp only [List.mem_map] at this
    obtain ⟨t, _, rfl⟩ := this
    simp

/-- … and a snapshot taken afterwards carries its timestamp in both runs: the entry `process_commit` appends is
    the same on related clients -/
theorem new_snapshot_same (c c' : Cl) (h : Sim c c') (ep : Nat) (e : Ev) (hr : 1 ≤ c.retention) :
    (mgrCreate c' ep e).mgr.getLast? = (mgrCreate c ep e).mgr.getLast? := by
  have hg := h.g
  have hret := h.retention
  have hl := h.mgr.length_eq
  unfold mgrCreate
  simp only [hg, hret, List.length_append, List.length_cons, List.length_nil, hl]
  rw [List.getLast?_drop, List.getLast?_drop]
  simp only [List.length_append, List.length_cons, List.length_nil, hl]
  have : ¬ (c.mgr.length + (0 + 1) ≤ c.mgr.length + (0 + 1) - c.retention) := by omega
  simp [this]

/-- no delivery of the restart-free run rolls back for a better competitor -/
def QuietRun (c : Cl) (ops : List COp) : Prop := quietRun c (strip ops) = true

instance (c : Cl) (ops : List COp) : Decidable (QuietRun c ops) := by unfold QuietRun; infer_instance

/-- **restart_invisible_partial**: ANY client, ANY list of operations with restarts inserted ANYWHERE: if no
    delivery of the restart-free run is judged better against a snapshot, every call answers the same in both runs
    and the runs end in the same observable state — the projection, the dedup records, the stored messages, the
    whole group state, and the snapshots (epochs, commits, saved states; their timestamps excepted) -/
theorem restart_invisible_partial (c : Cl) (ops : List COp) (hq : QuietRun c ops) :
    (run c ops).2 = (run c (strip ops)).2 ∧ proj (run c ops).1 = proj (run c (strip ops)).1 ∧
    (run c ops).1.recs = (run c (strip ops)).1.recs ∧ (run c ops).1.g = (run c (strip ops)).1.g ∧
    (run c ops).1.mgr.map (fun s => (s.epoch, s.commit, s.saved)) = (run c (strip ops)).1.mgr.map (fun s => (s.epoch, s.commit, s.saved)) := by
  obtain ⟨h1, h2⟩ := run_sim ops (Sim.refl c) (noStaleWin_of_quiet ops c c hq)
  exact ⟨h2, h1.proj, h1.recs, h1.g, h1.mgr.map_eq⟩

/-- **the sharper version**: rollbacks are allowed as long as the snapshot rolled back to is not hydrated in the
    restarted run, i.e. was taken after the last restart before the delivery (`new_snapshot_same`,
    `restart_hydrates_all`); calls before the first restart are never in the way (`noStaleWin_prefix`) -/
theorem restart_invisible_sharp (c : Cl) (ops : List COp) (hq : noStaleWin c c ops = true) :
    (run c ops).2 = (run c (strip ops)).2 ∧ proj (run c ops).1 = proj (run c (strip ops)).1 ∧
    (run c ops).1.recs = (run c (strip ops)).1.recs ∧ (run c ops).1.g = (run c (strip ops)).1.g ∧
    (run c ops).1.mgr.map (fun s => (s.epoch, s.commit, s.saved)) = (run c (strip ops)).1.mgr.map (fun s => (s.epoch, s.commit, s.saved)) := by
  obtain ⟨h1, h2⟩ := run_sim ops (Sim.refl c) hq
  exact ⟨h2, h1.proj, h1.recs, h1.g, h1.mgr.map_eq⟩

/-- whatever happened before the first restart (races, rollbacks): if the rest of the restart-free run is quiet, the
    restarts are invisible -/
theorem restart_invisible_after_first_restart (c : Cl) (pre post : List COp) (hpre : ∀ o ∈ pre, isRestart o = false)
    (hq : QuietRun (run c pre).1 post) :
    (run c (pre ++ post)).2 = (run c (strip (pre ++ post))).2 ∧
    proj (run c (pre ++ post)).1 = proj (run c (strip (pre ++ post))).1 := by
  have := restart_invisible_sharp c (pre ++ post)
    (by rw [noStaleWin_prefix pre post c hpre]; exact noStaleWin_of_quiet post _ _ hq)
  exact ⟨this.1, this.2.1⟩

/-- the runs of the theorems are the histories of `C08.sync_inv` / `C01.reachable_hinv` (`C08.cstep` folded) -/
theorem run_is_history (c : Cl) (ops : List COp) : (run c ops).1 = ops.foldl MdkVerif.Props.C08.cstep c := run_fst c ops

/-- the statement of the property over histories, without a hypothesis -/
def restart_invisible_history_full : Prop :=
  ∀ (c : Cl) (ops : List COp),
    (run c ops).2 = (run c (strip ops)).2 ∧ proj (run c ops).1 = proj (run c (strip ops)).1

/-- refuted by the same witness (`hydrated-timestamp-zero`): apply A, restart, the better B is refused -/
theorem restart_invisible_history_full_false : ¬ restart_invisible_history_full := by
  intro h
  have := (h by0p [.deliver cA 0, .restart, .deliver cB 0]).1
  revert this; decide

/-! ### the hypotheses are satisfiable by non-trivial runs -/

/-- a worse competitor of A (later timestamp) -/
def cW : Ev := { n := 3, ts := 25, idnum := 3, cipher := 3, sender := 0, path := [], kind := .commit .selfUpdate [] }
/-- a message of member 1 in the epoch after A -/
def mA : Ev := { n := 4, ts := 30, idnum := 4, cipher := 4, sender := 1, path := [1], kind := .app 40 30 7 }

/-- quiet run with restarts at three places: A is applied, the worse W reaches the comparison and loses (in both
    runs), a message arrives, the client sends; the comparison IS evaluated, so the hypothesis is not vacuous -/
def quietOps : List COp :=
  [.restart, .deliver cA 0, .restart, .deliver cW 0, .deliver mA 0, .restart, .send 5 31 5 50 31 8, .deliver cW 0]

example : QuietRun by0p quietOps := by decide
example : (run by0p quietOps).2 = [.commit, .unprocessable, .app 40,
    .ev { n := 5, ts := 31, idnum := 5, cipher := 5, sender := 2, path := [1], kind := .app 50 31 8 }, .unprocessable] := by decide
example : (run by0p quietOps).2 = (run by0p (strip quietOps)).2 := (restart_invisible_partial by0p quietOps (by decide)).1

/-- C: a commit on the state after B; D: its better competitor -/
def cC : Ev := { n := 6, ts := 40, idnum := 6, cipher := 6, sender := 1, path := [2], kind := .commit .selfUpdate [] }
def cD : Ev := { n := 7, ts := 39, idnum := 8, cipher := 7, sender := 0, path := [2], kind := .commit .selfUpdate [] }

/-- a rollback BEFORE the restart (A applied, the better B wins), the restart, then a FRESH race after it (C applied,
    the better D wins against a snapshot taken after the restart): not quiet, but no stale win -/
def raceOps : List COp := [.deliver cA 0, .deliver cB 0, .restart, .deliver cC 0, .deliver cD 0]

example : noStaleWin by0p by0p raceOps = true := by decide
example : ¬ QuietRun by0p raceOps := by decide
example : (run by0p raceOps).2 = [.commit, .commit, .commit, .commit] ∧ (run by0p raceOps).1.g.path = [2, 7] := by decide
example : (run by0p raceOps).2 = (run by0p (strip raceOps)).2 := (restart_invisible_sharp by0p raceOps (by decide)).1
/-- … and the witness of the finding is exactly a stale win -/
example : noStaleWin by0p by0p [.deliver cA 0, .restart, .deliver cB 0] = false := by decide

/-! ## tie to the source: what an `MDK` instance keeps in memory, and what hydration brings back

  The facts are re-extracted from /repo on every run (`tools/gen_model.py` → `Generated.lean`); the theorems below
  are closed `decide`s over them, so a new field of `MDK`, a new lock / cell / static anywhere in the shipped code of
  mdk-core, mdk-storage-traits or mdk-sqlite-storage, or a change of what hydration rebuilds breaks an obligation. -/

/-- what a field of `MDK` is for a restart -/
inductive FieldRole where
  | constant       -- fixed by the code or handed in again by the application when it reopens (configuration)
  | database       -- the handle on the database (what "persistent" means) and the stateless crypto provider
  | callback       -- the application's callback object, handed in again on reopen; no library state
  | volatileState  -- library state that lives in memory only
  deriving DecidableEq, Repr

def mdkFieldRole : String → Option FieldRole
  | "ciphersuite" => some .constant
  | "extensions" => some .constant
  | "config" => some .constant
  | "provider" => some .database
  | "callback" => some .callback
  | "epoch_snapshots" => some .volatileState
  | _ => none

/-- every field of `pub struct MDK` is accounted for (a new field — a cache, say — has no role and breaks this) -/
theorem mdk_fields_all_classified : Generated.mdkFields.all (fun f => (mdkFieldRole f.1).isSome) = true := by decide

/-- the ONLY state-carrying in-memory field is the snapshot manager -/
theorem snapshot_manager_only_volatile_state :
    Generated.mdkFields.filter (fun f => mdkFieldRole f.1 == some .volatileState) =
      [("epoch_snapshots", "Arc<EpochSnapshotManager>")] := by decide

/-- the provider is the crypto provider and the storage, the SQLite storage is its connection and nothing else -/
theorem provider_and_storage_hold_no_cache :
    Generated.mdkProviderFields = [("crypto", "RustCrypto"), ("storage", "Storage")] ∧
    Generated.sqliteStorageFields = [("connection", "Arc<Mutex<Connection>>")] := by decide

/-- every lock, cell, lazy value, atomic and static of the shipped source: the manager's mutex, the connection's
    mutex, and the process-wide key-generation lock of the keyring (a `Mutex<()>`: it guards, it stores nothing) -/
theorem no_other_interior_mutability :
    Generated.interiorMutabilitySites =
      [("mdk-core/src/epoch_snapshots.rs", "Mutex"),
       ("mdk-sqlite-storage/src/keyring.rs", "Mutex"), ("mdk-sqlite-storage/src/keyring.rs", "OnceLock"),
       ("mdk-sqlite-storage/src/keyring.rs", "static KEY_GENERATION_LOCK:OnceLock<Mutex<()>>"),
       ("mdk-sqlite-storage/src/lib.rs", "Mutex")] := by decide

/-- the manager is the queue per group plus the set of groups hydrated already; every public method that looks at
    the queue hydrates first — so hydrating at the restart (the model) or at first use (the code) is the same -/
theorem manager_state_and_lazy_hydration :
    Generated.snapshotManagerFields = [("inner", "Mutex<EpochSnapshotManagerInner>"), ("retention_count", "usize")] ∧
    Generated.snapshotManagerInnerFields =
      [("snapshots", "HashMap<GroupId,VecDeque<EpochSnapshot>>"), ("hydrated_groups", "HashSet<GroupId>")] ∧
    Generated.managerMethods.filter (· != "new") = Generated.managerMethodsHydrating := by decide

/-- the model's `Snap` field that stands for a field of `EpochSnapshot` (`group_id`: the model has one group;
    `created_at`: an `Instant` nothing reads, `created_at_never_read`) -/
def snapFieldOf : String → Option String
  | "epoch" => some "epoch"
  | "applied_commit_id" => some "commit"
  | "applied_commit_ts" => some "ts"
  | "snapshot_name" => some "saved"       -- the name of the stored copy of the group state
  | _ => none

/-- a hydrated entry's field is a placeholder, not read back from the stored snapshot's name -/
def isPlaceholder (expr : String) : Bool := expr == "0" || expr == "Instant::now()"

/-- the stored name carries group id, epoch and commit id (`create_snapshot`), hydration reads exactly those back
    (`parse_snapshot_name`) and fills the rest with placeholders -/
theorem hydration_as_modelled :
    Generated.snapshotNameFormat = "snap_{}_{}_{}" ∧
    Generated.snapshotNameArgs = ["hex::encode(group_id.as_slice())", "current_epoch", "commit_id.to_hex()"] ∧
    Generated.createdEntry =
      [("group_id", "group_id.clone()"), ("epoch", "current_epoch"), ("applied_commit_id", "*commit_id"),
       ("applied_commit_ts", "commit_ts"), ("created_at", "Instant::now()"), ("snapshot_name", "snapshot_name.clone()")] ∧
    Generated.hydratedLocals =
      [("parts", "snapshot_name.split('_').collect()"), ("epoch", "parts[2].parse().ok()?"),
       ("commit_id", "EventId::parse(parts[3]).ok()?")] ∧
    Generated.hydratedEntry =
      [("group_id", "group_id.clone()"), ("epoch", "epoch"), ("applied_commit_id", "commit_id"),
       ("applied_commit_ts", "0"), ("created_at", "Instant::now()"), ("snapshot_name", "snapshot_name.to_string()")] ∧
    Generated.hydratedEntry.map (·.1) = Generated.epochSnapshotFields.map (·.1) := by decide

theorem created_at_never_read : Generated.epochSnapshotCreatedAtReads = 0 := by decide

/-- **the model's `restart` erases exactly the field hydration cannot recover**: of the fields of `EpochSnapshot`
    the model tracks, the placeholders of a hydrated entry are `applied_commit_ts` ↦ `ts` and nothing else … -/
theorem hydration_loses_exactly_ts :
    (Generated.hydratedEntry.filter (fun f => isPlaceholder f.2)).filterMap (fun f => snapFieldOf f.1) = ["ts"] ∧
    (Generated.hydratedEntry.filter (fun f => !isPlaceholder f.2)).filterMap (fun f => snapFieldOf f.1) = ["epoch", "commit", "saved"] ∧
    Generated.hydratedEntry.lookup "applied_commit_ts" = some "0" := by decide

/-- … and that is what `restart` does to a persistent client: every entry keeps epoch, commit and saved state, in
    order; every timestamp becomes 0; nothing else of the client changes (`restart_only_forgets_timestamps`) -/
theorem restart_erases_exactly_ts (c : Cl) (hp : c.persistent = true) :
    (restart c).1.mgr.map (fun s => (s.epoch, s.commit, s.saved)) = c.mgr.map (fun s => (s.epoch, s.commit, s.saved)) ∧
    (∀ s ∈ (restart c).1.mgr, s.ts = 0) ∧ (restart c).1 = { c with mgr := (restart c).1.mgr } := by
  unfold restart
  simp only [hp, if_true, List.map_map, List.mem_map]
  refine ⟨rfl, ?_, trivial⟩
  rintro s ⟨t, _, rfl⟩; rfl

end MdkVerif.Props.C11
