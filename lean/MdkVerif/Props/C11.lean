import MdkVerif.Model.Client
import MdkVerif.Proofs.Client
/-
  C11 — Restarting on persistent storage is invisible.
  In the model a restart drops the in-memory snapshot manager and re-hydrates it from the stored
  snapshot names: everything survives except the applied commits' timestamps.
-/
namespace MdkVerif.Props.C11
open MdkVerif MdkVerif.Client

/-- a restart changes nothing but the manager's timestamps -/
theorem restart_only_forgets_timestamps (c : Cl) :
    (restart c).1 = c ∨ (restart c).1 = { c with mgr := c.mgr.map (fun s => { s with ts := 0 }) } := by
  unfold restart; split
  · right; rfl
  · left; rfl

theorem restart_proj (c : Cl) : proj (restart c).1 = proj c := by
  unfold restart; split <;> rfl

theorem restart_keeps_records (c : Cl) : (restart c).1.recs = c.recs ∧ (restart c).1.msgs = c.msgs ∧ (restart c).1.g = c.g := by
  unfold restart; split <;> simp

/-- after a restart no candidate is ever judged better (every entry is hydrated) -/
theorem restart_disables_comparison (c : Cl) (hp : c.persistent = true) (ee : Nat) (e : Ev) :
    isBetter (restart c).1 ee e = false := by
  unfold restart isBetter
  simp only [hp, if_true]
  cases h : (c.mgr.map (fun s => { s with ts := 0 })).find? (·.epoch == ee) with
  | none => rfl
  | some s =>
    have := List.mem_of_find?_eq_some h
    simp only [List.mem_map] at this
    obtain ⟨t, _, rfl⟩ := this
    simp

/-- the full statement: a delivery after a restart behaves as without the restart -/
def restart_invisible_full : Prop :=
  ∀ (c : Cl) (e : Ev), proj (deliver (restart c).1 e 0).1 = proj (deliver c e 0).1

def by0p : Cl := initCl 2 true 5 [0, 1, 2] [0, 1] 1
def cA : Ev := { n := 1, ts := 20, idnum := 7, cipher := 1, sender := 1, path := [], kind := .commit .selfUpdate [] }
def cB : Ev := { n := 2, ts := 19, idnum := 9, cipher := 2, sender := 0, path := [], kind := .commit (.setData { initData [0, 1] 1 with name := 4 }) [] }

/-- `hydrated-timestamp-zero`: apply A, restart, the better B arrives: refused; without the restart it wins -/
theorem restart_invisible_full_false : ¬ restart_invisible_full := by
  intro h
  have := h (deliver by0p cA 0).1 cB
  revert this; decide

/-- when no competing commit is pending (nothing the client would roll back for), the restart is
    invisible to the next delivery's verdict on the MIP-03 comparison -/
theorem restart_invisible_when_not_better (c : Cl) (hp : c.persistent = true) (ee : Nat) (e : Ev)
    (h : isBetter c ee e = false) : isBetter (restart c).1 ee e = isBetter c ee e := by
  rw [restart_disables_comparison c hp, h]

end MdkVerif.Props.C11
