import MdkVerif.Model.Ffi
import MdkVerif.Proofs.Ffi
/-
  C06, first sentence — "… or (through the foreign-language bindings) any string argument, the library returns a
  result instead of panicking": the PARSE layer of crates/mdk-uniffi (Model/Ffi.lean).

  What is proved here is the decision logic of the parse helpers for ALL byte strings: which strings are
  accepted, which error class the others get, and that what is accepted is never a default value.  That the
  Rust code does not panic is a runtime fact searched by the harness (`vh ffi`), not a theorem; the tie between
  this model and the code is (a) the correspondence run (same op lines on both sides, parse-level outcome
  compared) and (b) the generated tables `Generated.ffi*` / `…State…` the theorems below are stated about.
-/
namespace MdkVerif.Props.C06Ffi
open MdkVerif MdkVerif.Ffi MdkVerif.Codec

/-! ### hex -/

/-- Every string gets exactly one of three answers, and none of them is a default: bytes that re-encode to the
    (lower-cased) input, `OddLength` for an odd number of bytes, or `InvalidHexCharacter` naming the FIRST
    byte that is not a hex digit together with its index.  `InvalidStringLength` is never produced. -/
theorem hex_decode_total (s : Bytes) :
    (∃ b, hexDecode s = .ok b ∧ s.length = 2 * b.length ∧ isBytes b = true ∧ hexEnc b = s.map lowerC) ∨
    (hexDecode s = .error .oddLength ∧ s.length % 2 = 1) ∨
    (∃ c k, hexDecode s = .error (.invalidChar c k) ∧ s.length % 2 = 0 ∧ s[k]? = some c ∧ hexVal c = none ∧
      ∀ j, j < k → ∃ d, s[j]? = some d ∧ (hexVal d).isSome = true) := by
  unfold hexDecode
  by_cases hodd : s.length % 2 = 1
  · rw [if_pos hodd]; exact Or.inr (Or.inl ⟨rfl, hodd⟩)
  · rw [if_neg hodd]
    have heven : s.length % 2 = 0 := by omega
    cases h : hexPairs 0 s with
    | ok b =>
      obtain ⟨h1, h2, h3⟩ := hexPairs_ok_spec s 0 b h
      exact Or.inl ⟨b, rfl, h1, h2, h3⟩
    | error e =>
      obtain ⟨c, k, he, hk, hv, hb⟩ := hexPairs_error_spec s 0 e heven h
      refine Or.inr (Or.inr ⟨c, k, ?_, heven, hk, hv, hb⟩)
      rw [he]; simp

/-- decode ∘ encode is the identity on byte lists; encode ∘ decode lower-cases -/
theorem hex_round_trip :
    (∀ b : Bytes, isBytes b = true → hexDecode (hexEnc b) = .ok b) ∧
    (∀ s b : Bytes, hexDecode s = .ok b → hexEnc b = s.map lowerC) := by
  constructor
  · intro b hb
    unfold hexDecode
    rw [if_neg (by rw [hexEnc_length]; omega)]
    exact (hexPairs_ok_iff _ 0 b).mpr (hexDec_hexEnc b hb)
  · intro s b h
    unfold hexDecode at h
    by_cases hodd : s.length % 2 = 1
    · rw [if_pos hodd] at h; cases h
    · rw [if_neg hodd] at h; exact (hexPairs_ok_spec s 0 b h).2.2

/-- the binding's hex decoder and the C15 model of the same crate accept the same strings with the same value -/
theorem hex_decode_agrees_with_codec (s b : Bytes) : hexDecode s = .ok b ↔ hexDec s = some b := by
  unfold hexDecode
  by_cases hodd : s.length % 2 = 1
  · rw [if_pos hodd]
    constructor
    · intro h; cases h
    · intro h; have := hexDec_length s b h; omega
  · rw [if_neg hodd]; exact hexPairs_ok_iff s 0 b

/-- either case is accepted and means the same bytes (an id has 2^k spellings; `hex_round_trip` says which one
    the library itself prints) -/
theorem hex_case_insensitive (s b : Bytes) (h : hexDecode s = .ok b) : hexDecode (s.map upperC) = .ok b := by
  unfold hexDecode at *
  by_cases hodd : s.length % 2 = 1
  · rw [if_pos hodd] at h; cases h
  · rw [if_neg hodd] at h
    rw [if_neg (by simpa using hodd)]
    exact hexPairs_upper s 0 b h

/-! ### ids and keys -/

/-- `parse_group_id`: any even number of hex digits, also none at all -/
theorem parse_group_id_accept_iff (s : Bytes) :
    (∃ b, parseGroupId s = .ok b) ↔ s.length % 2 = 0 ∧ ∀ c ∈ s, isHexChar c = true := by
  unfold parseGroupId hexDecode
  by_cases hodd : s.length % 2 = 1
  · rw [if_pos hodd]
    constructor
    · intro ⟨b, hb⟩; cases hb
    · intro ⟨h, _⟩; omega
  · rw [if_neg hodd]; exact hexPairs_isOk_iff s 0

/-- the code really has no length demand on group ids (regenerated from `parse_group_id` on every run) -/
theorem group_id_any_length_fact : Generated.ffiGroupIdAnyLength = true := by decide

theorem decodeToSlice_accept_iff (n : Nat) (s : Bytes) :
    (∃ b, decodeToSlice n s = .ok b) ↔ s.length = 2 * n ∧ ∀ c ∈ s, isHexChar c = true := by
  unfold decodeToSlice
  by_cases hodd : s.length % 2 = 1
  · rw [if_pos hodd]
    constructor
    · intro ⟨b, hb⟩; cases hb
    · intro ⟨h, _⟩; omega
  · rw [if_neg hodd]
    by_cases hn : s.length / 2 ≠ n
    · rw [if_pos hn]
      constructor
      · intro ⟨b, hb⟩; cases hb
      · intro ⟨h, _⟩; omega
    · rw [if_neg hn]
      rw [hexPairs_isOk_iff s 0]
      constructor
      · intro ⟨_, hc⟩; exact ⟨by omega, hc⟩
      · intro ⟨_, hc⟩; exact ⟨by omega, hc⟩

theorem decodeToSlice_value (n : Nat) (s b : Bytes) (h : decodeToSlice n s = .ok b) :
    b.length = n ∧ isBytes b = true ∧ hexEnc b = s.map lowerC := by
  unfold decodeToSlice at h
  by_cases hodd : s.length % 2 = 1
  · rw [if_pos hodd] at h; cases h
  · rw [if_neg hodd] at h
    by_cases hn : s.length / 2 ≠ n
    · rw [if_pos hn] at h; cases h
    · rw [if_neg hn] at h
      obtain ⟨h1, h2, h3⟩ := hexPairs_ok_spec s 0 b h
      exact ⟨by omega, h2, h3⟩

/-- which error a refused id gets: parity first, then the length, then the first bad character -/
theorem decodeToSlice_errors (n : Nat) (s : Bytes) :
    (s.length % 2 = 1 → decodeToSlice n s = .error .oddLength) ∧
    (s.length % 2 = 0 → s.length ≠ 2 * n → decodeToSlice n s = .error .invalidStringLength) ∧
    (s.length = 2 * n → ∀ e, decodeToSlice n s = .error e →
      ∃ c k, e = .invalidChar c k ∧ s[k]? = some c ∧ hexVal c = none ∧ ∀ j, j < k → ∃ d, s[j]? = some d ∧ (hexVal d).isSome = true) := by
  refine ⟨?_, ?_, ?_⟩
  · intro h; unfold decodeToSlice; rw [if_pos h]
  · intro h1 h2; unfold decodeToSlice; rw [if_neg (by omega), if_pos (by omega)]
  · intro h e he
    unfold decodeToSlice at he
    rw [if_neg (by omega), if_neg (by omega)] at he
    obtain ⟨c, k, hk⟩ := hexPairs_error_spec s 0 e (by omega) he
    exact ⟨c, k, by simpa using hk⟩

/-- `parse_event_id` (= `EventId::from_hex`): exactly the strings of 64 hex digits, and the id is their value -/
theorem parse_event_id_accept_iff (s : Bytes) :
    (∃ b, parseEventId s = .ok b) ↔ s.length = 64 ∧ ∀ c ∈ s, isHexChar c = true := by
  unfold parseEventId; exact decodeToSlice_accept_iff 32 s

theorem parse_event_id_value (s b : Bytes) (h : parseEventId s = .ok b) :
    b.length = 32 ∧ isBytes b = true ∧ hexEnc b = s.map lowerC := decodeToSlice_value 32 s b h

/-- `parse_public_key` (= `PublicKey::from_hex`): exactly the strings of 64 hex digits — NOTHING else is
    demanded at this layer: see `public_key_not_checked_against_curve` -/
theorem parse_public_key_accept_iff (s : Bytes) :
    (∃ b, parsePublicKey s = .ok b) ↔ s.length = 64 ∧ ∀ c ∈ s, isHexChar c = true := by
  unfold parsePublicKey; exact decodeToSlice_accept_iff 32 s

theorem parse_public_key_value (s b : Bytes) (h : parsePublicKey s = .ok b) :
    b.length = 32 ∧ isBytes b = true ∧ hexEnc b = s.map lowerC := decodeToSlice_value 32 s b h

/-- 32 zero bytes (not the x coordinate of a curve point) are accepted as a public key by the parser: the
    shape theorem above is all there is (the harness observes what mdk-core then does with such a key) -/
theorem public_key_not_checked_against_curve :
    parsePublicKey (List.replicate 64 48) = .ok (List.replicate 32 0) := by rfl

/-! ### sort order, tags, fixed-size vectors -/

/-- the hand-written `parseSortOrder` accepts exactly the strings of the table regenerated from the match arms
    of `parse_message_sort_order`, with the variant the table gives; an absent argument stays absent -/
theorem sort_order_accept_iff (s : Bytes) (o : Nat) :
    parseSortOrder (some s) = .ok (some o) ↔ (s, o) ∈ Generated.ffiSortOrderTable := by
  simp only [parseSortOrder]
  by_cases h1 : s = createdAtFirst
  · subst h1
    simp [Generated.ffiSortOrderTable, createdAtFirst]
    omega
  · by_cases h2 : s = processedAtFirst
    · subst h2
      simp [Generated.ffiSortOrderTable, createdAtFirst, processedAtFirst]
      omega
    · rw [if_neg h1, if_neg h2]
      simp [Generated.ffiSortOrderTable]
      exact ⟨fun h => absurd (by simpa [createdAtFirst] using h) h1, fun h => absurd (by simpa [processedAtFirst] using h) h2⟩

theorem sort_order_none : parseSortOrder none = .ok none ∧ ∀ s, parseSortOrder (some s) ≠ .ok none := by
  refine ⟨rfl, fun s => ?_⟩
  simp only [parseSortOrder]
  by_cases h1 : s = createdAtFirst
  · rw [if_pos h1]; simp
  · rw [if_neg h1]
    by_cases h2 : s = processedAtFirst
    · rw [if_pos h2]; simp
    · rw [if_neg h2]; simp

/-- `Tag::parse` refuses exactly the empty tag; what is accepted is the tag itself -/
theorem parse_tags_accept_iff (ts ts' : List (List Bytes)) :
    parseTags ts = .ok ts' ↔ (∀ t ∈ ts, t ≠ []) ∧ ts' = ts := by
  induction ts generalizing ts' with
  | nil =>
    simp only [parseTags]
    constructor
    · intro h; injection h with h; exact ⟨by simp, h.symm⟩
    · intro ⟨_, h⟩; rw [h]
  | cons t r ih =>
    cases t with
    | nil =>
      simp only [parseTags, parseTag, List.isEmpty_nil, if_true]
      constructor
      · intro h; cases h
      · intro ⟨h, _⟩; exact absurd rfl (h [] (by simp))
    | cons x xs =>
      simp only [parseTags, parseTag, List.isEmpty_cons, Bool.false_eq_true, if_false]
      cases hr : parseTags r with
      | error e =>
        simp only []
        constructor
        · intro h; cases h
        · intro ⟨hall, _⟩
          have : parseTags r = .ok r := (ih r).mpr ⟨fun t ht => hall t (by simp [ht]), rfl⟩
          rw [hr] at this; cases this
      | ok r' =>
        simp only []
        obtain ⟨h1, h2⟩ := (ih r').mp hr
        subst h2
        constructor
        · intro h
          injection h with h
          refine ⟨?_, h.symm⟩
          intro t ht
          simp only [List.mem_cons] at ht
          rcases ht with rfl | ht
          · simp
          · exact h1 t ht
        · intro ⟨_, h⟩; rw [h]

theorem vec_to_array_accept_iff (n : Nat) (o : Option Nat) :
    (∃ r, vecToArray n o = .ok r) ↔ (o = none ∨ o = some n) := by
  cases o with
  | none => simp [vecToArray]
  | some l =>
    unfold vecToArray
    by_cases h : l = n
    · simp [h]
    · simp [h]

/-! ### the state string tables -/

/-- `as_str` and `from_str` of the three state enums (tables regenerated from the source on every run) are
    inverse on their domains, and `from_str` accepts nothing that `as_str` does not produce.  The binding
    prints `Group.state`, `Message.state`, `Welcome.state` with `as_str` and reads `Welcome.state` back with
    `from_str`, so a record obtained from the binding is accepted by the binding. -/
theorem state_tables_round_trip :
    ((∀ v s, welcomeStateAsStr v = some s → welcomeStateFromStr s = some v) ∧
     (∀ s v, welcomeStateFromStr s = some v → welcomeStateAsStr v = some s)) ∧
    ((∀ v s, messageStateAsStr v = some s → messageStateFromStr s = some v) ∧
     (∀ s v, messageStateFromStr s = some v → messageStateAsStr v = some s)) ∧
    ((∀ v s, groupStateAsStr v = some s → groupStateFromStr s = some v) ∧
     (∀ s v, groupStateFromStr s = some v → groupStateAsStr v = some s)) :=
  ⟨tables_round_trip _ _ (by decide), tables_round_trip _ _ (by decide), tables_round_trip _ _ (by decide)⟩

/-- every variant of each enum has a string (no variant is unprintable / unreadable) -/
theorem state_tables_complete :
    (∀ v, v < Generated.welcomeStateVariants → (welcomeStateAsStr v).isSome = true) ∧
    (∀ v, v < Generated.messageStateVariants → (messageStateAsStr v).isSome = true) ∧
    (∀ v, v < Generated.groupStateVariants → (groupStateAsStr v).isSome = true) := by
  refine ⟨?_, ?_, ?_⟩ <;> decide

/-! ### the parse plans -/

/-- the hand-written plan of every exported function lists the same parse steps, in the same order, as
    `tools/gen_model.py` reads off the current source -/
theorem plans_follow_source (m : Method) : lookupPlan m.name = some (planCodes (plan m)) := by
  cases m <;> rfl

theorem welcome_plan_follows_source :
    lookupPlan [119, 101, 108, 99, 111, 109, 101, 95, 102, 114, 111, 109, 95, 117, 110, 105, 102, 102, 105] = some (planCodes welcomePlan) := by
  rfl

/-- every `#[uniffi::export]` function of the source is a `Method` of the model (a newly exported function
    breaks this theorem until the engine covers it) -/
theorem every_export_modelled :
    ∀ p ∈ Generated.ffiPlans, p.1 = [119, 101, 108, 99, 111, 109, 101, 95, 102, 114, 111, 109, 95, 117, 110, 105, 102, 102, 105] ∨
      Method.all.any (fun m => m.name == p.1) = true := by
  decide

/-- when every step is decided, a call has ONE parse-level answer: the refusal of the first refusing step,
    or "past parsing" when there is none -/
theorem first_refusal_wins (l : List (Stage × V3)) (h : ∀ p ∈ l, p.2 ≠ .unk) :
    alts l = [match l.find? (fun p => p.2 = .rej) with | some p => .refuse p.1 | none => .past] := by
  induction l with
  | nil => rfl
  | cons p r ih =>
    obtain ⟨s, v⟩ := p
    have hr := ih (fun q hq => h q (by simp [hq]))
    cases v with
    | acc => simp [alts, hr]
    | rej => simp [alts]
    | unk => exact absurd rfl (h (s, .unk) (by simp))

/-- non-vacuity: a call whose every step is decided, with a refusal in the middle -/
example : alts [(.gid, .acc), (.eid, .rej), (.lock, .acc)] = [.refuse .eid] := by decide
example : parseEventId (List.replicate 63 97) = .error .oddLength := by rfl
example : parseEventId (List.replicate 62 97) = .error .invalidStringLength := by rfl
example : parseEventId (List.replicate 62 97 ++ [122, 122]) = .error (.invalidChar 122 62) := by rfl
example : parseGroupId [] = .ok [] := by rfl
example : hexDecode [65, 98] = .ok [171] ∧ hexDecode [97, 66] = .ok [171] := ⟨rfl, rfl⟩
/-- the hypotheses of `hex_round_trip`, `hex_case_insensitive`, `decodeToSlice_value`, `parse_*_value` are satisfiable -/
example : isBytes [171, 0, 255] = true ∧ hexDecode (hexEnc [171, 0, 255]) = .ok [171, 0, 255] := ⟨rfl, rfl⟩
example : parseEventId (List.replicate 32 [65, 98]).flatten = .ok (List.replicate 32 171) := by rfl
example : parseSortOrder (some createdAtFirst) = .ok (some 0) ∧ parseSortOrder (some processedAtFirst) = .ok (some 1) := ⟨rfl, rfl⟩
example : parseTags [[[112], []], [[]]] = .ok [[[112], []], [[]]] ∧ parseTags [[[112]], []] = .error () := ⟨rfl, rfl⟩
example : welcomeStateFromStr [112, 101, 110, 100, 105, 110, 103] = some 0 ∧ welcomeStateFromStr [80, 101, 110, 100, 105, 110, 103] = none := ⟨rfl, rfl⟩
example : relayVerdict [119, 115, 115, 58, 47, 47, 97, 46, 98] = .acc ∧ relayVerdict [104, 116, 116, 112, 58, 47, 47, 97, 46, 98] = .rej ∧
    relayVerdict [119, 115, 115, 58, 47, 47, 91, 58, 58, 49, 93] = .unk := ⟨rfl, rfl, rfl⟩

end MdkVerif.Props.C06Ffi
