import MdkVerif.Model.Client
import MdkVerif.Proofs.Client
import MdkVerif.Proofs.Store
import MdkVerif.Proofs.Fork
import MdkVerif.Proofs.ForkInv
import MdkVerif.Proofs.Chain
import MdkVerif.Props.C01Fork
import MdkVerif.Props.C08
/-
  C01 — the lift of the single-fork theorems (Props/C01Fork.lean) to MANY CLIENTS and to CHAINS OF FORKS
  (DESIGN §6 C01 T(4), §13.7).

  Vocabulary (Proofs/Chain.lean):
    `run nx c l`            deliver the list `l` to client `c`, one event after the other (`run_def`)
    `AtFork c T`            `c` is at the parent state of the fork with commit set `T`, as a bystander
                            (`Siblings c T`) or as one of the committers (its staged commit is in `T`); the client
                            is active and its record's nostr group id is the extension's (`recNid = nid`)
    `IsMin w T`             `w ∈ T` precedes every other element of `T` in the MIP-03 order
    `Covers T l`            `l` is a list over `T` — any order, any repetition — containing all of `T`
    `Level = (w, S)`        one level of a chain: the set `S` of competing commits and its MIP-03 minimum
    `Core`, `core g`        (path, members, group data) of a group state; `coreStep k w` applies a commit to it
                            (`dataAfter`: a data commit carries the WHOLE new extension — name, description,
                            admins, relays, nostr group id; `membersAfter`: leavers removed, members added)
    `ChainEv id k Ls`       conditions on the EVENTS of a chain that starts in the state with core `k`:
                            level j+1 was created in the state reached by the winners of levels 1..j, is
                            authorised by the admins THAT state has, carries that state's id as its `h` tag,
                            does not rotate the id and does not remove client `id` (`LevelEv`)
    `LevelWise Ls ls`       a level-by-level schedule: `ls = [l₁, …, lₙ]`, `Covers Sₖ lₖ`
    `childOfG mp g w`       the group state after commit `w` on parent state `g`; `chainG` iterates it
    `SameParent g g'`       the fields of a parent state a child depends on (path, members, group data, ensured
                            secrets, past states, last-message pointer, activity — not: pending commit, queued
                            proposals, stored record, consumed ratchet generations)
    `wc g []`               `g` with the list of consumed ratchet generations blanked (as in C01Fork)

  Hypothesis of every theorem here, and the reason the property is only PARTIAL: LEVEL-BY-LEVEL delivery
  (no event of level k+1 is offered before the client has been offered all of level k) and EVERY client
  is offered EVERY sibling of every level.  The statement for every schedule is `C01_full`; it is false
  of the code (`C01_full_false`).  Since the client model was widened (DESIGN §13.8) the fork theorems
  also exclude a commit that rotates the nostr group id (`h-rotation-in-flight`,
  `C01Fork.single_fork_any_id_full_false`) or removes the receiver (`evicted-by-losing-commit`,
  `C01Fork.single_fork_any_target_full_false`), and so do `ChainEv` / `AtFork` / `ChildOf` here.
-/
namespace MdkVerif.Props.C01Chain
open MdkVerif MdkVerif.Client MdkVerif.Fork MdkVerif.Chain MdkVerif.Props.C01Fork

theorem run_def (nx : Nat) (c : Cl) (l : List Ev) : run nx c l = l.foldl (fun c e => (deliver c e nx).1) c := rfl

/-! ### the running example: a group of four (admins 0, 1, 3), three levels of forks

  level 1, created in the start state (path []):      A (by 1, ts 20), B (by 0, ts 19 id 9: name 4, admins {0,3} — demotes 1),
                                                      C (by 3, ts 19 id 11: name 5)                                  — B wins
  level 2, created in the state reached by B ([2]):   fA (by 0, ts 30), fB (by 3, ts 29: name 7)                     — fB wins
  level 3, created in the state reached by fB ([2,5]): gA (by 3: name 9, description 6)
  (levels 2 and 3 are authorised by the admin set B left: {0,3})
  client 2 is a bystander of all levels; client 1 is the committer of A (staged, applied on relay echo).
  All events carry the `h` tag 0 = the nostr group id chosen at creation; no commit rotates it or removes 1 or 2. -/

def d0 : GData := initData [0, 1, 3] 1
def dB : GData := { d0 with name := 4, admins := [0, 3] }
def b2 : Cl := initCl 2 false 5 [0, 1, 2, 3] [0, 1, 3] 1
def k1 : Cl := (stageCommit (initCl 1 false 5 [0, 1, 2, 3] [0, 1, 3] 1) 1 20 7 .selfUpdate false).1
def eA : Ev := { n := 1, ts := 20, idnum := 7, cipher := 1, sender := 1, path := [], kind := .commit .selfUpdate [] }
def eB : Ev := { n := 2, ts := 19, idnum := 9, cipher := 2, sender := 0, path := [], kind := .commit (.setData dB) [] }
def eC : Ev := { n := 3, ts := 19, idnum := 11, cipher := 3, sender := 3, path := [], kind := .commit (.setData { d0 with name := 5 }) [] }
def fA : Ev := { n := 4, ts := 30, idnum := 5, cipher := 4, sender := 0, path := [2], kind := .commit .selfUpdate [] }
def fB : Ev := { n := 5, ts := 29, idnum := 8, cipher := 5, sender := 3, path := [2], kind := .commit (.setData { dB with name := 7 }) [] }
def gA : Ev := { n := 6, ts := 40, idnum := 2, cipher := 6, sender := 3, path := [2, 5], kind := .commit (.setData { dB with name := 9, desc := 6 }) [] }
/-- a child of the loser A (created on the branch [1], which the client leaves for good at level 1) -/
def hA : Ev := { n := 7, ts := 25, idnum := 1, cipher := 7, sender := 3, path := [1], kind := .commit (.setData { d0 with name := 8 }) [] }
def T1 : List Ev := [eA, eB, eC]
def later : List Level := [(fB, [fA, fB]), (gA, [gA])]
def chain3 : List Level := (eB, T1) :: later

theorem b2_secrets : SecretsOK b2.g := by intro ep q h; simp [b2, initCl, initG, alookup] at h
theorem b2_below : Below b2 := by intro s hs; cases hs
theorem k1_below : Below k1 := by intro s hs; cases hs

/-- the later levels, for the bystander 2 and for client 1 (the committer of A): conditions on the events only -/
theorem later_chain2 : ChainEv 2 (coreStep (core b2.g) eB) later :=
  ⟨levelEv_of_dec _ _ _ (by decide) (by decide) (by decide) (by decide) (by decide) (by decide), by decide, by decide,
    levelEv_of_dec _ _ _ (by decide) (by decide) (by decide) (by decide) (by decide) (by decide), by decide, by decide, trivial⟩

theorem later_chain1 : ChainEv 1 (coreStep (core b2.g) eB) later :=
  ⟨levelEv_of_dec _ _ _ (by decide) (by decide) (by decide) (by decide) (by decide) (by decide), by decide, by decide,
    levelEv_of_dec _ _ _ (by decide) (by decide) (by decide) (by decide) (by decide) (by decide), by decide, by decide, trivial⟩

theorem b2_chain : ChainEv b2.id (core b2.g) chain3 :=
  ⟨levelEv_of_dec _ _ _ (by decide) (by decide) (by decide) (by decide) (by decide) (by decide), by decide, by decide,
    later_chain2⟩

theorem b2_atFork : AtFork b2 T1 :=
  .bystander rfl rfl (by decide) b2_secrets b2_below.noFork rfl
    (siblings_of_dec b2 T1 rfl (by decide) (by decide) (by decide) (by decide) (by decide) (by decide) (by decide))

theorem k1_atFork : AtFork k1 T1 := by
  obtain ⟨ho, hsec, hm, _⟩ := stage_own_commit (initCl 1 false 5 [0, 1, 2, 3] [0, 1, 3] 1) 1 20 7 .selfUpdate false eA
    (by decide) (by intro ep q h; simp [initCl, initG, alookup] at h) (by intro s hs; cases hs)
    (by intro d hd; cases hd) (by decide) (by decide)
  exact .committer eA [eB, eC] rfl rfl (by decide) hsec hm rfl ho
    (siblings_of_dec k1 [eB, eC] rfl (by decide) (by decide) (by decide) (by decide) (by decide) (by decide) (by decide))
    (by decide) (fun e => Iff.rfl)

/-! ### 1. many clients, one fork -/

/-- **fork_agree**: two clients at the same fork `T` — each a bystander or one of the committers, in any
    combination — whose parent states agree (`SameParent`), each offered ALL of `T` in its own order with
    its own repetitions, end with the same MLS state and the same group state: the child of the MIP-03
    minimum of `T` -/
theorem fork_agree (c1 c2 : Cl) (T l1 l2 : List Ev) (nx1 nx2 : Nat)
    (h1 : AtFork c1 T) (h2 : AtFork c2 T) (hp : SameParent c1.g c2.g) (hmp : c1.maxPast = c2.maxPast)
    (hl1 : Covers T l1) (hl2 : Covers T l2) (hne : T ≠ []) :
    ∃ w, IsMin w T ∧
      (run nx1 c1 l1).g.path = c1.g.path ++ [w.cipher] ∧
      (run nx1 c1 l1).g.path = (run nx2 c2 l2).g.path ∧
      wc (run nx1 c1 l1).g [] = wc (run nx2 c2 l2).g [] := by
  obtain ⟨x, hx⟩ := List.exists_mem_of_ne_nil T hne
  have hn1 : l1 ≠ [] := fun e => by have := hl1.2 x hx; rw [e] at this; cases this
  have hn2 : l2 ≠ [] := fun e => by have := hl2.2 x hx; rw [e] at this; cases this
  obtain ⟨w1, hw1, hm1, hd1⟩ := fork_level c1 T l1 nx1 h1 hl1.1 hn1
  obtain ⟨w2, hw2, hm2, hd2⟩ := fork_level c2 T l2 nx2 h2 hl2.1 hn2
  have hmin1 : IsMin w1 T := ⟨hl1.1 w1 hw1, fun e he => hm1 e (hl1.2 e he)⟩
  have hmin2 : IsMin w2 T := ⟨hl2.1 w2 hw2, fun e he => hm2 e (hl2.2 e he)⟩
  have hw : w2 = w1 := isMin_unique hmin2 hmin1
  subst hw
  obtain ⟨b, sw, hk⟩ := hd1.com.kind
  refine ⟨w2, hmin1, hd1.path, by rw [hd1.path, hd2.path, hp.path], ?_⟩
  rw [hd1.g, hd2.g, hmp]
  exact childOfG_congr _ _ _ w2 b sw hk hp

/-- the same for delivery lists that need not contain all of `T`, as long as the two clients were offered
    the same SET of events: they end in the child of the MIP-03 minimum of that set -/
theorem fork_agree_sameset (c1 c2 : Cl) (T l1 l2 : List Ev) (nx1 nx2 : Nat)
    (h1 : AtFork c1 T) (h2 : AtFork c2 T) (hp : SameParent c1.g c2.g) (hmp : c1.maxPast = c2.maxPast)
    (hl1 : ∀ e ∈ l1, e ∈ T) (hl2 : ∀ e ∈ l2, e ∈ T) (hset : ∀ e, e ∈ l1 ↔ e ∈ l2) (hne : l1 ≠ []) :
    ∃ w, IsMin w l1 ∧
      (run nx1 c1 l1).g.path = c1.g.path ++ [w.cipher] ∧
      (run nx1 c1 l1).g.path = (run nx2 c2 l2).g.path ∧
      wc (run nx1 c1 l1).g [] = wc (run nx2 c2 l2).g [] := by
  have hn2 : l2 ≠ [] := by
    obtain ⟨x, hx⟩ := List.exists_mem_of_ne_nil l1 hne
    intro e; have := (hset x).mp hx; rw [e] at this; cases this
  obtain ⟨w1, hw1, hm1, hd1⟩ := fork_level c1 T l1 nx1 h1 hl1 hne
  obtain ⟨w2, hw2, hm2, hd2⟩ := fork_level c2 T l2 nx2 h2 hl2 hn2
  have hmin1 : IsMin w1 l1 := ⟨hw1, hm1⟩
  have hmin2 : IsMin w2 l1 := ⟨(hset w2).mpr hw2, fun e he => hm2 e ((hset e).mp he)⟩
  have hw : w2 = w1 := isMin_unique hmin2 hmin1
  subst hw
  obtain ⟨b, sw, hk⟩ := hd1.com.kind
  refine ⟨w2, hmin1, hd1.path, by rw [hd1.path, hd2.path, hp.path], ?_⟩
  rw [hd1.g, hd2.g, hmp]
  exact childOfG_congr _ _ _ w2 b sw hk hp

/-- non-vacuity: only A and C were offered (B, the overall minimum, not yet): both clients are on C -/
example : (run 0 b2 [eA, eC, eA]).g.path = (run 0 k1 [eC, eA]).g.path :=
  let ⟨_, _, _, h, _⟩ := fork_agree_sameset b2 k1 T1 [eA, eC, eA] [eC, eA] 0 0 b2_atFork k1_atFork (by constructor <;> decide) rfl
    (by decide) (by decide) (by intro e; simp [or_comm]) (by decide)
  h

/-- the corollaries the property text names: same epoch, same MLS state, same member set, same group data — the
    WHOLE group data (name, description, admins, relays, nostr group id), the same stored record (all six
    fields), no pending commit or proposals left, and both clients still active -/
theorem fork_agree_data (c1 c2 : Cl) (T l1 l2 : List Ev) (nx1 nx2 : Nat)
    (h1 : AtFork c1 T) (h2 : AtFork c2 T) (hp : SameParent c1.g c2.g) (hmp : c1.maxPast = c2.maxPast)
    (hl1 : Covers T l1) (hl2 : Covers T l2) (hne : T ≠ []) :
    epochOf (run nx1 c1 l1).g.path = epochOf (run nx2 c2 l2).g.path ∧
    (run nx1 c1 l1).g.path = (run nx2 c2 l2).g.path ∧
    (run nx1 c1 l1).g.members = (run nx2 c2 l2).g.members ∧
    dataOf (run nx1 c1 l1).g = dataOf (run nx2 c2 l2).g ∧
    (run nx1 c1 l1).g.recEpoch = (run nx2 c2 l2).g.recEpoch ∧
    (run nx1 c1 l1).g.recName = (run nx2 c2 l2).g.recName ∧
    (run nx1 c1 l1).g.recAdmins = (run nx2 c2 l2).g.recAdmins ∧
    (run nx1 c1 l1).g.recDesc = (run nx2 c2 l2).g.recDesc ∧
    (run nx1 c1 l1).g.recRelays = (run nx2 c2 l2).g.recRelays ∧
    (run nx1 c1 l1).g.recNid = (run nx2 c2 l2).g.recNid ∧
    (run nx1 c1 l1).g.pending = (run nx2 c2 l2).g.pending ∧
    (run nx1 c1 l1).g.props = (run nx2 c2 l2).g.props ∧
    (run nx1 c1 l1).g.active = (run nx2 c2 l2).g.active := by
  obtain ⟨w, _, _, hpath, hg⟩ := fork_agree c1 c2 T l1 l2 nx1 nx2 h1 h2 hp hmp hl1 hl2 hne
  obtain ⟨_, f2, f3, f4, f5, f6, f7, f8, f9, f10, f11, _, _, _, f15⟩ := wc_fields hg
  exact ⟨by rw [hpath], hpath, f2, f3, f4, f5, f6, f7, f8, f9, f10, f11, f15⟩

/-- the same for clients that share only the CORE of the parent state (MLS path, members, admins, name):
    nothing is assumed about stored exporter secrets, retained past epochs, the last-message pointer or
    `max_past_epochs`, and the clients agree on the core again -/
theorem fork_agree_core (c1 c2 : Cl) (T l1 l2 : List Ev) (nx1 nx2 : Nat)
    (h1 : AtFork c1 T) (h2 : AtFork c2 T) (hp : core c1.g = core c2.g)
    (hl1 : Covers T l1) (hl2 : Covers T l2) (hne : T ≠ []) :
    ∃ w, IsMin w T ∧ core (run nx1 c1 l1).g = coreStep (core c1.g) w ∧ core (run nx2 c2 l2).g = coreStep (core c1.g) w := by
  obtain ⟨x, hx⟩ := List.exists_mem_of_ne_nil T hne
  have hn1 : l1 ≠ [] := fun e => by have := hl1.2 x hx; rw [e] at this; cases this
  have hn2 : l2 ≠ [] := fun e => by have := hl2.2 x hx; rw [e] at this; cases this
  obtain ⟨w1, hw1, hm1, hd1⟩ := fork_level c1 T l1 nx1 h1 hl1.1 hn1
  obtain ⟨w2, hw2, hm2, hd2⟩ := fork_level c2 T l2 nx2 h2 hl2.1 hn2
  have hmin1 : IsMin w1 T := ⟨hl1.1 w1 hw1, fun e he => hm1 e (hl1.2 e he)⟩
  have hmin2 : IsMin w2 T := ⟨hl2.1 w2 hw2, fun e he => hm2 e (hl2.2 e he)⟩
  have hw : w2 = w1 := isMin_unique hmin2 hmin1
  subst hw
  have e1 : core (run nx1 c1 l1).g = coreStep (core c1.g) w2 := by
    rw [← core_wc _ [], hd1.g, core_wc, core_childOfG]
  have e2 : core (run nx2 c2 l2).g = coreStep (core c2.g) w2 := by
    rw [← core_wc _ [], hd2.g, core_wc, core_childOfG]
  exact ⟨w2, hmin1, e1, by rw [e2, hp]⟩

/-- **n clients, one fork**: every client of a list — each with its own role, delivery list and
    repetitions — ends in the child of the MIP-03 minimum `w` of `T` on the common parent state `g0` -/
theorem fork_agree_all (cs : List (Cl × List Ev × Nat)) (T : List Ev) (w : Ev) (g0 : GState) (mp : Nat)
    (hw : IsMin w T)
    (h : ∀ p ∈ cs, AtFork p.1 T ∧ SameParent p.1.g g0 ∧ p.1.maxPast = mp ∧ Covers T p.2.1) :
    (∀ p ∈ cs, (run p.2.2 p.1 p.2.1).g.path = g0.path ++ [w.cipher] ∧
      wc (run p.2.2 p.1 p.2.1).g [] = wc (childOfG mp g0 w) []) ∧
    (∀ p ∈ cs, ∀ q ∈ cs, (run p.2.2 p.1 p.2.1).g.path = (run q.2.2 q.1 q.2.1).g.path ∧
      wc (run p.2.2 p.1 p.2.1).g [] = wc (run q.2.2 q.1 q.2.1).g []) := by
  have main : ∀ p ∈ cs, (run p.2.2 p.1 p.2.1).g.path = g0.path ++ [w.cipher] ∧
      wc (run p.2.2 p.1 p.2.1).g [] = wc (childOfG mp g0 w) [] := by
    intro p hp
    obtain ⟨hat, hsp, hmp, hcov⟩ := h p hp
    have hn : p.2.1 ≠ [] := fun e => by have := hcov.2 w hw.1; rw [e] at this; cases this
    obtain ⟨w', hw', hm', hd⟩ := fork_level p.1 T p.2.1 p.2.2 hat hcov.1 hn
    have : w = w' := isMin_unique hw ⟨hcov.1 w' hw', fun e he => hm' e (hcov.2 e he)⟩
    subst this
    obtain ⟨b, sw, hk⟩ := hd.com.kind
    exact ⟨by rw [hd.path, hsp.path], by rw [hd.g, hmp]; exact childOfG_congr _ _ _ w b sw hk hsp⟩
  exact ⟨main, fun p hp q hq => ⟨by rw [(main p hp).1, (main q hq).1], by rw [(main p hp).2, (main q hq).2]⟩⟩

/-- non-vacuity of `fork_agree` / `fork_agree_all`: the bystander and the committer of A, different orders
    and repetitions; the hypotheses hold, and both end on B -/
example : ∃ w, IsMin w T1 ∧ (run 0 b2 [eA, eC, eA, eB]).g.path = b2.g.path ++ [w.cipher] ∧
    (run 0 b2 [eA, eC, eA, eB]).g.path = (run 0 k1 [eB, eA, eC, eA]).g.path ∧
    wc (run 0 b2 [eA, eC, eA, eB]).g [] = wc (run 0 k1 [eB, eA, eC, eA]).g [] :=
  fork_agree b2 k1 T1 [eA, eC, eA, eB] [eB, eA, eC, eA] 0 0 b2_atFork k1_atFork (by constructor <;> decide) rfl
    (by decide) (by decide) (by decide)

example : (run 0 b2 [eA, eC, eA, eB]).g.path = [2] ∧ (run 0 k1 [eB, eA, eC, eA]).g.path = [2] ∧
    (run 0 k1 [eA, eC, eB, eA]).g.path = [2] ∧ (run 0 k1 [eA, eC, eB, eA]).g.name = 4 ∧
    (run 0 k1 [eA, eC, eB, eA]).g.pending = none := by decide

example : (run 0 b2 [eA, eC, eA, eB]).g.members = (run 0 k1 [eB, eA, eC, eA]).g.members ∧
    dataOf (run 0 b2 [eA, eC, eA, eB]).g = dataOf (run 0 k1 [eB, eA, eC, eA]).g := by
  obtain ⟨_, _, h3, h4, _⟩ := fork_agree_data b2 k1 T1 [eA, eC, eA, eB] [eB, eA, eC, eA] 0 0 b2_atFork k1_atFork
    (by constructor <;> decide) rfl (by decide) (by decide) (by decide)
  exact ⟨h3, h4⟩

example : dataOf (run 0 k1 [eB, eA, eC, eA]).g = dB := by decide

example : ∃ w, IsMin w T1 ∧ core (run 0 k1 [eB, eA, eC, eA]).g = coreStep (core b2.g) w :=
  let ⟨w, hw, _, h2⟩ := fork_agree_core b2 k1 T1 [eA, eC, eA, eB] [eB, eA, eC, eA] 0 0 b2_atFork k1_atFork (by decide)
    (by decide) (by decide) (by decide)
  ⟨w, hw, h2⟩

example : (run 0 b2 [eA, eC, eA, eB]).g.path = (run 0 k1 [eB, eA, eC, eA]).g.path :=
  ((fork_agree_all [(b2, [eA, eC, eA, eB], 0), (k1, [eB, eA, eC, eA], 0)] T1 eB b2.g 5 (by decide)
    (fun p hp => by
      simp only [List.mem_cons, List.not_mem_nil, or_false] at hp
      rcases hp with rfl | rfl
      · exact ⟨b2_atFork, by constructor <;> rfl, rfl, by decide⟩
      · exact ⟨k1_atFork, by constructor <;> decide, rfl, by decide⟩)).2
    (b2, [eA, eC, eA, eB], 0) (by simp) (k1, [eB, eA, eC, eA], 0) (by simp)).1

/-! ### 2. frame of `process_message` (for every state, event and fuel) -/

/-- delivering `e` never changes the client's configuration, creates a dedup record for no other event
    number, and leaves every record of another event number that a rollback to `e`'s epoch would not
    re-mark exactly as it was -/
theorem deliver_frame (fuel nx : Nat) (c : Cl) (e : Ev) :
    (deliverN fuel nx c e).1.id = c.id ∧ (deliverN fuel nx c e).1.persistent = c.persistent ∧
    (deliverN fuel nx c e).1.retention = c.retention ∧ (deliverN fuel nx c e).1.maxPast = c.maxPast ∧
    (deliverN fuel nx c e).1.hasGroup = c.hasGroup ∧
    (∀ n, n ≠ e.n → getRec c n = none → getRec (deliverN fuel nx c e).1 n = none) ∧
    (∀ n r, n ≠ e.n → getRec c n = some r → rbRec (epochOf e.path) r = r → getRec (deliverN fuel nx c e).1 n = some r) ∧
    (∀ n, n ≠ e.n → (getRec (deliverN fuel nx c e).1 n).isSome = (getRec c n).isSome) := by
  have h := frame_deliverN fuel nx c e (e.n + 1) (by omega)
  refine ⟨h.id, h.persistent, h.retention, h.maxPast, h.hasGroup, ?_, ?_, ?_⟩
  · intro n hn hr
    exact (frame_deliverN fuel nx c e n hn).recs (· = none) (fun o ho => by rw [ho]; rfl) hr
  · intro n r hn hr hs
    exact (frame_deliverN fuel nx c e n hn).recs (· = some r) (fun o ho => by rw [ho]; simp [hs]) hr
  · intro n hn
    exact (frame_deliverN fuel nx c e n hn).recs (fun o => o.isSome = (getRec c n).isSome)
      (fun o ho => by rw [← ho]; cases o <;> rfl) rfl

/-- **consumed_frame**: for every state whose snapshots hold sub-lists of the current list of consumed
    ratchet generations, oldest first (`ConsMono`), every event and every fuel: the consumed list after
    `process_message` ⊆ the old one ∪ {the event's ciphertext}, and the invariant is kept -/
theorem consumed_frame (fuel nx : Nat) (c : Cl) (e : Ev) (h : ConsMono c) :
    (∀ x ∈ (deliverN fuel nx c e).1.g.consumed, x ∈ c.g.consumed ∨ x = e.cipher) ∧ ConsMono (deliverN fuel nx c e).1 :=
  ⟨(cstep_deliverN fuel nx c e h).sub, (cstep_deliverN fuel nx c e h).inv⟩

/-- `ConsMono` holds of every client state reachable by any history of API calls -/
theorem consMono_reachable (id : Nat) (p : Bool) (r : Nat) (ms as : List Nat) (name : Nat) (ops : List C08.COp) :
    ConsMono (ops.foldl C08.cstep (initCl id p r ms as name)) := by
  have : ∀ (ops : List C08.COp) (c : Cl), ConsMono c → ConsMono (ops.foldl C08.cstep c) := by
    intro ops
    induction ops with
    | nil => intro c h; exact h
    | cons o os ih =>
      intro c h
      apply ih
      cases o with
      | deliver e nx => exact (cstep_deliverN 3 nx c e h).inv
      | send n ts idn mid mts tok => exact consMono_send c n ts idn mid mts tok h
      | stage n ts idn b na => exact consMono_stageCommit c n ts idn b na h
      | data n ts idn u => exact consMono_updateData c n ts idn u h
      | remove n ts idn who => exact consMono_removeMembers c n ts idn who h
      | add n ts idn who => exact consMono_addMembers c n ts idn who h
      | join mp g e => exact consMono_join c _ h
      | leave n ts idn => exact consMono_leave c n ts idn h
      | merge => exact consMono_merge c h
      | clear => exact consMono_clear c h
      | restart => exact consMono_restart c h
  exact this ops _ (consMono_init id p r ms as name)

/-- without the invariant the frame is false: a state (not reachable) whose snapshot of epoch 1 holds a
    consumed generation 99 the current state does not — the rollback for the better sibling B brings it in -/
def odd : Cl := { (run 0 b2 [eA]) with mgr := (run 0 b2 [eA]).mgr.map (fun s => { s with saved := { s.saved with consumed := [99] } }) }

theorem consumed_frame_needs_inv :
    ¬ (∀ (c : Cl) (e : Ev) (nx : Nat), ∀ x ∈ (deliver c e nx).1.g.consumed, x ∈ c.g.consumed ∨ x = e.cipher) := by
  intro h
  have := h odd eB 0 99 (by decide)
  revert this; decide

example : ConsMono (run 0 b2 [eA]) ∧ ∀ x ∈ (deliver (run 0 b2 [eA]) eB 0).1.g.consumed, x ∈ (run 0 b2 [eA]).g.consumed ∨ x = eB.cipher := by
  have h0 : ConsMono b2 := consMono_init 2 false 5 [0, 1, 2, 3] [0, 1, 3] 1
  have h1 : ConsMono (run 0 b2 [eA]) := (consumed_frame 3 0 b2 eA h0).2
  exact ⟨h1, (consumed_frame 3 0 _ eB h1).1⟩

/-- after a fork level (any role, any delivery list over the fork) the per-client hypotheses of the
    single-fork theorems hold again, one epoch later: group present and still ACTIVE, retention, stored secrets
    following the path, no snapshot of the NEW epoch (or a later one), the stored record in step with the MLS
    state (so `recNid = nid`), the id in force where it was; path, members and group data are those of a delivered
    commit applied to the parent's (`coreStep`; the admins may have changed — a data commit carries them) -/
theorem fork_restores (c : Cl) (T l : List Ev) (nx : Nat) (hat : AtFork c T) (hb : Below c)
    (hl : ∀ e ∈ l, e ∈ T) (hne : l ≠ []) :
    (run nx c l).hasGroup = true ∧ (run nx c l).g.active = true ∧ 1 ≤ (run nx c l).retention ∧
    SecretsOK (run nx c l).g ∧ Below (run nx c l) ∧
    NoForkSnapshot (run nx c l) ∧ (run nx c l).id = c.id ∧ (run nx c l).maxPast = c.maxPast ∧
    Synced (run nx c l).g ∧ (run nx c l).g.recNid = (run nx c l).g.nid ∧ (run nx c l).g.recNid = c.g.recNid ∧
    (∃ w ∈ l, core (run nx c l).g = coreStep (core c.g) w) ∧
    epochOf (run nx c l).g.path = epochOf c.g.path + 1 ∧
    (∀ x ∈ (run nx c l).g.consumed, x ∈ c.g.consumed ∨ ∃ e ∈ T, e.cipher = x) := by
  obtain ⟨w, hw, _, hd⟩ := fork_level c T l nx hat hl hne
  exact ⟨hd.form.hg, hd.active, by rw [hd.form.ret]; exact hd.base.ret, hd.secrets (atFork_secrets hat), hd.below hb,
    (hd.below hb).noFork, hd.form.id, hd.form.mp, hd.synced, hd.recNid, hd.keptId, ⟨w, hw, hd.core⟩, hd.epoch, hd.cons⟩

/-- non-vacuity of `fork_restores` -/
example : SecretsOK (run 0 k1 [eA, eC, eB, eA]).g ∧ NoForkSnapshot (run 0 k1 [eA, eC, eB, eA]) ∧
    (run 0 k1 [eA, eC, eB, eA]).g.active = true := by
  obtain ⟨_, h2, _, h4, _, h6, _⟩ := fork_restores k1 T1 [eA, eC, eB, eA] 0 k1_atFork k1_below (by decide) (by decide)
  exact ⟨h4, h6, h2⟩

/-- `deliver_frame` at work: the loser A's record (EpochInvalidated, epoch 2) after level 1 survives the
    rollbacks of level 2 -/
example : (getRec (run 0 b2 [eA, eB]) 1).map (·.state) = some 4 ∧
    (getRec (run 0 b2 [eA, eB, fA, fB]) 1).map (·.state) = some 4 := by decide

/-! ### 3. a chain of forks, one client -/

theorem chainEv_foreign {id : Nat} : ∀ {Ls : List Level} {k : Core}, ChainEv id k Ls →
    ∀ L ∈ Ls, ∀ e ∈ L.2, e.sender ≠ id := by
  intro Ls
  induction Ls with
  | nil => intro k _ L hL; cases hL
  | cons L0 rest ih =>
    intro k h L hL e he
    obtain ⟨hlev, _, _, hrest⟩ := h
    rcases List.mem_cons.mp hL with rfl | hL'
    · exact hlev.foreign e he
    · exact ih hrest L hL' e he

/-- **chain_bystander**.  A client (group present and active, retention ≥ 1, stored secrets following the
    path, no snapshot of the current or a later epoch, the id in force = the extension's id) and a chain of
    forks `Ls = [(w₁,S₁), …, (wₙ,Sₙ)]` starting at its state: `S₁` are sibling commits created in the
    client's state, `S_{k+1}` are commits created in the state reached by the MIP-03 minima `w₁ … w_k`, each
    by an admin OF THAT STATE (the admin set may change along the chain: `coreStep`) or as a pure self-update,
    all foreign, tagged with the nostr group id (which no commit of the chain rotates), none removing the
    receiver, with distinct event numbers and ciphertexts (globally) and MIP-03 keys (per level), all unseen
    and unconsumed at the START — `ChainEv` is a condition on the EVENTS and the core of the start state.
    For EVERY level-by-level schedule — per level any order, any repetition, every sibling at least once —
    the client ends on the path of the winners, with the winners' commits applied in order, every winner's
    record ProcessedCommit, every loser blocked.  The per-client conditions of the later levels (unseen,
    unconsumed, secrets, no snapshot of the new epoch, active, record in step, admins, id) are derived, not
    assumed. -/
theorem chain_bystander (c : Cl) (Ls : List Level) (ls : List (List Ev)) (nx : Nat)
    (hg : c.hasGroup = true) (ha : c.g.active = true) (hr : 1 ≤ c.retention) (hsec : SecretsOK c.g) (hbelow : Below c)
    (hn : c.g.recNid = c.g.nid)
    (hch : ChainEv c.id (core c.g) Ls)
    (hu : ∀ e ∈ evs Ls, getRec c e.n = none ∧ e.cipher ∉ c.g.consumed)
    (hw : LevelWise Ls ls) :
    (run nx c ls.flatten).g.path = c.g.path ++ Ls.map (·.1.cipher) ∧
    wc (run nx c ls.flatten).g [] = wc (chainG c.maxPast c.g (Ls.map (·.1))) [] ∧
    (∀ L ∈ Ls, (getRec (run nx c ls.flatten) L.1.n).map (·.state) = some 2) ∧
    (∀ L ∈ Ls, ∀ e ∈ L.2, e ≠ L.1 →
      ∃ r, getRec (run nx c ls.flatten) e.n = some r ∧ (r.state = 3 ∨ r.state = 4)) := by
  have h := chain_rest nx Ls c ls ⟨hg, ha, hr, hsec, hbelow, hn⟩ hch hu hw
  exact ⟨h.path, h.g, h.win, fun L hL e he hne => h.lose L hL e he hne (chainEv_foreign hch L hL e he)⟩

/-- epoch, members and the WHOLE group data (name, description, admins, relays, nostr group id) after the
    chain: the winners' commits applied in order to the core of the start state (`coreStep`: path extended,
    leavers removed / members added, a data commit replaces the extension); the client is still active, its
    stored record is in step with that state, and the id in force is where it was -/
theorem chain_bystander_data (c : Cl) (Ls : List Level) (ls : List (List Ev)) (nx : Nat)
    (hg : c.hasGroup = true) (ha : c.g.active = true) (hr : 1 ≤ c.retention) (hsec : SecretsOK c.g) (hbelow : Below c)
    (hn : c.g.recNid = c.g.nid)
    (hch : ChainEv c.id (core c.g) Ls)
    (hu : ∀ e ∈ evs Ls, getRec c e.n = none ∧ e.cipher ∉ c.g.consumed)
    (hw : LevelWise Ls ls) :
    core (run nx c ls.flatten).g = (Ls.map (·.1)).foldl coreStep (core c.g) ∧
    dataOf (run nx c ls.flatten).g = ((Ls.map (·.1)).foldl coreStep (core c.g)).2.2 ∧
    (run nx c ls.flatten).g.members = ((Ls.map (·.1)).foldl coreStep (core c.g)).2.1 ∧
    epochOf (run nx c ls.flatten).g.path = epochOf c.g.path + Ls.length ∧
    (run nx c ls.flatten).g.active = true ∧
    (run nx c ls.flatten).g.recNid = (run nx c ls.flatten).g.nid := by
  have h := chain_rest nx Ls c ls ⟨hg, ha, hr, hsec, hbelow, hn⟩ hch hu hw
  have hc : core (run nx c ls.flatten).g = (Ls.map (·.1)).foldl coreStep (core c.g) := by
    rw [← core_wc _ [], h.g, core_wc, core_chainG]
  exact ⟨hc, congrArg (fun k : Core => k.2.2) hc, congrArg (fun k : Core => k.2.1) hc,
    by rw [h.path]; simp [epochOf]; omega, h.ready.act, h.ready.nid⟩

/-- why `ChainEv` threads the admin set: B demotes client 1, so a data commit by 1 created in B's state is refused
    (`CommitFromNonAdmin`) although 1 was an admin of the start state; by 3 (still an admin) it is applied -/
example : (deliver (run 0 b2 [eB]) { fB with sender := 1 } 0).2 = .err eNonAdmin ∧
    (deliver (run 0 b2 [eB]) fB 0).2 = .commit ∧ (run 0 b2 [eB]).g.admins = [0, 3] := by decide

/-- the chain theorem for every client state REACHABLE by any history of API calls (the invariants
    `HInv` of Proofs/ForkInv.lean and `C08.sync_inv` discharge the state hypotheses; what remains is the
    group's presence and activity, the retention value and the event conditions) -/
theorem chain_reachable (id : Nat) (p : Bool) (r : Nat) (ms as : List Nat) (name : Nat) (ops : List C08.COp)
    (Ls : List Level) (ls : List (List Ev)) (nx : Nat)
    (hg : (ops.foldl C08.cstep (initCl id p r ms as name)).hasGroup = true)
    (ha : (ops.foldl C08.cstep (initCl id p r ms as name)).g.active = true)
    (hr : 1 ≤ (ops.foldl C08.cstep (initCl id p r ms as name)).retention)
    (hch : ChainEv (ops.foldl C08.cstep (initCl id p r ms as name)).id (core (ops.foldl C08.cstep (initCl id p r ms as name)).g) Ls)
    (hu : ∀ e ∈ evs Ls, getRec (ops.foldl C08.cstep (initCl id p r ms as name)) e.n = none ∧
      e.cipher ∉ (ops.foldl C08.cstep (initCl id p r ms as name)).g.consumed)
    (hw : LevelWise Ls ls) :
    (run nx (ops.foldl C08.cstep (initCl id p r ms as name)) ls.flatten).g.path =
      (ops.foldl C08.cstep (initCl id p r ms as name)).g.path ++ Ls.map (·.1.cipher) := by
  have h := reachable_hinv id p r ms as name ops
  have hn := (C08.sync_inv id p r ms as name ops ha).2.2.2.2.2
  exact (chain_bystander _ Ls ls nx hg ha hr h.sec h.below hn hch hu hw).1

/-- non-vacuity of `chain_bystander`: three levels, per level a different order with repetitions; the
    hypotheses hold and the client ends on the winners B, fB, gA -/
example : (run 0 b2 [[eA, eC, eA, eB], [fA, fB, fA], [gA, gA]].flatten).g.path = b2.g.path ++ chain3.map (·.1.cipher) ∧
    (∀ L ∈ chain3, ∀ e ∈ L.2, e ≠ L.1 → ∃ r, getRec (run 0 b2 [[eA, eC, eA, eB], [fA, fB, fA], [gA, gA]].flatten) e.n = some r ∧
      (r.state = 3 ∨ r.state = 4)) := by
  obtain ⟨h1, _, _, h4⟩ := chain_bystander b2 chain3 [[eA, eC, eA, eB], [fA, fB, fA], [gA, gA]] 0 rfl rfl (by decide)
    b2_secrets b2_below rfl b2_chain (by decide) (by decide)
  exact ⟨h1, h4⟩

example : (run 0 b2 [[eA, eC, eA, eB], [fA, fB, fA], [gA, gA]].flatten).g.path = [2, 5, 6] ∧
    (run 0 b2 [[eA, eC, eA, eB], [fA, fB, fA], [gA, gA]].flatten).g.name = 9 ∧
    (run 0 b2 [[eB, eC, eA], [fB, fA], [gA]].flatten).g.path = [2, 5, 6] ∧
    (getRec (run 0 b2 [[eA, eC, eA, eB], [fA, fB, fA], [gA, gA]].flatten) 4).map (·.state) = some 4 := by decide

example : core (run 0 b2 [[eA, eC, eA, eB], [fA, fB, fA], [gA, gA]].flatten).g = [eB, fB, gA].foldl coreStep (core b2.g) ∧
    epochOf (run 0 b2 [[eA, eC, eA, eB], [fA, fB, fA], [gA, gA]].flatten).g.path = epochOf b2.g.path + 3 := by
  obtain ⟨h1, _, _, h4, _⟩ := chain_bystander_data b2 chain3 [[eA, eC, eA, eB], [fA, fB, fA], [gA, gA]] 0 rfl rfl (by decide)
    b2_secrets b2_below rfl b2_chain (by decide) (by decide)
  exact ⟨h1, h4⟩

/-- the whole group data after the three levels: name 9, description 6, admins {0,3} (set by B), relays and id unchanged -/
example : dataOf (run 0 b2 [[eA, eC, eA, eB], [fA, fB, fA], [gA, gA]].flatten).g =
    { name := 9, desc := 6, admins := [0, 3], relays := [1], nid := 0 } := by decide

/-- non-vacuity of `chain_reachable`: the state reached by a history (here: the delivery of A), and the
    chain that starts there (the child hA of A) -/
example : (run 0 ([C08.COp.deliver eA 0].foldl C08.cstep (initCl 2 false 5 [0, 1, 2, 3] [0, 1, 3] 1)) [[hA, hA]].flatten).g.path =
    ([C08.COp.deliver eA 0].foldl C08.cstep (initCl 2 false 5 [0, 1, 2, 3] [0, 1, 3] 1)).g.path ++ [(hA, [hA])].map (·.1.cipher) :=
  chain_reachable 2 false 5 [0, 1, 2, 3] [0, 1, 3] 1 [C08.COp.deliver eA 0] [(hA, [hA])] [[hA, hA]] 0 (by decide) (by decide) (by decide)
    ⟨levelEv_of_dec _ _ _ (by decide) (by decide) (by decide) (by decide) (by decide) (by decide), by decide, by decide, trivial⟩
    (by decide) (by decide)

/-! ### 4. a chain of forks, many clients -/

/-- a client with its own level-by-level schedule: `l` for the first level, `ls` for the later ones -/
structure Party where
  c : Cl
  l : List Ev
  ls : List (List Ev)
  nx : Nat

def Party.final (p : Party) : Cl := run p.nx p.c (p.l ++ p.ls.flatten)

/-- what every party must satisfy: at the first fork `T` in either role, parent state as the reference
    state `g0`, the later levels foreign to it, unseen and unconsumed, its own schedule level-by-level -/
structure PartyOK (g0 : GState) (mp : Nat) (w : Ev) (T : List Ev) (rest : List Level) (p : Party) : Prop where
  fork : AtFork p.c T
  below : Below p.c
  parent : SameParent p.c.g g0
  maxPast : p.c.maxPast = mp
  first : Covers T p.l
  chain : ChainEv p.c.id (coreStep (core g0) w) rest
  unseen : ∀ e ∈ evs rest, getRec p.c e.n = none ∧ e.cipher ∉ p.c.g.consumed
  later : LevelWise rest p.ls

/-- **chain_converges**.  Any list of clients that start in the same state (`SameParent` with a reference
    state `g0`) — at the first fork each one a bystander or a committer applying its own commit on relay
    echo, bystanders of the later levels — each with ITS OWN level-by-level schedule (own order, own
    repetitions), all end with the path of the MIP-03 winners and the group state `chainG mp g0 winners` -/
theorem chain_converges (ps : List Party) (g0 : GState) (mp : Nat) (w : Ev) (T : List Ev) (rest : List Level)
    (hmin : IsMin w T) (hcross : ∀ e1 ∈ T, ∀ e2 ∈ evs rest, e1.n ≠ e2.n ∧ e1.cipher ≠ e2.cipher)
    (h : ∀ p ∈ ps, PartyOK g0 mp w T rest p) :
    (∀ p ∈ ps, p.final.g.path = g0.path ++ (w :: rest.map (·.1)).map (·.cipher) ∧
      wc p.final.g [] = wc (chainG mp g0 (w :: rest.map (·.1))) []) ∧
    (∀ p ∈ ps, ∀ q ∈ ps, p.final.g.path = q.final.g.path ∧ wc p.final.g [] = wc q.final.g []) := by
  have main : ∀ p ∈ ps, p.final.g.path = g0.path ++ (w :: rest.map (·.1)).map (·.cipher) ∧
      wc p.final.g [] = wc (chainG mp g0 (w :: rest.map (·.1))) [] := by
    intro p hp
    have ok := h p hp
    have hch : ChainEv p.c.id (coreStep (core p.c.g) w) rest := by
      rw [show core p.c.g = core g0 from ok.parent.core_eq]; exact ok.chain
    have hd := chain_run p.nx p.c w T p.l rest p.ls ok.fork ok.below hmin ok.first hcross hch ok.unseen ok.later
    have hk : ∃ b sw, w.kind = .commit b sw := atFork_kind ok.fork w hmin.1
    obtain ⟨b, sw, hk⟩ := hk
    constructor
    · show (run p.nx p.c (p.l ++ p.ls.flatten)).g.path = _
      rw [hd.path, ok.parent.path]; simp
    · show wc (run p.nx p.c (p.l ++ p.ls.flatten)).g [] = _
      rw [hd.g, ok.maxPast]
      simp only [List.map_cons, chainG_cons]
      rw [← chainG_wc, ← chainG_wc, childOfG_congr mp _ _ w b sw hk ok.parent]
  exact ⟨main, fun p hp q hq => ⟨by rw [(main p hp).1, (main q hq).1], by rw [(main p hp).2, (main q hq).2]⟩⟩

/-- the corollaries the property text names, for any two parties: same epoch, same MLS state, same
    member set, same group data — the WHOLE of it (name, description, admins, relays, nostr group id) —,
    the same stored record (six fields), no pending commit or proposals left, both still active -/
theorem chain_converges_data (ps : List Party) (g0 : GState) (mp : Nat) (w : Ev) (T : List Ev) (rest : List Level)
    (hmin : IsMin w T) (hcross : ∀ e1 ∈ T, ∀ e2 ∈ evs rest, e1.n ≠ e2.n ∧ e1.cipher ≠ e2.cipher)
    (h : ∀ p ∈ ps, PartyOK g0 mp w T rest p) :
    ∀ p ∈ ps, ∀ q ∈ ps,
      epochOf p.final.g.path = epochOf q.final.g.path ∧ p.final.g.path = q.final.g.path ∧
      p.final.g.members = q.final.g.members ∧ dataOf p.final.g = dataOf q.final.g ∧
      p.final.g.recEpoch = q.final.g.recEpoch ∧ p.final.g.recName = q.final.g.recName ∧
      p.final.g.recAdmins = q.final.g.recAdmins ∧ p.final.g.recDesc = q.final.g.recDesc ∧
      p.final.g.recRelays = q.final.g.recRelays ∧ p.final.g.recNid = q.final.g.recNid ∧
      p.final.g.pending = q.final.g.pending ∧ p.final.g.props = q.final.g.props ∧
      p.final.g.active = q.final.g.active ∧
      epochOf p.final.g.path = epochOf g0.path + (rest.length + 1) ∧
      core p.final.g = (w :: rest.map (·.1)).foldl coreStep (core g0) := by
  intro p hp q hq
  obtain ⟨hm, hpair⟩ := chain_converges ps g0 mp w T rest hmin hcross h
  obtain ⟨hpath, hg⟩ := hpair p hp q hq
  obtain ⟨_, f2, f3, f4, f5, f6, f7, f8, f9, f10, f11, _, _, _, f15⟩ := wc_fields hg
  refine ⟨by rw [hpath], hpath, f2, f3, f4, f5, f6, f7, f8, f9, f10, f11, f15, ?_, ?_⟩
  · rw [(hm p hp).1]; simp [epochOf]; omega
  · rw [← core_wc _ [], (hm p hp).2, core_wc, core_chainG]

/-- … and with only the CORE of the start state shared (path, members, group data; nothing about
    stored secrets, retained past epochs, last-message pointer, `max_past_epochs`): every party ends on
    the winners' commits applied in order to that core -/
theorem chain_converges_core (ps : List Party) (k0 : Core) (w : Ev) (T : List Ev) (rest : List Level)
    (hmin : IsMin w T) (hcross : ∀ e1 ∈ T, ∀ e2 ∈ evs rest, e1.n ≠ e2.n ∧ e1.cipher ≠ e2.cipher)
    (h : ∀ p ∈ ps, AtFork p.c T ∧ Below p.c ∧ core p.c.g = k0 ∧ Covers T p.l ∧
      ChainEv p.c.id (coreStep k0 w) rest ∧
      (∀ e ∈ evs rest, getRec p.c e.n = none ∧ e.cipher ∉ p.c.g.consumed) ∧ LevelWise rest p.ls) :
    ∀ p ∈ ps, core p.final.g = (w :: rest.map (·.1)).foldl coreStep k0 := by
  intro p hp
  obtain ⟨hat, hb, hc, hcov, hch, hu, hlw⟩ := h p hp
  have hch' : ChainEv p.c.id (coreStep (core p.c.g) w) rest := by rw [hc]; exact hch
  have hd := chain_run p.nx p.c w T p.l rest p.ls hat hb hmin hcov hcross hch' hu hlw
  show core (run p.nx p.c (p.l ++ p.ls.flatten)).g = _
  rw [← core_wc _ [], hd.g, core_wc, core_chainG, hc]
  rfl

/-- non-vacuity of `chain_converges`: the bystander and the committer of A, each with its own
    level-by-level schedule -/
def p1 : Party := { c := b2, l := [eA, eC, eA, eB], ls := [[fA, fB, fA], [gA, gA]], nx := 0 }
def p2 : Party := { c := k1, l := [eB, eA, eC, eA], ls := [[fB, fA], [gA]], nx := 0 }

theorem p1_ok : PartyOK b2.g 5 eB T1 later p1 :=
  ⟨b2_atFork, b2_below, by constructor <;> rfl, rfl, by decide, later_chain2, by decide, by decide⟩
theorem p2_ok : PartyOK b2.g 5 eB T1 later p2 :=
  ⟨k1_atFork, k1_below, by constructor <;> decide, rfl, by decide, later_chain1, by decide, by decide⟩

example : p1.final.g.path = p2.final.g.path ∧ wc p1.final.g [] = wc p2.final.g [] :=
  (chain_converges [p1, p2] b2.g 5 eB T1 later (by decide) (by decide)
    (fun p hp => by
      simp only [List.mem_cons, List.not_mem_nil, or_false] at hp
      rcases hp with rfl | rfl
      · exact p1_ok
      · exact p2_ok)).2 p1 (by simp) p2 (by simp)

example : p1.final.g.path = [2, 5, 6] ∧ p2.final.g.path = [2, 5, 6] ∧ p2.final.g.name = 9 ∧ p2.final.g.admins = [0, 3] ∧ p2.final.g.pending = none := by decide

example : p1.final.g.members = p2.final.g.members ∧ dataOf p1.final.g = dataOf p2.final.g ∧
    epochOf p1.final.g.path = epochOf b2.g.path + 3 := by
  obtain ⟨_, _, h3, h5, _, _, _, _, _, _, _, _, _, h10, _⟩ := chain_converges_data [p1, p2] b2.g 5 eB T1 later (by decide) (by decide)
    (fun p hp => by
      simp only [List.mem_cons, List.not_mem_nil, or_false] at hp
      rcases hp with rfl | rfl
      · exact p1_ok
      · exact p2_ok) p1 (by simp) p2 (by simp)
  exact ⟨h3, h5, h10⟩

example : core p2.final.g = [eB, fB, gA].foldl coreStep (core b2.g) :=
  chain_converges_core [p1, p2] (core b2.g) eB T1 later (by decide) (by decide)
    (fun p hp => by
      simp only [List.mem_cons, List.not_mem_nil, or_false] at hp
      rcases hp with rfl | rfl
      · exact ⟨b2_atFork, b2_below, rfl, by decide, later_chain2, by decide, by decide⟩
      · exact ⟨k1_atFork, k1_below, by decide, by decide, later_chain1, by decide, by decide⟩) p2 (by simp)

/-! ### 5a. stale events are refused and may be interleaved freely -/

/-- **stale_refused**: an event created in a state that is not a prefix of the client's MLS path — on a
    branch that lost, or ahead of the client — never gets past the outer layer (every stored exporter secret
    belongs to a prefix of the client's path: `SecretsOK`), whether or not the client holds the group, finds it
    by the event's `h` tag, or was evicted.  Delivering it changes nothing but its OWN dedup record (Failed, or
    already blocking) and the cache of the current epoch's exporter secret: same projection (epoch, MLS state,
    members, group data, stored record, messages), same snapshots, same other records.  The answer is
    Unprocessable / PreviouslyFailed (blocked), GroupNotFound (not routed), ExportSecret (evicted) or Message;
    for a routed event at an active group: Unprocessable or Message. -/
theorem stale_refused (c : Cl) (e : Ev) (nx : Nat) (hs : SecretsOK c.g)
    (hst : ¬ e.path <+: c.g.path) :
    proj (deliver c e nx).1 = proj c ∧
    ((deliver c e nx).1.g = c.g ∨ (deliver c e nx).1.g = ensureSecret c.g) ∧
    (deliver c e nx).1.mgr = c.mgr ∧
    (∀ m, m ≠ e.n → getRec (deliver c e nx).1 m = getRec c m) ∧
    (∃ r, getRec (deliver c e nx).1 e.n = some r ∧ (r.state = 3 ∨ r.state = 4)) ∧
    ((deliver c e nx).2 = .unprocessable ∨ (deliver c e nx).2 = .previouslyFailed ∨
      (deliver c e nx).2 = .err eGroupNotFound ∨ (deliver c e nx).2 = .err eExportSecret ∨
      (deliver c e nx).2 = .err eMessage) ∧
    (routes c e = true → c.g.active = true →
      (deliver c e nx).2 = .unprocessable ∨ (deliver c e nx).2 = .err eMessage) := by
  have hq := quiet_stale 3 nx c e (secretsOK_ensure _ hs) hst
  have hcase := stale_deliverN 3 nx c e (secretsOK_ensure _ hs) hst
  have hrf : ∀ (x : Cl) (b : Bool), ∃ r, getRec (recordFailure x e.n b none) e.n = some r ∧ (r.state = 3 ∨ r.state = 4) :=
    fun x b => ⟨_, by simp only [getRec, recordFailure, setRec]; exact Store.alookup_ainsert_self _ _ _, Or.inl rfl⟩
  have hproj : proj (deliver c e nx).1 = proj c := by
    show proj (deliverN 3 nx c e).1 = _
    rcases hcase with h | h | h | h
    · rw [h.1]
    · rw [h.2]; simp
    · rw [h.2.2]; simp
    · rw [h.2.2]; simp
  refine ⟨hproj, hq.g, hq.mgr, hq.recs, ?_, ?_, ?_⟩
  · show ∃ r, getRec (deliverN 3 nx c e).1 e.n = some r ∧ _
    rcases hcase with h | h | h | h
    · obtain ⟨h1, r, hr, h34, _⟩ := h
      exact ⟨r, by rw [h1]; exact hr, h34⟩
    · rw [h.2]; exact hrf c false
    · rw [h.2.2]; exact hrf c true
    · rw [h.2.2]; exact hrf (withSecret c) true
  · show (deliverN 3 nx c e).2 = _ ∨ (deliverN 3 nx c e).2 = _ ∨ (deliverN 3 nx c e).2 = _ ∨ (deliverN 3 nx c e).2 = _ ∨
      (deliverN 3 nx c e).2 = _
    rcases hcase with h | h | h | h
    · obtain ⟨_, _, _, _, h5⟩ := h
      rw [h5]
      by_cases hr : routes c e = true
      · simp [hr]
      · simp [hr]
    · rw [h.2]; simp
    · rw [h.2.2]; simp
    · rw [h.2.2]; simp
  · intro hr ha
    show (deliverN 3 nx c e).2 = _ ∨ (deliverN 3 nx c e).2 = _
    rcases hcase with h | h | h | h
    · obtain ⟨_, _, _, _, h5⟩ := h
      rw [h5]; simp [hr]
    · rw [hr] at h; cases h.1
    · rw [ha] at h; cases h.2.1
    · rw [h.2.2]; simp

/-- non-vacuity of `stale_refused`: the child hA of the loser A, offered after the client moved to B -/
example : proj (deliver (run 0 b2 [eA, eB]) hA 0).1 = proj (run 0 b2 [eA, eB]) :=
  (stale_refused (run 0 b2 [eA, eB]) hA 0
    (fork_restores b2 T1 [eA, eB] 0 b2_atFork b2_below (by decide) (by decide)).2.2.2.1 (by decide)).1

/-- **chain_bystander_stale**: the chain theorem for schedules that, inside every level's delivery list,
    interleave any number of stale events (`StalePath`: created in a state that is neither a prefix of the
    level's parent path nor a child of it by one of the level's commits — e.g. descendants of a branch
    that lost at an earlier level), with event numbers of their own -/
theorem chain_bystander_stale (c : Cl) (Ls : List Level) (ls : List (List Ev)) (nx : Nat)
    (hg : c.hasGroup = true) (ha : c.g.active = true) (hr : 1 ≤ c.retention) (hsec : SecretsOK c.g) (hbelow : Below c)
    (hn : c.g.recNid = c.g.nid)
    (hch : ChainEv c.id (core c.g) Ls)
    (hu : ∀ e ∈ evs Ls, getRec c e.n = none ∧ e.cipher ∉ c.g.consumed)
    (hw : LevelWiseS (evs Ls) c.g.path Ls ls) :
    (run nx c ls.flatten).g.path = c.g.path ++ Ls.map (·.1.cipher) ∧
    wc (run nx c ls.flatten).g [] = wc (chainG c.maxPast c.g (Ls.map (·.1))) [] ∧
    (∀ L ∈ Ls, (getRec (run nx c ls.flatten) L.1.n).map (·.state) = some 2) ∧
    (∀ L ∈ Ls, ∀ e ∈ L.2, e ≠ L.1 →
      ∃ r, getRec (run nx c ls.flatten) e.n = some r ∧ (r.state = 3 ∨ r.state = 4)) := by
  have h := chain_rest_mixed nx (evs Ls) Ls c ls ⟨hg, ha, hr, hsec, hbelow, hn⟩ hch (fun _ h => h) hu hw
  exact ⟨h.path, h.g, h.win, fun L hL e he hne => h.lose L hL e he hne (chainEv_foreign hch L hL e he)⟩

/-- non-vacuity: `hA` offered before, between and after the commits of levels 2 and 3 -/
example : (run 0 b2 [[eA, eC, eA, eB], [hA, fA, fB, hA, fA], [gA, hA, gA]].flatten).g.path = b2.g.path ++ chain3.map (·.1.cipher) :=
  (chain_bystander_stale b2 chain3 [[eA, eC, eA, eB], [hA, fA, fB, hA, fA], [gA, hA, gA]] 0 rfl rfl (by decide)
    b2_secrets b2_below rfl b2_chain (by decide) (by decide)).1

example : (run 0 b2 [[eA, eC, eA, eB], [hA, fA, fB, hA, fA], [gA, hA, gA]].flatten).g.path = [2, 5, 6] ∧
    (getRec (run 0 b2 [[eA, eC, eA, eB], [hA, fA, fB, hA, fA], [gA, hA, gA]].flatten) 7).map (·.state) = some 3 ∧
    (deliver (run 0 b2 [eA, eB]) hA 0).2 = .err eMessage ∧
    proj (deliver (run 0 b2 [eA, eB]) hA 0).1 = proj (run 0 b2 [eA, eB]) := by decide

/-- the hypothesis matters: offered while the client is still ON the losing branch (before the better
    sibling B arrives), the child of A is not stale — it is applied, and the client is two epochs down the
    losing branch (see `depth2_rollback` for what happens next) -/
example : (run 0 b2 [eA, hA]).g.path = [1, 7] := by decide

/-- the hypotheses of a party whose schedule interleaves stale events (in the first level's list and in
    the later ones), with event numbers different from those of the chain's events -/
structure PartyOKS (g0 : GState) (mp : Nat) (w : Ev) (T : List Ev) (rest : List Level) (p : Party) : Prop where
  fork : AtFork p.c T
  below : Below p.c
  parent : SameParent p.c.g g0
  maxPast : p.c.maxPast = mp
  first : ∀ e ∈ p.l, e ∈ T ∨ (StalePath g0.path T e ∧ ∀ a ∈ T ++ evs rest, e.n ≠ a.n)
  cover : ∀ e ∈ T, e ∈ p.l
  chain : ChainEv p.c.id (coreStep (core g0) w) rest
  unseen : ∀ e ∈ evs rest, getRec p.c e.n = none ∧ e.cipher ∉ p.c.g.consumed
  later : LevelWiseS (T ++ evs rest) (g0.path ++ [w.cipher]) rest p.ls

/-- **chain_converges_stale**: `chain_converges` for parties whose level lists interleave stale events -/
theorem chain_converges_stale (ps : List Party) (g0 : GState) (mp : Nat) (w : Ev) (T : List Ev) (rest : List Level)
    (hmin : IsMin w T) (hcross : ∀ e1 ∈ T, ∀ e2 ∈ evs rest, e1.n ≠ e2.n ∧ e1.cipher ≠ e2.cipher)
    (h : ∀ p ∈ ps, PartyOKS g0 mp w T rest p) :
    (∀ p ∈ ps, p.final.g.path = g0.path ++ (w :: rest.map (·.1)).map (·.cipher) ∧
      wc p.final.g [] = wc (chainG mp g0 (w :: rest.map (·.1))) []) ∧
    (∀ p ∈ ps, ∀ q ∈ ps, p.final.g.path = q.final.g.path ∧ wc p.final.g [] = wc q.final.g []) := by
  have main : ∀ p ∈ ps, p.final.g.path = g0.path ++ (w :: rest.map (·.1)).map (·.cipher) ∧
      wc p.final.g [] = wc (chainG mp g0 (w :: rest.map (·.1))) [] := by
    intro p hp
    have ok := h p hp
    have hch : ChainEv p.c.id (coreStep (core p.c.g) w) rest := by
      rw [show core p.c.g = core g0 from ok.parent.core_eq]; exact ok.chain
    have hd := chain_run_mixed p.nx (T ++ evs rest) p.c w T p.l rest p.ls ok.fork ok.below hmin
      (by rw [ok.parent.path]; exact ok.first) ok.cover (fun _ h => h) hcross hch ok.unseen
      (by rw [ok.parent.path]; exact ok.later)
    obtain ⟨b, sw, hk⟩ := atFork_kind ok.fork w hmin.1
    constructor
    · show (run p.nx p.c (p.l ++ p.ls.flatten)).g.path = _
      rw [hd.path, ok.parent.path]; simp
    · show wc (run p.nx p.c (p.l ++ p.ls.flatten)).g [] = _
      rw [hd.g, ok.maxPast]
      simp only [List.map_cons, chainG_cons]
      rw [← chainG_wc, ← chainG_wc, childOfG_congr mp _ _ w b sw hk ok.parent]
  exact ⟨main, fun p hp q hq => ⟨by rw [(main p hp).1, (main q hq).1], by rw [(main p hp).2, (main q hq).2]⟩⟩

/-- non-vacuity: the bystander and the committer of A, both offered the stale child hA of A during the
    later levels, at different points -/
def p1s : Party := { c := b2, l := [eA, eC, eA, eB], ls := [[hA, fA, fB, hA, fA], [gA, hA, gA]], nx := 0 }
def p2s : Party := { c := k1, l := [eB, eA, eC, eA], ls := [[fB, fA, hA], [hA, gA]], nx := 0 }

example : p1s.final.g.path = p2s.final.g.path ∧ wc p1s.final.g [] = wc p2s.final.g [] :=
  (chain_converges_stale [p1s, p2s] b2.g 5 eB T1 later (by decide) (by decide)
    (fun p hp => by
      simp only [List.mem_cons, List.not_mem_nil, or_false] at hp
      rcases hp with rfl | rfl
      · exact ⟨b2_atFork, b2_below, by constructor <;> rfl, rfl, by decide, by decide, later_chain2, by decide, by decide⟩
      · exact ⟨k1_atFork, k1_below, by constructor <;> decide, rfl, by decide, by decide, later_chain1, by decide, by decide⟩)).2
    p1s (by simp) p2s (by simp)

example : p1s.final.g.path = [2, 5, 6] ∧ p2s.final.g.path = [2, 5, 6] := by decide

/-! ### 5b. a rollback over two epochs -/

/-- **depth2_rollback**: the client first follows the loser `a` of a fork and then a child `a'` of `a`
    (it is two epochs down the losing branch), then receives the better sibling `b`.  With snapshot
    retention ≥ 2 the snapshot of the fork's parent state is still there: the client rolls back over both
    epochs, applies `b`, and ends in `b`'s child of the parent state; `a` and `a'` are EpochInvalidated
    (the dedup step refuses them from now on). -/
theorem depth2_rollback (c : Cl) (a b a' : Ev) (nx : Nat)
    (hg : c.hasGroup = true) (ha : c.g.active = true) (hr : 2 ≤ c.retention) (hsec : SecretsOK c.g) (hbelow : Below c)
    (hnid : c.g.recNid = c.g.nid)
    (hS : Siblings c [a, b]) (hab : a ≠ b) (hlt : klt (key b) (key a) = true)
    (hc : ChildOf c a a') (hn : a'.n ≠ a.n ∧ a'.n ≠ b.n) (hci : a'.cipher ≠ a.cipher) :
    (run nx c [a, a', b]).g.path = c.g.path ++ [b.cipher] ∧
    wc (run nx c [a, a', b]).g [] = wc (childG c b) [] ∧
    (getRec (run nx c [a, a', b]) b.n).map (·.state) = some 2 ∧
    (getRec (run nx c [a, a', b]) a.n).map (·.state) = some 4 ∧
    (getRec (run nx c [a, a', b]) a'.n).map (·.state) = some 4 := by
  obtain ⟨hcf, hrb, hra, hra'⟩ := depth2_core c a b a' nx hg ha hr hsec hbelow hnid hS hab hlt hc hn hci
  have hb : Base c := base_of c hg ha (by omega) hsec hbelow.noFork
  have sb := (sibs_of c [a, b] hnid hS).sib b (by simp)
  exact ⟨cform_path hb sb.com hcf, by rw [hcf.g]; rfl, by rw [hrb]; rfl, hra, hra'⟩

/-- non-vacuity: A (ts 20), its child hA, then the better B (ts 19) -/
example : (run 0 b2 [eA, hA, eB]).g.path = b2.g.path ++ [eB.cipher] :=
  (depth2_rollback b2 eA eB hA 0 rfl rfl (by decide) b2_secrets b2_below rfl
    (siblings_of_dec b2 [eA, eB] rfl (by decide) (by decide) (by decide) (by decide) (by decide) (by decide) (by decide))
    (by decide) (by decide)
    ⟨by decide, ⟨_, _, rfl, by decide⟩, by decide, by decide, by decide, by decide, by decide,
      keepsIdB_spec (by decide), keepsMeB_spec (by decide)⟩
    (by decide) (by decide)).1

/-- the retention hypothesis is needed ("forks up to the configured snapshot-retention depth"): with
    retention 1 the parent's snapshot is gone when B arrives and the client stays on [A, hA] -/
theorem witness_depth2_retention :
    (run 0 b2 [eA, hA, eB]).g.path = [2] ∧ (run 0 b2 [eA, hA]).g.path = [1, 7] ∧
    (run 0 (initCl 2 false 1 [0, 1, 2, 3] [0, 1, 3] 1) [eA, hA, eB]).g.path = [1, 7] := by decide

/-! ### 6. the full statement (every schedule) and its refutation -/

/-- convergence for EVERY schedule over the events of a chain, not only level-by-level ones: whatever
    the order in which the events reach the client (each at least once, e.g. re-offered until nothing
    changes), it ends on the path of the MIP-03 winners -/
def C01_full : Prop :=
  ∀ (c : Cl) (Ls : List Level) (l : List Ev) (nx : Nat),
    c.hasGroup = true → c.g.active = true → 1 ≤ c.retention → SecretsOK c.g → Below c → c.g.recNid = c.g.nid →
    ChainEv c.id (core c.g) Ls →
    (∀ e ∈ evs Ls, getRec c e.n = none ∧ e.cipher ∉ c.g.consumed) →
    (∀ e ∈ l, e ∈ evs Ls) → (∀ e ∈ evs Ls, e ∈ l) →
    (run nx c l).g.path = c.g.path ++ Ls.map (·.1.cipher)

/-- the witness (open finding `handshake-before-predecessor-blocked`): a level-2 commit offered before the
    level-1 winner fails the outer layer, is recorded Failed, and the dedup step refuses it for ever — the
    client stays one epoch behind although every event was offered again afterwards -/
theorem witness_chain_out_of_order :
    (run 0 b2 [fB, eB, fB]).g.path = [2] ∧ (run 0 b2 [eB, fB]).g.path = [2, 5] ∧
    (getRec (run 0 b2 [fB, eB, fB, fB]) 5).map (·.state) = some 3 := by decide

theorem C01_full_false : ¬ C01_full := by
  intro h
  have := h b2 [(eB, [eB]), (fB, [fB])] [fB, eB, fB] 0 rfl rfl (by decide) b2_secrets b2_below rfl
    ⟨levelEv_of_dec _ _ _ (by decide) (by decide) (by decide) (by decide) (by decide) (by decide), by decide, by decide,
     levelEv_of_dec _ _ _ (by decide) (by decide) (by decide) (by decide) (by decide) (by decide), by decide, by decide, trivial⟩
    (by decide) (by decide) (by decide)
  rw [witness_chain_out_of_order.1] at this
  revert this; decide

/-- … while the level-by-level schedule over the same events converges (`chain_bystander` applies) -/
example : (run 0 b2 [[eB], [fB, fB]].flatten).g.path = b2.g.path ++ [eB.cipher, fB.cipher] :=
  (chain_bystander b2 [(eB, [eB]), (fB, [fB])] [[eB], [fB, fB]] 0 rfl rfl (by decide) b2_secrets b2_below rfl
    ⟨levelEv_of_dec _ _ _ (by decide) (by decide) (by decide) (by decide) (by decide) (by decide), by decide, by decide,
     levelEv_of_dec _ _ _ (by decide) (by decide) (by decide) (by decide) (by decide) (by decide), by decide, by decide, trivial⟩
    (by decide) (by decide)).1

end MdkVerif.Props.C01Chain
