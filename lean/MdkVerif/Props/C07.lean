import MdkVerif.Model.Client
import MdkVerif.Proofs.Client
import MdkVerif.Proofs.Insert
/-
  C07 — Re-delivering an already handled event changes nothing.
  Statements are about `Model.Client.deliver` (= `process_message`), for EVERY client state, every
  event and every fuel; `proj` is the projection the property names (epoch, MLS state, members,
  group data, pending proposals, stored record, stored messages).
-/
namespace MdkVerif.Props.C07
open MdkVerif MdkVerif.Client

/-- Failed / EpochInvalidated records block re-processing: the client is left EXACTLY as it was
    (every field, not only the projection) -/
theorem dedup_blocks (fuel nx : Nat) (c : Cl) (e : Ev) (r : Rec)
    (h : getRec c e.n = some r) (hs : r.state = 3 ∨ r.state = 4) :
    (deliverN fuel nx c e).1 = c := by
  cases fuel <;> simp only [deliverN, deliverOnce, h] <;> rcases hs with hs | hs <;> simp [hs]

/-- … any number of times -/
theorem dedup_blocks_forever (k nx : Nat) (c : Cl) (e : Ev) (r : Rec)
    (h : getRec c e.n = some r) (hs : r.state = 3 ∨ r.state = 4) :
    (Nat.repeat (fun c => (deliver c e nx).1) k c) = c := by
  induction k with
  | zero => rfl
  | succ k ih =>
    simp only [Nat.repeat]
    rw [ih]
    exact dedup_blocks 3 nx c e r h hs

-- `handledInner` / `handled` / `known` (when is an event "already handled", in terms of the client's own state) are defined in
-- Model/Handled.lean (executable: the driver evaluates them) so that Proofs/Insert.lean can speak about them

theorem step1_handled (retry : Cl → Option (Cl × Res)) (nx : Nat) (c : Cl) (e : Ev)
    (hs : Synced c.g) (hg : routes c e = true) (hh : handledInner c e = true) :
    proj (step1 retry nx c e).1 = proj c := by
  have hs' : Synced (withSecret c).g := synced_withSecret c hs
  unfold step1
  simp only [hg, Bool.not_true, Bool.false_eq_true, if_false]
  unfold handledInner at hh
  by_cases hact : c.g.active = false
  · simp [hact]
  have hact' : c.g.active = true := by simpa using hact
  simp only [hact', Bool.not_true, Bool.false_eq_true, if_false]
  split
  · simp
  · cases hk : e.kind with
    | commit b sw =>
      simp only [hk, Bool.and_eq_true, bne_iff_ne, ne_eq, Bool.not_eq_true'] at hh
      obtain ⟨hne, hnb⟩ := hh
      have h1 : (epochOf e.path != epochOf (withSecret c).g.path) = true := by simp [hne]
      simp only [h1, if_true]
      unfold wrongEpochCommit
      simp only [withSecret_isBetter, hnb, Bool.false_eq_true, if_false]
      rw [notBetterResult_proj _ e hs']
      simp
    | leave =>
      simp only [hk] at hh
      simp only
      split
      · simp [failUnprocessable]
      · rcases (Bool.or_eq_true _ _).mp hh with h1 | h1
        · simp only [Bool.and_eq_true, bne_iff_ne, ne_eq] at h1
          have h2 : (e.sender == c.id) = false := by simpa using h1.1
          have hc' : e.cipher ∈ c.g.consumed := by simpa using h1.2
          simp [h2, hc', failUnprocessable]
        · simp only [Bool.and_eq_true, beq_iff_eq] at h1
          have he : (e.sender == c.id) = true := by simpa using h1.1
          simp only [withSecret_id, he, if_true]
          unfold ownMessage
          simp only [withSecret_getRec]
          cases hr : getRec c e.n with
          | none => simp [hr] at h1
          | some r =>
            have h1s : r.state = 2 := by simpa [hr] using h1.2
            simp only [h1s]
            exact (returnOwnCommit_proj _ hs').trans (proj_withSecret c)
    | app mid mts tok =>
      simp only [hk] at hh
      simp only
      split
      · simp [failUnprocessable]
      · split
        · simp [failUnprocessable]
        · rcases (Bool.or_eq_true _ _).mp hh with h1 | h1
          · simp only [Bool.and_eq_true, bne_iff_ne, ne_eq] at h1
            have h2 : (e.sender == c.id) = false := by simpa using h1.1
            have hc' : e.cipher ∈ c.g.consumed := by simpa using h1.2
            simp [h2, hc', failUnprocessable]
          · simp only [Bool.and_eq_true, beq_iff_eq] at h1
            have he : (e.sender == c.id) = true := by simpa using h1.1
            simp only [withSecret_id, he, if_true]
            unfold ownMessage
            simp only [withSecret_getRec]
            cases hr : getRec c e.n with
            | none => simp [hr] at h1
            | some r =>
              have h1s : r.state = 1 := by simpa [hr] using h1.2
              simp [h1s]

/-- **C07**: re-delivering a handled event leaves the projection unchanged — for every client state
    whose stored record mirrors its MLS state (`sync_inv`, C08, shows that is every reachable state) -/
theorem redeliver_frame (fuel nx : Nat) (c : Cl) (e : Ev) (hs : Synced c.g) (hh : handled c e = true) :
    proj (deliverN fuel nx c e).1 = proj c := by
  unfold handled at hh
  have key : ∀ retry, (routes c e = false ∨ handledInner c e = true) → proj (step1 retry nx c e).1 = proj c := by
    intro retry h
    by_cases hg : routes c e = true
    · rcases h with h | h
      · rw [hg] at h; cases h
      · exact step1_handled retry nx c e hs hg h
    · have hg' : routes c e = false := by simpa using hg
      unfold step1
      simp [hg']
  cases hr : getRec c e.n with
  | some r =>
    by_cases hb : (r.state == 3 || r.state == 4) = true
    · have : r.state = 3 ∨ r.state = 4 := by simpa using hb
      rw [dedup_blocks fuel nx c e r hr this]
    · have hb' : (r.state == 3 || r.state == 4) = false := by simpa using hb
      simp only [hr, hb', Bool.false_or, Bool.or_eq_true, Bool.not_eq_true'] at hh
      cases fuel <;> simp only [deliverN, deliverOnce, hr, hb', Bool.false_eq_true, if_false]
      · exact key _ hh
      · exact key _ hh
  | none =>
    simp only [hr, Bool.false_or, Bool.or_eq_true, Bool.not_eq_true'] at hh
    cases fuel <;> simp only [deliverN, deliverOnce, hr]
    · exact key _ hh
    · exact key _ hh

/-- a commit is never better than itself: the snapshot taken when `e` was applied does not make `e`
    a better candidate, so the applied commit's own re-delivery can never trigger a rollback -/
theorem not_better_than_own_snapshot (c : Cl) (e : Ev) (s : Snap) (ee : Nat)
    (hf : c.mgr.find? (·.epoch == ee) = some s) (hs : s.commit = e.idnum) (ht : s.ts = e.ts) :
    isBetter c ee e = false := by
  unfold isBetter
  simp only [hf, hs, ht]
  split
  · rfl
  · split
    · omega
    · simp

/-! ## histories: re-deliveries inserted anywhere, any number of times (Proofs/Insert.lean)

  `redeliver_frame` is ONE call seen through `proj`.  The call may still touch what `proj` does not show — the exporter-secret
  cache (`exporter_secret()` stores the current epoch's secret), the dedup record of the event (rewritten as Failed) — so it
  does not by itself say that a LATER call is unaffected.  `Ins.Eqv` is the relation "equal up to exactly that"; every client
  operation is a simulation for it (`Ins.sim_rstep`), a re-delivery of a handled event stays inside it (`Ins.ins_right`). -/
section Histories
open MdkVerif.Client.Ins
open MdkVerif.Props.C08 (COp)

/-- the invariants the theorems need hold of every client reachable by API calls from a created / joined group -/
theorem invariants_reachable (id : Nat) (p : Bool) (r : Nat) (ms as : List Nat) (name : Nat) (ops : List COp) :
    IInv (hist (initCl id p r ms as name) ops).1 := iinv_reachable id p r ms as name ops

/-- … and they are preserved by every call, so they can be assumed of the start state of any history -/
theorem invariants_preserved (c : Cl) (ops : List COp) (h : IInv c) : IInv (hist c ops).1 := iinv_hist c ops h

/-- `hist` is the history of `C08.sync_inv` / `C11.run_is_history` (`C08.cstep` folded) with all results kept -/
theorem hist_is_history (c : Cl) (ops : List COp) : (hist c ops).1 = ops.foldl MdkVerif.Props.C08.cstep c := hist_fst c ops

/-- **C07 over histories, general form** — ANY client with the invariants, ANY list of operations (`IOp.orig`: deliveries of
    arbitrary events, create_message, self-update / data update / add / remove, join, leave, merge / clear pending, restart) with
    re-deliveries (`IOp.ins`) inserted at ANY places, of ANY events, ANY number of times.  Hypothesis `okIns`, decidable, on the
    ORIGINAL run alone: each inserted event is `handled` and `known` (has a dedup record carrying an epoch, or a blocking one) at
    the state where it is inserted, and each original delivery of an event number that was inserted earlier is of a `handled`
    event.  Then the run with the insertions ends with the same projection — epoch, MLS state, members, data, pending proposals
    and commit, record, message rows (no second copy, no validity flip) — and every original call answered the same, but for
    original deliveries of an event number inserted before them (`runA` / `runB` leave those out: the inserted call may have
    left a Failed record, so the later one may answer `Unprocessable` instead of e.g. `Err(Message)`). -/
theorem redelivery_invisible_multi (c : Cl) (hi : IInv c) (ops : List IOp) (hok : okIns [] c ops = true) :
    proj (runB [] c ops).1 = proj (runA [] c ops).1 ∧ (runB [] c ops).2 = (runA [] c ops).2 ∧
    (runB [] c ops).1.msgs = (runA [] c ops).1.msgs := by
  obtain ⟨h1, h2⟩ := ins_sim ops (Eqv.refl [] [] [] c) hi hi hok
  exact ⟨h1.proj, h2, h1.msgs⟩

/-- **redelivery_invisible_partial** — C07's history theorem in plain terms: after any prefix `pre`, `deliver e` inserted `k`
    times (any `k`), then any suffix `suf`.  `H`: at the place of insertion `e` is `handled` and `known`, and every delivery of
    event number `e.n` in the suffix is of a handled event (all three decidable on the ORIGINAL run `pre ++ suf`).  Then the two
    runs end with the same projection, and every call of the suffix other than deliveries of event number `e.n` answered the
    same (`resExcept`). -/
theorem redelivery_invisible_partial (c : Cl) (hi : IInv c) (pre suf : List COp) (e : Ev) (nx k : Nat)
    (hh : handled (hist c pre).1 e = true) (hk : known (hist c pre).1 e = true)
    (hl : laterHandled e.n (hist c pre).1 suf = true) :
    proj (hist c (pre ++ List.replicate k (.deliver e nx) ++ suf)).1 = proj (hist c (pre ++ suf)).1 ∧
    resExcept e.n (hist c (pre ++ List.replicate k (.deliver e nx))).1 suf = resExcept e.n (hist c pre).1 suf := by
  cases k with
  | zero => simp
  | succ k =>
    have := insert_handled (hist c pre).1 (iinv_hist c pre hi) suf e nx k hh hk hl
    simp only [hist_append, List.append_assoc]
    exact this

/-- … and when the suffix does not deliver that event number again, EVERY call of it answers the same -/
theorem redelivery_invisible_nolater (c : Cl) (hi : IInv c) (pre suf : List COp) (e : Ev) (nx k : Nat)
    (hh : handled (hist c pre).1 e = true) (hk : known (hist c pre).1 e = true) (hn : noLater e.n suf = true) :
    proj (hist c (pre ++ List.replicate k (.deliver e nx) ++ suf)).1 = proj (hist c (pre ++ suf)).1 ∧
    (hist (hist c (pre ++ List.replicate k (.deliver e nx))).1 suf).2 = (hist (hist c pre).1 suf).2 := by
  have := redelivery_invisible_partial c hi pre suf e nx k hh hk (laterHandled_noLater _ _ _ hn)
  rw [resExcept_noLater _ _ _ hn, resExcept_noLater _ _ _ hn] at this
  exact this

/-- one re-delivery keeps the event handled and known: that is why `k` is arbitrary -/
theorem handled_stays (c : Cl) (hi : IInv c) (e : Ev) (nx : Nat) (hh : handled c e = true) (hk : known c e = true) :
    Eqv [e.n] [] [] c (deliver c e nx).1 ∧ proj (deliver c e nx).1 = proj c := by
  have h := ins_right (Eqv.refl [] [] [] c) hi e nx hh hk
  exact ⟨h, h.proj⟩

/-- the statement without `known` and without the condition on later deliveries of the same event number -/
def redelivery_invisible_full : Prop :=
  ∀ (c : Cl) (pre suf : List COp) (e : Ev) (nx : Nat), IInv c → handled (hist c pre).1 e = true →
    proj (hist c (pre ++ [.deliver e nx] ++ suf)).1 = proj (hist c (pre ++ suf)).1

/-- refuted: `handled` alone is satisfied by a commit the client has never seen and that is one epoch AHEAD (another epoch,
    nothing to compare with).  Offering it early writes a Failed record, and when it arrives again in order it is refused
    for ever: finding `handshake-before-predecessor-blocked` (C01).  It is not `known`, and its later delivery is not of a
    handled event — both hypotheses of the theorem fail on it. -/
def hC : Cl := initCl 2 false 5 [0, 1, 2] [0, 1] 1
def hE1 : Ev := { n := 1, ts := 20, idnum := 7, cipher := 1, sender := 0, path := [], kind := .commit .selfUpdate [] }
def hE2 : Ev := { n := 8, ts := 30, idnum := 8, cipher := 8, sender := 0, path := [1], kind := .commit .selfUpdate [] }

theorem redelivery_invisible_full_false : ¬ redelivery_invisible_full := by
  intro h
  have := h hC [] [.deliver hE1 0, .deliver hE2 0] hE2 0 (iinv_init ..) (by decide)
  revert this; decide

example : handled hC hE2 = true ∧ known hC hE2 = false ∧ laterHandled hE2.n hC [.deliver hE1 0, .deliver hE2 0] = false := by decide

/-- the statement WITH `handled` and `known` at the place of insertion but without the condition on later deliveries of the
    same event number -/
def redelivery_invisible_anysuffix : Prop :=
  ∀ (c : Cl) (pre suf : List COp) (e : Ev) (nx : Nat), IInv c → handled (hist c pre).1 e = true → known (hist c pre).1 e = true →
    proj (hist c (pre ++ [.deliver e nx] ++ suf)).1 = proj (hist c (pre ++ suf)).1

/-- refuted: `laterHandled` is necessary.  The client stages a commit of its own (record ProcessedCommit, pending); a competitor
    that ROTATES the nostr group id is applied first, so the own commit lost its epoch.  Its echo — still tagged with the old id —
    is offered now: not found (`GroupNotFound`), nothing visible changes, the event is `handled` (not routed) and `known`; but the
    record is rewritten as Failed.  Then a sibling of the rotation commit re-published under the NEW id (the mechanism of the open
    finding retagged-commit-rollback) makes the client roll back — which restores the old id AND the pending commit — and is
    refused.  Now the echo of the own commit is a FIRST delivery: the run without the early offer merges the pending commit, the
    run with it is blocked by the Failed record for ever.  (An own commit that never took effect is not an "already handled
    event" in the property's sense; the hypothesis `laterHandled` is what excludes it.) -/
def nOwn : Ev := { n := 6, ts := 33, idnum := 6, cipher := 6, sender := 2, path := [], kind := .commit .selfUpdate [] }
def nRot : Ev := { n := 10, ts := 20, idnum := 10, cipher := 10, sender := 0, path := [], kind := .commit (.setData { initData [0, 1] 1 with nid := 8 }) [] }
def nSibRetag : Ev := { n := 11, ts := 10, idnum := 11, cipher := 11, sender := 1, path := [], kind := .commit .selfUpdate [], tag := 8 }
def nPre : List COp := [.stage 6 33 6 .selfUpdate false, .deliver nRot 0]
def nSuf : List COp := [.deliver nSibRetag 0, .deliver nOwn 0]

theorem witness_later_delivery_not_handled :
    (hist hC nPre).2 = [.ev nOwn, .commit] ∧ handled (hist hC nPre).1 nOwn = true ∧ known (hist hC nPre).1 nOwn = true ∧
    (deliver (hist hC nPre).1 nOwn 0).2 = .err eGroupNotFound ∧ laterHandled nOwn.n (hist hC nPre).1 nSuf = false ∧
    (hist (hist hC nPre).1 nSuf).2 = [.err eGroupNotFound, .commit] ∧ (hist hC (nPre ++ nSuf)).1.g.path = [6] ∧
    (hist (hist hC (nPre ++ [.deliver nOwn 0])).1 nSuf).2 = [.err eGroupNotFound, .unprocessable] ∧
    (hist hC (nPre ++ [.deliver nOwn 0] ++ nSuf)).1.g.path = [] ∧ (hist hC (nPre ++ [.deliver nOwn 0] ++ nSuf)).1.g.pending = some nOwn := by
  decide

theorem redelivery_invisible_anysuffix_false : ¬ redelivery_invisible_anysuffix := by
  intro h
  have := h hC nPre nSuf nOwn 0 (iinv_init ..) (by decide) (by decide)
  revert this; decide

/-- the open finding rewrapped-commit-rollback is NOT a re-delivery in the sense of the theorem: the same ciphertext under
    another wrapper is another event number; the copy with the earlier timestamp is not `handled` (it wins the comparison),
    the copy with the later one is `handled` but not `known` (a refused first offer: C06's theorem) -/
def hCopyLate : Ev := { hE1 with n := 5, ts := 30, idnum := 3 }
example : handled (deliver hC hCopyLate 0).1 hE1 = false ∧
    handled (deliver hC hE1 0).1 hCopyLate = true ∧ known (deliver hC hE1 0).1 hCopyLate = false := by decide

/-! ### non-vacuity: a race, a rollback, messages, an own echo, a queued proposal, an own commit — and a re-delivery of
    every kind of handled event inserted, some of them twice, plus an ORIGINAL duplicate after an inserted one -/

/-- member 2 (not an admin) of {0, 1, 2} -/
def dC : Cl := initCl 2 false 5 [0, 1, 2] [0, 1] 1
/-- A and its better competitor B (earlier timestamp), both on the creation state -/
def dA : Ev := { n := 1, ts := 20, idnum := 7, cipher := 1, sender := 0, path := [], kind := .commit .selfUpdate [] }
def dB : Ev := { n := 2, ts := 10, idnum := 9, cipher := 2, sender := 1, path := [], kind := .commit .selfUpdate [] }
/-- a message of member 1 in the epoch after B -/
def dM : Ev := { n := 3, ts := 30, idnum := 3, cipher := 3, sender := 1, path := [2], kind := .app 30 30 7 }
/-- the echo of the client's own message (published by `send 4 …`) -/
def dOwn : Ev := { n := 4, ts := 31, idnum := 4, cipher := 4, sender := 2, path := [2], kind := .app 40 31 8 }
/-- member 0 asks to leave: queued at the non-admin 2 -/
def dL : Ev := { n := 5, ts := 32, idnum := 5, cipher := 5, sender := 0, path := [2], kind := .leave }
/-- the echo of the client's own self-update (staged by `stage 6 …`; it sweeps the queued leave) -/
def dOwnC : Ev := { n := 6, ts := 33, idnum := 6, cipher := 6, sender := 2, path := [2], kind := .commit .selfUpdate [0] }

def demo : List IOp :=
  [.orig (.deliver dA 0), .orig (.deliver dB 0),            -- race: A applied, B wins, rollback
   .ins dA 0, .ins dB 0, .ins dB 0,                          -- superseded commit (EpochInvalidated), applied commit (twice)
   .orig (.deliver dM 0), .ins dM 0,                         -- stored message
   .orig (.send 4 31 4 40 31 8), .orig (.deliver dOwn 0), .ins dOwn 0, .ins dOwn 0,   -- own message echo
   .orig (.deliver dM 0),                                    -- an ORIGINAL duplicate after the inserted one
   .orig (.deliver dL 0), .ins dL 0,                         -- queued proposal
   .orig (.stage 6 33 6 .selfUpdate false), .orig (.deliver dOwnC 0), .ins dOwnC 0,   -- own commit echo
   .ins dA 0, .ins dM 0, .orig (.deliver dB 0), .orig .merge]

example : okIns [] dC demo = true := by decide
/-- what the original run answers (the duplicates of the message and of B are left out: their numbers were inserted before) -/
example : (runA [] dC demo).2 = [.commit, .commit, .app 30, .ev dOwn, .app 40, .pending, .ev dOwnC, .commit, .ok] ∧
    (runA [] dC demo).1.g.path = [2, 6] ∧ (runA [] dC demo).1.msgs.length = 2 := by decide
example : proj (runB [] dC demo).1 = proj (runA [] dC demo).1 ∧ (runB [] dC demo).2 = (runA [] dC demo).2 :=
  ⟨(redelivery_invisible_multi dC (iinv_init ..) demo (by decide)).1, (redelivery_invisible_multi dC (iinv_init ..) demo (by decide)).2.1⟩
/-- the inserted calls DID touch the invisible parts: the record of the queued proposal is Failed in the run with the insertions -/
example : (getRec (runA [] dC demo).1 5).map (·.state) = some 1 ∧ (getRec (runB [] dC demo).1 5).map (·.state) = some 3 := by decide

/-- the exporter-secret cache: `merge_pending_commit` moves to the next epoch without exporting its secret; a re-delivery inserted
    right after it exports it early — the tables differ until the next call that needs the secret, nothing else does -/
def demo2a : List IOp := [.orig (.deliver dA 0), .orig (.stage 6 33 6 .selfUpdate false), .orig .merge, .ins dA 0]
def dM2 : Ev := { n := 7, ts := 40, idnum := 7, cipher := 7, sender := 1, path := [1, 6], kind := .app 70 40 9 }
example : okIns [] dC (demo2a ++ [.orig (.deliver dM2 0)]) = true ∧
    (runA [] dC demo2a).1.g.secrets = [(1, []), (2, [1])] ∧ (runB [] dC demo2a).1.g.secrets = [(1, []), (2, [1]), (3, [1, 6])] ∧
    (runB [] dC (demo2a ++ [.orig (.deliver dM2 0)])).1.g.secrets = (runA [] dC (demo2a ++ [.orig (.deliver dM2 0)])).1.g.secrets ∧
    (runA [] dC (demo2a ++ [.orig (.deliver dM2 0)])).2 = [.commit, .ev { dOwnC with path := [1], kind := .commit .selfUpdate [] }, .ok, .app 70] := by decide

/-- the echo of the client's OWN proposal (`leave_group` records it ProcessedCommit; the echo answers `commit` through
    `return_own_commit`), and an event that is no longer found under its `h` tag after the nostr group id was rotated
    (`GroupNotFound`): both are `handled` and `known`, inserted twice each -/
def dOwnL : Ev := { n := 9, ts := 50, idnum := 9, cipher := 9, sender := 2, path := [1], kind := .leave }
def dRot : Ev := { n := 10, ts := 60, idnum := 10, cipher := 10, sender := 0, path := [1], kind := .commit (.setData { initData [0, 1] 1 with nid := 8 }) [] }
def demo3 : List IOp :=
  [.orig (.deliver dA 0), .orig (.leave 9 50 9), .orig (.deliver dOwnL 0), .ins dOwnL 0, .ins dOwnL 0,
   .orig (.deliver dRot 0), .ins dA 0, .ins dA 0, .ins dOwnL 0, .orig (.deliver dOwnL 0)]
example : okIns [] dC demo3 = true ∧
    (runA [] dC demo3).2 = [.commit, .ev dOwnL, .commit, .commit] ∧ (runA [] dC demo3).1.g.recNid = 8 ∧
    (hist (runA [] dC demo3).1 [.deliver dA 0]).2 = [.err eGroupNotFound] := by decide
example : proj (runB [] dC demo3).1 = proj (runA [] dC demo3).1 :=
  (redelivery_invisible_multi dC (iinv_init ..) demo3 (by decide)).1

/-- the plain form: the stored message re-delivered three times after the race, then the rest of the run incl. a duplicate -/
example : handled (hist dC [.deliver dA 0, .deliver dB 0, .deliver dM 0]).1 dM = true ∧
    known (hist dC [.deliver dA 0, .deliver dB 0, .deliver dM 0]).1 dM = true ∧
    laterHandled dM.n (hist dC [.deliver dA 0, .deliver dB 0, .deliver dM 0]).1 [.send 4 31 4 40 31 8, .deliver dM 0, .deliver dL 0] = true := by decide

end Histories

end MdkVerif.Props.C07
