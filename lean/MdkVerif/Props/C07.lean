import MdkVerif.Model.Client
import MdkVerif.Proofs.Client
/-
  C07 — Re-delivering an already handled event changes nothing.
  Statements are about `Model.Client.deliver` (= `process_message`), for EVERY client state, every
  event and every fuel; `proj` is the projection the property names (epoch, MLS state, members,
  group data, pending proposals, stored record, stored messages).
-/
namespace MdkVerif.Props.C07
open MdkVerif MdkVerif.Client

/-- Failed / EpochInvalidated records block re-processing: the client is left EXACTLY as it was
    (every field, not only the projection) -/
theorem dedup_blocks (fuel nx : Nat) (c : Cl) (e : Ev) (r : Rec)
    (h : getRec c e.n = some r) (hs : r.state = 3 ∨ r.state = 4) :
    (deliverN fuel nx c e).1 = c := by
  cases fuel <;> simp only [deliverN, deliverOnce, h] <;> rcases hs with hs | hs <;> simp [hs]

/-- … any number of times -/
theorem dedup_blocks_forever (k nx : Nat) (c : Cl) (e : Ev) (r : Rec)
    (h : getRec c e.n = some r) (hs : r.state = 3 ∨ r.state = 4) :
    (Nat.repeat (fun c => (deliver c e nx).1) k c) = c := by
  induction k with
  | zero => rfl
  | succ k ih =>
    simp only [Nat.repeat]
    rw [ih]
    exact dedup_blocks 3 nx c e r h hs

-- `handledInner` / `handled` (when is an event "already handled", in terms of the client's own state) are defined in
-- Proofs/Client.lean so that Proofs/Insert.lean can speak about them

theorem step1_handled (retry : Cl → Option (Cl × Res)) (nx : Nat) (c : Cl) (e : Ev)
    (hs : Synced c.g) (hg : routes c e = true) (hh : handledInner c e = true) :
    proj (step1 retry nx c e).1 = proj c := by
  have hs' : Synced (withSecret c).g := synced_withSecret c hs
  unfold step1
  simp only [hg, Bool.not_true, Bool.false_eq_true, if_false]
  unfold handledInner at hh
  by_cases hact : c.g.active = false
  · simp [hact]
  have hact' : c.g.active = true := by simpa using hact
  simp only [hact', Bool.not_true, Bool.false_eq_true, if_false]
  split
  · simp
  · cases hk : e.kind with
    | commit b sw =>
      simp only [hk, Bool.and_eq_true, bne_iff_ne, ne_eq, Bool.not_eq_true'] at hh
      obtain ⟨hne, hnb⟩ := hh
      have h1 : (epochOf e.path != epochOf (withSecret c).g.path) = true := by simp [hne]
      simp only [h1, if_true]
      unfold wrongEpochCommit
      simp only [withSecret_isBetter, hnb, Bool.false_eq_true, if_false]
      rw [notBetterResult_proj _ e hs']
      simp
    | leave =>
      simp only [hk, Bool.and_eq_true, bne_iff_ne, ne_eq] at hh
      obtain ⟨hne, hc⟩ := hh
      have h2 : (e.sender == c.id) = false := by simpa using hne
      have hc' : e.cipher ∈ c.g.consumed := by simpa using hc
      simp only
      split
      · simp [failUnprocessable]
      · simp [h2, hc', failUnprocessable]
    | app mid mts tok =>
      simp only [hk] at hh
      simp only
      split
      · simp [failUnprocessable]
      · split
        · simp [failUnprocessable]
        · rcases (Bool.or_eq_true _ _).mp hh with h1 | h1
          · simp only [Bool.and_eq_true, bne_iff_ne, ne_eq] at h1
            have h2 : (e.sender == c.id) = false := by simpa using h1.1
            have hc' : e.cipher ∈ c.g.consumed := by simpa using h1.2
            simp [h2, hc', failUnprocessable]
          · simp only [Bool.and_eq_true, beq_iff_eq] at h1
            have he : (e.sender == c.id) = true := by simpa using h1.1
            simp only [withSecret_id, he, if_true]
            unfold ownMessage
            simp only [withSecret_getRec]
            cases hr : getRec c e.n with
            | none => simp [hr] at h1
            | some r =>
              have h1s : r.state = 1 := by simpa [hr] using h1.2
              simp [h1s]

/-- **C07**: re-delivering a handled event leaves the projection unchanged — for every client state
    whose stored record mirrors its MLS state (`sync_inv`, C08, shows that is every reachable state) -/
theorem redeliver_frame (fuel nx : Nat) (c : Cl) (e : Ev) (hs : Synced c.g) (hh : handled c e = true) :
    proj (deliverN fuel nx c e).1 = proj c := by
  unfold handled at hh
  cases hr : getRec c e.n with
  | some r =>
    by_cases hb : (r.state == 3 || r.state == 4) = true
    · have : r.state = 3 ∨ r.state = 4 := by simpa using hb
      rw [dedup_blocks fuel nx c e r hr this]
    · have hb' : (r.state == 3 || r.state == 4) = false := by simpa using hb
      simp only [hr, hb', Bool.false_or, Bool.and_eq_true] at hh
      cases fuel <;> simp only [deliverN, deliverOnce, hr, hb', Bool.false_eq_true, if_false]
      · exact step1_handled _ nx c e hs hh.1 hh.2
      · exact step1_handled _ nx c e hs hh.1 hh.2
  | none =>
    simp only [hr, Bool.false_or, Bool.and_eq_true] at hh
    cases fuel <;> simp only [deliverN, deliverOnce, hr]
    · exact step1_handled _ nx c e hs hh.1 hh.2
    · exact step1_handled _ nx c e hs hh.1 hh.2

/-- a commit is never better than itself: the snapshot taken when `e` was applied does not make `e`
    a better candidate, so the applied commit's own re-delivery can never trigger a rollback -/
theorem not_better_than_own_snapshot (c : Cl) (e : Ev) (s : Snap) (ee : Nat)
    (hf : c.mgr.find? (·.epoch == ee) = some s) (hs : s.commit = e.idnum) (ht : s.ts = e.ts) :
    isBetter c ee e = false := by
  unfold isBetter
  simp only [hf, hs, ht]
  split
  · rfl
  · split
    · omega
    · simp

end MdkVerif.Props.C07
