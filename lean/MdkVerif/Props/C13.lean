import MdkVerif.Generated
import MdkVerif.Model.Keyring
import MdkVerif.Model.OpenMatrix
import MdkVerif.Proofs.Keyring
/-
  C13 — Encrypted databases leak nothing at rest and only open with their key.
  Property theorems only (helper lemmas live in Proofs/Keyring.lean).

  What is PROVED here (for all thread counts, schedules, file states, keyring states, keys):
    * the get-or-create protocol stores at most one key and every finished caller returns it;
    * the decision logic of the three constructors (which key is presented, which error is returned,
      when a key is generated, which modes are set).
  What is ASSUMED, named, and only exercised by the harness on every run:
    * SQLCipher: the validation read fails iff the key is wrong (`OpenMatrix.sqlOpen`), every page of the
      main file / rollback journal / WAL is encrypted, `temp_store = MEMORY` keeps temp data off disk;
    * the file system: `O_CREAT|O_EXCL` is atomic, `chmod` does what it says;
    * `std::sync::Mutex` is a mutex; a keyring-core call is atomic.
-/
namespace MdkVerif.Props.C13
open MdkVerif MdkVerif.Keyring MdkVerif.OpenMatrix

/-! ## 1. `get_or_create_db_key`: one key, for every number of threads and every schedule -/

/-- **keyring_once.**  For every initial keyring content, every number of callers and every schedule
    (any interleaving of their steps, any keys `generate()` may return — even colliding ones —, any
    keyring / RNG failures at any step) that contains no `delete_db_key`:
    at most one key is ever stored; every caller that returned `Ok` returned the key that is in the
    keyring, hence all of them the same key; and if the keyring already held a key nothing is stored
    and everybody returns that key. -/
theorem keyring_once (r0 : Option Nat) (sched : List Ev) (hnd : noDelete sched = true) :
    let s := run (init r0) sched
    s.stores ≤ 1 ∧
    (∀ t k, s.pc t = .done k → s.ring = some k) ∧
    (∀ t u k k', s.pc t = .done k → s.pc u = .done k' → k = k') ∧
    (∀ k0, r0 = some k0 → s.stores = 0 ∧ ∀ t k, s.pc t = .done k → k = k0) := by
  intro s
  have h : InvN r0 s := invN_run r0 (init r0) sched hnd (invN_init r0)
  refine ⟨?_, h.doneKey, ?_, ?_⟩
  · have := h.base.storesBound; rw [h.noDel] at this; split at this <;> omega
  · intro t u k k' ht hu
    have a := h.doneKey t k ht; have b := h.doneKey u k' hu
    rw [a] at b; exact Option.some.inj b
  · intro k0 hr
    obtain ⟨h1, h2⟩ := h.keep k0 hr
    refine ⟨h2, ?_⟩
    intro t k ht
    have a := h.doneKey t k ht; rw [h1] at a; exact (Option.some.inj a).symm

/-- the hypothesis of `keyring_once` is satisfiable by a non-trivial schedule: three callers, fast
    paths first, then the lock is handed round; one of them stores, all three return key 7 -/
example :
    let sched : List Ev := [.step 1 7 true, .step 2 8 true, .step 3 9 true, .step 2 8 true, .step 1 7 true,
      .step 2 8 true, .step 3 9 true, .step 2 8 true, .step 2 8 true, .step 1 7 true, .step 1 7 true,
      .step 3 9 true, .step 3 9 true]
    noDelete sched = true ∧ (run (init none) sched).stores = 1 ∧
    (run (init none) sched).pc 1 = .done 8 ∧ (run (init none) sched).pc 2 = .done 8 ∧
    (run (init none) sched).pc 3 = .done 8 := by decide

/-- mutual exclusion of the locked section — for EVERY schedule, deletes and failures included -/
theorem keyring_mutex (r0 : Option Nat) (sched : List Ev) (t u : Nat)
    (ht : ((run (init r0) sched).pc t).inCs = true) (hu : ((run (init r0) sched).pc u).inCs = true) :
    t = u :=
  (inv_run (init r0) sched (inv_init r0)).cs_unique ht hu

/-- every schedule, deletes included: a key is stored at most once per deletion, plus once -/
theorem keyring_stores_bound (r0 : Option Nat) (sched : List Ev) :
    (run (init r0) sched).stores ≤ (run (init r0) sched).deletes + 1 := by
  have := (inv_run (init r0) sched (inv_init r0)).storesBound
  split at this <;> omega

/-- a caller never stores over an existing entry: whoever is about to store sees an empty keyring -/
theorem keyring_store_only_when_empty (r0 : Option Nat) (sched : List Ev) (t k : Nat)
    (h : (run (init r0) sched).pc t = .store k) : (run (init r0) sched).ring = none :=
  (inv_run (init r0) sched (inv_init r0)).sawNone t (by simp [h, Pc.sawNone])

/-- the full-strength statement WITHOUT the no-delete hypothesis … -/
def keyring_once_full : Prop :=
  ∀ (r0 : Option Nat) (sched : List Ev) (t u k k' : Nat),
    (run (init r0) sched).pc t = .done k → (run (init r0) sched).pc u = .done k' → k = k'

/-- … is false, by design of `delete_db_key` (documented: "Delete and recreate generates a new key"):
    caller 1 creates key 7, the key is deleted, caller 2 creates key 8.  This is the reason for the
    hypothesis of `keyring_once`, not a defect. -/
theorem keyring_once_full_false : ¬ keyring_once_full := by
  intro h
  have := h none ([.step 1 7 true, .step 1 7 true, .step 1 7 true, .step 1 7 true, .step 1 7 true, .delete,
    .step 2 8 true, .step 2 8 true, .step 2 8 true, .step 2 8 true, .step 2 8 true]) 1 2 7 8
    (by decide) (by decide)
  cases this

/-- **keyring_shape.**  The step list of the model (read → lock → read → generate → store) is the call
    sequence `tools/gen_model.py` extracts from the body of `get_or_create_db_key` on every run, the lock
    guard lives until the function returns, and neither the plain read nor the delete take the lock.
    If the re-read under the lock is removed, or the store moves out of the locked section, the extracted
    list changes and this theorem no longer checks — whether or not a stress run hits the race. -/
theorem keyring_shape :
    Keyring.shape = Generated.keyringShape ∧ Generated.keyringGuardHeldToReturn = true ∧
    Generated.keyringReadTakesNoLock = true ∧ Generated.keyringDeleteTakesNoLock = true := by decide

/-- `shape` is not a free-standing constant: it is the sequence of steps a lone caller of the model
    performs (oldest first) -/
theorem shape_is_lone_trace :
    ((run (init none) (aloneSched 0 7)).trace.reverse.map (·.2)) = Keyring.shape ∧
    (run (init none) (aloneSched 0 7)).pc 0 = .done 7 := by decide

/-! ## 2. the constructor × file state × keyring state matrix -/

/-- **an encrypted file opens ⇔ the presented key is its key** — for every constructor, every keyring
    state, every pair of keys. (`presents`: `new_with_key(k')` presents `k'`; `new` presents the keyring
    entry, if it is a key; `new_unencrypted` presents nothing.) -/
theorem enc_opens_iff_key (w : World) (c : Ctor) (fresh k d : Nat) (hf : w.file = .enc k d) :
    (openDb w c fresh).2.isOpened = presents c w.ring k := by
  obtain ⟨file, ring, fmode, dir, stores⟩ := w
  simp only at hf; subst hf
  cases c with
  | unenc => simp [openDb, ctorUnenc, precreate, finishOpen, sqlOpen, presents, Outcome.isOpened]; cases dir <;> simp
  | withKey k' =>
    by_cases e : k' = k
    · subst e
      cases dir <;> simp [openDb, ctorWithKey, fileExists, isEncrypted, precreate, finishOpen, sqlOpen, presents, Outcome.isOpened]
    · cases dir <;> simp [openDb, ctorWithKey, fileExists, isEncrypted, precreate, finishOpen, sqlOpen, presents, Outcome.isOpened, e]
  | new =>
    cases ring with
    | key k' =>
      by_cases e : k' = k
      · subst e
        cases dir <;> simp [openDb, ctorNew, precreate, getDbKey, finishOpen, sqlOpen, presents, Outcome.isOpened]
      · cases dir <;> simp [openDb, ctorNew, precreate, getDbKey, finishOpen, sqlOpen, presents, Outcome.isOpened, e]
    | _ => cases dir <;> simp [openDb, ctorNew, precreate, getDbKey, isEncrypted, presents, Outcome.isOpened]

/-- … in particular never via `new_unencrypted`, whatever the keyring holds -/
theorem enc_never_via_unenc (w : World) (fresh k d : Nat) (hf : w.file = .enc k d) :
    (openDb w .unenc fresh).2 = .err .sqlite := by
  obtain ⟨file, ring, fmode, dir, stores⟩ := w
  simp only at hf; subst hf
  cases dir <;> simp [openDb, ctorUnenc, precreate, finishOpen, sqlOpen]

/-- … with the wrong key the error is `WrongEncryptionKey`, with no key `KeyringEntryMissing…` -/
theorem enc_wrong_key_kinds (w : World) (fresh k k' d : Nat) (hf : w.file = .enc k d) (hk : k' ≠ k) :
    (openDb w (.withKey k') fresh).2 = .err .wrongKey ∧
    (w.ring = .key k' → (openDb w .new fresh).2 = .err .wrongKey) ∧
    (w.ring = .none → (openDb w .new fresh).2 = .err .keyringEntryMissing) := by
  obtain ⟨file, ring, fmode, dir, stores⟩ := w
  simp only at hf; subst hf
  refine ⟨?_, ?_, ?_⟩
  · cases dir <;> simp [openDb, ctorWithKey, fileExists, isEncrypted, precreate, finishOpen, sqlOpen, hk]
  · intro hr; simp only at hr; subst hr
    cases dir <;> simp [openDb, ctorNew, precreate, getDbKey, finishOpen, sqlOpen, hk]
  · intro hr; simp only at hr; subst hr
    cases dir <;> simp [openDb, ctorNew, precreate, getDbKey, isEncrypted]

/-- **reopening with the right key yields the same data** and leaves the file as it was; no call, with
    whatever constructor and outcome, changes an encrypted file or its data marker -/
theorem enc_reopen_same_data (w : World) (c : Ctor) (fresh k d : Nat) (hf : w.file = .enc k d) :
    (openDb w c fresh).1.file = .enc k d ∧
    ((openDb w c fresh).2.isOpened = true → (openDb w c fresh).2 = .opened (some k) d) := by
  obtain ⟨file, ring, fmode, dir, stores⟩ := w
  simp only at hf; subst hf
  cases c with
  | unenc => cases dir <;> simp [openDb, ctorUnenc, precreate, finishOpen, sqlOpen, Outcome.isOpened]
  | withKey k' =>
    by_cases e : k' = k
    · subst e
      cases dir <;> simp [openDb, ctorWithKey, fileExists, isEncrypted, precreate, finishOpen, sqlOpen, Outcome.isOpened]
    · cases dir <;> simp [openDb, ctorWithKey, fileExists, isEncrypted, precreate, finishOpen, sqlOpen, Outcome.isOpened, e]
  | new =>
    cases ring with
    | key k' =>
      by_cases e : k' = k
      · subst e
        cases dir <;> simp [openDb, ctorNew, precreate, getDbKey, finishOpen, sqlOpen, Outcome.isOpened]
      · cases dir <;> simp [openDb, ctorNew, precreate, getDbKey, finishOpen, sqlOpen, Outcome.isOpened, e]
    | _ => cases dir <;> simp [openDb, ctorNew, precreate, getDbKey, isEncrypted, Outcome.isOpened]

/-- **`new` on an existing file never generates a key** (and never touches the keyring); if the keyring
    has no entry it refuses.  Rests on `Generated.newExistingBranchNeverCreates`. -/
theorem new_existing_never_generates (w : World) (fresh : Nat) (hf : fileExists w.file = true) :
    (openDb w .new fresh).1.stores = w.stores ∧ (openDb w .new fresh).1.ring = w.ring ∧
    (w.ring = .none → (openDb w .new fresh).2.isOpened = false) ∧
    Generated.newExistingBranchNeverCreates = true := by
  have hp := precreate_keeps w
  cases hpw : precreate w with
  | mk w1 pr =>
    rw [hpw] at hp
    obtain ⟨hs, hr, _, _, _, hex, _⟩ := hp
    obtain ⟨hpre, _⟩ := hex hf
    simp only at hs hr hpre
    subst hpre
    simp only [openDb, ctorNew, hpw]
    cases hg : getDbKey w1.ring with
    | error e => simp [hs, hr, Outcome.isOpened]; decide
    | ok o =>
      cases o with
      | none =>
        refine ⟨?_, ?_, ?_, by decide⟩ <;> (simp only []; split) <;> simp [hs, hr, Outcome.isOpened]
      | some k =>
        have hk := finishOpen_keeps w1 (some k)
        refine ⟨by simp [hk, hs], by simp [hk, hr], ?_, by decide⟩
        intro hrn; rw [hr, hrn] at hg; simp [getDbKey] at hg

/-- a plain database is never opened by an encrypting constructor -/
theorem plain_never_opened_encrypted (w : World) (c : Ctor) (fresh d : Nat) (hf : w.file = .plain d)
    (hc : c ≠ .unenc) : (openDb w c fresh).2.isOpened = false ∧ (openDb w c fresh).1.file = .plain d := by
  obtain ⟨file, ring, fmode, dir, stores⟩ := w
  simp only at hf; subst hf
  cases c with
  | unenc => exact absurd rfl hc
  | withKey k => simp [openDb, ctorWithKey, fileExists, isEncrypted, Outcome.isOpened]
  | new =>
    cases ring <;> cases dir <;>
      simp [openDb, ctorNew, precreate, getDbKey, isEncrypted, finishOpen, sqlOpen, Outcome.isOpened]

/-- whatever an encrypting constructor opens is, afterwards, a database encrypted under the very key
    it reports — never a plain file (special in-memory paths aside) -/
theorem opened_means_encrypted (w : World) (c : Ctor) (fresh : Nat) (key : Option Key) (d : Nat)
    (hc : c ≠ .unenc) (hs : w.file ≠ .special) (ho : (openDb w c fresh).2 = .opened key d) :
    ∃ k, key = some k ∧ (openDb w c fresh).1.file = .enc k d :=
  (openDb_opened w c fresh key d hs ho).2.2 hc

/-- **modes.**  After every successful open of a real path the database file is 0600; a directory that
    did not exist is created 0700; a directory that existed keeps its mode (mdk does not own it).
    The two constants are the ones `permissions.rs` passes to `from_mode`. -/
theorem open_ok_modes (w : World) (c : Ctor) (fresh : Nat) (hs : w.file ≠ .special)
    (ho : (openDb w c fresh).2.isOpened = true) :
    (openDb w c fresh).1.fmode = mode600 ∧ (openDb w c fresh).1.dir = some (w.dir.getD mode700) ∧
    Generated.permissionModes = [mode600, mode700] := by
  obtain ⟨key, d, h⟩ := (isOpened_iff _).mp ho
  have := openDb_opened w c fresh key d hs h
  exact ⟨this.1, this.2.1, by decide⟩

example : ((openDb (World.fresh none) .new 7).2.isOpened = true) ∧
    (openDb (World.fresh none) .new 7).1.dir = some mode700 ∧
    (openDb (setFile (World.fresh (some mode755)) (.enc 3 3)) (.withKey 3) 0).1.dir = some mode755 := by decide

/-- **a key obtained from the keyring is created once and reused.**  On a path that does not exist, with
    an empty keyring, `new` generates and stores exactly one key and opens under it; every later `new`
    — whatever `generate()` would return then — stores nothing, opens under the same key and leaves
    the world unchanged (so the same holds for every further call). -/
theorem key_created_once_reused (dir : Option Nat) (f0 f : Nat) :
    let w1 := (openDb (World.fresh dir) .new f0).1
    (openDb (World.fresh dir) .new f0).2 = .opened (some f0) 0 ∧
    w1.stores = 1 ∧ w1.ring = .key f0 ∧ w1.file = .enc f0 0 ∧
    openDb w1 .new f = (w1, .opened (some f0) 0) := by
  cases dir <;> simp [World.fresh, openDb, ctorNew, precreate, getOrCreate, getDbKey, finishOpen, sqlOpen]

/-- for EVERY history of constructor calls (any constructors, any presented keys, any generated values,
    any keyring state to begin with) on a real path that starts from a missing file, at most one key is
    ever stored -/
theorem stores_le_one_all_histories (dir : Option Nat) (r : RingSt) (h : List (Ctor × Key)) :
    (runOpens { World.fresh dir with ring := r } h).stores ≤ 1 :=
  runOpens_stores_le_one _ h (by simp [World.fresh])

example : (runOpens (World.fresh none) [(.new, 7), (.withKey 7, 0), (.new, 8), (.unenc, 0), (.new, 9)]).stores = 1 := by
  decide

/-! ### behaviour the code has and a reader may not expect (each replayed on the implementation from
    `corpus/C13/`) -/

/-- the full-strength "a path on which no database was ever created can be initialised by `new` when the
    keyring works" … -/
def new_initialises_virgin_path_full : Prop :=
  ∀ (w : World) (fresh : Nat), (w.file = .missing ∨ w.file = .empty) → w.ring = .none →
    (openDb w .new fresh).2.isOpened = true

/-- … holds when the file is missing … -/
theorem new_initialises_virgin_path_partial (w : World) (fresh : Nat) (hf : w.file = .missing)
    (hr : w.ring = .none) : (openDb w .new fresh).2 = .opened (some fresh) 0 := by
  obtain ⟨file, ring, fmode, dir, stores⟩ := w
  simp only at hf hr; subst hf; subst hr
  cases dir <;> simp [openDb, ctorNew, precreate, getOrCreate, getDbKey, finishOpen, sqlOpen]

example : ({ World.fresh none with ring := .none } : World).file = .missing := rfl

/-- … and is FALSE for a 0-byte file: `new` answers `UnencryptedDatabaseWithEncryption`.  Such a file is
    what `new` itself leaves behind when the keyring fails after `precreate` (next theorem), or what a
    crash between `precreate` and the first page write leaves. -/
theorem new_initialises_virgin_path_full_false : ¬ new_initialises_virgin_path_full := by
  intro h
  have := h { World.fresh (some mode700) with file := .empty } 7 (Or.inr rfl) rfl
  revert this; decide

/-- witness history: first `new` while the keyring is unavailable fails AND leaves a 0-byte file; the
    keyring comes back; `new` now refuses for ever (the world is a fixpoint), although no database and
    no key ever existed -/
theorem failed_first_open_bricks_path :
    let w0 : World := { World.fresh none with ring := .noaccess }
    let w1 := (openDb w0 .new 7).1
    (openDb w0 .new 7).2 = .err .keyringNotInitialized ∧ w1.file = .empty ∧
    openDb (setRing w1 .none) .new 8 = (setRing w1 .none, .err .unencryptedWithEncryption) := by decide

/-- `new_with_key` refuses a 0-byte file as "unencrypted", while `new` with the same key in the keyring
    initialises it -/
theorem empty_file_ctor_asymmetry :
    (openDb { World.fresh (some mode700) with file := .empty } (.withKey 3) 0).2 = .err .unencryptedWithEncryption ∧
    (openDb { World.fresh (some mode700) with file := .empty, ring := .key 3 } .new 0).2 = .opened (some 3) 0 := by
  decide

/-- with NO default store set, the error kind is `Keyring`, not `KeyringNotInitialized` (the variant whose
    message says "call keyring_core::set_default_store()" is produced for `NoStorageAccess` only) -/
theorem unset_store_reports_keyring_kind (w : World) (fresh : Nat) (hr : w.ring = .nostore) (hf : w.file = .missing) :
    (openDb w .new fresh).2 = .err .keyring := by
  obtain ⟨file, ring, fmode, dir, stores⟩ := w
  simp only at hf hr; subst hf; subst hr
  cases dir <;> simp [openDb, ctorNew, precreate, getOrCreate, getDbKey]

/-- the sequential `get_or_create_db_key` of the matrix is the interleaving model run by a lone caller -/
theorem getOrCreate_is_lone_run (fresh : Nat) :
    (∀ w : World, w.ring = .none → (getOrCreate w fresh).2 = .ok fresh ∧ (getOrCreate w fresh).1.ring = .key fresh) ∧
    (run (init none) (aloneSched 0 fresh)).pc 0 = .done fresh ∧ (run (init none) (aloneSched 0 fresh)).ring = some fresh ∧
    (∀ k, (run (init (some k)) (aloneSched 0 fresh)).pc 0 = .done k ∧ (run (init (some k)) (aloneSched 0 fresh)).stores = 0) := by
  refine ⟨?_, ?_, ?_, ?_⟩
  · intro w hr; obtain ⟨file, ring, fmode, dir, stores⟩ := w; simp only at hr; subst hr
    simp [getOrCreate, getDbKey]
  · simp [aloneSched, List.replicate, run, step, stepThread, init, setPc, log]
  · simp [aloneSched, List.replicate, run, step, stepThread, init, setPc, log]
  · intro k; simp [aloneSched, List.replicate, run, step, stepThread, init, setPc, log]

/-! ## 3. concurrent first opens through `MdkSqliteStorage::new` -/

/-- **for every number of threads and every schedule** of concurrent `new` calls on one missing path
    with an empty, working keyring: at most one key is stored; every caller that opens does so under the
    key in the keyring (so all under the same key) and the file is encrypted under it; nobody ever gets
    `WrongEncryptionKey`; the lock is held by at most one caller. -/
theorem concurrent_new_safe (sched : List (Nat × Nat)) :
    let s := nrun ninit sched
    s.k.stores ≤ 1 ∧
    (∀ t k, s.pc t = .ok k → s.k.ring = some k ∧ s.file = .enc k) ∧
    (∀ t u k k', s.pc t = .ok k → s.pc u = .ok k' → k = k') ∧
    (∀ t, s.pc t ≠ .err .wrongKey ∧ s.pc t ≠ .err .keyring) := by
  intro s
  have h : NInv s := ninv_run ninit sched ninv_init
  have hok : ∀ t k, s.pc t = .ok k → s.k.ring = some k := fun t k ht => h.keyIsRing t k (by simp [ht, NPc.key])
  refine ⟨?_, ?_, ?_, fun t => ⟨h.noWrongKey t, h.noKeyringErr t⟩⟩
  · have := h.base.base.storesBound; rw [h.base.noDel] at this; split at this <;> omega
  · intro t k ht
    refine ⟨hok t k ht, ?_⟩
    exact nokfile_run ninit sched nokfile_init t k ht
  · intro t u k k' ht hu
    have a := hok t k ht; have b := hok u k' hu
    rw [a] at b; exact Option.some.inj b

/-- the full-strength statement "…and every caller succeeds" … -/
def concurrent_new_full : Prop :=
  ∀ (sched : List (Nat × Nat)) (t : Nat) (e : NErr), (nrun ninit sched).pc t ≠ .err e

/-- … is FALSE of the code: caller 1 creates the file (`Created`), caller 2 finds it (`AlreadyExisted`),
    reads the keyring before caller 1 has stored the key, probes the still empty file and returns
    `UnencryptedDatabaseWithEncryption`.  The comment in `new` ("check the keyring FIRST … handles the
    race") covers only the window after the key is stored.  Replayed on the implementation by
    `corpus/C13/concurrent_first_open.trace`; observed there without any scheduling help, too. -/
theorem concurrent_new_full_false : ¬ concurrent_new_full := by
  intro h
  exact h [(1, 0), (2, 0), (2, 0), (2, 0)] 2 .unencrypted (by decide)

/-- what holds instead: a caller can only lose with `UnencryptedDatabaseWithEncryption` or
    `KeyringEntryMissing…`, and only if it looked at the keyring before the creator stored the key;
    when one caller completes before the others start, everybody succeeds, under one key. -/
theorem concurrent_new_partial (t f : Nat) (rest : List (Nat × Nat)) :
    let s := nrun ninit (List.replicate 8 (t, f) ++ rest)
    ∀ u, s.pc u = .pre ∨ s.pc u = .chk ∨ s.pc u = .opening f ∨ s.pc u = .ok f := by
  intro s u
  have h := ndone_run f _ rest (creator_prefix_done t f)
  rw [← nrun_append] at h
  exact h.pcs u

example : (nrun ninit (List.replicate 8 (1, 7) ++ [(2, 0), (3, 0), (2, 0), (3, 0), (2, 0), (3, 0)])).pc 3 = .ok 7 := by
  decide

end MdkVerif.Props.C13
