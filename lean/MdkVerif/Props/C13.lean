import MdkVerif.Generated
import MdkVerif.Model.Keyring
import MdkVerif.Model.OpenMatrix
import MdkVerif.Proofs.Keyring
/-
  C13 — Encrypted databases leak nothing at rest and only open with their key.
  Property theorems only (helper lemmas live in Proofs/Keyring.lean).

  What is PROVED here (for all thread counts, schedules, file states, keyring states, keys):
    * the get-or-create protocol stores at most one key and every finished caller returns it;
    * the decision logic of the three constructors (which key is presented, which error is returned,
      when a key is generated, which modes are set).
  What is ASSUMED, named, and only exercised by the harness on every run:
    * SQLCipher: the validation read fails iff the key is wrong (`OpenMatrix.sqlOpen`), every page of the
      main file / rollback journal / WAL is encrypted, `temp_store = MEMORY` keeps temp data off disk;
    * the file system: `O_CREAT|O_EXCL` is atomic, `chmod` does what it says;
    * `std::sync::Mutex` is a mutex, poisoned exactly by a panic of its holder; a keyring-core call is
      atomic; a credential call that panics does so before it has changed the store.
-/
namespace MdkVerif.Props.C13
open MdkVerif MdkVerif.Keyring MdkVerif.OpenMatrix

/-! ## 1. `get_or_create_db_key`: one key, for every number of threads and every schedule

  The model takes as a PARAMETER what the code does when KEY_GENERATION_LOCK is poisoned (a thread
  panicked while holding it): fail closed, or go on without the guard.  The theorems instantiate it with
  the fact `Generated.lockPoisonFailsClosed`, re-extracted from keyring.rs on every run; the closed
  counter-example `no_guard_two_keys` shows what happens for the other value. -/

/-- how the code treats a poisoned lock (`true`: `lock().map_err(..)?` — fail closed) -/
abbrev fc : Bool := Generated.lockPoisonFailsClosed

/-- the current source propagates the error of `lock()`; if this stops checking, every theorem of this
    section is about a different program than the one in /repo -/
theorem lpfc_true : Generated.lockPoisonFailsClosed = true := rfl

/-- **keyring_once.**  For every initial keyring content, a lock that is poisoned already or not, every
    number of callers and every schedule (any interleaving of their steps, any keys `generate()` may
    return — even colliding ones —, any keyring / RNG failures at any step, ANY NUMBER OF PANICS of any
    caller at any point) that contains no `delete_db_key`:
    at most one key is ever stored; every caller that returned `Ok` returned the key that is in the
    keyring, hence all of them the same key; and if the keyring already held a key nothing is stored
    and everybody returns that key. -/
theorem keyring_once (r0 : Option Nat) (p : Bool) (sched : List Ev) (hnd : noDelete sched = true) :
    let s := run fc (init r0 p) sched
    s.stores ≤ 1 ∧
    (∀ t k, s.pc t = .done k → s.ring = some k) ∧
    (∀ t u k k', s.pc t = .done k → s.pc u = .done k' → k = k') ∧
    (∀ k0, r0 = some k0 → s.stores = 0 ∧ ∀ t k, s.pc t = .done k → k = k0) := by
  intro s
  have h : InvN r0 s := invN_run r0 (init r0 p) sched hnd (invN_init r0 p)
  refine ⟨?_, h.doneKey, ?_, ?_⟩
  · have := h.base.storesBound; rw [h.noDel] at this; split at this <;> omega
  · intro t u k k' ht hu
    have a := h.doneKey t k ht; have b := h.doneKey u k' hu
    rw [a] at b; exact Option.some.inj b
  · intro k0 hr
    obtain ⟨h1, h2⟩ := h.keep k0 hr
    refine ⟨h2, ?_⟩
    intro t k ht
    have a := h.doneKey t k ht; rw [h1] at a; exact (Option.some.inj a).symm

/-- the hypothesis of `keyring_once` is satisfiable by a non-trivial schedule: three callers, fast
    paths first, then the lock is handed round; one of them stores, all three return key 8 -/
example :
    let sched : List Ev := [.step 1 7 true, .step 2 8 true, .step 3 9 true, .step 2 8 true, .step 1 7 true,
      .step 2 8 true, .step 3 9 true, .step 2 8 true, .step 2 8 true, .step 1 7 true, .step 1 7 true,
      .step 3 9 true, .step 3 9 true]
    noDelete sched = true ∧ (run fc (init none) sched).stores = 1 ∧
    (run fc (init none) sched).pc 1 = .done 8 ∧ (run fc (init none) sched).pc 2 = .done 8 ∧
    (run fc (init none) sched).pc 3 = .done 8 := by decide

/-- … and by one with panics: caller 1 panics on its fast path (outside the lock: no poisoning), caller
    2 creates key 8, caller 3 panics while waiting for the lock, caller 4 then finds key 8 -/
example :
    let sched : List Ev := [.panic 1, .step 2 8 true, .step 3 9 true, .step 2 8 true, .panic 3, .step 2 8 true,
      .step 2 8 true, .step 2 8 true, .step 4 5 true]
    noDelete sched = true ∧ (run fc (init none) sched).stores = 1 ∧ (run fc (init none) sched).poisoned = false ∧
    (run fc (init none) sched).pc 1 = .failed ∧ (run fc (init none) sched).pc 2 = .done 8 ∧
    (run fc (init none) sched).pc 3 = .failed ∧ (run fc (init none) sched).pc 4 = .done 8 := by decide

/-- mutual exclusion of the locked section — for EVERY schedule, deletes, failures and panics included -/
theorem keyring_mutex (r0 : Option Nat) (p : Bool) (sched : List Ev) (t u : Nat)
    (ht : ((run fc (init r0 p) sched).pc t).inCs = true) (hu : ((run fc (init r0 p) sched).pc u).inCs = true) :
    t = u :=
  (inv_run (init r0 p) sched (inv_init r0 p)).cs_unique ht hu

/-- … and whoever is inside holds the lock, and the lock is held only by a caller inside: a panic
    releases it (the guard is dropped while unwinding) -/
theorem keyring_lock_iff_inside (r0 : Option Nat) (p : Bool) (sched : List Ev) (t : Nat) :
    (run fc (init r0 p) sched).lock = some t ↔ ((run fc (init r0 p) sched).pc t).inCs = true :=
  ⟨lockHeld_run (init r0 p) sched (inv_init r0 p) (lockHeld_init r0 p) t,
   (inv_run (init r0 p) sched (inv_init r0 p)).lockOwner t⟩

/-- every schedule, deletes included: a key is stored at most once per deletion, plus once -/
theorem keyring_stores_bound (r0 : Option Nat) (p : Bool) (sched : List Ev) :
    (run fc (init r0 p) sched).stores ≤ (run fc (init r0 p) sched).deletes + 1 := by
  have hi : Inv (run fc (init r0 p) sched) := inv_run (init r0 p) sched (inv_init r0 p)
  have := hi.storesBound
  split at this <;> omega

/-- a caller never stores over an existing entry: whoever is about to store sees an empty keyring -/
theorem keyring_store_only_when_empty (r0 : Option Nat) (p : Bool) (sched : List Ev) (t k : Nat)
    (h : (run fc (init r0 p) sched).pc t = .store k) : (run fc (init r0 p) sched).ring = none := by
  have hi : Inv (run fc (init r0 p) sched) := inv_run (init r0 p) sched (inv_init r0 p)
  exact hi.sawNone t (by simp [h, Pc.sawNone])

/-- the full-strength statement WITHOUT the no-delete hypothesis … -/
def keyring_once_full : Prop :=
  ∀ (r0 : Option Nat) (sched : List Ev) (t u k k' : Nat),
    (run fc (init r0) sched).pc t = .done k → (run fc (init r0) sched).pc u = .done k' → k = k'

/-- … is false, by design of `delete_db_key` (documented: "Delete and recreate generates a new key"):
    caller 1 creates key 7, the key is deleted, caller 2 creates key 8.  This is the reason for the
    hypothesis of `keyring_once`, not a defect. -/
theorem keyring_once_full_false : ¬ keyring_once_full := by
  intro h
  have := h none ([.step 1 7 true, .step 1 7 true, .step 1 7 true, .step 1 7 true, .step 1 7 true, .delete,
    .step 2 8 true, .step 2 8 true, .step 2 8 true, .step 2 8 true, .step 2 8 true]) 1 2 7 8
    (by decide) (by decide)
  cases this

/-! ### a poisoned KEY_GENERATION_LOCK -/

/-- **poisoned_fails_closed.**  Once the lock is poisoned (state `s1`, reached by any schedule `pre` from
    any start), whatever happens afterwards (`post`: any steps of any callers, new callers, failures,
    deletes, further panics): the lock stays poisoned; NO key is ever stored again; the keyring entry
    is the one of `s1` (or gone, if somebody deletes it); nobody is inside the locked section; and a
    caller that returns `Ok k` had returned it already or read `k` from the keyring, where it was
    already in `s1`.  (Fail closed: callers that would have to create a key get `Err`.) -/
theorem poisoned_fails_closed (r0 : Option Nat) (p : Bool) (pre post : List Ev)
    (hp : (run fc (init r0 p) pre).poisoned = true) :
    let s1 := run fc (init r0 p) pre
    let s2 := run fc (init r0 p) (pre ++ post)
    s2.poisoned = true ∧ s2.stores = s1.stores ∧ (s2.ring = s1.ring ∨ s2.ring = none) ∧
    (noDelete post = true → s2.ring = s1.ring) ∧
    (∀ t k, s2.pc t = .done k → s1.pc t = .done k ∨ s1.ring = some k) ∧
    (∀ t, (s2.pc t).inCs = false) := by
  intro s1 s2
  have hi : Inv s1 := inv_run (init r0 p) pre (inv_init r0 p)
  have e2 : s2 = run fc s1 post := run_append fc (init r0 p) pre post
  have h : Frozen s1 s2 := by rw [e2]; exact frozen_run s1 s1 post (frozen_refl s1 hi hp)
  refine ⟨h.poisoned, h.stores, h.ring, ?_, h.done, ?_⟩
  · intro hnd
    apply h.ringKeep
    rw [e2]; exact run_noDelete_deletes fc s1 post hnd
  · intro t
    cases hcs : (s2.pc t).inCs with
    | false => rfl
    | true =>
      have a := h.inv.lockOwner t hcs
      rw [h.inv.poisonFree h.poisoned] at a; cases a

/-- the hypothesis is satisfiable, and the conclusion bites: caller 1 panics at its re-read under the
    lock; caller 2 (already past its fast path) and the late caller 3 both get `Err`; nothing stored -/
example :
    let pre : List Ev := [.step 1 0 true, .step 2 0 true, .step 1 0 true, .panic 1]
    let post : List Ev := [.step 2 7 true, .step 3 8 true, .step 3 8 true]
    (run fc (init none) pre).poisoned = true ∧ (run fc (init none) (pre ++ post)).stores = 0 ∧
    (run fc (init none) (pre ++ post)).pc 2 = .failed ∧ (run fc (init none) (pre ++ post)).pc 3 = .failed := by
  decide

/-- … while a caller that finds the key on the lock-free fast path still succeeds under a poisoned lock -/
example : (run fc (init (some 3) true) [.step 1 0 true]).pc 1 = .done 3 := by decide

/-- **poison_only_by_panic_in_cs.**  The lock of a process that started un-poisoned is poisoned only if,
    earlier in the schedule, some caller panicked while it held the lock, inside the locked section. -/
theorem poison_only_by_panic_in_cs (r0 : Option Nat) (sched : List Ev)
    (h : (run fc (init r0) sched).poisoned = true) :
    ∃ pre t post, sched = pre ++ .panic t :: post ∧ (run fc (init r0) pre).lock = some t ∧
      ((run fc (init r0) pre).pc t).inCs = true := by
  obtain ⟨pre, t, post, h1, h2⟩ := run_poisons fc (init r0) sched rfl h
  exact ⟨pre, t, post, h1, h2, lockHeld_run (init r0) pre (inv_init r0 false) (lockHeld_init r0 false) t h2⟩

/-- in particular: no panic, no poisoning — and panics outside the locked section do not poison either
    (second example after `keyring_once`) -/
theorem no_panic_no_poison (r0 : Option Nat) (sched : List Ev) (hnp : sched.all (fun e => !e.isPanic) = true) :
    (run fc (init r0) sched).poisoned = false :=
  run_no_panic_poisoned fc (init r0) sched hnp

example : (run fc (init none) [.step 1 0 true, .step 1 0 true, .step 1 0 true, .step 1 7 true, .panic 1]).poisoned = true ∧
    (run fc (init none) [.step 1 0 true, .step 1 0 true, .step 1 0 true, .step 1 7 true, .panic 1]).lock = none := by decide

/-- the statement of `keyring_once` for a program that goes on WITHOUT the guard when the lock is
    poisoned (`lock().ok()`) … -/
def keyring_once_without_guard : Prop :=
  ∀ (r0 : Option Nat) (sched : List Ev), noDelete sched = true →
    (run false (init r0) sched).stores ≤ 1 ∧
    ∀ t u k k', (run false (init r0) sched).pc t = .done k → (run false (init r0) sched).pc u = .done k' → k = k'

/-- **no_guard_two_keys.**  … is FALSE: caller 1 takes the lock and panics (one panic: the lock is
    poisoned); callers 2 and 3 pass their fast paths, both "acquire" the poisoned lock and go on, both
    re-read an empty keyring, both generate, both store: two keys stored, two different keys returned,
    the keyring keeps the last one.  Under the fail-closed rule the same schedule stores nothing and
    both callers get `Err`. -/
theorem no_guard_two_keys :
    let sched : List Ev := [.step 1 0 true, .step 1 0 true, .panic 1,
      .step 2 7 true, .step 3 8 true, .step 2 7 true, .step 3 8 true, .step 2 7 true, .step 3 8 true,
      .step 2 7 true, .step 3 8 true, .step 2 7 true, .step 3 8 true]
    (sched.filter Ev.isPanic).length = 1 ∧ noDelete sched = true ∧
    (run false (init none) sched).stores = 2 ∧
    (run false (init none) sched).pc 2 = .done 7 ∧ (run false (init none) sched).pc 3 = .done 8 ∧
    (run false (init none) sched).ring = some 8 ∧
    (run true (init none) sched).stores = 0 ∧
    (run true (init none) sched).pc 2 = .failed ∧ (run true (init none) sched).pc 3 = .failed := by decide

theorem keyring_once_without_guard_false : ¬ keyring_once_without_guard := by
  intro h
  have := (h none [.step 1 0 true, .step 1 0 true, .panic 1,
      .step 2 7 true, .step 3 8 true, .step 2 7 true, .step 3 8 true, .step 2 7 true, .step 3 8 true,
      .step 2 7 true, .step 3 8 true, .step 2 7 true, .step 3 8 true] (by decide)).1
  revert this; decide

/-- **keyring_shape.**  The step list of the model (read → lock → read → generate → store) is the call
    sequence `tools/gen_model.py` extracts from the body of `get_or_create_db_key` on every run, the lock
    guard lives until the function returns, and neither the plain read nor the delete take the lock.
    If the re-read under the lock is removed, or the store moves out of the locked section, the extracted
    list changes and this theorem no longer checks — whether or not a stress run hits the race. -/
theorem keyring_shape :
    Keyring.shape = Generated.keyringShape ∧ Generated.keyringGuardHeldToReturn = true ∧
    Generated.keyringReadTakesNoLock = true ∧ Generated.keyringDeleteTakesNoLock = true := by decide

/-- `shape` is not a free-standing constant: it is the sequence of steps a lone caller of the model
    performs (oldest first) -/
theorem shape_is_lone_trace :
    ((run fc (init none) (aloneSched 0 7)).trace.reverse.map (·.2)) = Keyring.shape ∧
    (run fc (init none) (aloneSched 0 7)).pc 0 = .done 7 := by decide

/-! ## 2. the constructor × file state × keyring state matrix -/

/-- **an encrypted file opens ⇔ the presented key is its key** — for every constructor, every keyring
    state, every pair of keys. (`presents`: `new_with_key(k')` presents `k'`; `new` presents the keyring
    entry, if it is a key; `new_unencrypted` presents nothing.) -/
theorem enc_opens_iff_key (w : World) (c : Ctor) (fresh k d : Nat) (hf : w.file = .enc k d) :
    (openDb w c fresh).2.isOpened = presents c w.ring k := by
  obtain ⟨file, ring, fmode, dir, stores⟩ := w
  simp only at hf; subst hf
  cases c with
  | unenc => simp [openDb, ctorUnenc, precreate, finishOpen, sqlOpen, presents, Outcome.isOpened]; cases dir <;> simp
  | withKey k' =>
    by_cases e : k' = k
    · subst e
      cases dir <;> simp [openDb, ctorWithKey, fileExists, isEncrypted, precreate, finishOpen, sqlOpen, presents, Outcome.isOpened]
    · cases dir <;> simp [openDb, ctorWithKey, fileExists, isEncrypted, precreate, finishOpen, sqlOpen, presents, Outcome.isOpened, e]
  | new =>
    cases ring with
    | key k' =>
      by_cases e : k' = k
      · subst e
        cases dir <;> simp [openDb, ctorNew, precreate, getDbKey, finishOpen, sqlOpen, presents, Outcome.isOpened]
      · cases dir <;> simp [openDb, ctorNew, precreate, getDbKey, finishOpen, sqlOpen, presents, Outcome.isOpened, e]
    | _ => cases dir <;> simp [openDb, ctorNew, precreate, getDbKey, isEncrypted, presents, Outcome.isOpened]

/-- … in particular never via `new_unencrypted`, whatever the keyring holds -/
theorem enc_never_via_unenc (w : World) (fresh k d : Nat) (hf : w.file = .enc k d) :
    (openDb w .unenc fresh).2 = .err .sqlite := by
  obtain ⟨file, ring, fmode, dir, stores⟩ := w
  simp only at hf; subst hf
  cases dir <;> simp [openDb, ctorUnenc, precreate, finishOpen, sqlOpen]

/-- … with the wrong key the error is `WrongEncryptionKey`, with no key `KeyringEntryMissing…` -/
theorem enc_wrong_key_kinds (w : World) (fresh k k' d : Nat) (hf : w.file = .enc k d) (hk : k' ≠ k) :
    (openDb w (.withKey k') fresh).2 = .err .wrongKey ∧
    (w.ring = .key k' → (openDb w .new fresh).2 = .err .wrongKey) ∧
    (w.ring = .none → (openDb w .new fresh).2 = .err .keyringEntryMissing) := by
  obtain ⟨file, ring, fmode, dir, stores⟩ := w
  simp only at hf; subst hf
  refine ⟨?_, ?_, ?_⟩
  · cases dir <;> simp [openDb, ctorWithKey, fileExists, isEncrypted, precreate, finishOpen, sqlOpen, hk]
  · intro hr; simp only at hr; subst hr
    cases dir <;> simp [openDb, ctorNew, precreate, getDbKey, finishOpen, sqlOpen, hk]
  · intro hr; simp only at hr; subst hr
    cases dir <;> simp [openDb, ctorNew, precreate, getDbKey, isEncrypted]

/-- **reopening with the right key yields the same data** and leaves the file as it was; no call, with
    whatever constructor and outcome, changes an encrypted file or its data marker -/
theorem enc_reopen_same_data (w : World) (c : Ctor) (fresh k d : Nat) (hf : w.file = .enc k d) :
    (openDb w c fresh).1.file = .enc k d ∧
    ((openDb w c fresh).2.isOpened = true → (openDb w c fresh).2 = .opened (some k) d) := by
  obtain ⟨file, ring, fmode, dir, stores⟩ := w
  simp only at hf; subst hf
  cases c with
  | unenc => cases dir <;> simp [openDb, ctorUnenc, precreate, finishOpen, sqlOpen, Outcome.isOpened]
  | withKey k' =>
    by_cases e : k' = k
    · subst e
      cases dir <;> simp [openDb, ctorWithKey, fileExists, isEncrypted, precreate, finishOpen, sqlOpen, Outcome.isOpened]
    · cases dir <;> simp [openDb, ctorWithKey, fileExists, isEncrypted, precreate, finishOpen, sqlOpen, Outcome.isOpened, e]
  | new =>
    cases ring with
    | key k' =>
      by_cases e : k' = k
      · subst e
        cases dir <;> simp [openDb, ctorNew, precreate, getDbKey, finishOpen, sqlOpen, Outcome.isOpened]
      · cases dir <;> simp [openDb, ctorNew, precreate, getDbKey, finishOpen, sqlOpen, Outcome.isOpened, e]
    | _ => cases dir <;> simp [openDb, ctorNew, precreate, getDbKey, isEncrypted, Outcome.isOpened]

/-- **`new` on an existing file never generates a key** (and never touches the keyring); if the keyring
    has no entry it refuses.  Rests on `Generated.newExistingBranchNeverCreates`. -/
theorem new_existing_never_generates (w : World) (fresh : Nat) (hf : fileExists w.file = true) :
    (openDb w .new fresh).1.stores = w.stores ∧ (openDb w .new fresh).1.ring = w.ring ∧
    (w.ring = .none → (openDb w .new fresh).2.isOpened = false) ∧
    Generated.newExistingBranchNeverCreates = true := by
  have hp := precreate_keeps w
  cases hpw : precreate w with
  | mk w1 pr =>
    rw [hpw] at hp
    obtain ⟨hs, hr, _, _, _, hex, _⟩ := hp
    obtain ⟨hpre, _⟩ := hex hf
    simp only at hs hr hpre
    subst hpre
    simp only [openDb, ctorNew, hpw]
    cases hg : getDbKey w1.ring with
    | error e => simp [hs, hr, Outcome.isOpened]; decide
    | ok o =>
      cases o with
      | none =>
        refine ⟨?_, ?_, ?_, by decide⟩ <;> (simp only []; split) <;> simp [hs, hr, Outcome.isOpened]
      | some k =>
        have hk := finishOpen_keeps w1 (some k)
        refine ⟨by simp [hk, hs], by simp [hk, hr], ?_, by decide⟩
        intro hrn; rw [hr, hrn] at hg; simp [getDbKey] at hg

/-- a plain database is never opened by an encrypting constructor -/
theorem plain_never_opened_encrypted (w : World) (c : Ctor) (fresh d : Nat) (hf : w.file = .plain d)
    (hc : c ≠ .unenc) : (openDb w c fresh).2.isOpened = false ∧ (openDb w c fresh).1.file = .plain d := by
  obtain ⟨file, ring, fmode, dir, stores⟩ := w
  simp only at hf; subst hf
  cases c with
  | unenc => exact absurd rfl hc
  | withKey k => simp [openDb, ctorWithKey, fileExists, isEncrypted, Outcome.isOpened]
  | new =>
    cases ring <;> cases dir <;>
      simp [openDb, ctorNew, precreate, getDbKey, isEncrypted, finishOpen, sqlOpen, Outcome.isOpened]

/-- whatever an encrypting constructor opens is, afterwards, a database encrypted under the very key
    it reports — never a plain file (special in-memory paths aside) -/
theorem opened_means_encrypted (w : World) (c : Ctor) (fresh : Nat) (key : Option Key) (d : Nat)
    (hc : c ≠ .unenc) (hs : w.file ≠ .special) (ho : (openDb w c fresh).2 = .opened key d) :
    ∃ k, key = some k ∧ (openDb w c fresh).1.file = .enc k d :=
  (openDb_opened w c fresh key d hs ho).2.2 hc

/-- **modes.**  After every successful open of a real path the database file is 0600; a directory that
    did not exist is created 0700; a directory that existed keeps its mode (mdk does not own it).
    The two constants are the ones `permissions.rs` passes to `from_mode`. -/
theorem open_ok_modes (w : World) (c : Ctor) (fresh : Nat) (hs : w.file ≠ .special)
    (ho : (openDb w c fresh).2.isOpened = true) :
    (openDb w c fresh).1.fmode = mode600 ∧ (openDb w c fresh).1.dir = some (w.dir.getD mode700) ∧
    Generated.permissionModes = [mode600, mode700] := by
  obtain ⟨key, d, h⟩ := (isOpened_iff _).mp ho
  have := openDb_opened w c fresh key d hs h
  exact ⟨this.1, this.2.1, by decide⟩

example : ((openDb (World.fresh none) .new 7).2.isOpened = true) ∧
    (openDb (World.fresh none) .new 7).1.dir = some mode700 ∧
    (openDb (setFile (World.fresh (some mode755)) (.enc 3 3)) (.withKey 3) 0).1.dir = some mode755 := by decide

/-- **a key obtained from the keyring is created once and reused.**  On a path that does not exist, with
    an empty keyring, `new` generates and stores exactly one key and opens under it; every later `new`
    — whatever `generate()` would return then — stores nothing, opens under the same key and leaves
    the world unchanged (so the same holds for every further call). -/
theorem key_created_once_reused (dir : Option Nat) (f0 f : Nat) :
    let w1 := (openDb (World.fresh dir) .new f0).1
    (openDb (World.fresh dir) .new f0).2 = .opened (some f0) 0 ∧
    w1.stores = 1 ∧ w1.ring = .key f0 ∧ w1.file = .enc f0 0 ∧
    openDb w1 .new f = (w1, .opened (some f0) 0) := by
  cases dir <;> simp [World.fresh, openDb, ctorNew, precreate, getOrCreate, getDbKey, finishOpen, sqlOpen]

/-- for EVERY history of constructor calls (any constructors, any presented keys, any generated values,
    any keyring state to begin with) on a real path that starts from a missing file, at most one key is
    ever stored -/
theorem stores_le_one_all_histories (dir : Option Nat) (r : RingSt) (h : List (Ctor × Key)) :
    (runOpens { World.fresh dir with ring := r } h).stores ≤ 1 :=
  runOpens_stores_le_one _ h (by simp [World.fresh])

example : (runOpens (World.fresh none) [(.new, 7), (.withKey 7, 0), (.new, 8), (.unenc, 0), (.new, 9)]).stores = 1 := by
  decide

/-- **a stored key that cannot be read is never replaced.**  While the keyring holds an entry that the store cannot hand
    out (`rdfail`: `get_secret` fails with any error other than NoEntry, writes would succeed), `get_or_create_db_key`
    answers with an error and stores nothing — a read ERROR is never taken for "no key" — whatever `generate()` would return -/
theorem unreadable_key_never_replaced (w : World) (k fresh : Nat) (ni : Bool) (h : w.ring = .rdfail k ni) :
    (getOrCreate w fresh).1 = w ∧
    (getOrCreate w fresh).2 = .error (if ni then .keyringNotInitialized else .keyring) := by
  simp [getOrCreate, getDbKey, h]

theorem finishOpen_keeps_keyring (w : World) (key : Option Key) :
    (finishOpen w key).1.ring = w.ring ∧ (finishOpen w key).1.stores = w.stores := by
  unfold finishOpen
  split
  · exact ⟨rfl, rfl⟩
  · split <;> exact ⟨rfl, rfl⟩

theorem precreate_keeps_keyring (w : World) : (precreate w).1.ring = w.ring ∧ (precreate w).1.stores = w.stores := by
  unfold precreate
  cases w.file <;> cases w.dir <;> exact ⟨rfl, rfl⟩

/-- … and no constructor call, on any file state, whatever key it presents or would generate, changes the keyring entry or
    stores a key while the entry is unreadable -/
theorem unreadable_key_survives_every_open (w : World) (c : Ctor) (k fresh : Nat) (ni : Bool) (h : w.ring = .rdfail k ni) :
    (openDb w c fresh).1.ring = .rdfail k ni ∧ (openDb w c fresh).1.stores = w.stores := by
  have hp := precreate_keeps_keyring w
  cases c with
  | withKey k' =>
    simp only [openDb, ctorWithKey]
    split
    · exact ⟨h, rfl⟩
    · have := finishOpen_keeps_keyring (precreate w).1 (some k')
      exact ⟨this.1.trans (hp.1.trans h), this.2.trans hp.2⟩
  | unenc =>
    simp only [openDb, ctorUnenc]
    have := finishOpen_keeps_keyring (precreate w).1 none
    exact ⟨this.1.trans (hp.1.trans h), this.2.trans hp.2⟩
  | new =>
    simp only [openDb, ctorNew]
    have hr : (precreate w).1.ring = .rdfail k ni := hp.1.trans h
    rcases hq : precreate w with ⟨w1, pre⟩
    rw [hq] at hr hp
    simp only at hr hp
    cases pre <;> simp [getOrCreate, getDbKey, hr, hp.2]

/-- `new` opens nothing while the entry is unreadable -/
theorem unreadable_key_new_opens_nothing (w : World) (k fresh : Nat) (ni : Bool) (h : w.ring = .rdfail k ni) :
    (openDb w .new fresh).2.isOpened = false := by
  have hp := precreate_keeps_keyring w
  simp only [openDb, ctorNew]
  have hr : (precreate w).1.ring = .rdfail k ni := hp.1.trans h
  rcases hq : precreate w with ⟨w1, pre⟩
  rw [hq] at hr
  simp only at hr
  cases pre <;> simp only [getOrCreate, getDbKey, hr] <;> rfl

/-- for every history of constructor calls the unreadable entry is still there, and once it is readable again the database
    that was encrypted under it opens with `new` as before -/
theorem unreadable_key_all_histories (w : World) (k : Nat) (ni : Bool) (hist : List (Ctor × Key)) (h : w.ring = .rdfail k ni) :
    (runOpens w hist).ring = .rdfail k ni ∧ (runOpens w hist).stores = w.stores := by
  induction hist generalizing w with
  | nil => exact ⟨h, rfl⟩
  | cons a rest ih =>
    obtain ⟨c, f⟩ := a
    have h1 := unreadable_key_survives_every_open w c k f ni h
    have := ih (openDb w c f).1 h1.1
    simp only [runOpens]
    exact ⟨this.1, this.2.trans h1.2⟩

example : (openDb { World.fresh none with file := .enc 3 5, ring := .rdfail 3 false } .new 9).2 = .err .keyring ∧
    (openDb { World.fresh none with ring := .rdfail 3 false } .new 9).2 = .err .keyring ∧
    (openDb { World.fresh none with file := .enc 3 5, ring := .key 3 } .new 9).2 = .opened (some 3) 5 := by decide

/-! ### behaviour the code has and a reader may not expect (each replayed on the implementation from
    `corpus/C13/`) -/

/-- the full-strength "a path on which no database was ever created can be initialised by `new` when the
    keyring works" … -/
def new_initialises_virgin_path_full : Prop :=
  ∀ (w : World) (fresh : Nat), (w.file = .missing ∨ w.file = .empty) → w.ring = .none →
    (openDb w .new fresh).2.isOpened = true

/-- … holds when the file is missing … -/
theorem new_initialises_virgin_path_partial (w : World) (fresh : Nat) (hf : w.file = .missing)
    (hr : w.ring = .none) : (openDb w .new fresh).2 = .opened (some fresh) 0 := by
  obtain ⟨file, ring, fmode, dir, stores⟩ := w
  simp only at hf hr; subst hf; subst hr
  cases dir <;> simp [openDb, ctorNew, precreate, getOrCreate, getDbKey, finishOpen, sqlOpen]

example : ({ World.fresh none with ring := .none } : World).file = .missing := rfl

/-- … and is FALSE for a 0-byte file: `new` answers `UnencryptedDatabaseWithEncryption`.  Such a file is
    what `new` itself leaves behind when the keyring fails after `precreate` (next theorem), or what a
    crash between `precreate` and the first page write leaves. -/
theorem new_initialises_virgin_path_full_false : ¬ new_initialises_virgin_path_full := by
  intro h
  have := h { World.fresh (some mode700) with file := .empty } 7 (Or.inr rfl) rfl
  revert this; decide

/-- witness history: first `new` while the keyring is unavailable fails AND leaves a 0-byte file; the
    keyring comes back; `new` now refuses for ever (the world is a fixpoint), although no database and
    no key ever existed -/
theorem failed_first_open_bricks_path :
    let w0 : World := { World.fresh none with ring := .noaccess }
    let w1 := (openDb w0 .new 7).1
    (openDb w0 .new 7).2 = .err .keyringNotInitialized ∧ w1.file = .empty ∧
    openDb (setRing w1 .none) .new 8 = (setRing w1 .none, .err .unencryptedWithEncryption) := by decide

/-- `new_with_key` refuses a 0-byte file as "unencrypted", while `new` with the same key in the keyring
    initialises it -/
theorem empty_file_ctor_asymmetry :
    (openDb { World.fresh (some mode700) with file := .empty } (.withKey 3) 0).2 = .err .unencryptedWithEncryption ∧
    (openDb { World.fresh (some mode700) with file := .empty, ring := .key 3 } .new 0).2 = .opened (some 3) 0 := by
  decide

/-- with NO default store set, the error kind is `Keyring`, not `KeyringNotInitialized` (the variant whose
    message says "call keyring_core::set_default_store()" is produced for `NoStorageAccess` only) -/
theorem unset_store_reports_keyring_kind (w : World) (fresh : Nat) (hr : w.ring = .nostore) (hf : w.file = .missing) :
    (openDb w .new fresh).2 = .err .keyring := by
  obtain ⟨file, ring, fmode, dir, stores⟩ := w
  simp only at hf hr; subst hf; subst hr
  cases dir <;> simp [openDb, ctorNew, precreate, getOrCreate, getDbKey]

/-- the sequential `get_or_create_db_key` of the matrix is the interleaving model run by a lone caller -/
theorem getOrCreate_is_lone_run (fresh : Nat) :
    (∀ w : World, w.ring = .none → (getOrCreate w fresh).2 = .ok fresh ∧ (getOrCreate w fresh).1.ring = .key fresh) ∧
    (run fc (init none) (aloneSched 0 fresh)).pc 0 = .done fresh ∧ (run fc (init none) (aloneSched 0 fresh)).ring = some fresh ∧
    (∀ k, (run fc (init (some k)) (aloneSched 0 fresh)).pc 0 = .done k ∧ (run fc (init (some k)) (aloneSched 0 fresh)).stores = 0) := by
  refine ⟨?_, ?_, ?_, ?_⟩
  · intro w hr; obtain ⟨file, ring, fmode, dir, stores⟩ := w; simp only at hr; subst hr
    simp [getOrCreate, getDbKey]
  · simp [aloneSched, List.replicate, run, step, stepThread, init, setPc, log]
  · simp [aloneSched, List.replicate, run, step, stepThread, init, setPc, log]
  · intro k; simp [aloneSched, List.replicate, run, step, stepThread, init, setPc, log]

/-! ## 3. concurrent first opens through `MdkSqliteStorage::new` -/

/-- **for every number of threads and every schedule** of concurrent `new` calls on one missing path
    with an empty, working keyring — ANY NUMBER OF PANICS of any caller at any point included, the lock
    poisoned from the start (`p`) or not: at most one key is stored; every caller that opens does so
    under the key in the keyring (so all under the same key) and the file is encrypted under it; nobody
    ever gets `WrongEncryptionKey`; `Error::Keyring` is returned only when the lock is poisoned — never
    in a run without panics that starts un-poisoned. -/
theorem concurrent_new_safe (p : Bool) (sched : List NEv) :
    let s := nrun fc (ninit p) sched
    s.k.stores ≤ 1 ∧
    (∀ t k, s.pc t = .ok k → s.k.ring = some k ∧ s.file = .enc k) ∧
    (∀ t u k k', s.pc t = .ok k → s.pc u = .ok k' → k = k') ∧
    (∀ t, s.pc t ≠ .err .wrongKey) ∧
    (∀ t, s.pc t = .err .keyring → s.k.poisoned = true) ∧
    (p = false → sched.all (fun e => !e.isPanic) = true → ∀ t, s.pc t ≠ .err .keyring) := by
  intro s
  have h : NInv s := ninv_run (ninit p) sched (ninv_init p)
  have hok : ∀ t k, s.pc t = .ok k → s.k.ring = some k := fun t k ht => h.keyIsRing t k (by simp [ht, NPc.key])
  refine ⟨?_, ?_, ?_, h.noWrongKey, h.keyringErr, ?_⟩
  · have := h.base.base.storesBound; rw [h.base.noDel] at this; split at this <;> omega
  · intro t k ht
    exact ⟨hok t k ht, h.okFile t k ht⟩
  · intro t u k k' ht hu
    have a := hok t k ht; have b := hok u k' hu
    rw [a] at b; exact Option.some.inj b
  · intro hp hnp t ht
    have a := h.keyringErr t ht
    have b : s.k.poisoned = (ninit p).k.poisoned := nrun_no_panic_poisoned fc (ninit p) sched hnp
    rw [b, hp] at a; simp [ninit, init] at a

/-- a run with panics that satisfies everything above non-trivially: the creator (1) panics at its
    re-read under the lock → poisoned; follower 2 is refused (empty file, no key); a later creator-less
    world: nobody opens, nothing stored -/
example :
    let sched : List NEv := [.step 1 0, .step 1 0, .step 1 0, .panic 1, .step 2 0, .step 2 0, .step 2 0]
    (nrun fc ninit sched).k.poisoned = true ∧ (nrun fc ninit sched).pc 1 = .panicked ∧
    (nrun fc ninit sched).pc 2 = .err .unencrypted ∧ (nrun fc ninit sched).k.stores = 0 := by decide

/-- under a lock that is poisoned from the start `new` creates nothing: no key is stored, nobody opens,
    the file is never written (the creator leaves the 0-byte file of `failed_first_open_bricks_path`) -/
theorem concurrent_new_poisoned (sched : List NEv) :
    let s := nrun fc (ninit true) sched
    s.k.stores = 0 ∧ s.k.ring = none ∧ (∀ t k, s.pc t ≠ .ok k) ∧ (s.file = .missing ∨ s.file = .empty) := by
  intro s
  have h : NInv s := ninv_run (ninit true) sched (ninv_init true)
  have hf : Frozen (ninit true).k s.k :=
    nfrozen_run (ninit true).k (ninit true) sched (frozen_refl _ (inv_init none true) rfl)
  have hr : s.k.ring = none := by
    rcases hf.ring with h1 | h1
    · rw [h1]; rfl
    · exact h1
  refine ⟨by rw [hf.stores]; rfl, hr, ?_, ?_⟩
  · intro t k ht
    have := h.keyIsRing t k (by simp [ht, NPc.key]); rw [hr] at this; cases this
  · cases hfile : s.file with
    | missing => exact .inl rfl
    | empty => exact .inr rfl
    | enc k => have := h.fileKey k hfile; rw [hr] at this; cases this

example : (nrun fc (ninit true) (nsteps [(1, 7), (1, 7), (1, 7), (1, 7)])).pc 1 = .err .keyring ∧
    (nrun fc (ninit true) (nsteps [(1, 7), (1, 7), (1, 7), (1, 7)])).file = .empty := by decide

/-- the full-strength statement "…and every caller succeeds" … -/
def concurrent_new_full : Prop :=
  ∀ (sched : List NEv) (t : Nat) (e : NErr), (nrun fc ninit sched).pc t ≠ .err e

/-- … is FALSE of the code (no panic needed): caller 1 creates the file (`Created`), caller 2 finds it
    (`AlreadyExisted`), reads the keyring before caller 1 has stored the key, probes the still empty
    file and returns `UnencryptedDatabaseWithEncryption`.  The comment in `new` ("check the keyring
    FIRST … handles the race") covers only the window after the key is stored.  Replayed on the
    implementation by `corpus/C13/concurrent_first_open.trace`; observed there without any scheduling
    help, too. -/
theorem concurrent_new_full_false : ¬ concurrent_new_full := by
  intro h
  exact h (nsteps [(1, 0), (2, 0), (2, 0), (2, 0)]) 2 .unencrypted (by decide)

/-- what holds instead: a caller can only lose with `UnencryptedDatabaseWithEncryption` or
    `KeyringEntryMissing…`, and only if it looked at the keyring before the creator stored the key;
    when one caller completes before the others start, everybody who does not panic succeeds, under
    one key. -/
theorem concurrent_new_partial (t f : Nat) (rest : List NEv) :
    let s := nrun fc ninit (List.replicate 8 (.step t f) ++ rest)
    ∀ u, s.pc u = .pre ∨ s.pc u = .chk ∨ s.pc u = .opening f ∨ s.pc u = .ok f ∨ s.pc u = .panicked := by
  intro s u
  have h := ndone_run fc f _ rest (creator_prefix_done fc t f)
  rw [← nrun_append] at h
  exact h.pcs u

example : (nrun fc ninit (List.replicate 8 (.step 1 7) ++ nsteps [(2, 0), (3, 0), (2, 0), (3, 0), (2, 0), (3, 0)])).pc 3 = .ok 7 := by
  decide

end MdkVerif.Props.C13
