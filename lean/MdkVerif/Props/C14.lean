import MdkVerif.Model.Leak
import MdkVerif.GeneratedLeak
/-
  C14 — Logs and errors never carry group identifiers or secrets.
  Property theorems only.  `GeneratedLeak.*` is re-extracted from the current /repo source by
  tools/gen_leak.py on every run, so the `decide` theorems below are re-checked against what the
  code says NOW.  The classification of an argument expression into a class is the translator's
  (trusted, listed in evidence/C14.json); everything after that is proved here.

  History: on mdk @6826ab1 the full statements were false (`ensure_hydrated` logged an unparsable
  snapshot name verbatim; `GroupResult`, `UpdateGroupResult`, `NostrGroupConfigData`,
  `NostrGroupDataUpdate`, `WelcomePreview`, `JoinedGroupResult` derived `Debug` over ids / keys) and this
  file carried `_partial` theorems with witnesses.  Both were repaired in /repo (4eb675f, 5bf1e8a); the
  model follows the repaired code, the full theorems replace the partial ones, and the old witnesses are
  regression traces in corpus/C14 that the oracle replays.
-/
namespace MdkVerif.Props.C14
open MdkVerif MdkVerif.Leak MdkVerif.GeneratedLeak List

/-! ### 1. `render_clean` — structural: a value of a clean class, and a record whose argument classes
    are all clean, contain no secret atom — for ALL tables whose builder rows are clean, all sites,
    all values (no size bound; values are arbitrarily deeply nested texts). -/

theorem allPub_append (a b : List Atom) : allPub (a ++ b) = (allPub a && allPub b) := by
  simp [allPub, List.all_append]

theorem findSite_mem {id : Nat} {l : List Site} {s : Site} (h : findSite id l = some s) : s ∈ l := by
  induction l with
  | nil => simp [findSite] at h
  | cons x r ih =>
    simp only [findSite] at h
    split at h
    · simp at h; simp [h]
    · exact List.mem_cons_of_mem _ (ih h)

mutual
  theorem render_clean_val (T : Tables) (hT : T.buildersClean = true) :
      ∀ (c : Cls) (v : Val), c.sensitive = false → fits T c v = true → allPub v.render = true
    | c, .leaf c' atoms, hc, hf => by
        simp only [Val.render]
        simp only [fits] at hf
        split at hf
        · simp at hf
        · split at hf
          · simp at hf; exact hf.2
          · simp [hc] at hf; exact hf.2
    | c, .built sid args, hc, hf => by
        simp only [Val.render]
        simp only [fits] at hf
        have hb := hT
        simp only [Tables.buildersClean, Bool.and_eq_true, List.all_eq_true] at hb
        split at hf
        · split at hf
          · rename_i s hs
            exact render_clean_list T hT s.args args (hb.2 s (findSite_mem hs)) hf
          · simp at hf
        · split at hf
          · split at hf
            · rename_i s hs
              exact render_clean_list T hT s.args args (hb.1 s (findSite_mem hs)) hf
            · simp at hf
          · simp at hf
    | c, .wrapped _, _, _ => by simp [Val.render, allPub]
  theorem render_clean_list (T : Tables) (hT : T.buildersClean = true) :
      ∀ (cs : List Cls) (vs : List Val), cs.all (fun c => !c.sensitive) = true → fitsL T cs vs = true →
        allPub (renderL vs) = true
    | [], [], _, _ => by simp [renderL, allPub]
    | c :: cs, v :: vs, hc, hf => by
        simp only [fitsL, Bool.and_eq_true] at hf
        simp only [List.all_cons, Bool.and_eq_true, Bool.not_eq_true'] at hc
        simp only [renderL, allPub_append, Bool.and_eq_true]
        exact ⟨render_clean_val T hT c v hc.1 hf.1, render_clean_list T hT cs vs hc.2 hf.2⟩
    | [], _ :: _, _, hf => by simp [fitsL] at hf
    | _ :: _, [], _, hf => by simp [fitsL] at hf
end

/-- **render_clean.**  A record produced by a site of ANY table whose argument classes are all clean
    contains no secret atom, whatever the argument values are. -/
theorem render_clean (T : Tables) (hT : T.buildersClean = true) (tbl : List Site) (r : Record)
    (hclean : ∀ s ∈ tbl, s.clean = true) (hem : emittedBy T tbl r = true) :
    allPub r.render = true := by
  unfold emittedBy at hem
  split at hem
  · rename_i s hs
    exact render_clean_list T hT s.args r.args (hclean s (findSite_mem hs)) hem
  · simp at hem

/-- the hypotheses of `render_clean` are satisfiable by a non-trivial table and record … -/
example : ∃ (T : Tables) (tbl : List Site) (r : Record),
    T.buildersClean = true ∧ (∀ s ∈ tbl, s.clean = true) ∧ emittedBy T tbl r = true ∧ r.render ≠ [] :=
  ⟨⟨[], [], [⟨1, .errCtor, [.number]⟩], []⟩, [⟨0, .log, [.eventId, .text]⟩],
   ⟨0, [.leaf .eventId [.pub 7], .built 1 [.leaf .number [.pub 3]]]⟩, by decide⟩

/-- … and the semantics is not vacuous the other way: a table WITH a sensitive argument admits an
    emitted record that carries a secret atom (this is what the theorem excludes for clean tables) -/
example : ∃ (T : Tables) (tbl : List Site) (r : Record),
    emittedBy T tbl r = true ∧ allPub r.render = false :=
  ⟨⟨[], [], [], []⟩, [⟨0, .log, [.snapshotName]⟩], ⟨0, [.leaf .snapshotName [.pub 0, .sec .mlsGroupId 1]]⟩, by decide⟩

/-- a redacting wrapper renders nothing of what it holds (`Secret(***)`, `[REDACTED]`) -/
theorem wrapper_clean (v : Val) : (Val.wrapped v).render = [] := rfl

/-- … and any value at all — a secret included — is a legal content of a redacted argument -/
theorem wrapper_accepts_secret (T : Tables) (k : SecKind) (n : Nat) :
    fits T .redacted (.wrapped (.leaf .secret [.sec k n])) = true := by simp [fits]

/-! ### 2. `sites_clean` — the finite tables regenerated from the source (`decide`). -/

/-- every `#[error]` row / manual error Display row has only clean field classes -/
theorem errorFormats_clean : ∀ s ∈ errorFormats, s.clean = true := by
  have h : errorFormats.all Site.clean = true := by decide +kernel
  simpa [List.all_eq_true] using h

/-- every non-test construction of a free-text error payload interpolates only clean classes -/
theorem errorCtors_clean : ∀ s ∈ errorCtors, s.clean = true := by
  have h : errorCtors.all Site.clean = true := by decide +kernel
  simpa [List.all_eq_true] using h

theorem builders_clean : tables.buildersClean = true := by decide +kernel

/-- **sites_clean.**  Every tracing call site of the five crates renders only clean classes. -/
theorem sites_clean : ∀ s ∈ logSites, s.clean = true := by
  have h : logSites.all Site.clean = true := by decide +kernel
  simpa [List.all_eq_true] using h

/-- the table is not trivially clean: some tracing sites do interpolate arguments -/
example : (logSites.any (fun s => !s.args.isEmpty)) = true := by decide +kernel

/-! ### 3. `redaction_sound` — the manual `Debug` / `Display` impls (EpochSnapshot, EpochSnapshotManager,
    MessageProcessingResult, GroupResult, UpdateGroupResult, NostrGroupConfigData, NostrGroupDataUpdate,
    WelcomePreview, JoinedGroupResult, EncryptionConfig, Secret<T>, the storage error and state enums, the
    memory-storage MLS maps) render only clean classes: their sensitive fields are absent or replaced
    by a literal. -/

theorem fmtImpls_clean : ∀ s ∈ fmtImpls, s.clean = true := by
  have h : fmtImpls.all Site.clean = true := by decide +kernel
  simpa [List.all_eq_true] using h

theorem redaction_sound (r : Record) (hem : emittedBy tables fmtImpls r = true) : allPub r.render = true :=
  render_clean tables builders_clean fmtImpls r fmtImpls_clean hem

/-- **results_redact.**  No result / configuration type of the crates (`…Result`, `…Config…`) has a derived
    `Debug` that prints a sensitive field: `derivedResultDebug` lists the types that do, and it is empty or
    clean.  (Data records the caller asked for — `Group`, `Message`, `Welcome` … — are in
    `derivedRecordDebug` and are outside the property.) -/
theorem results_redact : ∀ s ∈ derivedResultDebug, s.clean = true := by
  have h : derivedResultDebug.all Site.clean = true := by decide +kernel
  simpa [List.all_eq_true] using h

/-! ### 4. the property — no modelled execution emits a secret. -/

/-- an emitted item of a modelled execution: a log record, a returned error value (formatted by an
    `errFmt` row) or the Debug/Display of a value with a manual impl -/
def emitted (r : Record) : Bool :=
  emittedBy tables logSites r || emittedBy tables errorFormats r || emittedBy tables fmtImpls r

/-- **C14_full.**  Nothing a modelled execution emits — log record at any level, error value, manual
    Debug/Display of a result or configuration value — contains a secret atom; for all sites and all
    argument values. -/
theorem C14_full (r : Record) (hem : emitted r = true) : allPub r.render = true := by
  unfold emitted at hem
  simp only [Bool.or_eq_true] at hem
  rcases hem with (h | h) | h
  · exact render_clean tables builders_clean logSites r sites_clean h
  · exact render_clean tables builders_clean errorFormats r errorFormats_clean h
  · exact redaction_sound r h

/-- non-vacuity: a non-trivial record (the `record_failure` warning: an event id and a sanitized
    reason) is emitted by the generated tables and renders something -/
example : ∃ r : Record, emitted r = true ∧ r.args ≠ [] ∧ r.render ≠ [] := by
  refine ⟨⟨(logSites.find? (fun s => s.args == [.eventId, .const])).get!.id,
           [.leaf .eventId [.pub 7], .leaf .const [.pub 1]]⟩, ?_⟩
  decide +kernel

end MdkVerif.Props.C14
