import MdkVerif.Model.Leak
import MdkVerif.GeneratedLeak
/-
  C14 — Logs and errors never carry group identifiers or secrets.
  Property theorems only.  `GeneratedLeak.*` is re-extracted from the current /repo source by
  tools/gen_leak.py on every run, so the `decide` theorems below are re-checked against what the
  code says NOW.  The classification of an argument expression into a class is the translator's
  (trusted, listed in evidence/C14.json); everything after that is proved here.
-/
namespace MdkVerif.Props.C14
open MdkVerif MdkVerif.Leak MdkVerif.GeneratedLeak List

/-! ### 1. `render_clean` — structural: a value of a clean class, and a record whose argument classes
    are all clean, contain no secret atom — for ALL tables whose builder rows are clean, all sites,
    all values (no size bound; values are arbitrarily deeply nested texts). -/

theorem allPub_append (a b : List Atom) : allPub (a ++ b) = (allPub a && allPub b) := by
  simp [allPub, List.all_append]

theorem findSite_mem {id : Nat} {l : List Site} {s : Site} (h : findSite id l = some s) : s ∈ l := by
  induction l with
  | nil => simp [findSite] at h
  | cons x r ih =>
    simp only [findSite] at h
    split at h
    · simp at h; simp [h]
    · exact List.mem_cons_of_mem _ (ih h)

mutual
  theorem render_clean_val (T : Tables) (hT : T.buildersClean = true) :
      ∀ (c : Cls) (v : Val), c.sensitive = false → fits T c v = true → allPub v.render = true
    | c, .leaf c' atoms, hc, hf => by
        simp only [Val.render]
        simp only [fits] at hf
        split at hf
        · simp at hf
        · split at hf
          · simp at hf; exact hf.2
          · simp [hc] at hf; exact hf.2
    | c, .built sid args, hc, hf => by
        simp only [Val.render]
        simp only [fits] at hf
        have hb := hT
        simp only [Tables.buildersClean, Bool.and_eq_true, List.all_eq_true] at hb
        split at hf
        · split at hf
          · rename_i s hs
            exact render_clean_list T hT s.args args (hb.2 s (findSite_mem hs)) hf
          · simp at hf
        · split at hf
          · split at hf
            · rename_i s hs
              exact render_clean_list T hT s.args args (hb.1 s (findSite_mem hs)) hf
            · simp at hf
          · simp at hf
    | c, .wrapped _, _, _ => by simp [Val.render, allPub]
  theorem render_clean_list (T : Tables) (hT : T.buildersClean = true) :
      ∀ (cs : List Cls) (vs : List Val), cs.all (fun c => !c.sensitive) = true → fitsL T cs vs = true →
        allPub (renderL vs) = true
    | [], [], _, _ => by simp [renderL, allPub]
    | c :: cs, v :: vs, hc, hf => by
        simp only [fitsL, Bool.and_eq_true] at hf
        simp only [List.all_cons, Bool.and_eq_true, Bool.not_eq_true'] at hc
        simp only [renderL, allPub_append, Bool.and_eq_true]
        exact ⟨render_clean_val T hT c v hc.1 hf.1, render_clean_list T hT cs vs hc.2 hf.2⟩
    | [], _ :: _, _, hf => by simp [fitsL] at hf
    | _ :: _, [], _, hf => by simp [fitsL] at hf
end

/-- **render_clean.**  A record produced by a site of ANY table whose argument classes are all clean
    contains no secret atom, whatever the argument values are. -/
theorem render_clean (T : Tables) (hT : T.buildersClean = true) (tbl : List Site) (r : Record)
    (hclean : ∀ s ∈ tbl, s.clean = true) (hem : emittedBy T tbl r = true) :
    allPub r.render = true := by
  unfold emittedBy at hem
  split at hem
  · rename_i s hs
    exact render_clean_list T hT s.args r.args (hclean s (findSite_mem hs)) hem
  · simp at hem

/-- a redacting wrapper renders nothing of what it holds (`Secret(***)`, `[REDACTED]`) -/
theorem wrapper_clean (v : Val) : (Val.wrapped v).render = [] := rfl

/-- … and any value at all — a secret included — is a legal content of a redacted argument -/
theorem wrapper_accepts_secret (T : Tables) (k : SecKind) (n : Nat) :
    fits T .redacted (.wrapped (.leaf .secret [.sec k n])) = true := by simp [fits]

/-! ### 2. `sites_clean` — the finite tables regenerated from the source (`decide`). -/

/-- every `#[error]` row / manual error Display row has only clean field classes -/
theorem errorFormats_clean : ∀ s ∈ errorFormats, s.clean = true := by
  have h : errorFormats.all Site.clean = true := by decide +kernel
  simpa [List.all_eq_true] using h

/-- every non-test construction of a free-text error payload interpolates only clean classes -/
theorem errorCtors_clean : ∀ s ∈ errorCtors, s.clean = true := by
  have h : errorCtors.all Site.clean = true := by decide +kernel
  simpa [List.all_eq_true] using h

theorem builders_clean : tables.buildersClean = true := by decide +kernel

/-- the full statement for the tracing sites: every call site renders only clean classes -/
def C14_full : Prop := ∀ s ∈ logSites, s.clean = true

/-- what holds of the current code: every tracing call site renders only clean classes, EXCEPT
    arguments that are a stored snapshot name (`ensure_hydrated` logs an unparsable name verbatim) -/
theorem sites_clean : ∀ s ∈ logSites, s.cleanExcept .snapshotName = true := by
  have h : logSites.all (Site.cleanExcept .snapshotName) = true := by decide +kernel
  simpa [List.all_eq_true] using h

/-- the exception is real: some tracing site does render a snapshot name -/
theorem C14_witness : ¬ C14_full := by
  intro h
  have hall : logSites.all Site.clean = true := List.all_eq_true.mpr h
  revert hall; decide +kernel

/-- and it is the only kind of exception: a tracing site that renders no snapshot name is clean -/
theorem sites_clean_partial : ∀ s ∈ logSites, s.args.contains .snapshotName = false → s.clean = true := by
  have h : logSites.all (fun s => s.args.contains .snapshotName || s.clean) = true := by decide +kernel
  intro s hs hn
  have := (List.all_eq_true.mp h) s hs
  rw [hn] at this
  simpa using this

example : (logSites.any (fun s => !s.args.contains .snapshotName && !s.args.isEmpty)) = true := by decide +kernel

/-! ### 3. `redaction_sound` — the manual `Debug` / `Display` impls (EpochSnapshot, EpochSnapshotManager,
    MessageProcessingResult, EncryptionConfig, Secret<T>, the storage error and state enums, the
    memory-storage MLS maps) render only clean classes: their sensitive fields are absent or replaced
    by a literal. -/

theorem fmtImpls_clean : ∀ s ∈ fmtImpls, s.clean = true := by
  have h : fmtImpls.all Site.clean = true := by decide +kernel
  simpa [List.all_eq_true] using h

theorem redaction_sound (r : Record) (hem : emittedBy tables fmtImpls r = true) : allPub r.render = true :=
  render_clean tables builders_clean fmtImpls r fmtImpls_clean hem

/-- the full statement for result / configuration types: none of them has a derived `Debug` that prints a
    sensitive field -/
def C14_results_full : Prop := ∀ s ∈ derivedResultDebug, s.clean = true

/-- it is false of the current code (`UpdateGroupResult`, `GroupResult`, `JoinedGroupResult`,
    `NostrGroupConfigData` derive `Debug` over a `GroupId` / nostr group id / image key) -/
theorem C14_results_witness : ¬ C14_results_full := by
  intro h
  have hall : derivedResultDebug.all Site.clean = true := List.all_eq_true.mpr h
  revert hall; decide +kernel

/-! ### 4. corollary — no modelled execution emits a secret. -/

/-- an emitted item of a modelled execution: a log record, a returned error value (formatted by an
    `errFmt` row) or the Debug/Display of a value with a manual impl -/
def emitted (r : Record) : Bool :=
  emittedBy tables logSites r || emittedBy tables errorFormats r || emittedBy tables fmtImpls r

/-- hypothesis of the partial theorem: no stored snapshot name that reaches a log site embeds a protected
    value.  It holds whenever all snapshots were created by mdk itself: those names always parse, so the
    `ensure_hydrated` site never fires for them (checked on the implementation by the `leak` engine). -/
def H (r : Record) : Bool := classPubL .snapshotName r.args

theorem cleanExcept_fits (T : Tables) (hT : T.buildersClean = true) (x : Cls) :
    ∀ (cs : List Cls) (vs : List Val), cs.all (fun c => !c.sensitive || c == x) = true → fitsL T cs vs = true →
      classPubL x vs = true → allPub (renderL vs) = true
  | [], [], _, _, _ => by simp [renderL, allPub]
  | c :: cs, v :: vs, hc, hf, hp => by
      simp only [fitsL, Bool.and_eq_true] at hf
      simp only [List.all_cons, Bool.and_eq_true] at hc
      simp only [classPubL, Bool.and_eq_true] at hp
      simp only [renderL, allPub_append, Bool.and_eq_true]
      refine ⟨?_, cleanExcept_fits T hT x cs vs hc.2 hf.2 hp.2⟩
      by_cases hs : c.sensitive = false
      · exact render_clean_val T hT c v hs hf.1
      · have hcx : c = x := by
          have := hc.1; simp [hs] at this; simpa using this
        subst hcx
        -- a sensitive class: only a leaf fits, and the hypothesis says that leaf is public
        cases v with
        | leaf c' atoms =>
          have hf1 := hf.1
          simp only [fits] at hf1
          split at hf1
          · simp at hf1
          · split at hf1
            · rename_i h; subst h; simp [Cls.sensitive] at hs
            · simp only [Bool.and_eq_true, decide_eq_true_eq] at hf1
              have hp1 := hp.1
              simp only [Val.classPub, hf1.1, bne_self_eq_false, Bool.false_or] at hp1
              simpa [Val.render] using hp1
        | built sid args =>
          have hf1 := hf.1
          simp only [fits] at hf1
          split at hf1
          · rename_i h; subst h; simp [Cls.sensitive] at hs
          · split at hf1
            · rename_i h; subst h; simp [Cls.sensitive] at hs
            · simp at hf1
        | wrapped w => simp [Val.render, allPub]
  | [], _ :: _, _, hf, _ => by simp [fitsL] at hf
  | _ :: _, [], _, hf, _ => by simp [fitsL] at hf

/-- **C14_partial.**  Under `H`, nothing a modelled execution emits — log record, error value, manual
    Debug/Display — contains a secret atom. -/
theorem C14_partial (r : Record) (hem : emitted r = true) (hH : H r = true) : allPub r.render = true := by
  unfold emitted at hem
  simp only [Bool.or_eq_true] at hem
  rcases hem with (h | h) | h
  · unfold emittedBy at h
    split at h
    · rename_i s hs
      exact cleanExcept_fits tables builders_clean .snapshotName s.args r.args
        (by have := sites_clean s (findSite_mem hs); simpa [Site.cleanExcept] using this) h hH
    · simp at h
  · exact render_clean tables builders_clean errorFormats r errorFormats_clean h
  · exact redaction_sound r h

/-- non-vacuity of the hypotheses: a non-trivial record (the `record_failure` warning with an event id
    and an error text built from a third-party error) is emitted and satisfies `H` -/
example : ∃ r : Record, emitted r = true ∧ H r = true ∧ r.args ≠ [] ∧ r.render ≠ [] := by
  refine ⟨⟨(logSites.find? (fun s => s.args == [.eventId, .const])).get!.id,
           [.leaf .eventId [.pub 7], .leaf .const [.pub 1]]⟩, ?_⟩
  decide

/-- the full execution-level statement (no hypothesis) … -/
def C14_exec_full : Prop := ∀ r : Record, emitted r = true → allPub r.render = true

/-- … is false of the model of the current code: the hydration warning can carry a group id -/
theorem C14_exec_witness : ¬ C14_exec_full := by
  intro h
  have := h ⟨(logSites.find? (fun s => s.args.contains .snapshotName)).get!.id,
             [.leaf .snapshotName [.pub 0, .sec .mlsGroupId 1]]⟩ (by decide)
  revert this
  decide

end MdkVerif.Props.C14
