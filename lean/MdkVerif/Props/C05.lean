import MdkVerif.Model.Client
import MdkVerif.Model.Proposal
import MdkVerif.Proofs.Client
import MdkVerif.Proofs.Proposal
import MdkVerif.Props.C06
import MdkVerif.Model.Identity
import MdkVerif.Proofs.Identity
/-
  C05 — Only admins change roster or group data; identities never change.  Decision logic of
  `process_commit` / `process_proposal` stated outright over the client model (commit contents are the
  model's `Body` + swept proposals; identities are the model's client numbers, which no operation of the
  model rewrites; the LAST SENTENCE of the property — identities bound to leaves, credentials that change, mdk's
  `validate_commit_identities` — has its own model `Model.Identity` and its theorems in section `Identity` at the end of this file).
-/
namespace MdkVerif.Props.C05
open MdkVerif MdkVerif.Client

/-- **accept_iff**: a commit for the receiver's current epoch passes authorisation exactly when its
    MLS-authenticated author is an admin, or it is a pure self-update (an update signal, no proposal
    other than the author's own update, nothing swept in) -/
theorem accept_iff (c : Cl) (e : Ev) (b : Body) (sw : List Nat) :
    (processCommit c e b sw).2 = .commit ↔ (isAdmin c.g e.sender = true ∨ isPureSelfUpdate b sw = true) := by
  unfold processCommit
  by_cases h : (isAdmin c.g e.sender || isPureSelfUpdate b sw) = true
  · simp only [h, Bool.not_true, Bool.false_eq_true, if_false]
    constructor
    · intro _; simpa using h
    · intro _; split <;> rfl
  · have h' : (isAdmin c.g e.sender || isPureSelfUpdate b sw) = false := by simpa using h
    simp only [h', Bool.not_false, if_true]
    constructor
    · intro hh; cases hh
    · intro hh; simp at h'; rcases hh with hh | hh <;> simp_all

/-- a rejected commit is reported as `CommitFromNonAdmin` and leaves the projection untouched -/
theorem reject_frame (c : Cl) (e : Ev) (b : Body) (sw : List Nat)
    (h : (isAdmin c.g e.sender || isPureSelfUpdate b sw) = false) :
    (processCommit c e b sw).2 = .err eNonAdmin ∧ proj (processCommit c e b sw).1 = proj c := by
  unfold processCommit
  simp [h]

/-- the group data of an MLS state (the whole `NostrGroupDataExtension` as modelled) and the roster -/
def rosterAndData (g : GState) : List Nat × GData := (g.members, dataOf g)

/-- **nonadmin_effect**: an ACCEPTED commit whose author is not an admin (in the RECEIVER's current state)
    changes neither the member set, nor the admin set, nor any other field of the group data (name,
    description, relays, nostr group id) — in the MLS state and in the stored record alike -/
theorem nonadmin_effect (c : Cl) (e : Ev) (b : Body) (sw : List Nat)
    (hna : isAdmin c.g e.sender = false) (hacc : (processCommit c e b sw).2 = .commit)
    (hk : e.kind = .commit b sw) :
    (processCommit c e b sw).1.g.members = c.g.members ∧ (processCommit c e b sw).1.g.admins = c.g.admins ∧
    (processCommit c e b sw).1.g.name = c.g.name ∧ (processCommit c e b sw).1.g.desc = c.g.desc ∧
    (processCommit c e b sw).1.g.relays = c.g.relays ∧ (processCommit c e b sw).1.g.nid = c.g.nid ∧
    (processCommit c e b sw).1.g.recAdmins = c.g.admins ∧ (processCommit c e b sw).1.g.recName = c.g.name ∧
    (processCommit c e b sw).1.g.recDesc = c.g.desc ∧ (processCommit c e b sw).1.g.recRelays = c.g.relays ∧
    (processCommit c e b sw).1.g.recNid = c.g.nid := by
  have hp : isPureSelfUpdate b sw = true := by
    rcases (accept_iff c e b sw).mp hacc with h | h
    · rw [hna] at h; cases h
    · exact h
  have hb : b = .selfUpdate ∧ sw = [] := by
    cases b <;> simp [isPureSelfUpdate] at hp
    exact ⟨rfl, by simpa using hp⟩
  obtain ⟨rfl, rfl⟩ := hb
  unfold processCommit
  have hme : removesMe c.id .selfUpdate [] = false := rfl
  simp only [hna, hp, hme, Bool.or_true, Bool.not_true, Bool.false_eq_true, if_false]
  have hf := fun g => ensureSecret_fields g
  have hd := fun g => ensureSecret_data g
  simp [setRec, syncRec, mergeCommit, hk, applyBody, mgrCreate, (hf _).2.1, (hf _).2.2.1, (hf _).2.2.2.1,
    (hd _).1, (hd _).2.1, (hd _).2.2.1]

/-- the same as one equation: roster and group data after = before -/
theorem nonadmin_effect_data (c : Cl) (e : Ev) (b : Body) (sw : List Nat)
    (hna : isAdmin c.g e.sender = false) (hacc : (processCommit c e b sw).2 = .commit)
    (hk : e.kind = .commit b sw) : rosterAndData (processCommit c e b sw).1.g = rosterAndData c.g := by
  obtain ⟨h1, h2, h3, h4, h5, h6, _⟩ := nonadmin_effect c e b sw hna hacc hk
  simp [rosterAndData, dataOf, h1, h2, h3, h4, h5, h6]

/-- **data_update_admin_only**: `update_group_data` publishes a commit only if the caller is an admin in its
    OWN current MLS state, a new admin set (if given) is non-empty and consists of current members, and no
    commit is pending; the commit then carries exactly the caller's current extension with the named fields
    replaced (admins / relays as sets) -/
theorem data_update_admin_only (c : Cl) (n ts idn : Nat) (u : DataUpd) (e : Ev)
    (h : (updateData c n ts idn u).2 = .ev e) :
    c.g.active = true ∧ isAdmin c.g c.id = true ∧ c.g.pending = none ∧
    (∀ a, u.admins = some a → a ≠ [] ∧ ∀ x ∈ a, x ∈ c.g.members) ∧
    e.sender = c.id ∧ e.path = c.g.path ∧
    e.kind = .commit (.setData (applyUpd (dataOf c.g) u)) c.g.props := by
  unfold updateData at h
  cases hg : c.hasGroup with
  | false => rw [hg] at h; cases h
  | true =>
    rw [hg] at h
    simp only [Bool.not_true, Bool.false_eq_true, if_false] at h
    cases hv : adminsArgBad c.g u with
    | true => rw [hv] at h; cases h
    | false =>
      rw [hv] at h
      simp only [Bool.false_eq_true, if_false] at h
      unfold stageCommit at h
      rw [hg] at h
      simp only [Bool.not_true, Bool.false_eq_true, if_false, Bool.true_and] at h
      cases hact : c.g.active with
      | false => rw [hact] at h; cases h
      | true =>
      rw [hact] at h
      simp only [Bool.not_true, Bool.false_eq_true, if_false] at h
      cases hadm : isAdmin c.g c.id with
      | false => rw [hadm] at h; cases h
      | true =>
        rw [hadm] at h
        simp only [Bool.not_true, Bool.false_eq_true, if_false] at h
        cases hpend : c.g.pending with
        | some p => rw [hpend] at h; cases h
        | none =>
          rw [hpend] at h
          simp only [Option.isSome_none, Bool.false_eq_true, if_false] at h
          injection h with h; subst h
          refine ⟨rfl, rfl, rfl, ?_, rfl, ensureSecret_path _, by simp⟩
          intro a ha
          simp only [adminsArgBad, ha] at hv
          have hv' : adminUpdateOk c.g a = true := by simpa using hv
          simp only [adminUpdateOk, Bool.and_eq_true, Bool.not_eq_true', List.all_eq_true] at hv'
          constructor
          · intro h0; subst h0; simp at hv'
          · intro x hx
            simpa using hv'.2 x hx

/-- **roster_change_admin_only**: `add_members` / `remove_members` publish a commit only if the caller is an
    active member and an admin in its OWN current MLS state and no commit is pending; an add needs a stored relay and
    nobody who is a member already; a removal names exactly the listed members that ARE members (at least one) -/
theorem roster_change_admin_only (c : Cl) (n ts idn : Nat) (who : List Nat) (e : Ev) :
    ((addMembers c n ts idn who).2 = .ev e →
      c.g.active = true ∧ isAdmin c.g c.id = true ∧ c.g.pending = none ∧ c.g.recRelays ≠ [] ∧
      (∀ x ∈ who, x ∉ c.g.members) ∧ e.kind = .commit (.addMembers who) c.g.props) ∧
    ((removeMembers c n ts idn who).2 = .ev e →
      c.g.active = true ∧ isAdmin c.g c.id = true ∧ c.g.pending = none ∧
      who.filter (fun m => c.g.members.contains m) ≠ [] ∧
      e.kind = .commit (.removeLeavers (who.filter (fun m => c.g.members.contains m))) c.g.props) := by
  have stage : ∀ b, (stageCommit c n ts idn b true).2 = .ev e →
      c.g.active = true ∧ isAdmin c.g c.id = true ∧ c.g.pending = none ∧ e.kind = .commit b c.g.props := by
    intro b h
    unfold stageCommit at h
    cases hg : c.hasGroup with
    | false => rw [hg] at h; cases h
    | true =>
      rw [hg] at h
      simp only [Bool.not_true, Bool.false_eq_true, if_false, Bool.true_and] at h
      cases hact : c.g.active with
      | false => rw [hact] at h; cases h
      | true =>
        rw [hact] at h
        simp only [Bool.not_true, Bool.false_eq_true, if_false] at h
        cases hadm : isAdmin c.g c.id with
        | false => rw [hadm] at h; cases h
        | true =>
          rw [hadm] at h
          simp only [Bool.not_true, Bool.false_eq_true, if_false] at h
          cases hpend : c.g.pending with
          | some p => rw [hpend] at h; cases h
          | none =>
            rw [hpend] at h
            simp only [Option.isSome_none, Bool.false_eq_true, if_false] at h
            injection h with h; subst h
            exact ⟨rfl, rfl, rfl, by simp⟩
  constructor
  · intro h
    unfold addMembers at h
    split at h
    · cases h
    · split at h
      · cases h
      · split at h
        · cases h
        · split at h
          · cases h
          · split at h
            · cases h
            · rename_i _ _ _ hrel hany
              obtain ⟨h1, h2, h3, h4⟩ := stage _ h
              refine ⟨h1, h2, h3, ?_, ?_, h4⟩
              · intro h0; rw [h0] at hrel; exact hrel rfl
              · intro x hx hm
                apply hany
                simp only [List.any_eq_true]
                exact ⟨x, hx, by simpa using hm⟩
  · intro h
    unfold removeMembers at h
    split at h
    · cases h
    · split at h
      · cases h
      · split at h
        · cases h
        · split at h
          · cases h
          · rename_i _ _ _ hemp
            obtain ⟨h1, h2, h3, h4⟩ := stage _ h
            refine ⟨h1, h2, h3, ?_, h4⟩
            intro h0; rw [h0] at hemp; exact hemp rfl

/-- **joiner_state**: the state a welcome gives the new member is the inviter's post-commit state — the same path,
    roster (old members, the added ones, minus the swept leavers), group data and record epoch every receiver of
    the add commit reaches (`childG`) — with nothing of the past: no stored exporter secret, no past-epoch secrets,
    nothing consumed, queued or pending -/
theorem joiner_state (c : Cl) (e : Ev) (who sw : List Nat) (hk : e.kind = .commit (.addMembers who) sw) :
    let j := welcomeState c.maxPast (ensureSecret c.g) e
    j.path = c.g.path ++ [e.cipher] ∧
    j.members = (c.g.members ++ who.filter (fun m => !(c.g.members.contains m))).filter (fun m => !(sw.contains m)) ∧
    dataOf j = dataOf c.g ∧ Synced j ∧ j.active = true ∧
    j.secrets = [] ∧ j.past = [] ∧ j.consumed = [] ∧ j.props = [] ∧ j.pending = none := by
  have e1 := ensureSecret_fields c.g
  have e2 := ensureSecret_data c.g
  refine ⟨?_, ?_, ?_, ?_, rfl, rfl, rfl, rfl, rfl, rfl⟩
  · simp [welcomeState, joinState, syncRec, mergeCommit, hk, applyBody, e1.1]
  · simp [welcomeState, joinState, syncRec, mergeCommit, hk, applyBody, e1.2.1]
  · simp [welcomeState, joinState, syncRec, mergeCommit, hk, applyBody, dataOf, e1.2.2.1, e1.2.2.2.1, e2.1, e2.2.1, e2.2.2.1]
  · have := synced_syncRec (mergeCommit c.maxPast (ensureSecret c.g) e)
    simpa [welcomeState, joinState, Synced] using this

/-- **proposal_inert**: a processed leave proposal never changes epoch, members, admins or data by
    itself; a non-admin receiver only queues it -/
theorem proposal_inert (retry : Cl → Option (Cl × Res)) (nx : Nat) (c : Cl) (e : Ev) (hk : e.kind = .leave) :
    (step1 retry nx c e).1.g.path = c.g.path ∧ (step1 retry nx c e).1.g.members = c.g.members ∧
    (step1 retry nx c e).1.g.admins = c.g.admins ∧ (step1 retry nx c e).1.g.name = c.g.name ∧
    (step1 retry nx c e).1.g.desc = c.g.desc ∧ (step1 retry nx c e).1.g.relays = c.g.relays ∧
    (step1 retry nx c e).1.g.nid = c.g.nid := by
  have hf := ensureSecret_fields
  have hd := ensureSecret_data
  have hw : (withSecret c).g.path = c.g.path ∧ (withSecret c).g.members = c.g.members ∧
      (withSecret c).g.admins = c.g.admins ∧ (withSecret c).g.name = c.g.name ∧
      (withSecret c).g.desc = c.g.desc ∧ (withSecret c).g.relays = c.g.relays ∧ (withSecret c).g.nid = c.g.nid := by
    simp [withSecret, (hf c.g).1, (hf c.g).2.1, (hf c.g).2.2.1, (hf c.g).2.2.2.1, (hd c.g).1, (hd c.g).2.1, (hd c.g).2.2.1]
  unfold step1
  split
  · simp [recordFailure, setRec]
  · split
    · simp [recordFailure, setRec]
    · simp only
      split
      · simpa [recordFailure, setRec] using hw
      · simp only [hk]
        split
        · simpa [failUnprocessable, recordFailure, setRec] using hw
        · split
          · unfold ownMessage
            repeat' split
            all_goals first | (simpa [setRec, returnOwnCommit, syncRec] using hw)
          · split
            · simpa [failUnprocessable, recordFailure, setRec] using hw
            · split
              · simp only [setRec, ensureSecret_path, ensureSecret_members, ensureSecret_admins, ensureSecret_name,
                  ensureSecret_desc, ensureSecret_relays, ensureSecret_nid]
                exact hw
              · simpa [setRec] using hw

/-- the known sweep: a commit staged by an admin carries every queued proposal, whoever made it
    (openmls commit builders consume the proposal store) — the full "an admin's operation changes
    exactly what it names" is therefore false of the code; witness: a queued leave of member 2 is
    carried out by an unrelated rename -/
def admin_op_exact_full : Prop :=
  ∀ (c : Cl) (n ts idn : Nat) (u : DataUpd), ∀ e, (updateData c n ts idn u).2 = .ev e →
    e.kind = .commit (.setData (applyUpd (dataOf c.g) u)) []

theorem admin_op_exact_partial (c : Cl) (n ts idn : Nat) (u : DataUpd) (e : Ev) (hp : c.g.props = [])
    (h : (updateData c n ts idn u).2 = .ev e) : e.kind = .commit (.setData (applyUpd (dataOf c.g) u)) [] := by
  rw [(data_update_admin_only c n ts idn u e h).2.2.2.2.2.2, hp]

def wAdmin : Cl := { initCl 0 false 5 [0, 1, 2] [0] 1 with g := { (initG [0, 1, 2] [0] 1) with props := [2] } }
theorem admin_op_exact_full_false : ¬ admin_op_exact_full := by
  intro h
  have := h wAdmin 5 10 10 { name := some 9 } { n := 5, ts := 10, idnum := 10, cipher := 5, sender := 0, path := [], kind := .commit (.setData { initData [0] 1 with name := 9 }) [2] } (by decide)
  revert this; decide

/-! ### the admin set can change: authorisation follows the receiver's CURRENT state -/

/-- admins 0 and 1; admin 0 demotes 1 (new admin set [0]); afterwards a rename by 1 — created by the
    demoted client in the new epoch, e.g. with the MLS library directly — is refused, while the same client's
    pure self-update is still accepted -/
def wTwo : Cl := initCl 2 false 5 [0, 1, 2] [0, 1] 1
def wDemote : Ev := { n := 1, ts := 10, idnum := 5, cipher := 1, sender := 0, path := [], kind := .commit (.setData { initData [0] 1 with name := 1 }) [] }
def wLateRename : Ev := { n := 2, ts := 20, idnum := 6, cipher := 2, sender := 1, path := [1], kind := .commit (.setData { initData [0, 1] 1 with name := 7 }) [] }
def wLateUpdate : Ev := { n := 3, ts := 20, idnum := 7, cipher := 3, sender := 1, path := [1], kind := .commit .selfUpdate [] }
theorem witness_demoted_admin_refused :
    (deliver wTwo wDemote 0).2 = .commit ∧ (deliver wTwo wDemote 0).1.g.admins = [0] ∧
    (deliver (deliver wTwo wDemote 0).1 wLateRename 0).2 = .err eNonAdmin ∧
    (deliver (deliver wTwo wDemote 0).1 wLateRename 0).1.g.admins = [0] ∧
    (deliver (deliver wTwo wDemote 0).1 wLateUpdate 0).2 = .commit := by decide

/-- … and a member promoted by an admin's commit may change the data from the next epoch on -/
def wPromote : Ev := { n := 1, ts := 10, idnum := 5, cipher := 1, sender := 0, path := [], kind := .commit (.setData (initData [0, 1] 1)) [] }
def wOne : Cl := initCl 2 false 5 [0, 1, 2] [0] 1
theorem witness_promoted_member_accepted :
    (deliver wOne { wLateRename with path := [] } 0).2 = .err eNonAdmin ∧
    (deliver (deliver wOne wPromote 0).1 wLateRename 0).2 = .commit ∧
    (deliver (deliver wOne wPromote 0).1 wLateRename 0).1.g.name = 7 := by decide

/-! ## Proposals: `process_proposal` for every proposal type, and what commit builders sweep (Model/Proposal.lean)

    The theorems above speak about `Model.Client` (leave proposals only, every referenced proposal held).  From here on the
    model is `Model.Proposal`: the world engine's driver runs it on every generated history, with stand-alone Remove / Add /
    GroupContextExtensions / PSK / Update proposals crafted by members with the MLS library. -/
section Proposals
open MdkVerif.Proposal

/-- the auto-commit can be built: no commit is pending and nothing queued (after storing the proposal) removes the receiver -/
def canBuild (c : Cl) (e : Ev) (p : PK) : Bool := !(c.g.pending.isSome) && !(storeRemoves (storeProp c.g e.sender p) c.id)

/-- **nonadmin_proposal_refused_kinds** — the decision table of `process_proposal`, as equivalences.  The PROPOSER's role
    appears nowhere: only the proposal's type, whether it names its own sender, and whether the RECEIVER is an admin.
    * ignored (nothing stored): Update, GroupContextExtensions, everything else;
    * auto-committed: a member's own Remove at an admin receiver that can build the commit;
    * stored pending: every Add; every Remove of somebody else; a member's own Remove at a non-admin receiver — and (since
      repair 0339cde, regenerated fact `autoCommitChecksBeforeStore`) at an admin receiver that cannot build the commit;
    * `process_proposal` never fails: no proposal is answered `Unprocessable` by it. -/
theorem nonadmin_proposal_refused_kinds (nx : Nat) (c : Cl) (e : Ev) (p : PK) :
    ((processProposal nx c e p).2 = .ignored ↔ (p = .update ∨ p = .gce ∨ p = .other)) ∧
    ((processProposal nx c e p).2 = .pending ↔
        ((∃ w, p = .add w) ∨ ∃ t, p = .remove t ∧ ¬ (t = e.sender ∧ isAdmin c.g c.id = true ∧ canBuild c e p = true))) ∧
    ((∃ ne, (processProposal nx c e p).2 = .proposalCommitted ne) ↔
        (p = .remove e.sender ∧ isAdmin c.g c.id = true ∧ canBuild c e p = true)) ∧
    (processProposal nx c e p).2 ≠ .unprocessable := by
  cases p with
  | update => simp [processProposal]
  | gce => simp [processProposal]
  | other => simp [processProposal]
  | add w => simp [processProposal]
  | remove t =>
    by_cases ht : t = e.sender
    · subst ht
      cases ha : isAdmin c.g c.id with
      | false => simp [processProposal, ha]
      | true =>
        cases hb : canBuild c e (.remove e.sender) with
        | true =>
          have hb' : (c.g.pending.isSome || storeRemoves (storeProp c.g e.sender (.remove e.sender)) c.id) = false := by
            simp only [canBuild, Bool.and_eq_true, Bool.not_eq_true'] at hb
            simp [hb.1, hb.2]
          have hp : (storeProp c.g e.sender (.remove e.sender)).pending = c.g.pending := by simp [storeProp]
          simp [processProposal, ha, hp, hb']
        | false =>
          have hb' : (c.g.pending.isSome || storeRemoves (storeProp c.g e.sender (.remove e.sender)) c.id) = true := by
            simp only [canBuild, Bool.and_eq_false_iff, Bool.not_eq_false'] at hb
            rcases hb with hb | hb <;> simp [hb]
          have hp : (storeProp c.g e.sender (.remove e.sender)).pending = c.g.pending := by simp [storeProp]
          simp [processProposal, ha, hp, hb', checksFirst, Generated.autoCommitChecksBeforeStore]
    · have ht' : (t == e.sender) = false := by simpa using ht
      simp [processProposal, ht', ht]

/-- the fact the last two rows rest on, re-extracted from messages/proposal.rs on every run: `auto_commit_proposal` decides
    whether the commit can be built BEFORE it stores the proposal (reverting repair 0339cde makes this — and the table — fail) -/
theorem auto_commit_checks_first : Generated.autoCommitChecksBeforeStore = true := by decide

/-- … in particular a NON-admin member's Remove of another member, and anybody's Add, are stored in the proposal store of
    every receiver — admin or not — where the next commit builder finds them (the real code does NOT keep the store to
    members' own requests) -/
theorem foreign_proposal_stored (nx : Nat) (c : Cl) (e : Ev) (t : Nat) (ht : t ≠ e.sender) :
    (processProposal nx c e (.remove t)).2 = .pending ∧ QP.rm e.sender t ∈ (processProposal nx c e (.remove t)).1.g.xq ∧
    ∀ w, (processProposal nx c e (.add w)).2 = .pending ∧ QP.add e.sender w ∈ (processProposal nx c e (.add w)).1.g.xq := by
  have ht' : (t == e.sender) = false := by simpa using ht
  refine ⟨by simp [processProposal, ht'], by simp [processProposal, ht', storeProp, setRec], ?_⟩
  intro w
  exact ⟨by simp [processProposal], by simp [processProposal, storeProp, setRec]⟩

/-- **auto_commit_only_self_leave** — the only proposal a receiver turns into a commit by itself is a member's Remove of
    ITS OWN leaf, and only an admin receiver with no commit pending does so.  The staged commit is the receiver's, created
    in its current state, carries no change of its own, and references exactly the store: the sender's leave, the leaves
    queued before (`who`: m ∈ who ↔ m = sender ∨ m queued), never the receiver itself — and whatever else is queued
    (`sweptX` = the foreign proposals in the store: see `auto_commit_exact`) -/
theorem auto_commit_only_self_leave (nx : Nat) (c : Cl) (e : Ev) (p : PK) (ne : Ev)
    (h : (processProposal nx c e p).2 = .proposalCommitted ne) :
    p = .remove e.sender ∧ isAdmin c.g c.id = true ∧ c.g.pending = none ∧
    ne.sender = c.id ∧ ne.path = c.g.path ∧ ne.kind = .commit .selfUpdate ((e.sender :: c.g.props).eraseDups) ∧
    ne.sweptX = c.g.xq ∧ (processProposal nx c e p).1.g.pending = some ne ∧
    (∀ m, m ∈ (e.sender :: c.g.props).eraseDups ↔ (m = e.sender ∨ m ∈ c.g.props)) ∧
    c.id ∉ (e.sender :: c.g.props).eraseDups ∧ c.id ∉ xTargets c.g.xq := by
  obtain ⟨hp, ha, hb⟩ := ((nonadmin_proposal_refused_kinds nx c e p).2.2.1).mp ⟨ne, h⟩
  subst hp
  simp only [canBuild, Bool.and_eq_true, Bool.not_eq_true'] at hb
  have hpend : c.g.pending = none := by
    cases hpc : c.g.pending with
    | none => rfl
    | some x => rw [hpc] at hb; simp at hb
  have hsp : (storeProp c.g e.sender (.remove e.sender)).pending = c.g.pending := by simp [storeProp]
  have hb' : (c.g.pending.isSome || storeRemoves (storeProp c.g e.sender (.remove e.sender)) c.id) = false := by simp [hb.1, hb.2]
  have hne : ne = autoCommitEv c (storeProp c.g e.sender (.remove e.sender)) nx := by
    simp only [processProposal, beq_self_eq_true, ha, Bool.and_self, if_true, hsp, hb', Bool.false_eq_true, if_false] at h
    injection h with h; exact h.symm
  have hsr := hb.2
  simp only [storeRemoves, storeProp, beq_self_eq_true, if_true, Bool.or_eq_false_iff] at hsr
  refine ⟨rfl, ha, hpend, by rw [hne]; rfl, by rw [hne]; simp [autoCommitEv, storeProp], by rw [hne]; simp [autoCommitEv, storeProp],
    by rw [hne]; simp [autoCommitEv, storeProp], ?_, by intro m; simp, by simpa using hsr.1, by simpa using hsr.2⟩
  simp only [processProposal, beq_self_eq_true, ha, Bool.and_self, if_true, hsp, hb', Bool.false_eq_true, if_false, hne]
  simp [setRec]

/-- what merging that commit does to the roster: the leavers go; and — the part that is NOT a member's own request — so does
    every target of a queued foreign Remove, and everybody a queued Add names comes in -/
theorem auto_commit_exact (c : Cl) (g1 : GState) (nx mp : Nat) (g : GState) :
    (mergeCommitP mp g (autoCommitEv c g1 nx)).members = applyX (g.members.filter (fun m => !(g1.props.contains m))) g1.xq := by
  simp [mergeCommitP, mergeCommit, autoCommitEv, applyBody]

/-- with nothing foreign queued the auto-commit removes EXACTLY the members that asked to leave -/
theorem auto_commit_exact_partial (c : Cl) (g1 : GState) (nx mp : Nat) (g : GState) (hx : g1.xq = []) :
    (mergeCommitP mp g (autoCommitEv c g1 nx)).members = g.members.filter (fun m => !(g1.props.contains m)) := by
  rw [auto_commit_exact, hx, applyX_nil]

/-- the full statement — "an automatic commit removes only members that asked to leave and adds nobody" — is FALSE of the
    code: a queued foreign proposal is carried out by the admin's auto-commit of somebody else's leave
    (finding autocommit-sweeps-foreign-proposal, corpus/C05/autocommit_sweeps_foreign.trace) -/
def auto_commit_exact_full : Prop :=
  ∀ (nx : Nat) (c : Cl) (x : PEv) (ne : Ev), (deliverP c x nx).2 = .proposalCommitted ne →
    ∀ m, (m ∈ (mergeP (deliverP c x nx).1).1.g.members ↔ (m ∈ c.g.members ∧ m ≠ x.e.sender ∧ m ∉ c.g.props))

/-- admin 0, members 0..3; the non-admin 1 crafts Remove(3) and Add(9), then 2 asks to leave: admin 0's auto-commit removes
    2 AND 3 and adds 9 -/
def wAdmin0 : Cl := initCl 0 false 5 [0, 1, 2, 3] [0] 1
def wXRemove : PEv := craftProp (initCl 1 false 5 [0, 1, 2, 3] [0] 1) 1 10 11 (.remove 3)
def wXAdd : PEv := craftProp (initCl 1 false 5 [0, 1, 2, 3] [0] 1) 2 11 12 (.add 9)
def wLeave2 : PEv := { e := { n := 3, ts := 12, idnum := 13, cipher := 3, sender := 2, path := [], kind := .leave } }
def wAdminQueued : Cl := (deliverP (deliverP wAdmin0 wXRemove 0).1 wXAdd 0).1

theorem witness_autocommit_sweeps_foreign :
    (deliverP wAdmin0 wXRemove 0).2 = .pending ∧ (deliverP (deliverP wAdmin0 wXRemove 0).1 wXAdd 0).2 = .pending ∧
    wAdminQueued.g.members = [0, 1, 2, 3] ∧ wAdminQueued.g.xq = [QP.add 1 9, QP.rm 1 3] ∧
    (match (deliverP wAdminQueued wLeave2 4).2 with | .proposalCommitted _ => true | _ => false) = true ∧
    (mergeP (deliverP wAdminQueued wLeave2 4).1).1.g.members = [0, 1, 9] := by decide

theorem auto_commit_exact_full_false : ¬ auto_commit_exact_full := by
  intro h
  have h2 := h 4 wAdminQueued wLeave2 _ (show (deliverP wAdminQueued wLeave2 4).2 = .proposalCommitted (autoCommitEv (withSecret wAdminQueued) (storeProp { (withSecret wAdminQueued).g with consumed := [3] } 2 (.remove 2)) 4) by decide) 3
  revert h2; decide

/-- **proposal_never_changes_roster** — a proposal of ANY type (own leave, Remove of somebody else, Add, Update,
    GroupContextExtensions, PSK, …), whatever `process_proposal` answers, changes neither the epoch / MLS state, nor the member
    set, nor any field of the group data (`proposal_inert` is the special case of a leave over `Model.Client`) -/
theorem proposal_never_changes_roster (retry : Cl → Option (Cl × Res)) (nx : Nat) (c : Cl) (x : PEv) (p : PK)
    (hk : propKind x = some p) :
    (step1P retry nx c x).1.g.path = c.g.path ∧ (step1P retry nx c x).1.g.members = c.g.members ∧
    (step1P retry nx c x).1.g.admins = c.g.admins ∧ (step1P retry nx c x).1.g.name = c.g.name ∧
    (step1P retry nx c x).1.g.desc = c.g.desc ∧ (step1P retry nx c x).1.g.relays = c.g.relays ∧
    (step1P retry nx c x).1.g.nid = c.g.nid := by
  have hf := ensureSecret_fields
  have hd := ensureSecret_data
  have hw : (withSecret c).g.path = c.g.path ∧ (withSecret c).g.members = c.g.members ∧
      (withSecret c).g.admins = c.g.admins ∧ (withSecret c).g.name = c.g.name ∧
      (withSecret c).g.desc = c.g.desc ∧ (withSecret c).g.relays = c.g.relays ∧ (withSecret c).g.nid = c.g.nid := by
    simp [withSecret, (hf c.g).1, (hf c.g).2.1, (hf c.g).2.2.1, (hf c.g).2.2.2.1, (hd c.g).1, (hd c.g).2.1, (hd c.g).2.2.1]
  -- `process_proposal` itself: every branch only touches the store, the pending commit, the secret cache and the records
  have hpp : ∀ (c' : Cl) (e : Ev), (processProposal nx c' e p).1.g.path = c'.g.path ∧ (processProposal nx c' e p).1.g.members = c'.g.members ∧
      (processProposal nx c' e p).1.g.admins = c'.g.admins ∧ (processProposal nx c' e p).1.g.name = c'.g.name ∧
      (processProposal nx c' e p).1.g.desc = c'.g.desc ∧ (processProposal nx c' e p).1.g.relays = c'.g.relays ∧
      (processProposal nx c' e p).1.g.nid = c'.g.nid := by
    intro c' e
    unfold processProposal
    cases p with
    | update => simp [setRec]
    | gce => simp [setRec]
    | other => simp [setRec]
    | add w => simp [setRec, storeProp]
    | remove t =>
      simp only
      have hs : ∀ g : GState, (storeProp g e.sender (.remove t)).path = g.path ∧ (storeProp g e.sender (.remove t)).members = g.members ∧
          (storeProp g e.sender (.remove t)).admins = g.admins ∧ (storeProp g e.sender (.remove t)).name = g.name ∧
          (storeProp g e.sender (.remove t)).desc = g.desc ∧ (storeProp g e.sender (.remove t)).relays = g.relays ∧
          (storeProp g e.sender (.remove t)).nid = g.nid := by
        intro g; unfold storeProp; simp only; split <;> simp
      split
      · split
        · split
          · simpa [setRec] using hs c'.g
          · simpa [failUnprocessable, recordFailure, setRec] using hs c'.g
        · simpa [setRec] using hs c'.g
      · simpa [setRec] using hs c'.g
  unfold step1P
  simp only
  split
  · simp [recordFailure, setRec]
  · split
    · simp [recordFailure, setRec]
    · split
      · simpa [recordFailure, setRec] using hw
      · simp only [hk]
        split
        · simpa [failUnprocessable, recordFailure, setRec] using hw
        · split
          · unfold ownMessage
            repeat' split
            all_goals first | (simpa [setRec, returnOwnCommit, syncRec] using hw)
          · split
            · simpa [failUnprocessable, recordFailure, setRec] using hw
            · have := hpp { withSecret c with g := { (withSecret c).g with consumed := x.e.cipher :: (withSecret c).g.consumed } } x.e
              simpa [hw.1, hw.2.1, hw.2.2.1, hw.2.2.2.1, hw.2.2.2.2.1, hw.2.2.2.2.2.1, hw.2.2.2.2.2.2] using this

/-! ### what the commit builders sweep: only members' own requests to leave — IF nothing else was ever stored -/

/-- the operations of a client (deliveries of honest events — whatever mdk's own API sends, or proposals that are not
    stored as a foreign request — and every local call) -/
inductive POp where
  | deliver (x : PEv) (nx : Nat)
  | send (n ts idn mid mts tok : Nat)
  | selfUpdate (n ts idn : Nat)
  | data (n ts idn : Nat) (u : DataUpd)
  | remove (n ts idn : Nat) (who : List Nat)
  | add (n ts idn : Nat) (who : List Nat)
  | leave (n ts idn : Nat)
  | merge | clear | restart
  | join (mp : Nat) (g : GState) (e : Ev)

def POp.run (c : Cl) : POp → Cl
  | .deliver x nx => (deliverP c x nx).1
  | .send n ts idn mid mts tok => (sendP c n ts idn mid mts tok).1
  | .selfUpdate n ts idn => (stageCommitP c n ts idn .selfUpdate false).1
  | .data n ts idn u => (updateDataP c n ts idn u).1
  | .remove n ts idn who => (removeMembersP c n ts idn who).1
  | .add n ts idn who => (addMembersP c n ts idn who).1
  | .leave n ts idn => (Client.leave c n ts idn).1
  | .merge => (mergeP c).1
  | .clear => (Client.clear c).1
  | .restart => (Client.restart c).1
  | .join mp g e => Client.join c (welcomeStateP mp g e)

/-- the hypothesis on a history: every delivered proposal is honest (`Honest`: not a Remove of another member, not an Add),
    every member whose own Remove is delivered is in `L`, and the client only calls `leave_group` if it is in `L` itself -/
def POp.ok (L : Nat → Prop) (c : Cl) : POp → Prop
  | .deliver x _ => Honest x ∧ LeaverIn L x
  | .leave _ _ _ => L c.id
  | _ => True

theorem pso_step (L : Nat → Prop) (c : Cl) (o : POp) (h : PropsSelfOnly L c) (ho : o.ok L c) : PropsSelfOnly L (o.run c) := by
  cases o with
  | deliver x nx => exact pso_deliverNP 3 nx c x h ho.1 ho.2
  | send n ts idn mid mts tok => exact pso_sendP c n ts idn mid mts tok h
  | selfUpdate n ts idn => exact pso_stageCommitP c n ts idn _ _ h
  | data n ts idn u => exact pso_updateDataP c n ts idn u h
  | remove n ts idn who => exact pso_removeMembersP c n ts idn who h
  | add n ts idn who => exact pso_addMembersP c n ts idn who h
  | leave n ts idn => exact pso_leave c n ts idn h ho
  | merge => exact pso_mergeP c h
  | clear => exact pso_clear c h
  | restart => exact pso_restart c h
  | join mp g e => exact pso_join c _ h (selfOnly_welcomeStateP mp g e)

/-- every operation of the history is admissible in the state it is applied to -/
def okRun (L : Nat → Prop) : Cl → List POp → Prop
  | _, [] => True
  | c, o :: l => o.ok L c ∧ okRun L (o.run c) l

/-- **PropsSelfOnly is an invariant** of every history over all client operations (process_message with rollback and
    re-processing, create_message, every commit builder, leave, merge / clear, restart, joining by welcome): nothing but
    leaves of members in `L` is ever queued, staged, or kept in a snapshot -/
theorem propsSelfOnly_reachable (L : Nat → Prop) (c : Cl) (l : List POp) (h : PropsSelfOnly L c) (hl : okRun L c l) :
    PropsSelfOnly L (l.foldl POp.run c) := by
  induction l generalizing c with
  | nil => exact h
  | cons o l ih => exact ih (o.run c) (pso_step L c o h hl.1) hl.2

/-- **admin_op_exact** — the precise form of "an admin's operation changes exactly what it names": after ANY history of
    honest events, whatever an admin's `update_group_data` / `add_members` / `remove_members` (or anybody's `self_update`)
    stages carries the named change `b` and, by reference, exactly the leaves queued at that moment — Removes that members in
    `L` sent for THEIR OWN leaf — and nothing else (`sweptX = []`).  The sweep can thus only complete a member's own request to
    leave, the exception the property allows.  The hypothesis is needed and the code does not enforce it: see
    `propsSelfOnly_full_false` / `admin_op_exact_P_full_false` (finding proposal-sweep). -/
theorem admin_op_exact (L : Nat → Prop) (c0 : Cl) (l : List POp) (h0 : PropsSelfOnly L c0) (hl : okRun L c0 l)
    (n ts idn : Nat) (e : Ev) :
    let c := l.foldl POp.run c0
    (∀ u, (updateDataP c n ts idn u).2 = .ev e →
        e.kind = .commit (.setData (applyUpd (dataOf c.g) u)) c.g.props ∧ e.sweptX = [] ∧ ∀ m ∈ c.g.props, L m) ∧
    (∀ who, (addMembersP c n ts idn who).2 = .ev e →
        e.kind = .commit (.addMembers who) c.g.props ∧ e.sweptX = [] ∧ ∀ m ∈ c.g.props, L m) ∧
    (∀ who, (removeMembersP c n ts idn who).2 = .ev e →
        e.kind = .commit (.removeLeavers (who.filter (fun m => c.g.members.contains m))) c.g.props ∧ e.sweptX = [] ∧ ∀ m ∈ c.g.props, L m) ∧
    ((stageCommitP c n ts idn .selfUpdate false).2 = .ev e →
        e.kind = .commit .selfUpdate c.g.props ∧ e.sweptX = [] ∧ ∀ m ∈ c.g.props, L m) := by
  intro c
  have hc : PropsSelfOnly L c := propsSelfOnly_reachable L c0 l h0 hl
  have key : ∀ b na, (stageCommitP c n ts idn b na).2 = .ev e → e.kind = .commit b c.g.props ∧ e.sweptX = [] ∧ ∀ m ∈ c.g.props, L m := by
    intro b na hr
    obtain ⟨h1, h2, h3, _, _⟩ := stageCommitP_ev c n ts idn b na e hc hr
    exact ⟨h1, h2, h3⟩
  refine ⟨?_, ?_, ?_, key _ _⟩
  · intro u hr
    unfold updateDataP at hr
    split at hr
    · cases hr
    · split at hr
      · cases hr
      · exact key _ _ hr
  · intro who hr
    unfold addMembersP at hr
    repeat' split at hr
    all_goals first | (cases hr; done) | exact key _ _ hr
  · intro who hr
    unfold removeMembersP at hr
    repeat' split at hr
    all_goals first | (cases hr; done) | exact key _ _ hr

/-- non-vacuity: a history with a leave delivered to an admin while its own commit is pending, a second leave, a rename -/
example : okRun (fun m => m = 2 ∨ m = 3) wAdmin0
    [.deliver wLeave2 4, .merge, .data 5 20 21 { name := some 7 }] := by
  refine ⟨⟨?_, ?_⟩, trivial, trivial, trivial⟩
  · intro p hp; cases hp
  · intro _; left; rfl

/-- the invariant without its hypothesis: ONE crafted Remove(other) from a non-admin member breaks it at every receiver -/
def propsSelfOnly_full : Prop :=
  ∀ (L : Nat → Prop) (c : Cl) (x : PEv) (nx : Nat), PropsSelfOnly L c → LeaverIn L x → PropsSelfOnly L (deliverP c x nx).1

theorem propsSelfOnly_full_false : ¬ propsSelfOnly_full := by
  intro h
  have h2 := h (fun _ => True) wAdmin0 wXRemove 0 (pso_init 0 false 5 [0, 1, 2, 3] [0] 1) (fun _ => trivial)
  have h3 : (deliverP wAdmin0 wXRemove 0).1.g.xq = [] := h2.1.1
  revert h3; decide

/-- … and the admin's next operation — here an unrelated `add_members` — carries the non-admin's request out: "the admin's
    operation changes exactly what it names (modulo members' own leaves)" is false of the code (finding proposal-sweep,
    corpus/C05/proposal_sweep.trace) -/
def admin_op_exact_P_full : Prop :=
  ∀ (c : Cl) (n ts idn : Nat) (who : List Nat) (e : Ev), (addMembersP c n ts idn who).2 = .ev e → e.sweptX = []

theorem admin_op_exact_P_full_false : ¬ admin_op_exact_P_full := by
  intro h
  have h2 := h (deliverP wAdmin0 wXRemove 0).1 5 20 21 [8]
    { n := 5, ts := 20, idnum := 21, cipher := 5, sender := 0, path := [], kind := .commit (.addMembers [8]) [], sweptX := [QP.rm 1 3] } (by decide)
  revert h2; decide

theorem witness_proposal_sweep :
    (mergeP (addMembersP (deliverP wAdmin0 wXRemove 0).1 5 20 21 [8]).1).1.g.members = [0, 1, 2, 8] := by decide

/-! ### … at the level of `process_message` (every fuel, through rollback and re-processing) -/

/-- what `auto_commit_only_self_leave_deliver` concludes about receiver `c`, event `x` and the staged commit `ne` -/
def AutoOK (c : Cl) (x : PEv) (ne : Ev) : Prop :=
  propKind x = some (.remove x.e.sender) ∧ c.g.active = true ∧ isAdmin c.g c.id = true ∧ c.g.pending = none ∧
  ne.sender = c.id ∧ ne.path = c.g.path ∧ ne.kind = .commit .selfUpdate ((x.e.sender :: c.g.props).eraseDups) ∧
  ne.sweptX = c.g.xq ∧ c.id ∉ (x.e.sender :: c.g.props).eraseDups

theorem deliverOnceP_committed (retry : Cl → Option (Cl × Res)) (nx : Nat) (c : Cl) (x : PEv) (ne : Ev)
    (hretry : ∀ c1 r, retry c1 = some r → r.2 = .proposalCommitted ne → propKind x ≠ none)
    (h1 : (deliverOnceP retry nx c x).2 = .proposalCommitted ne) : AutoOK c x ne := by
  have h2 : (step1P retry nx c x).2 = .proposalCommitted ne := by
    unfold deliverOnceP at h1
    split at h1
    · split at h1
      · split at h1 <;> simp at h1
      · exact h1
    · exact h1
  obtain ⟨p, hp, hact, hpp⟩ := step1P_committed retry nx c x ne hretry h2
  obtain ⟨h1, h2, h3, h4, h5, h6, h7, _, _, h9, _⟩ := auto_commit_only_self_leave nx _ x.e p ne hpp
  subst h1
  exact ⟨hp, hact, by simpa [isAdmin] using h2, by simpa using h3, h4, by simpa using h5, by simpa using h6,
    by simpa using h7, by simpa using h9⟩

/-- **auto_commit_only_self_leave**, for `process_message` as a whole (every state, event, fuel): the call answers
    `Proposal(UpdateGroupResult)` — a commit was staged without anybody asking the application — ONLY for a member's Remove
    of its own leaf, at an active admin with no commit pending; the staged commit is the receiver's own, created in its
    current state, and references the sender's leave, the leaves queued before and the rest of the store -/
theorem auto_commit_only_self_leave_deliver (fuel nx : Nat) (c : Cl) (x : PEv) (ne : Ev)
    (h : (deliverNP fuel nx c x).2 = .proposalCommitted ne) : AutoOK c x ne := by
  induction fuel generalizing c with
  | zero => exact deliverOnceP_committed _ nx c x ne (by intro c1 r hr; cases hr) h
  | succ f ih =>
    refine deliverOnceP_committed _ nx c x ne ?_ h
    intro c1 r hr hrr
    have : r = deliverNP f nx c1 x := by simpa using hr.symm
    subst this
    rw [(ih c1 hrr).1]; simp

/-- `proposal_never_changes_roster` for `process_message` as a whole (dedup step included, every fuel): "proposals never take
    effect by themselves" -/
theorem proposal_never_changes_roster_deliver (fuel nx : Nat) (c : Cl) (x : PEv) (p : PK) (hk : propKind x = some p) :
    (deliverNP fuel nx c x).1.g.path = c.g.path ∧ (deliverNP fuel nx c x).1.g.members = c.g.members ∧
    rosterAndData (deliverNP fuel nx c x).1.g = rosterAndData c.g := by
  have key : ∀ retry, (deliverOnceP retry nx c x).1.g.path = c.g.path ∧ (deliverOnceP retry nx c x).1.g.members = c.g.members ∧
      rosterAndData (deliverOnceP retry nx c x).1.g = rosterAndData c.g := by
    intro retry
    have h := proposal_never_changes_roster retry nx c x p hk
    have h' : rosterAndData (step1P retry nx c x).1.g = rosterAndData c.g := by
      simp [rosterAndData, dataOf, h.2.1, h.2.2.1, h.2.2.2.1, h.2.2.2.2.1, h.2.2.2.2.2.1, h.2.2.2.2.2.2]
    unfold deliverOnceP
    split
    · split
      · exact ⟨rfl, rfl, rfl⟩
      · exact ⟨h.1, h.2.1, h'⟩
    · exact ⟨h.1, h.2.1, h'⟩
  cases fuel with
  | zero => exact key _
  | succ f => exact key _

/-! ### the tie between the two client models (proved in Proofs/Proposal.lean, restated so that they are obligations of this
    property): where no queued proposal is involved `Model.Proposal` IS `Model.Client`, so the theorems of C01 / C02 / C06 / C07 /
    C08 / C11 about `deliver` speak about the function the driver runs -/
theorem proposal_model_agrees_with_client (fuel nx : Nat) (c : Cl) (e : Ev) (hc : PendClean c) (hk : OldKind c.id e) :
    deliverNP fuel nx c { e := e } = deliverN fuel nx c e := deliverNP_agrees fuel nx c e hc hk

theorem proposal_model_agrees_leave_nonadmin (r1 r2 : Cl → Option (Cl × Res)) (nx : Nat) (c : Cl) (e : Ev) (hk : e.kind = .leave)
    (hna : isAdmin c.g c.id = false) : step1P r1 nx c { e := e } = step1 r2 nx c e := step1P_leave_nonadmin r1 r2 nx c e hk hna

theorem proposal_model_agrees_ops (c : Cl) (n ts idn : Nat) :
    (∀ b na, c.g.xq = [] → c.g.props.contains c.id = false → stageCommitP c n ts idn b na = stageCommit c n ts idn b na) ∧
    (∀ mid mts tok, c.g.xq = [] → sendP c n ts idn mid mts tok = send c n ts idn mid mts tok) ∧
    (PendClean c → mergeP c = merge c) :=
  ⟨fun b na h1 h2 => stageCommitP_agrees c n ts idn b na h1 h2, fun mid mts tok h => sendP_agrees c n ts idn mid mts tok h,
   fun h => mergeP_agrees c h⟩

/-- non-vacuity: the chain / fork witnesses of C01 and C06 are such events at such clients -/
example : PendClean C06.wAfterGood ∧ OldKind C06.wAfterGood.id C06.wEvil ∧ OldKind 2 C06.wGood := by
  refine ⟨⟨by decide, by decide⟩, ⟨rfl, ?_⟩, ⟨rfl, ?_⟩⟩
  · show [] = [] ∧ removesMe C06.wAfterGood.id _ [] = false; exact ⟨rfl, rfl⟩
  · show [] = [] ∧ removesMe 2 _ [] = false; exact ⟨rfl, rfl⟩

end Proposals

/-! ## "No accepted commit or proposal changes the Nostr identity bound to an existing member"  (Model.Identity, §13.18)

  An EXISTING MEMBER of a commit is a leaf that is occupied before the commit and is not named by a Remove proposal of the commit: it
  is the same member before and after.  A leaf that a commit removes and re-fills with an Add is a roster change (admin only:
  `roster_change_admin_only`), not a member whose identity changed — `leaf_identity_full_false` shows that the cruder reading
  "the identity at an occupied leaf index never changes" is false of the code, and of MLS.

  Every theorem is stated for `Identity.codeShape`, the shape of `validate_commit_identities` / `process_commit` / `process_proposal`
  REGENERATED from the source (tools/gen_model.py: which proposal iterators are read, that stored and proposed identity — both
  `parse_credential_identity(BasicCredential.identity())` — are compared and the refusal propagated, authorisation → identities →
  merge), and proved by transporting along `decide : codeShape = provedShape`: a source in which a comparison is deleted
  (mutant M0357) or the order changes no longer satisfies them. -/
section Identity
open MdkVerif.Identity in
/-- the shape of the source is the shape these theorems were proved for -/
theorem identity_shape_as_proved : Identity.codeShape = Identity.provedShape := by decide

/-- **accept_iff_no_identity_change**: `validate_commit_identities` passes EXACTLY when no Update proposal of the staged commit (by
    a member whose leaf is occupied) and not its update path (committer a member whose leaf is occupied) carries a credential whose
    parsed Nostr identity differs from the one parsed from the leaf's stored credential — and all credentials involved parse -/
theorem accept_iff_no_identity_change (t : Identity.Tree) (s : Identity.Staged) :
    Identity.validateCommitIdentities Identity.codeShape t s = .ok () ↔ Identity.NoIdentityChange t s := by
  have h : Identity.codeShape = Identity.provedShape := by decide
  rw [h]; exact Identity.validateCommitIdentities_ok_iff t s

/-- the head of `process_commit` as a whole: authorisation AND no identity change -/
theorem commit_accept_iff (st : Identity.St) (s : Identity.Staged) :
    Identity.mdkValidate Identity.codeShape st s = .ok () ↔
      (Identity.validateAuthorization st s = .ok () ∧ Identity.NoIdentityChange st.tree s) := by
  have h : Identity.codeShape = Identity.provedShape := by decide
  rw [h]; exact Identity.mdkValidate_ok_iff st s

/-- **identity_preserved**: ALL group states, ALL staged commits, any rule set of the MLS library: if the commit is accepted, every
    existing member (leaf occupied before, not named by a Remove of the commit) is still there afterwards and its credential is
    the old one or one with the same Nostr identity; and a refused commit changes nothing at all -/
theorem identity_preserved (R : Identity.MlsRules) (st : Identity.St) (s : Identity.Staged) :
    ((Identity.processCommit Identity.codeShape R st s).2 = .ok () →
      ∀ l c, Identity.lookup l st.tree = some c → Identity.removed s l = false →
        ∃ c', Identity.lookup l (Identity.processCommit Identity.codeShape R st s).1.tree = some c' ∧ Identity.KeepsId c c') ∧
    ((Identity.processCommit Identity.codeShape R st s).2 ≠ .ok () → (Identity.processCommit Identity.codeShape R st s).1 = st) := by
  have h : Identity.codeShape = Identity.provedShape := by decide
  rw [h]
  unfold Identity.processCommit
  by_cases ha : Identity.mlsAdmits R st s = true
  · simp only [ha, Bool.not_true, Bool.false_eq_true, if_false]
    cases hv : Identity.mdkValidate Identity.provedShape st s with
    | error e => exact ⟨fun hh => (by cases hh), fun _ => rfl⟩
    | ok u =>
      cases u
      refine ⟨fun _ l c h0 hr => ?_, fun hh => absurd rfl hh⟩
      exact Identity.applyCommit_keeps st.tree s ((Identity.mdkValidate_ok_iff st s).1 hv).2 l c h0 hr
  · have ha' : Identity.mlsAdmits R st s = false := by simpa using ha
    simp [ha']

/-- the member LIST read off the tree (`get_members`): an identity that was a member and whose leaf is not removed is still listed -/
theorem existing_member_keeps_its_identity (R : Identity.MlsRules) (st : Identity.St) (s : Identity.Staged) (l : Identity.Leaf)
    (i k : Nat) (h0 : Identity.lookup l st.tree = some (.basic i k)) (hr : Identity.removed s l = false)
    (hacc : (Identity.processCommit Identity.codeShape R st s).2 = .ok ()) :
    ∃ k', Identity.lookup l (Identity.processCommit Identity.codeShape R st s).1.tree = some (.basic i k') := by
  obtain ⟨c', h1, hk⟩ := (identity_preserved R st s).1 hacc l _ h0 hr
  rcases hk with e | ⟨j, e1, e2⟩
  · exact ⟨k, by rw [h1, e]⟩
  · cases c' with
    | basic i' k' =>
      simp [Identity.credIdentity] at e1 e2
      have : i' = i := e2.trans e1.symm
      subst this; exact ⟨k', h1⟩
    | badId n => simp [Identity.credIdentity] at e2
    | notBasic n => simp [Identity.credIdentity] at e2

/-- stand-alone proposals: `process_proposal` never touches the tree (nor the admins), whatever the proposal and whatever it stores -/
theorem proposal_keeps_every_identity (st : Identity.St) (q : Identity.QProp) :
    (Identity.processProposal Identity.codeShape st q).tree = st.tree ∧
    (Identity.processProposal Identity.codeShape st q).admins = st.admins := Identity.processProposal_tree _ st q

/-- mdk does not look at a stand-alone Update proposal at all: it is answered `IgnoredProposal` and NOT stored, so the proposal store
    of a receiver never holds an Update (invariant over proposals and commits) … -/
theorem update_proposal_never_stored (R : Identity.MlsRules) (st : Identity.St) (h : Identity.StoreNoUpdate st) :
    (∀ q, Identity.StoreNoUpdate (Identity.processProposal Identity.codeShape st q)) ∧
    (∀ s, Identity.StoreNoUpdate (Identity.processCommit Identity.codeShape R st s).1) := by
  have hs : Identity.codeShape = Identity.provedShape := by decide
  rw [hs]
  exact ⟨fun q => Identity.processProposal_store st q h, fun s => Identity.processCommit_store _ R st s h⟩

/-- … hence, under OpenMLS 0.8.1's rules (an inline Update is refused; a by-reference proposal must be in the receiver's store), NO
    staged commit that reaches `process_commit` carries an Update proposal: the per-proposal comparison of
    `validate_commit_identities` is unreachable on a stock receiver, the update path is the one live channel, and the accept
    decision is authorisation + the path comparison -/
theorem update_loop_unreachable (st : Identity.St) (s : Identity.Staged) (h : Identity.StoreNoUpdate st)
    (ha : Identity.mlsAdmits Identity.openmls081 st s = true) :
    s.props.filter Identity.isUpdate = [] ∧
    (Identity.validateCommitIdentities Identity.codeShape st.tree s = .ok () ↔ Identity.PathKeeps st.tree s) := by
  have hn := Identity.no_update_reaches_mdk st s h ha
  refine ⟨hn, ?_⟩
  rw [accept_iff_no_identity_change]
  refine ⟨fun x => x.2, fun x => ⟨?_, x⟩⟩
  intro q hq c l cur e1 _ _
  have : q ∈ s.props.filter Identity.isUpdate := List.mem_filter.2 ⟨hq, by simp [Identity.isUpdate, e1]⟩
  rw [hn] at this; cases this

/-! ### closed witnesses: group of three (leaves 0 1 2, identities 10 11 12, admin 10), one comparison each -/
def iTree : Identity.Tree := [(0, .basic 10 100), (1, .basic 11 101), (2, .basic 12 102)]
def iSt : Identity.St := { tree := iTree, admins := [10], store := [] }
/-- member 1 (not an admin): a commit without proposals whose path keeps / changes the identity (fresh signature key both times) -/
def iPathSame : Identity.Staged := { sender := .member 1, props := [], path := some (.basic 11 201) }
def iPathOther : Identity.Staged := { sender := .member 1, props := [], path := some (.basic 99 201) }
/-- the identity of ANOTHER member (12) on one's own leaf -/
def iPathSteal : Identity.Staged := { sender := .member 1, props := [], path := some (.basic 12 201) }
/-- admin 0 commits member 2's Update proposal by reference (receiver holding it in its store): same / other identity -/
def iUpdSame : Identity.QProp := { p := .update (.basic 12 202), sender := .member 2, byRef := true }
def iUpdOther : Identity.QProp := { p := .update (.basic 77 202), sender := .member 2, byRef := true }
def iRefSame : Identity.Staged := { sender := .member 0, props := [iUpdSame], path := some (.basic 10 200) }
def iRefOther : Identity.Staged := { sender := .member 0, props := [iUpdOther], path := some (.basic 10 200) }

/-- the two accepted commits differ from the two refused ones ONLY in the identity of one credential -/
theorem witness_path_comparison :
    Identity.mdkValidate Identity.codeShape iSt iPathSame = .ok () ∧
    Identity.mdkValidate Identity.codeShape iSt iPathOther = .error .identityChange ∧
    Identity.mdkValidate Identity.codeShape iSt iPathSteal = .error .identityChange ∧
    Identity.mlsAdmits Identity.openmls081 iSt iPathOther = true := by decide

theorem witness_update_comparison :
    Identity.mdkValidate Identity.codeShape { iSt with store := [iUpdSame] } iRefSame = .ok () ∧
    Identity.mdkValidate Identity.codeShape { iSt with store := [iUpdOther] } iRefOther = .error .identityChange ∧
    Identity.mlsAdmits Identity.openmls081 { iSt with store := [iUpdOther] } iRefOther = true ∧
    -- … but a stock receiver never stored the proposal: OpenMLS refuses the commit, honest or not
    (Identity.processCommit Identity.codeShape Identity.openmls081 iSt iRefSame).2 = .error .mls ∧
    (Identity.processCommit Identity.codeShape Identity.openmls081 iSt iRefOther).2 = .error .mls := by decide

/-- what each comparison is worth: with it deleted (the shape of mutant M0357 / M0108) the identity-changing commit is accepted, the
    MLS library does not object, and leaf 1 / leaf 2 is bound to a foreign identity afterwards; had the MLS library refused
    credential changes itself (`refusesCredChange`), mdk's comparison would be redundant — it does not -/
theorem witness_comparison_is_the_only_guard :
    (Identity.processCommit { Identity.provedShape with pathCompared := false } Identity.openmls081 iSt iPathOther).2 = .ok () ∧
    Identity.lookup 1 (Identity.processCommit { Identity.provedShape with pathCompared := false } Identity.openmls081 iSt iPathOther).1.tree
      = some (.basic 99 201) ∧
    (Identity.processCommit { Identity.provedShape with updateCompared := false } Identity.openmls081 { iSt with store := [iUpdOther] } iRefOther).2 = .ok () ∧
    (Identity.processCommit { Identity.provedShape with identitiesChecked := false } Identity.openmls081 iSt iPathOther).2 = .ok () ∧
    (Identity.processCommit { Identity.provedShape with pathCompared := false } { Identity.openmls081 with refusesCredChange := true } iSt iPathOther).2
      = .error .mls := by decide

/-- the order authorisation → identities matters: `validate_commit_identities` alone lets an external committer's or a blank leaf's
    path through (`if let … && let Some(..)` without `else`); authorisation, which runs first, refuses both as `MessageFromNonMember` -/
theorem witness_authorisation_closes_the_fallthrough :
    Identity.validateCommitIdentities Identity.codeShape iTree { sender := .newMemberCommit, props := [], path := some (.basic 99 1) } = .ok () ∧
    Identity.validateCommitIdentities Identity.codeShape iTree { sender := .member 5, props := [], path := some (.basic 99 1) } = .ok () ∧
    Identity.mdkValidate Identity.codeShape iSt { sender := .newMemberCommit, props := [], path := some (.basic 99 1) } = .error .nonMember ∧
    Identity.mdkValidate Identity.codeShape iSt { sender := .member 5, props := [], path := some (.basic 99 1) } = .error .nonMember := by decide

/-- an Add of an identity that IS a member (second leaf for identity 11) is not looked at by `validate_commit_identities`: an admin's
    commit is accepted, no existing leaf changes, the member list (a set) is unchanged; a non-admin's is refused by authorisation -/
theorem witness_add_of_present_identity :
    (Identity.processCommit Identity.codeShape Identity.openmls081 iSt
        { sender := .member 0, props := [{ p := .add (.basic 11 301), sender := .member 0, byRef := false }], path := some (.basic 10 200) }).2 = .ok () ∧
    (Identity.processCommit Identity.codeShape Identity.openmls081 iSt
        { sender := .member 0, props := [{ p := .add (.basic 11 301), sender := .member 0, byRef := false }], path := some (.basic 10 200) }).1.tree
      = [(0, .basic 10 200), (3, .basic 11 301), (1, .basic 11 101), (2, .basic 12 102)] ∧
    (Identity.processCommit Identity.codeShape Identity.openmls081 iSt
        { sender := .member 1, props := [{ p := .add (.basic 11 301), sender := .member 1, byRef := false }], path := some (.basic 11 201) }).2 = .error .nonAdmin := by decide

/-- the cruder reading — "the identity at a leaf index that is occupied before and after never changes" -/
def leaf_identity_full : Prop :=
  ∀ (st : Identity.St) (s : Identity.Staged), (Identity.processCommit Identity.codeShape Identity.openmls081 st s).2 = .ok () →
    ∀ l c c', Identity.lookup l st.tree = some c →
      Identity.lookup l (Identity.processCommit Identity.codeShape Identity.openmls081 st s).1.tree = some c' → Identity.KeepsId c c'

/-- an admin's Remove(1) + Add(new identity 50) in ONE commit: OpenMLS puts the newcomer on the leaf just freed.  Accepted; leaf 1 now
    carries identity 50.  That is a roster change by an admin (member 11 is gone, member 50 is new), not an identity change of an
    existing member; `identity_preserved` excludes exactly the leaves the commit removes -/
def iRemoveAdd : Identity.Staged :=
  { sender := .member 0, path := some (.basic 10 200),
    props := [{ p := .remove 1, sender := .member 0, byRef := false }, { p := .add (.basic 50 500), sender := .member 0, byRef := false }] }

theorem leaf_identity_full_false : ¬ leaf_identity_full := by
  intro h
  have := h iSt iRemoveAdd (by decide) 1 (.basic 11 101) (.basic 50 500) (by decide) (by decide)
  rcases this with e | ⟨i, e1, e2⟩
  · cases e
  · injection e1 with e1; injection e2 with e2
    exact absurd (e1.trans e2.symm) (by decide)

/-- … and the same commit from a non-admin is refused, so the re-use needs an admin -/
def iRemoveAddNonAdmin : Identity.Staged :=
  { sender := .member 2, path := some (.basic 12 200),
    props := [{ p := .remove 1, sender := .member 2, byRef := false }, { p := .add (.basic 50 500), sender := .member 2, byRef := false }] }

theorem witness_remove_add_needs_admin :
    (Identity.processCommit Identity.codeShape Identity.openmls081 iSt iRemoveAddNonAdmin).2 = .error .nonAdmin := by decide

/-- non-vacuity of `identity_preserved`'s hypotheses: an accepted commit with a surviving leaf whose credential DOES change (new
    signature key, same identity), beside a removed and re-filled leaf -/
example : (Identity.processCommit Identity.codeShape Identity.openmls081 iSt iRemoveAdd).2 = .ok () ∧
    Identity.removed iRemoveAdd 0 = false ∧ Identity.removed iRemoveAdd 1 = true ∧
    Identity.lookup 0 (Identity.processCommit Identity.codeShape Identity.openmls081 iSt iRemoveAdd).1.tree = some (.basic 10 200) ∧
    Identity.StoreNoUpdate iSt := by
  refine ⟨by decide, by decide, by decide, by decide, ?_⟩
  intro q hq; cases hq

end Identity

end MdkVerif.Props.C05
