import MdkVerif.Model.Client
import MdkVerif.Proofs.Client
import MdkVerif.Props.C06
/-
  C05 — Only admins change roster or group data; identities never change.  Decision logic of
  `process_commit` / `process_proposal` stated outright over the client model (commit contents are the
  model's `Body` + swept proposals; identities are the model's client numbers, which no operation of the
  model rewrites: identity changes are rejected by OpenMLS/`validate_commit_identities`, exercised by
  the harness's adversarial commits, not re-modelled).
-/
namespace MdkVerif.Props.C05
open MdkVerif MdkVerif.Client

/-- **accept_iff**: a commit for the receiver's current epoch passes authorisation exactly when its
    MLS-authenticated author is an admin, or it is a pure self-update (an update signal, no proposal
    other than the author's own update, nothing swept in) -/
theorem accept_iff (c : Cl) (e : Ev) (b : Body) (sw : List Nat) :
    (processCommit c e b sw).2 = .commit ↔ (isAdmin c.g e.sender = true ∨ isPureSelfUpdate b sw = true) := by
  unfold processCommit
  by_cases h : (isAdmin c.g e.sender || isPureSelfUpdate b sw) = true
  · simp only [h, Bool.not_true, Bool.false_eq_true, if_false]
    constructor
    · intro _; simpa using h
    · intro _; split <;> rfl
  · have h' : (isAdmin c.g e.sender || isPureSelfUpdate b sw) = false := by simpa using h
    simp only [h', Bool.not_false, if_true]
    constructor
    · intro hh; cases hh
    · intro hh; simp at h'; rcases hh with hh | hh <;> simp_all

/-- a rejected commit is reported as `CommitFromNonAdmin` and leaves the projection untouched -/
theorem reject_frame (c : Cl) (e : Ev) (b : Body) (sw : List Nat)
    (h : (isAdmin c.g e.sender || isPureSelfUpdate b sw) = false) :
    (processCommit c e b sw).2 = .err eNonAdmin ∧ proj (processCommit c e b sw).1 = proj c := by
  unfold processCommit
  simp [h]

/-- the group data of an MLS state (the whole `NostrGroupDataExtension` as modelled) and the roster -/
def rosterAndData (g : GState) : List Nat × GData := (g.members, dataOf g)

/-- **nonadmin_effect**: an ACCEPTED commit whose author is not an admin (in the RECEIVER's current state)
    changes neither the member set, nor the admin set, nor any other field of the group data (name,
    description, relays, nostr group id) — in the MLS state and in the stored record alike -/
theorem nonadmin_effect (c : Cl) (e : Ev) (b : Body) (sw : List Nat)
    (hna : isAdmin c.g e.sender = false) (hacc : (processCommit c e b sw).2 = .commit)
    (hk : e.kind = .commit b sw) :
    (processCommit c e b sw).1.g.members = c.g.members ∧ (processCommit c e b sw).1.g.admins = c.g.admins ∧
    (processCommit c e b sw).1.g.name = c.g.name ∧ (processCommit c e b sw).1.g.desc = c.g.desc ∧
    (processCommit c e b sw).1.g.relays = c.g.relays ∧ (processCommit c e b sw).1.g.nid = c.g.nid ∧
    (processCommit c e b sw).1.g.recAdmins = c.g.admins ∧ (processCommit c e b sw).1.g.recName = c.g.name ∧
    (processCommit c e b sw).1.g.recDesc = c.g.desc ∧ (processCommit c e b sw).1.g.recRelays = c.g.relays ∧
    (processCommit c e b sw).1.g.recNid = c.g.nid := by
  have hp : isPureSelfUpdate b sw = true := by
    rcases (accept_iff c e b sw).mp hacc with h | h
    · rw [hna] at h; cases h
    · exact h
  have hb : b = .selfUpdate ∧ sw = [] := by
    cases b <;> simp [isPureSelfUpdate] at hp
    exact ⟨rfl, by simpa using hp⟩
  obtain ⟨rfl, rfl⟩ := hb
  unfold processCommit
  have hme : removesMe c.id .selfUpdate [] = false := rfl
  simp only [hna, hp, hme, Bool.or_true, Bool.not_true, Bool.false_eq_true, if_false]
  have hf := fun g => ensureSecret_fields g
  have hd := fun g => ensureSecret_data g
  simp [setRec, syncRec, mergeCommit, hk, applyBody, mgrCreate, (hf _).2.1, (hf _).2.2.1, (hf _).2.2.2.1,
    (hd _).1, (hd _).2.1, (hd _).2.2.1]

/-- the same as one equation: roster and group data after = before -/
theorem nonadmin_effect_data (c : Cl) (e : Ev) (b : Body) (sw : List Nat)
    (hna : isAdmin c.g e.sender = false) (hacc : (processCommit c e b sw).2 = .commit)
    (hk : e.kind = .commit b sw) : rosterAndData (processCommit c e b sw).1.g = rosterAndData c.g := by
  obtain ⟨h1, h2, h3, h4, h5, h6, _⟩ := nonadmin_effect c e b sw hna hacc hk
  simp [rosterAndData, dataOf, h1, h2, h3, h4, h5, h6]

/-- **data_update_admin_only**: `update_group_data` publishes a commit only if the caller is an admin in its
    OWN current MLS state, a new admin set (if given) is non-empty and consists of current members, and no
    commit is pending; the commit then carries exactly the caller's current extension with the named fields
    replaced (admins / relays as sets) -/
theorem data_update_admin_only (c : Cl) (n ts idn : Nat) (u : DataUpd) (e : Ev)
    (h : (updateData c n ts idn u).2 = .ev e) :
    c.g.active = true ∧ isAdmin c.g c.id = true ∧ c.g.pending = none ∧
    (∀ a, u.admins = some a → a ≠ [] ∧ ∀ x ∈ a, x ∈ c.g.members) ∧
    e.sender = c.id ∧ e.path = c.g.path ∧
    e.kind = .commit (.setData (applyUpd (dataOf c.g) u)) c.g.props := by
  unfold updateData at h
  cases hg : c.hasGroup with
  | false => rw [hg] at h; cases h
  | true =>
    rw [hg] at h
    simp only [Bool.not_true, Bool.false_eq_true, if_false] at h
    cases hv : adminsArgBad c.g u with
    | true => rw [hv] at h; cases h
    | false =>
      rw [hv] at h
      simp only [Bool.false_eq_true, if_false] at h
      unfold stageCommit at h
      rw [hg] at h
      simp only [Bool.not_true, Bool.false_eq_true, if_false, Bool.true_and] at h
      cases hact : c.g.active with
      | false => rw [hact] at h; cases h
      | true =>
      rw [hact] at h
      simp only [Bool.not_true, Bool.false_eq_true, if_false] at h
      cases hadm : isAdmin c.g c.id with
      | false => rw [hadm] at h; cases h
      | true =>
        rw [hadm] at h
        simp only [Bool.not_true, Bool.false_eq_true, if_false] at h
        cases hpend : c.g.pending with
        | some p => rw [hpend] at h; cases h
        | none =>
          rw [hpend] at h
          simp only [Option.isSome_none, Bool.false_eq_true, if_false] at h
          injection h with h; subst h
          refine ⟨rfl, rfl, rfl, ?_, rfl, ensureSecret_path _, by simp⟩
          intro a ha
          simp only [adminsArgBad, ha] at hv
          have hv' : adminUpdateOk c.g a = true := by simpa using hv
          simp only [adminUpdateOk, Bool.and_eq_true, Bool.not_eq_true', List.all_eq_true] at hv'
          constructor
          · intro h0; subst h0; simp at hv'
          · intro x hx
            simpa using hv'.2 x hx

/-- **roster_change_admin_only**: `add_members` / `remove_members` publish a commit only if the caller is an
    active member and an admin in its OWN current MLS state and no commit is pending; an add needs a stored relay and
    nobody who is a member already; a removal names exactly the listed members that ARE members (at least one) -/
theorem roster_change_admin_only (c : Cl) (n ts idn : Nat) (who : List Nat) (e : Ev) :
    ((addMembers c n ts idn who).2 = .ev e →
      c.g.active = true ∧ isAdmin c.g c.id = true ∧ c.g.pending = none ∧ c.g.recRelays ≠ [] ∧
      (∀ x ∈ who, x ∉ c.g.members) ∧ e.kind = .commit (.addMembers who) c.g.props) ∧
    ((removeMembers c n ts idn who).2 = .ev e →
      c.g.active = true ∧ isAdmin c.g c.id = true ∧ c.g.pending = none ∧
      who.filter (fun m => c.g.members.contains m) ≠ [] ∧
      e.kind = .commit (.removeLeavers (who.filter (fun m => c.g.members.contains m))) c.g.props) := by
  have stage : ∀ b, (stageCommit c n ts idn b true).2 = .ev e →
      c.g.active = true ∧ isAdmin c.g c.id = true ∧ c.g.pending = none ∧ e.kind = .commit b c.g.props := by
    intro b h
    unfold stageCommit at h
    cases hg : c.hasGroup with
    | false => rw [hg] at h; cases h
    | true =>
      rw [hg] at h
      simp only [Bool.not_true, Bool.false_eq_true, if_false, Bool.true_and] at h
      cases hact : c.g.active with
      | false => rw [hact] at h; cases h
      | true =>
        rw [hact] at h
        simp only [Bool.not_true, Bool.false_eq_true, if_false] at h
        cases hadm : isAdmin c.g c.id with
        | false => rw [hadm] at h; cases h
        | true =>
          rw [hadm] at h
          simp only [Bool.not_true, Bool.false_eq_true, if_false] at h
          cases hpend : c.g.pending with
          | some p => rw [hpend] at h; cases h
          | none =>
            rw [hpend] at h
            simp only [Option.isSome_none, Bool.false_eq_true, if_false] at h
            injection h with h; subst h
            exact ⟨rfl, rfl, rfl, by simp⟩
  constructor
  · intro h
    unfold addMembers at h
    split at h
    · cases h
    · split at h
      · cases h
      · split at h
        · cases h
        · split at h
          · cases h
          · split at h
            · cases h
            · rename_i _ _ _ hrel hany
              obtain ⟨h1, h2, h3, h4⟩ := stage _ h
              refine ⟨h1, h2, h3, ?_, ?_, h4⟩
              · intro h0; rw [h0] at hrel; exact hrel rfl
              · intro x hx hm
                apply hany
                simp only [List.any_eq_true]
                exact ⟨x, hx, by simpa using hm⟩
  · intro h
    unfold removeMembers at h
    split at h
    · cases h
    · split at h
      · cases h
      · split at h
        · cases h
        · split at h
          · cases h
          · rename_i _ _ _ hemp
            obtain ⟨h1, h2, h3, h4⟩ := stage _ h
            refine ⟨h1, h2, h3, ?_, h4⟩
            intro h0; rw [h0] at hemp; exact hemp rfl

/-- **joiner_state**: the state a welcome gives the new member is the inviter's post-commit state — the same path,
    roster (old members, the added ones, minus the swept leavers), group data and record epoch every receiver of
    the add commit reaches (`childG`) — with nothing of the past: no stored exporter secret, no past-epoch secrets,
    nothing consumed, queued or pending -/
theorem joiner_state (c : Cl) (e : Ev) (who sw : List Nat) (hk : e.kind = .commit (.addMembers who) sw) :
    let j := welcomeState c.maxPast (ensureSecret c.g) e
    j.path = c.g.path ++ [e.cipher] ∧
    j.members = (c.g.members ++ who.filter (fun m => !(c.g.members.contains m))).filter (fun m => !(sw.contains m)) ∧
    dataOf j = dataOf c.g ∧ Synced j ∧ j.active = true ∧
    j.secrets = [] ∧ j.past = [] ∧ j.consumed = [] ∧ j.props = [] ∧ j.pending = none := by
  have e1 := ensureSecret_fields c.g
  have e2 := ensureSecret_data c.g
  refine ⟨?_, ?_, ?_, ?_, rfl, rfl, rfl, rfl, rfl, rfl⟩
  · simp [welcomeState, joinState, syncRec, mergeCommit, hk, applyBody, e1.1]
  · simp [welcomeState, joinState, syncRec, mergeCommit, hk, applyBody, e1.2.1]
  · simp [welcomeState, joinState, syncRec, mergeCommit, hk, applyBody, dataOf, e1.2.2.1, e1.2.2.2.1, e2.1, e2.2.1, e2.2.2.1]
  · have := synced_syncRec (mergeCommit c.maxPast (ensureSecret c.g) e)
    simpa [welcomeState, joinState, Synced] using this

/-- **proposal_inert**: a processed leave proposal never changes epoch, members, admins or data by
    itself; a non-admin receiver only queues it -/
theorem proposal_inert (retry : Cl → Option (Cl × Res)) (nx : Nat) (c : Cl) (e : Ev) (hk : e.kind = .leave) :
    (step1 retry nx c e).1.g.path = c.g.path ∧ (step1 retry nx c e).1.g.members = c.g.members ∧
    (step1 retry nx c e).1.g.admins = c.g.admins ∧ (step1 retry nx c e).1.g.name = c.g.name ∧
    (step1 retry nx c e).1.g.desc = c.g.desc ∧ (step1 retry nx c e).1.g.relays = c.g.relays ∧
    (step1 retry nx c e).1.g.nid = c.g.nid := by
  have hf := ensureSecret_fields
  have hd := ensureSecret_data
  have hw : (withSecret c).g.path = c.g.path ∧ (withSecret c).g.members = c.g.members ∧
      (withSecret c).g.admins = c.g.admins ∧ (withSecret c).g.name = c.g.name ∧
      (withSecret c).g.desc = c.g.desc ∧ (withSecret c).g.relays = c.g.relays ∧ (withSecret c).g.nid = c.g.nid := by
    simp [withSecret, (hf c.g).1, (hf c.g).2.1, (hf c.g).2.2.1, (hf c.g).2.2.2.1, (hd c.g).1, (hd c.g).2.1, (hd c.g).2.2.1]
  unfold step1
  split
  · simp [recordFailure, setRec]
  · split
    · simp [recordFailure, setRec]
    · simp only
      split
      · simpa [recordFailure, setRec] using hw
      · simp only [hk]
        split
        · simpa [failUnprocessable, recordFailure, setRec] using hw
        · split
          · unfold ownMessage
            repeat' split
            all_goals first | (simpa [setRec, returnOwnCommit, syncRec] using hw)
          · split
            · simpa [failUnprocessable, recordFailure, setRec] using hw
            · split
              · simp only [setRec, ensureSecret_path, ensureSecret_members, ensureSecret_admins, ensureSecret_name,
                  ensureSecret_desc, ensureSecret_relays, ensureSecret_nid]
                exact hw
              · simpa [setRec] using hw

/-- the known sweep: a commit staged by an admin carries every queued proposal, whoever made it
    (openmls commit builders consume the proposal store) — the full "an admin's operation changes
    exactly what it names" is therefore false of the code; witness: a queued leave of member 2 is
    carried out by an unrelated rename -/
def admin_op_exact_full : Prop :=
  ∀ (c : Cl) (n ts idn : Nat) (u : DataUpd), ∀ e, (updateData c n ts idn u).2 = .ev e →
    e.kind = .commit (.setData (applyUpd (dataOf c.g) u)) []

theorem admin_op_exact_partial (c : Cl) (n ts idn : Nat) (u : DataUpd) (e : Ev) (hp : c.g.props = [])
    (h : (updateData c n ts idn u).2 = .ev e) : e.kind = .commit (.setData (applyUpd (dataOf c.g) u)) [] := by
  rw [(data_update_admin_only c n ts idn u e h).2.2.2.2.2.2, hp]

def wAdmin : Cl := { initCl 0 false 5 [0, 1, 2] [0] 1 with g := { (initG [0, 1, 2] [0] 1) with props := [2] } }
theorem admin_op_exact_full_false : ¬ admin_op_exact_full := by
  intro h
  have := h wAdmin 5 10 10 { name := some 9 } { n := 5, ts := 10, idnum := 10, cipher := 5, sender := 0, path := [], kind := .commit (.setData { initData [0] 1 with name := 9 }) [2] } (by decide)
  revert this; decide

/-! ### the admin set can change: authorisation follows the receiver's CURRENT state -/

/-- admins 0 and 1; admin 0 demotes 1 (new admin set [0]); afterwards a rename by 1 — created by the
    demoted client in the new epoch, e.g. with the MLS library directly — is refused, while the same client's
    pure self-update is still accepted -/
def wTwo : Cl := initCl 2 false 5 [0, 1, 2] [0, 1] 1
def wDemote : Ev := { n := 1, ts := 10, idnum := 5, cipher := 1, sender := 0, path := [], kind := .commit (.setData { initData [0] 1 with name := 1 }) [] }
def wLateRename : Ev := { n := 2, ts := 20, idnum := 6, cipher := 2, sender := 1, path := [1], kind := .commit (.setData { initData [0, 1] 1 with name := 7 }) [] }
def wLateUpdate : Ev := { n := 3, ts := 20, idnum := 7, cipher := 3, sender := 1, path := [1], kind := .commit .selfUpdate [] }
theorem witness_demoted_admin_refused :
    (deliver wTwo wDemote 0).2 = .commit ∧ (deliver wTwo wDemote 0).1.g.admins = [0] ∧
    (deliver (deliver wTwo wDemote 0).1 wLateRename 0).2 = .err eNonAdmin ∧
    (deliver (deliver wTwo wDemote 0).1 wLateRename 0).1.g.admins = [0] ∧
    (deliver (deliver wTwo wDemote 0).1 wLateUpdate 0).2 = .commit := by decide

/-- … and a member promoted by an admin's commit may change the data from the next epoch on -/
def wPromote : Ev := { n := 1, ts := 10, idnum := 5, cipher := 1, sender := 0, path := [], kind := .commit (.setData (initData [0, 1] 1)) [] }
def wOne : Cl := initCl 2 false 5 [0, 1, 2] [0] 1
theorem witness_promoted_member_accepted :
    (deliver wOne { wLateRename with path := [] } 0).2 = .err eNonAdmin ∧
    (deliver (deliver wOne wPromote 0).1 wLateRename 0).2 = .commit ∧
    (deliver (deliver wOne wPromote 0).1 wLateRename 0).1.g.name = 7 := by decide

end MdkVerif.Props.C05
