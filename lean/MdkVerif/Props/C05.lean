import MdkVerif.Model.Client
import MdkVerif.Proofs.Client
import MdkVerif.Props.C06
/-
  C05 — Only admins change roster or group data; identities never change.  Decision logic of
  `process_commit` / `process_proposal` stated outright over the client model (commit contents are the
  model's `Body` + swept proposals; identities are the model's client numbers, which no operation of the
  model rewrites: identity changes are rejected by OpenMLS/`validate_commit_identities`, exercised by
  the harness's adversarial commits, not re-modelled).
-/
namespace MdkVerif.Props.C05
open MdkVerif MdkVerif.Client

/-- **accept_iff**: a commit for the receiver's current epoch passes authorisation exactly when its
    MLS-authenticated author is an admin, or it is a pure self-update (an update signal, no proposal
    other than the author's own update, nothing swept in) -/
theorem accept_iff (c : Cl) (e : Ev) (b : Body) (sw : List Nat) :
    (processCommit c e b sw).2 = .commit ↔ (isAdmin c.g e.sender = true ∨ isPureSelfUpdate b sw = true) := by
  unfold processCommit
  by_cases h : (isAdmin c.g e.sender || isPureSelfUpdate b sw) = true
  · simp only [h, Bool.not_true, Bool.false_eq_true, if_false, true_iff]
    simpa using h
  · have h' : (isAdmin c.g e.sender || isPureSelfUpdate b sw) = false := by simpa using h
    simp only [h', Bool.not_false, if_true]
    constructor
    · intro hh; cases hh
    · intro hh; simp at h'; rcases hh with hh | hh <;> simp_all

/-- a rejected commit is reported as `CommitFromNonAdmin` and leaves the projection untouched -/
theorem reject_frame (c : Cl) (e : Ev) (b : Body) (sw : List Nat)
    (h : (isAdmin c.g e.sender || isPureSelfUpdate b sw) = false) :
    (processCommit c e b sw).2 = .err eNonAdmin ∧ proj (processCommit c e b sw).1 = proj c := by
  unfold processCommit
  simp [h]

/-- **nonadmin_effect**: an ACCEPTED commit whose author is not an admin changes neither the member
    set, nor the admin set, nor the group data -/
theorem nonadmin_effect (c : Cl) (e : Ev) (b : Body) (sw : List Nat)
    (hna : isAdmin c.g e.sender = false) (hacc : (processCommit c e b sw).2 = .commit)
    (hk : e.kind = .commit b sw) :
    (processCommit c e b sw).1.g.members = c.g.members ∧ (processCommit c e b sw).1.g.admins = c.g.admins ∧
    (processCommit c e b sw).1.g.name = c.g.name := by
  have hp : isPureSelfUpdate b sw = true := by
    rcases (accept_iff c e b sw).mp hacc with h | h
    · rw [hna] at h; cases h
    · exact h
  have hb : b = .selfUpdate ∧ sw = [] := by
    cases b <;> simp [isPureSelfUpdate] at hp
    exact ⟨rfl, by simpa using hp⟩
  obtain ⟨rfl, rfl⟩ := hb
  unfold processCommit
  simp only [hna, hp, Bool.or_true, Bool.not_true, Bool.false_eq_true, if_false]
  have hf := fun g => ensureSecret_fields g
  simp [setRec, syncRec, mergeCommit, hk, applyBody, mgrCreate, (hf _).2.1, (hf _).2.2.1, (hf _).2.2.2.1]

/-- **proposal_inert**: a processed leave proposal never changes epoch, members, admins or data by
    itself; a non-admin receiver only queues it -/
theorem proposal_inert (retry : Cl → Option (Cl × Res)) (nx : Nat) (c : Cl) (e : Ev) (hk : e.kind = .leave) :
    (step1 retry nx c e).1.g.path = c.g.path ∧ (step1 retry nx c e).1.g.members = c.g.members ∧
    (step1 retry nx c e).1.g.admins = c.g.admins ∧ (step1 retry nx c e).1.g.name = c.g.name := by
  have hf := ensureSecret_fields
  unfold step1
  split
  · simp [recordFailure, setRec]
  · simp only
    split
    · simp [recordFailure, setRec, withSecret, (hf c.g).1, (hf c.g).2.1, (hf c.g).2.2.1, (hf c.g).2.2.2.1]
    · simp only [hk]
      have hw : (withSecret c).g.path = c.g.path ∧ (withSecret c).g.members = c.g.members ∧
          (withSecret c).g.admins = c.g.admins ∧ (withSecret c).g.name = c.g.name := by
        simp [withSecret, (hf c.g).1, (hf c.g).2.1, (hf c.g).2.2.1, (hf c.g).2.2.2.1]
      split
      · simpa [failUnprocessable, recordFailure, setRec] using hw
      · split
        · unfold ownMessage
          repeat' split
          all_goals first | (simpa [setRec, returnOwnCommit, syncRec] using hw)
        · split
          · simpa [failUnprocessable, recordFailure, setRec] using hw
          · split
            · simp only [setRec, ensureSecret_path, ensureSecret_members, ensureSecret_admins, ensureSecret_name]
              exact hw
            · simpa [setRec] using hw

/-- the known sweep: a commit staged by an admin carries every queued proposal, whoever made it
    (openmls commit builders consume the proposal store) — the full "an admin's operation changes
    exactly what it names" is therefore false of the code; witness: a queued leave of member 2 is
    carried out by an unrelated rename -/
def admin_op_exact_full : Prop :=
  ∀ (c : Cl) (n ts idn tok : Nat), ∀ e, (stageCommit c n ts idn (.setName tok) true).2 = .ev e → e.kind = .commit (.setName tok) []

theorem admin_op_exact_partial (c : Cl) (n ts idn tok : Nat) (e : Ev) (hp : c.g.props = [])
    (h : (stageCommit c n ts idn (.setName tok) true).2 = .ev e) : e.kind = .commit (.setName tok) [] := by
  unfold stageCommit at h
  repeat' split at h
  all_goals first | (cases h; done) | skip
  all_goals (injection h with h; subst h; simp [(ensureSecret_fields c.g).2.2.2.2.1, hp])

def wAdmin : Cl := { initCl 0 false 5 [0, 1, 2] [0] 1 with g := { (initG [0, 1, 2] [0] 1) with props := [2] } }
theorem admin_op_exact_full_false : ¬ admin_op_exact_full := by
  intro h
  have := h wAdmin 5 10 10 9 { n := 5, ts := 10, idnum := 10, cipher := 5, sender := 0, path := [], kind := .commit (.setName 9) [2] } (by decide)
  revert this; decide

end MdkVerif.Props.C05
