import MdkVerif.Model.Locks
import MdkVerif.Proofs.Locks
import MdkVerif.Proofs.LocksStore
/-
  C19 — Storage backends are safe to share between threads.
  Property theorems only (helper lemmas live in Proofs/Locks.lean, Proofs/LocksStore.lean).

  Claimed PARTIAL.  The theorems are about the LOCK PROTOCOL the source exhibits
  (`Generated.lockShape`, re-extracted on every run): a lock section is atomic by assumption.
  Data races, the lock implementations (parking_lot RwLock, std Mutex), SQLite's threading mode and
  panics are runtime facts; they are exercised by the `conc` harness, not proved.

  All theorems quantify over ANY thread pool (`ops : Nat → List _`, any number of threads), ANY
  schedule (`List Nat`) and ANY initial store.
-/
namespace MdkVerif.Props.C19
open MdkVerif MdkVerif.Store MdkVerif.Locks

/-! ### 0. the model's section structure is the one the source exhibits -/

/-- every method's sections, as modelled, are (a prefix of) the lock sections extracted from the
    source for that method on that backend — number, lock and mode -/
theorem lockProg_follows_shape (b : Backend) (op : Op) (m : Nat) (h : methodOf op = some m) :
    ∃ l, shapeOf b m = some l ∧ (lockProg b op).follows l :=
  lockProg_follows_shape' b op m h

/-- run back to back, the sections of a method are the sequential store model's step -/
theorem lockProg_sequential (b : Backend) (op : Op) (s : Store) (hb : s.backend = b) :
    (lockProg b op).run s = Store.step s op :=
  lockProg_run b op s hb

/-- sections executed under a shared lock do not write -/
theorem lockProg_reads_pure (b : Backend) (op : Op) : (lockProg b op).readsPure :=
  lockProg_readsPure' b op

/-- all OpenMLS `StorageProvider` methods of both backends are one un-nested section -/
theorem provider_methods_single_section :
    (Generated.lockShape.filter (fun e => e.2.1 ≥ 100)).all (fun e => e.2.2.2.1.length == 1 && !e.2.2.2.2) = true := by
  decide

/-! ### 1. single-section operations are linearizable by construction -/

/-- If every operation is a single lock section, then for every thread pool and every schedule the
    final state and all results are those of the SEQUENTIAL execution of the completed operations
    in the order their sections ran (`log` order). -/
theorem single_section_atomic {ι σ ρ : Type} (prog : ι → Prog σ ρ) (ops : Nat → List ι)
    (hs : ∀ t i, i ∈ ops t → (prog i).single) (s0 : σ) (sched : List Nat) :
    let c := exec (init prog ops s0) sched
    seqRun prog (c.log.map (·.2.1)) s0 = (c.st, c.log.map (·.2.2)) :=
  (seqInv_exec prog s0 sched _ (seqInv_init prog ops hs s0)).2

/-- … and that order extends every thread's program order: a thread's completed operations
    followed by its pending ones are exactly its operation list.  (Real-time order needs no separate
    statement: a single-section operation takes effect in the very step that completes it.) -/
theorem log_program_order {ι σ ρ : Type} (prog : ι → Prog σ ρ) (ops : Nat → List ι) (s0 : σ)
    (sched : List Nat) (t : Nat) :
    let c := exec (init prog ops s0) sched
    ((c.log.filter (fun e => e.1 == t)).map (·.2.1)) ++ (c.thr t).map (·.op) = ops t :=
  orderInv_exec ops sched _ (orderInv_init prog ops s0) t

theorem singleOp_single (b : Backend) (op : Op) (h : singleOp b op = true) : (lockProg b op).single :=
  singleOp_single' b op h

/-- the store instance: single-section storage operations on either backend behave, under every
    schedule, as the sequential store model run in completion order -/
theorem store_single_section_atomic (b : Backend) (ops : Nat → List Op)
    (hs : ∀ t op, op ∈ ops t → singleOp b op = true) (s0 : Store) (sched : List Nat) :
    let c := exec (init (lockProg b) ops s0) sched
    seqRun (lockProg b) (c.log.map (·.2.1)) s0 = (c.st, c.log.map (·.2.2)) :=
  single_section_atomic (lockProg b) ops (fun t i hi => singleOp_single b i (hs t i hi)) s0 sched

example : singleOp .mem (.saveSecret 1 2 3) = true ∧ singleOp .sql (.saveMessage default) = true ∧
    singleOp .mem (.saveMessage default) = true ∧ singleOp .sql (.saveSecret 1 2 3) = false := by decide

/-! ### 2. check-then-act -/

/-- A two-section operation whose first section only evaluates a check (`Prog.cta`: group
    existence) is equivalent to the ATOMIC operation (`Prog.fused`: check and act in one section)
    placed where its SECOND section ran — same final state, same results in the same order, same
    pending work — for every thread pool and schedule satisfying the side condition `K.stable`:

      at every step of the schedule, for every OTHER thread that is between the two sections of a
      check-then-act (its check passed, its act has not run), the step does not turn that
      thread's check false.

    `K.reduce` is the schedule with the check-only steps deleted. -/
theorem check_then_act_reduces {ι σ ρ : Type} (K : CtaOps ι σ ρ) (prog : ι → Prog σ ρ)
    (hK : K.describes prog) (ops : Nat → List ι) (s0 : σ) (sched : List Nat)
    (hstable : K.stable (init prog ops s0) sched) :
    let c := exec (init prog ops s0) sched
    let a := exec (init (K.fuse prog) ops s0) (K.reduce (init prog ops s0) sched)
    c.st = a.st ∧ c.log = a.log ∧ ∀ t, (c.thr t).map (·.op) = (a.thr t).map (·.op) := by
  intro c a
  have h := rel_exec K prog hK sched _ _ (rel_init K prog ops s0) hstable
  exact ⟨h.1, h.2.1, fun t => qrel_ops K prog _ _ _ (h.2.2 t)⟩

/-- the check-then-act methods of the sqlite backend: the six that call
    `find_group_by_mls_group_id` before their own `with_connection` -/
def sqlCta : CtaOps Op Store String := sqlCtaOps

theorem sqlCta_describes : sqlCta.describes sqlProg := sqlCta_describes'

/-- sqlite: the same for its six check-then-act methods -/
theorem sql_check_then_act_reduces (ops : Nat → List Op) (s0 : Store) (sched : List Nat)
    (hstable : sqlCta.stable (init sqlProg ops s0) sched) :
    let c := exec (init sqlProg ops s0) sched
    let a := exec (init (sqlCta.fuse sqlProg) ops s0) (sqlCta.reduce (init sqlProg ops s0) sched)
    c.st = a.st ∧ c.log = a.log ∧ ∀ t, (c.thr t).map (·.op) = (a.thr t).map (·.op) :=
  check_then_act_reduces sqlCta sqlProg sqlCta_describes ops s0 sched hstable

def witnessStore : Store :=
  { Store.empty .sql with
    groups := [{ gid := 1, nid := 11, nameLen := 1, descLen := 0, admins := 0, img := 0, lastId := none,
                 lastAt := none, lastProc := none, epoch := 0, state := 0, selfUpd := 0 }] }

/-- the fused operation IS the sequential model's operation (sqlite, e.g. `save_group_exporter_secret`) -/
theorem sqlCta_fused_is_step (g e v : Nat) (s : Store) (hb : s.backend = .sql) :
    (sqlCta.fuse sqlProg (.saveSecret g e v)).run s = Store.step s (.saveSecret g e v) := by
  have h := lockProg_run .sql (.saveSecret g e v) s hb
  simp only [lockProg, sqlProg, run_cta] at h
  simp only [CtaOps.fuse, sqlCta, sqlCtaOps, if_true, run_fused]
  exact h

/-! #### memory backend: no check-then-act gap is left

  Until /repo 6aa9b6e memory `save_message` was check-then-act (existence check under `inner.read`,
  insertion under `inner.write`), and a concurrent rollback to a snapshot taken before the group
  existed could remove the group in between: the message was stored for a group that was gone and
  the call returned ok — a history no sequential order explains.  The race was reproduced on the
  implementation (`corpus/C19/mem_save_message_vs_rollback.trace`, kept as a regression trace) and
  repaired; the model follows the repaired code.  The full statement now holds for memory: -/

/-- memory `save_message` is ONE write-lock section — it is the sequential model's operation,
    atomically, under every schedule (`store_single_section_atomic` applies to it) -/
theorem mem_save_message_atomic (m : Msg) :
    lockProg .mem (.saveMessage m) = whole lkInnerW (.saveMessage m) ∧ singleOp .mem (.saveMessage m) = true ∧
    shapeOf .mem 4 = some [lkInnerW] :=
  ⟨rfl, rfl, by rfl⟩

/-- no memory-backend method in `Generated.lockShape` takes the `inner` lock twice (no
    check-then-act is left on memory); the only two-section methods are the two that use BOTH locks
    (`create_group_snapshot`, `rollback_group_to_snapshot`, see §3) -/
theorem mem_no_check_then_act :
    (Generated.lockShape.filter (fun e => e.1 == 0 && e.2.2.2.1.length > 1)).map (·.2.1) = [27, 28] ∧
    (Generated.lockShape.filter (fun e => e.1 == 0)).all
      (fun e => (e.2.2.2.1.filter (fun l => l.1 == 0)).length ≤ 1) = true := by
  decide

/-! #### the side condition of `check_then_act_reduces` cannot be dropped

  A two-thread witness over a counter: thread 0 runs "if the counter is 0 then add 10" as
  check-then-act, thread 1 sets the counter to 1.  Schedule 0 (check passes), 1, 0 (act). -/

def toyK : CtaOps Nat Nat Nat where
  is := fun i => i == 0
  lk1 := fun _ => (0, 0)
  lk2 := fun _ => (0, 1)
  chk := fun _ s => s == 0
  err := fun _ => 0
  act := fun _ s => (s + 10, 1)

def toyProg : Nat → Prog Nat Nat
  | 0 => Prog.cta (0, 0) (0, 1) (fun s => s == 0) 0 (fun s => (s + 10, 1))
  | _ => Prog.atomic (0, 1) (fun _ => (1, 1))

def toyOps : Nat → List Nat
  | 0 => [0]
  | 1 => [1]
  | _ => []

theorem toyK_describes : toyK.describes toyProg := by
  intro i h
  have : i = 0 := by simpa [toyK] using h
  subst this; rfl

/-- the full-strength statement (no side condition) — kept visible; it is FALSE -/
def C19_cta_full : Prop :=
  ∀ (ops : Nat → List Nat) (s0 : Nat) (sched : List Nat),
    (exec (init toyProg ops s0) sched).st =
    (exec (init (toyK.fuse toyProg) ops s0) (toyK.reduce (init toyProg ops s0) sched)).st

theorem C19_cta_full_false : ¬ C19_cta_full := by
  intro h
  have := h toyOps 0 [0, 1, 0]
  revert this
  decide

/-- … and the side condition is what fails on that witness -/
theorem toy_witness_not_stable : ¬ toyK.stable (init toyProg toyOps 0) [0, 1, 0] := by
  intro h
  have h2 := h.2.1 0 (by decide) _ _ rfl rfl (by decide) (by decide)
  revert h2
  decide

/-- non-vacuity of the side condition: a schedule interleaving two sqlite threads' check-then-act
    `save_group_exporter_secret` / `group_relays` with a relay replacement by a third satisfies it -/
example : sqlCta.stable (init sqlProg
    (fun t => if t = 0 then [.saveSecret 1 0 5] else if t = 1 then [.relays 1]
              else if t = 2 then [.replaceRelays 1 [3]] else []) witnessStore) [0, 1, 2, 1, 0, 2] := by
  apply stable_of_stableB sqlCta [0, 1, 2]
  · intro u hu
    have h0 : u ≠ 0 := fun e => hu (by simp [e])
    have h1 : u ≠ 1 := fun e => hu (by simp [e])
    have h2 : u ≠ 2 := fun e => hu (by simp [e])
    simp [init, h0, h1, h2]
  · decide

/-! ### 3. snapshots are taken and restored at one instant -/

/-- memory `create_group_snapshot`: the first section (under `inner.read`) does not write, and the
    snapshot that the second section stores — in WHATEVER state `s2` the store is by then — is the
    group's state `takeSnap s1` at the single instant `s1` of the first section; then the method is done -/
theorem snapshot_instant_create_mem (g n ts : Nat) (s1 s2 : Store) :
    let P := lockProg .mem (.snapCreate g n ts)
    P.effect s1 = s1 ∧
    findSnap ((P.cont s1).effect s2) g n = some (takeSnap s1 g n ts) ∧
    (P.cont s1).cont s2 = .done "ok" := by
  intro P
  refine ⟨?_, ?_, ?_⟩
  · rfl
  · exact findSnap_drop_append s2.snaps (takeSnap s1 g n ts)
  · rfl

/-- sqlite `create_group_snapshot` / `rollback_group_to_snapshot`: ONE section (one connection-lock
    hold around the whole transaction) -/
theorem snapshot_instant_sql (g n ts : Nat) :
    (lockProg .sql (.snapCreate g n ts)).single ∧ (lockProg .sql (.snapRollback g n)).single :=
  ⟨single_atomic _ _, single_atomic _ _⟩

/-- memory `rollback_group_to_snapshot`: given the snapshot `p` the first section removed from the
    snapshot map, the second section — in whatever state `s2` — writes the group's OpenMLS rows,
    exporter secrets and record in ONE section, after which they are exactly the snapshot's; the
    snapshot map is not touched by that section; then the method is done -/
theorem snapshot_instant_restore_mem (g n : Nat) (s1 s2 : Store) (p : Snap) (hb : s2.backend = .mem)
    (hp : findSnap s1 g n = some p) :
    let P := lockProg .mem (.snapRollback g n)
    let s3 := (P.cont s1).effect s2
    groupMls s3 g = p.mls ∧ groupSecrets s3 g = p.secrets ∧ s3.snaps = s2.snaps ∧
    (P.cont s1).cont s2 = .done "ok" := by
  intro P s3
  obtain ⟨hg, hn⟩ := findSnap_key s1 g n p hp
  subst hg
  simp only [P, s3, lockProg, memProg, Prog.cont, hp, Prog.atomic, Prog.effect]
  refine ⟨?_, ?_, ?_, trivial⟩
  · simp only [restoreInner, restoreFrom, hb, groupMls]
    exact filter_map_restore p.gid s2.mls p.mls
  · simp only [restoreInner, restoreFrom, hb, groupSecrets]
    exact filter_map_restore p.gid s2.secrets p.secrets
  · simp [restoreInner, restoreFrom, hb]

/-! ### 4. no nested lock acquisition ⇒ no deadlock -/

/-- No storage-trait method of either backend (85 + 85 methods, `Generated.lockShape`) acquires a
    lock while holding another.  Hence every thread is, at any moment, idle, waiting for one lock
    while holding none, or holding exactly one lock (`Phase`), and in every such lock state the
    wait-for relation has no cycle (not even a path of length two). -/
theorem no_nested_locks_deadlock_free :
    Generated.lockShape.all (fun e => !e.2.2.2.2) = true ∧
    ∀ (ph : Nat → Phase) (a : Nat) (path : List Nat), ¬ (LockState.ofPhases ph).chain (a :: path ++ [a]) :=
  ⟨by decide, fun ph a path => no_wait_cycle _ (ofPhases_noNested ph) a path⟩

/-- the general lemma, for any lock state obeying the protocol -/
theorem no_nesting_no_wait_cycle (L : LockState) (h : L.noNested) (a : Nat) (path : List Nat) :
    ¬ L.chain (a :: path ++ [a]) := no_wait_cycle L h a path

example : (LockState.ofPhases (fun t => if t = 0 then .holding 0 else if t = 1 then .waiting 0 else .idle)).waitsFor 1 0 :=
  ⟨0, rfl, by simp [LockState.ofPhases]⟩

/-! ### 5. frame: an operation on group g leaves every other group's projection alone -/

theorem frame (s : Store) (op : Op) (g g' : Nat) (hop : opGroup op = some g) (hne : g' ≠ g) :
    view (Store.step s op).1 g' = view s g' := frame' s op g g' hop hne

example : opGroup (.saveSecret 1 2 3) = some 1 ∧ opGroup (.snapCreate 4 1 9) = some 4 := ⟨rfl, rfl⟩

end MdkVerif.Props.C19
