import MdkVerif.Model.Locks
import MdkVerif.Proofs.Locks
import MdkVerif.Proofs.LocksStore
import MdkVerif.Proofs.LocksNested
import MdkVerif.Proofs.LocksNestedStore
/-
  C19 — Storage backends are safe to share between threads.
  Property theorems only (helper lemmas live in Proofs/Locks.lean, Proofs/LocksStore.lean,
  Proofs/LocksNested.lean, Proofs/LocksNestedStore.lean).

  Claimed PARTIAL.  The theorems are about the LOCK PROTOCOL the source exhibits
  (`Generated.lockShape`, re-extracted on every run): a lock section is atomic by assumption.
  Data races, the lock implementations (parking_lot RwLock, std Mutex), SQLite's threading mode and
  panics are runtime facts; they are exercised by the `conc` harness, not proved.

  All theorems quantify over ANY thread pool (`ops : Nat → List _`, any number of threads), ANY
  schedule (`List Nat`) and ANY initial store.

  The memory methods `create_group_snapshot` / `rollback_group_to_snapshot` use both memory locks.
  `Generated.lockShape` says HOW (one section per lock acquisition, each naming the locks held in
  acquisition order): as two SEPARATE sections (the source before the repair of finding
  `mem-snapshot-two-locks`: NOT linearizable, §6 `two_sections_not_linearizable`) or as a NESTED
  section, `group_snapshots` held across the `inner` section (the repaired source: linearizable at
  the inner section, §6 `nested_section_atomic`, `mem_nested_linearizable`).  Both programs are
  modelled (`memProgWith false / true`), every theorem is proved for the program it is about, and
  `lockProg .mem` is the one the CURRENT table exhibits (`mem_snapshot_shape`).
-/
namespace MdkVerif.Props.C19
open MdkVerif MdkVerif.Store MdkVerif.Locks

/-! ### 0. the model's section structure is the one the source exhibits -/

/-- every method's sections, as modelled, are (a prefix of) the lock sections extracted from the
    source for that method on that backend — number, lock and mode -/
theorem lockProg_follows_shape (b : Backend) (op : Op) (m : Nat) (h : methodOf op = some m) :
    ∃ l, shapeOf b m = some l ∧ (lockProg b op).follows [] l :=
  lockProg_follows_shape' b op m h

/-- the two memory methods that use both locks have, in the CURRENT source, one of the two known
    shapes — nested (`group_snapshots` held across the `inner` section) or two separate sections —
    and `lockProg .mem` is the corresponding program -/
theorem mem_snapshot_shape :
    (shapeOf .mem 27 = some shapeNested.1 ∧ shapeOf .mem 28 = some shapeNested.2 ∧ lockProg .mem = memProgWith true) ∨
    (shapeOf .mem 27 = some shapeTwoSections.1 ∧ shapeOf .mem 28 = some shapeTwoSections.2 ∧ lockProg .mem = memProgWith false) := by
  rcases mem_snapshot_shape_cases with ⟨h27, h28⟩ | ⟨h27, h28⟩
  · exact Or.inl ⟨h27, h28, by show memProgWith memSnapNested = _; rw [memSnapNested_of_nested h27 h28]⟩
  · exact Or.inr ⟨h27, h28, by show memProgWith memSnapNested = _; rw [memSnapNested_of_two h27]⟩

/-- run back to back, the sections of a method are the sequential store model's step -/
theorem lockProg_sequential (b : Backend) (op : Op) (s : Store) (hb : s.backend = b) :
    (lockProg b op).run s = Store.step s op :=
  lockProg_run b op s hb

/-- sections executed under a shared lock do not write -/
theorem lockProg_reads_pure (b : Backend) (op : Op) : (lockProg b op).readsPure :=
  lockProg_readsPure' b op

/-- all OpenMLS `StorageProvider` methods of both backends are one un-nested section -/
theorem provider_methods_single_section :
    (Generated.lockShape.filter (fun e => e.2.1 ≥ 100)).all (fun e => e.2.2.2.1.length == 1 && !e.2.2.2.2) = true := by
  decide

/-! ### 1. single-section operations are linearizable by construction -/

/-- If every operation is a single lock section, then for every thread pool and every schedule the
    final state and all results are those of the SEQUENTIAL execution of the completed operations
    in the order their sections ran (`log` order). -/
theorem single_section_atomic {ι σ ρ : Type} (prog : ι → Prog σ ρ) (ops : Nat → List ι)
    (hs : ∀ t i, i ∈ ops t → (prog i).single) (s0 : σ) (sched : List Nat) :
    let c := exec (init prog ops s0) sched
    seqRun prog (c.log.map (·.2.1)) s0 = (c.st, c.log.map (·.2.2)) :=
  (seqInv_exec prog s0 sched _ (seqInv_init prog ops hs s0)).2

/-- … and that order extends every thread's program order: a thread's completed operations
    followed by its pending ones are exactly its operation list.  (Real-time order needs no separate
    statement: a single-section operation takes effect in the very step that completes it.) -/
theorem log_program_order {ι σ ρ : Type} (prog : ι → Prog σ ρ) (ops : Nat → List ι) (s0 : σ)
    (sched : List Nat) (t : Nat) :
    let c := exec (init prog ops s0) sched
    ((c.log.filter (fun e => e.1 == t)).map (·.2.1)) ++ (c.thr t).map (·.op) = ops t :=
  orderInv_exec ops sched _ (orderInv_init prog ops s0) t

theorem singleOp_single (b : Backend) (op : Op) (h : singleOp b op = true) : (lockProg b op).single :=
  singleOp_single' b op h

/-- the store instance: single-section storage operations on either backend behave, under every
    schedule, as the sequential store model run in completion order -/
theorem store_single_section_atomic (b : Backend) (ops : Nat → List Op)
    (hs : ∀ t op, op ∈ ops t → singleOp b op = true) (s0 : Store) (sched : List Nat) :
    let c := exec (init (lockProg b) ops s0) sched
    seqRun (lockProg b) (c.log.map (·.2.1)) s0 = (c.st, c.log.map (·.2.2)) :=
  single_section_atomic (lockProg b) ops (fun t i hi => singleOp_single b i (hs t i hi)) s0 sched

example : singleOp .mem (.saveSecret 1 2 3) = true ∧ singleOp .sql (.saveMessage default) = true ∧
    singleOp .mem (.saveMessage default) = true ∧ singleOp .sql (.saveSecret 1 2 3) = false := by decide

/-! ### 2. check-then-act -/

/-- A two-section operation whose first section only evaluates a check (`Prog.cta`: group
    existence) is equivalent to the ATOMIC operation (`Prog.fused`: check and act in one section)
    placed where its SECOND section ran — same final state, same results in the same order, same
    pending work — for every thread pool and schedule satisfying the side condition `K.stable`:

      at every step of the schedule, for every OTHER thread that is between the two sections of a
      check-then-act (its check passed, its act has not run), the step does not turn that
      thread's check false.

    `K.reduce` is the schedule with the check-only steps deleted. -/
theorem check_then_act_reduces {ι σ ρ : Type} (K : CtaOps ι σ ρ) (prog : ι → Prog σ ρ)
    (hK : K.describes prog) (ops : Nat → List ι) (s0 : σ) (sched : List Nat)
    (hstable : K.stable (init prog ops s0) sched) :
    let c := exec (init prog ops s0) sched
    let a := exec (init (K.fuse prog) ops s0) (K.reduce (init prog ops s0) sched)
    c.st = a.st ∧ c.log = a.log ∧ ∀ t, (c.thr t).map (·.op) = (a.thr t).map (·.op) := by
  intro c a
  have h := rel_exec K prog hK sched _ _ (rel_init K prog ops s0) hstable
  exact ⟨h.1, h.2.1, fun t => qrel_ops K prog _ _ _ (h.2.2 t)⟩

/-- the check-then-act methods of the sqlite backend: the six that call
    `find_group_by_mls_group_id` before their own `with_connection` -/
def sqlCta : CtaOps Op Store String := sqlCtaOps

theorem sqlCta_describes : sqlCta.describes sqlProg := sqlCta_describes'

/-- sqlite: the same for its six check-then-act methods -/
theorem sql_check_then_act_reduces (ops : Nat → List Op) (s0 : Store) (sched : List Nat)
    (hstable : sqlCta.stable (init sqlProg ops s0) sched) :
    let c := exec (init sqlProg ops s0) sched
    let a := exec (init (sqlCta.fuse sqlProg) ops s0) (sqlCta.reduce (init sqlProg ops s0) sched)
    c.st = a.st ∧ c.log = a.log ∧ ∀ t, (c.thr t).map (·.op) = (a.thr t).map (·.op) :=
  check_then_act_reduces sqlCta sqlProg sqlCta_describes ops s0 sched hstable

def witnessStore : Store :=
  { Store.empty .sql with
    groups := [{ gid := 1, nid := 11, nameLen := 1, descLen := 0, admins := 0, img := 0, lastId := none,
                 lastAt := none, lastProc := none, epoch := 0, state := 0, selfUpd := 0 }] }

/-- the fused operation IS the sequential model's operation (sqlite, e.g. `save_group_exporter_secret`) -/
theorem sqlCta_fused_is_step (g e v : Nat) (s : Store) (hb : s.backend = .sql) :
    (sqlCta.fuse sqlProg (.saveSecret g e v)).run s = Store.step s (.saveSecret g e v) := by
  have h := lockProg_run .sql (.saveSecret g e v) s hb
  simp only [lockProg, sqlProg, run_cta] at h
  simp only [CtaOps.fuse, sqlCta, sqlCtaOps, if_true, run_fused]
  exact h

/-! #### memory backend: no check-then-act gap is left

  Until /repo 6aa9b6e memory `save_message` was check-then-act (existence check under `inner.read`,
  insertion under `inner.write`), and a concurrent rollback to a snapshot taken before the group
  existed could remove the group in between: the message was stored for a group that was gone and
  the call returned ok — a history no sequential order explains.  The race was reproduced on the
  implementation (`corpus/C19/mem_save_message_vs_rollback.trace`, kept as a regression trace) and
  repaired; the model follows the repaired code.  The full statement now holds for memory: -/

/-- memory `save_message` is ONE write-lock section — it is the sequential model's operation,
    atomically, under every schedule (`store_single_section_atomic` applies to it) -/
theorem mem_save_message_atomic (m : Msg) :
    lockProg .mem (.saveMessage m) = whole lkInnerW (.saveMessage m) ∧ singleOp .mem (.saveMessage m) = true ∧
    shapeOf .mem 4 = some [[lkInnerW]] :=
  ⟨rfl, rfl, by rfl⟩

/-- no memory-backend method in `Generated.lockShape` takes the `inner` lock twice (no
    check-then-act is left on memory); the only methods with more than one lock acquisition are the
    two that use BOTH locks (`create_group_snapshot`, `rollback_group_to_snapshot`, see §3, §6) -/
theorem mem_no_check_then_act :
    (Generated.lockShape.filter (fun e => e.1 == 0 && e.2.2.2.1.length > 1)).map (·.2.1) = [27, 28] ∧
    (Generated.lockShape.filter (fun e => e.1 == 0)).all
      (fun e => (e.2.2.2.1.filter (fun st => st.getLast?.map (·.1) == some 0)).length ≤ 1) = true := by
  decide

/-! #### the side condition of `check_then_act_reduces` cannot be dropped

  A two-thread witness over a counter: thread 0 runs "if the counter is 0 then add 10" as
  check-then-act, thread 1 sets the counter to 1.  Schedule 0 (check passes), 1, 0 (act). -/

def toyK : CtaOps Nat Nat Nat where
  is := fun i => i == 0
  lk1 := fun _ => (0, 0)
  lk2 := fun _ => (0, 1)
  chk := fun _ s => s == 0
  err := fun _ => 0
  act := fun _ s => (s + 10, 1)

def toyProg : Nat → Prog Nat Nat
  | 0 => Prog.cta (0, 0) (0, 1) (fun s => s == 0) 0 (fun s => (s + 10, 1))
  | _ => Prog.atomic (0, 1) (fun _ => (1, 1))

def toyOps : Nat → List Nat
  | 0 => [0]
  | 1 => [1]
  | _ => []

theorem toyK_describes : toyK.describes toyProg := by
  intro i h
  have : i = 0 := by simpa [toyK] using h
  subst this; rfl

/-- the full-strength statement (no side condition) — kept visible; it is FALSE -/
def C19_cta_full : Prop :=
  ∀ (ops : Nat → List Nat) (s0 : Nat) (sched : List Nat),
    (exec (init toyProg ops s0) sched).st =
    (exec (init (toyK.fuse toyProg) ops s0) (toyK.reduce (init toyProg ops s0) sched)).st

theorem C19_cta_full_false : ¬ C19_cta_full := by
  intro h
  have := h toyOps 0 [0, 1, 0]
  revert this
  decide

/-- … and the side condition is what fails on that witness -/
theorem toy_witness_not_stable : ¬ toyK.stable (init toyProg toyOps 0) [0, 1, 0] := by
  intro h
  have h2 := h.2.1 0 (by decide) _ _ rfl rfl (by decide) (by decide)
  revert h2
  decide

/-- non-vacuity of the side condition: a schedule interleaving two sqlite threads' check-then-act
    `save_group_exporter_secret` / `group_relays` with a relay replacement by a third satisfies it -/
example : sqlCta.stable (init sqlProg
    (fun t => if t = 0 then [.saveSecret 1 0 5] else if t = 1 then [.relays 1]
              else if t = 2 then [.replaceRelays 1 [3]] else []) witnessStore) [0, 1, 2, 1, 0, 2] := by
  apply stable_of_stableB sqlCta [0, 1, 2]
  · intro u hu
    have h0 : u ≠ 0 := fun e => hu (by simp [e])
    have h1 : u ≠ 1 := fun e => hu (by simp [e])
    have h2 : u ≠ 2 := fun e => hu (by simp [e])
    simp [init, h0, h1, h2]
  · decide

/-! #### a store with one group and one snapshot of it, for the witnesses below -/

def raceStore : Store :=
  { Store.empty .mem with
    groups := [{ gid := 1, nid := 11, nameLen := 1, descLen := 0, admins := 0, img := 0, lastId := none,
                 lastAt := none, lastProc := none, epoch := 0, state := 0, selfUpd := 0 }],
    snaps := [{ name := 2, gid := 1, createdAt := 5000, group := none, relays := [], secrets := [], mls := [] }] }

/-! ### 3. snapshots are taken and restored at one instant

  Stated for BOTH shapes of the two memory methods (`memProgWith false`: two separate sections;
  `memProgWith true`: nested); `mem_snapshot_shape` says which one `lockProg .mem` is. -/

/-- memory `create_group_snapshot`, two separate sections: the first section (under `inner.read`)
    does not write, and the snapshot that the second section stores — in WHATEVER state `s2` the store
    is by then — is the group's state `takeSnap s1` at the single instant `s1` of the first section;
    then the method is done -/
theorem snapshot_instant_create_mem (g n ts : Nat) (s1 s2 : Store) :
    let P := memProgWith false (.snapCreate g n ts)
    P.effect s1 = s1 ∧
    findSnap ((P.cont s1).effect s2) g n = some (takeSnap s1 g n ts) ∧
    (P.cont s1).cont s2 = .done "ok" := by
  intro P
  refine ⟨?_, ?_, ?_⟩
  · rfl
  · exact findSnap_drop_append s2.snaps (takeSnap s1 g n ts)
  · rfl

/-- memory `create_group_snapshot`, nested: taking `group_snapshots.write` (state `s0`) writes
    nothing; the inner section (under `inner.read`, state `s1`) writes nothing; and the snapshot that
    the last step stores — in WHATEVER state `s2` the store is by then — is the group's state
    `takeSnap s1` at the single instant `s1` of the inner section; then the method is done -/
theorem snapshot_instant_create_mem_nested (g n ts : Nat) (s0 s1 s2 : Store) :
    let P := memProgWith true (.snapCreate g n ts)
    P.effect s0 = s0 ∧ (P.cont s0).effect s1 = s1 ∧
    findSnap (((P.cont s0).cont s1).effect s2) g n = some (takeSnap s1 g n ts) ∧
    ((P.cont s0).cont s1).cont s2 = .done "ok" := by
  intro P
  refine ⟨?_, ?_, ?_, ?_⟩
  · rfl
  · rfl
  · exact findSnap_drop_append s2.snaps (takeSnap s1 g n ts)
  · rfl

/-- sqlite `create_group_snapshot` / `rollback_group_to_snapshot`: ONE section (one connection-lock
    hold around the whole transaction) -/
theorem snapshot_instant_sql (g n ts : Nat) :
    (lockProg .sql (.snapCreate g n ts)).single ∧ (lockProg .sql (.snapRollback g n)).single :=
  ⟨single_atomic _ _, single_atomic _ _⟩

/-- memory `rollback_group_to_snapshot`, two separate sections: given the snapshot `p` the first
    section removed from the snapshot map, the second section — in whatever state `s2` — writes the
    group's OpenMLS rows, exporter secrets and record in ONE section, after which they are exactly the
    snapshot's; the snapshot map is not touched by that section; then the method is done -/
theorem snapshot_instant_restore_mem (g n : Nat) (s1 s2 : Store) (p : Snap) (hb : s2.backend = .mem)
    (hp : findSnap s1 g n = some p) :
    let P := memProgWith false (.snapRollback g n)
    let s3 := (P.cont s1).effect s2
    groupMls s3 g = p.mls ∧ groupSecrets s3 g = p.secrets ∧ s3.snaps = s2.snaps ∧
    (P.cont s1).cont s2 = .done "ok" := by
  intro P s3
  obtain ⟨hg, hn⟩ := findSnap_key s1 g n p hp
  subst hg
  simp only [P, s3, memProgWith, Bool.false_eq_true, if_false, Prog.cont, hp, Prog.atomic, Prog.effect]
  refine ⟨?_, ?_, ?_, trivial⟩
  · simp only [restoreInner, restoreFrom, hb, groupMls]
    exact filter_map_restore p.gid s2.mls p.mls
  · simp only [restoreInner, restoreFrom, hb, groupSecrets]
    exact filter_map_restore p.gid s2.secrets p.secrets
  · simp [restoreInner, restoreFrom, hb]

/-- memory `rollback_group_to_snapshot`, nested: the same for the inner section, which now runs
    with `group_snapshots.write` still held; the last step (dropping the guards) changes nothing -/
theorem snapshot_instant_restore_mem_nested (g n : Nat) (s1 s2 s4 : Store) (p : Snap) (hb : s2.backend = .mem)
    (hp : findSnap s1 g n = some p) :
    let P := memProgWith true (.snapRollback g n)
    let s3 := (P.cont s1).effect s2
    groupMls s3 g = p.mls ∧ groupSecrets s3 g = p.secrets ∧ s3.snaps = s2.snaps ∧
    ((P.cont s1).cont s2).effect s4 = s4 ∧ ((P.cont s1).cont s2).cont s4 = .done "ok" := by
  intro P s3
  obtain ⟨hg, hn⟩ := findSnap_key s1 g n p hp
  subst hg
  have hl : lookSnap s1.snaps p.gid n = some p := hp
  simp only [P, s3, memProgWith, if_true, NestOps.nested, NestOps.inner, NestOps.tail, Prog.cont, Prog.effect,
    memNest, snapsLens, hl]
  refine ⟨?_, ?_, ?_, trivial, trivial⟩
  · simp only [restoreInner, restoreFrom, hb, groupMls]
    exact filter_map_restore p.gid s2.mls p.mls
  · simp only [restoreInner, restoreFrom, hb, groupSecrets]
    exact filter_map_restore p.gid s2.secrets p.secrets
  · simp [restoreInner, restoreFrom, hb]

/-! ### 4. locks are taken in one fixed order ⇒ no deadlock -/

/-- GENERATED FACT + theorem.  Every section of every storage method of both backends (88 + 88
    entries of `Generated.lockShape`) takes its locks in strictly increasing `lockRank`
    (`group_snapshots` before `inner`; no lock twice, so no method re-enters a lock it holds; the
    sqlite connection never together with another lock).  Hence, for ANY number of threads running
    ANY lists of storage operations under ANY schedule, in every configuration reached: if some
    thread has not finished, some unfinished thread's next step is ENABLED (the lock it acquires
    conflicts with no lock held by anybody) — no deadlock. -/
theorem ordered_locks_deadlock_free :
    Generated.lockShape.all (fun e => e.2.2.2.1.all (stackOrdered lockRank 0)) = true ∧
    ∀ (b : Backend) (ops : Nat → List Op) (s0 : Store) (sched : List Nat),
      let c := exec (init (lockProg b) ops s0) sched
      ∀ t, c.thr t ≠ [] → ∃ u, c.thr u ≠ [] ∧ enabled c u := by
  refine ⟨lock_order_table, ?_⟩
  intro b ops s0 sched c t ht
  exact ordered_progress lockRank 3 lockRank_lt c
    (ordInv_exec lockRank sched _ (ordInv_init lockRank (lockProg b) (lockProg_ordered b) ops s0)) t ht

/-- the general theorem, for any operations whose programs acquire locks in the order of a bounded
    rank function -/
theorem ordered_deadlock_free {ι σ ρ : Type} (rank : Nat → Nat) (N : Nat) (hN : ∀ i, rank i < N)
    (prog : ι → Prog σ ρ) (hord : ∀ i, (prog i).ordered rank 0) (ops : Nat → List ι) (s0 : σ) (sched : List Nat) :
    let c := exec (init prog ops s0) sched
    ∀ t, c.thr t ≠ [] → ∃ u, c.thr u ≠ [] ∧ enabled c u := by
  intro c t ht
  exact ordered_progress rank N hN c (ordInv_exec rank sched _ (ordInv_init rank prog hord ops s0)) t ht

/-- a program that follows a shape whose sections are rank-increasing acquires in that order (how
    the generated table is carried over to `lockProg`) -/
theorem ordered_of_shape {σ ρ : Type} (rank : Nat → Nat) (p : Prog σ ρ) (l : List (List Lock)) (hf : p.follows [] l)
    (hs : ∀ st, st ∈ l → stackOrdered rank 0 st = true) : p.ordered rank 0 :=
  ordered_of_follows rank p [] l hf hs

/-- the same at the level of lock states: when every thread requests a lock only above (in `rank`)
    every lock it holds, the wait-for relation has no cycle -/
theorem ordered_lock_states_no_wait_cycle (L : LockState) (rank : Nat → Nat) (h : L.orderedBy rank) (a : Nat) (path : List Nat) :
    ¬ L.chain (a :: path ++ [a]) := ordered_no_wait_cycle L rank h a path

/-- THE SPECIAL CASE of un-nested methods.  No storage-trait method of either backend other than the
    two memory snapshot methods (27, 28) acquires a lock while holding another (and those two do so
    only in the repaired source).  A thread running un-nested methods is, at any moment, idle,
    waiting for one lock while holding none, or holding exactly one lock (`Phase`), and in every such
    lock state the wait-for relation has no cycle (not even a path of length two). -/
theorem no_nested_locks_deadlock_free :
    Generated.lockShape.all (fun e => !e.2.2.2.2 || (e.1 == 0 && (e.2.1 == 27 || e.2.1 == 28))) = true ∧
    ∀ (ph : Nat → Phase) (a : Nat) (path : List Nat), ¬ (LockState.ofPhases ph).chain (a :: path ++ [a]) :=
  ⟨by decide, fun ph a path => no_wait_cycle _ (ofPhases_noNested ph) a path⟩

/-- the general lemma, for any lock state obeying the no-nesting protocol — an instance of the
    ordered protocol (whoever waits holds nothing) -/
theorem no_nesting_no_wait_cycle (L : LockState) (h : L.noNested) (a : Nat) (path : List Nat) :
    ¬ L.chain (a :: path ++ [a]) :=
  ordered_no_wait_cycle L (fun i => i) (orderedBy_of_noNested L _ h) a path

example : (LockState.ofPhases (fun t => if t = 0 then .holding 0 else if t = 1 then .waiting 0 else .idle)).waitsFor 1 0 :=
  ⟨0, rfl, by simp [LockState.ofPhases]⟩

/-- non-vacuity of `enabled`: while thread 0 is inside the nested rollback (it holds
    `group_snapshots.write`), thread 1's `release_group_snapshot` is NOT enabled, its OpenMLS write is -/
example :
    let c := step (init (memProgWith true) (fun t => if t = 0 then [Op.snapRollback 1 2] else if t = 1 then [.snapRelease 1 2] else
      if t = 2 then [.mlsWrite 1 0 15] else []) raceStore) 0
    enabledB c 1 [0, 1, 2] = false ∧ enabledB c 2 [0, 1, 2] = true := by
  decide

/-! ### 6. nested sections: an outer lock held across an inner section

  What the repaired memory `rollback_group_to_snapshot` / `create_group_snapshot` do (`NestOps.nested`):
    step 1  take the OUTER lock `(S, exclusive)` and run `pre` on the part of the state it protects
            (rollback: remove the snapshot from the map; create: nothing) — the lock stays held;
            rollback returns here when the snapshot is not there (`early`);
    step 2  take the INNER lock and run `mid` (rollback: restore the group from the removed snapshot;
            create: read the group), release the inner lock;
    step 3  run `post` on the protected part (create: insert the capture made at step 2; rollback:
            nothing), release the outer lock.
  Other threads may run between the steps, but only steps the locks allow (`respects`): while the
  outer lock is held nobody else takes it. -/

/-- A nested operation is equivalent to ONE atomic step (`NestOps.fuse`: all three steps in one
    section) placed where its INNER section ran, with respect to all other operations `prog` offers,
    provided (`K.good`) each of those is made of un-nested sections every one of which either takes
    the outer lock (then it is excluded for the whole nested section) or neither reads nor writes the
    protected part (`K.indep`: commutes with every change of it, its continuation does not depend on
    it, leaves it unchanged).  For every thread pool, every initial state and every schedule that
    respects the locks: when no thread is inside a nested section at the end, the final state is
    that of the run of the fused operations under `K.reduce sched` (the schedule without the steps 1
    and 3), every thread has obtained the same results in the same order, and the same work is
    pending.  At ANY moment every thread's results so far are a prefix of its results in that run. -/
theorem nested_section_atomic {ι σ ρ β : Type} (K : NestOps ι σ ρ β) (prog : ι → Prog σ ρ)
    (hK : K.describes prog) (ops : Nat → List ι)
    (hgood : ∀ t i, i ∈ ops t → K.is i = false → K.good (prog i))
    (s0 : σ) (sched : List Nat) (hr : respects (init prog ops s0) sched) :
    let c := exec (init prog ops s0) sched
    let a := exec (init (K.fuse prog) ops s0) (K.reduce (init prog ops s0) sched)
    ((∀ u, c.holds u = []) →
      c.st = a.st ∧ (∀ u, logOf c.log u = logOf a.log u) ∧ ∀ u, (c.thr u).map (·.op) = (a.thr u).map (·.op)) ∧
    ∀ u, ∃ d, logOf a.log u = logOf c.log u ++ d := by
  intro c a
  have h := nrel_exec K prog sched _ _ (nrel_init K prog hK ops hgood s0) hr
  exact ⟨fun hq => nrel_quiescent K prog h hq, fun u => nrel_log_prefix K prog h u⟩

/-- run back to back, the three steps are the fused operation -/
theorem nested_run_is_fused {ι σ ρ β : Type} (K : NestOps ι σ ρ β) (i : ι) (s : σ) :
    (K.nested i).run s = K.eff i s := run_nested K i s

/-- the repaired memory backend is an instance: `memProgWith true` runs `create_group_snapshot` and
    `rollback_group_to_snapshot` as the nested operations `memNest` (outer lock `group_snapshots`,
    protected part = the snapshot map), and every other storage method is un-nested and either takes
    `group_snapshots` (`release_group_snapshot`, `list_group_snapshots`, `prune_expired_snapshots`) or
    neither reads nor writes the snapshot map (all methods under `inner`, incl. the OpenMLS rows) -/
theorem mem_nested_instance :
    memNest.describes (memProgWith true) ∧
    ∀ op, op ≠ .dump → memNest.is op = false → memNest.good (memProgWith true op) :=
  ⟨memNest_describes, memProgN_good⟩

/-- GENERATED FACT.  Every memory-backend method of the table other than the two nested snapshot
    methods (27, 28) — the 30 other MDK trait methods and all 56 OpenMLS `StorageProvider` methods —
    is made of sections holding exactly ONE lock: `group_snapshots` for `release_group_snapshot`,
    `list_group_snapshots`, `prune_expired_snapshots` (29, 30, 31: excluded while a nested section
    holds that lock), `inner` for everything else (the methods `mem_nested_instance` shows
    independent of the snapshot map: in the model the OpenMLS methods are the rows written / read /
    deleted by `mlsWrite` / `mlsRead` / `mlsDelete`) -/
theorem mem_methods_lock_partition :
    (Generated.lockShape.filter (fun e => e.1 == 0 && !(e.2.1 == 27 || e.2.1 == 28))).all
      (fun e => e.2.2.2.1.all (fun st =>
        st.length == 1 && st.all (fun l => l.1 == (if e.2.1 == 29 || e.2.1 == 30 || e.2.1 == 31 then 1 else 0)))) = true := by
  decide
/-- the fused snapshot operations are ONE section each and ARE the sequential model's operations -/
theorem mem_fused_is_step (op : Op) (s : Store) (hb : s.backend = .mem) :
    (memNest.fuse (memProgWith true) op).run s = Store.step s op := memN_fuse_run op s hb

/-- Hence the repaired memory backend is LINEARIZABLE for all storage-trait methods including the
    snapshot methods: for every thread pool of storage methods, every memory store and every schedule
    that respects the locks, when no thread is inside a nested section at the end there is ONE
    sequential order `lin` of the completed calls (each nested call placed where its inner section
    ran) whose sequential execution on the store model yields exactly the final state and the
    results, and in which every thread's calls appear with the results that thread obtained, in its
    program order. -/
theorem mem_nested_linearizable (ops : Nat → List Op) (hops : ∀ t op, op ∈ ops t → methodOf op ≠ none)
    (s0 : Store) (hb : s0.backend = .mem) (sched : List Nat)
    (hr : respects (init (memProgWith true) ops s0) sched) :
    let c := exec (init (memProgWith true) ops s0) sched
    (∀ u, c.holds u = []) →
    ∃ lin : List (Nat × Op × String),
      seqRun (fun op => whole lkInnerW op) (lin.map (·.2.1)) s0 = (c.st, lin.map (·.2.2)) ∧
      ∀ u, logOf c.log u = logOf lin u := by
  intro c hq
  have hnd : ∀ t op, op ∈ ops t → op ≠ .dump := by
    intro t op hm e; subst e; exact hops t _ hm rfl
  have h := nested_section_atomic memNest (memProgWith true) memNest_describes ops
    (fun t op hm hno => memProgN_good op (hnd t op hm) hno) s0 sched hr
  obtain ⟨hst, hlog, _⟩ := h.1 hq
  refine ⟨(exec (init (memNest.fuse (memProgWith true)) ops s0) (memNest.reduce (init (memProgWith true) ops s0) sched)).log, ?_, hlog⟩
  have hs := single_section_atomic (memNest.fuse (memProgWith true)) ops (fun t op hm => by
    apply memN_fuse_single
    have := hops t op hm
    cases op <;> first | (left; rfl) | (right; rfl) | exact absurd rfl this) s0
    (memNest.reduce (init (memProgWith true) ops s0) sched)
  simp only at hs
  rw [memN_fuse_seqRun _ _ hb] at hs
  rw [hs]
  show (_, _) = (c.st, _)
  rw [hst]

/-- the same for the CURRENT source whenever its shape table shows the nested form -/
theorem mem_linearizable_of_nested_shape (h : memSnapNested = true)
    (ops : Nat → List Op) (hops : ∀ t op, op ∈ ops t → methodOf op ≠ none)
    (s0 : Store) (hb : s0.backend = .mem) (sched : List Nat)
    (hr : respects (init (lockProg .mem) ops s0) sched) :
    let c := exec (init (lockProg .mem) ops s0) sched
    (∀ u, c.holds u = []) →
    ∃ lin : List (Nat × Op × String),
      seqRun (fun op => whole lkInnerW op) (lin.map (·.2.1)) s0 = (c.st, lin.map (·.2.2)) ∧
      ∀ u, logOf c.log u = logOf lin u := by
  have e : lockProg .mem = memProgWith true := by show memProgWith memSnapNested = _; rw [h]
  rw [e] at hr ⊢
  exact mem_nested_linearizable ops hops s0 hb sched hr

/-- non-vacuity: thread 0 rolls group 1 back to its snapshot while thread 1 writes an OpenMLS row of
    the group BETWEEN step 1 and the inner section, then releases the snapshot — the schedule respects
    the locks, and at its end nobody holds a lock -/
def nestOps : Nat → List Op :=
  fun t => if t = 0 then [.snapRollback 1 2] else if t = 1 then [.mlsWrite 1 0 15, .snapRelease 1 2] else []

example : respects (init (memProgWith true) nestOps raceStore) [0, 1, 0, 0, 1] ∧
    (∀ u, (exec (init (memProgWith true) nestOps raceStore) [0, 1, 0, 0, 1]).holds u = []) ∧
    (∀ t op, op ∈ nestOps t → methodOf op ≠ none) := by
  have hidle : ∀ u, u ∉ [0, 1] → nestOps u = [] := by
    intro u hu
    have h0 : u ≠ 0 := fun e => hu (by simp [e])
    have h1 : u ≠ 1 := fun e => hu (by simp [e])
    simp [nestOps, h0, h1]
  refine ⟨?_, ?_, ?_⟩
  · exact respects_of_respectsB [0, 1] _ _ (init_idle _ _ _ _ hidle) (by decide)
  · exact quiescent_of_quiescentB _ [0, 1] (exec_keeps_idle _ _ _ (init_idle _ _ _ _ hidle)) (by decide)
  · intro t op hm
    by_cases h0 : t = 0
    · subst h0; simp [nestOps] at hm; subst hm; simp [methodOf]
    · by_cases h1 : t = 1
      · subst h1; simp [nestOps] at hm; rcases hm with e | e <;> subst e <;> simp [methodOf]
      · simp [nestOps, h0, h1] at hm

/-! #### the two-section shape is NOT linearizable (regression witness of finding `mem-snapshot-two-locks`)

  With two SEPARATE sections (`memProgWith false`, the source before the repair) thread 0's rollback
  removes the snapshot (section 1), thread 1 releases the same snapshot (answered ok) and writes an
  OpenMLS row of the group (answered ok), and then thread 0's restore (section 2) overwrites the
  write.  Every call is answered ok, yet in EVERY sequential order of the three calls that keeps
  thread 1's program order the row written last is still there at the end. -/

def raceOps : Nat → List Op
  | 0 => [.snapRollback 1 2]
  | 1 => [.snapRelease 1 2, .mlsWrite 1 0 15]
  | _ => []

/-- all ways to place one call among the calls of another thread (kept in their order) -/
def insertions {α : Type} (x : α) : List α → List (List α)
  | [] => [[x]]
  | y :: ys => (x :: y :: ys) :: (insertions x ys).map (y :: ·)

/-- the full-strength statement for a program `P` of the memory methods on this pool: whatever the
    schedule, SOME sequential order of the calls (thread 1's in program order) ends with the same
    OpenMLS rows as the concurrent run — kept visible; FALSE for the two-section shape -/
def C19_mem_snapshot_full (P : Op → Prog Store String) : Prop :=
  ∀ sched : List Nat,
    let c := exec (init P raceOps raceStore) sched
    (c.thr 0).isEmpty = true → (c.thr 1).isEmpty = true →
    ∃ order, order ∈ insertions (Op.snapRollback 1 2) (raceOps 1) ∧
      (seqRun (fun op => whole lkInnerW op) order raceStore).1.mls = c.st.mls

theorem two_sections_not_linearizable : ¬ C19_mem_snapshot_full (memProgWith false) := by
  intro h
  have := h [0, 1, 1, 0]
  revert this
  decide

/-- what the witness schedule produces: all three calls completed and answered ok, the snapshot is
    consumed, and the row written by the last call is GONE -/
theorem two_sections_witness :
    let c := exec (init (memProgWith false) raceOps raceStore) [0, 1, 1, 0]
    c.log.map (·.1) = [1, 1, 0] ∧ c.log.map (·.2.2) = ["ok", "ok", "ok"] ∧ c.st.mls = [] ∧ c.st.snaps.length = 0 ∧
    ∀ order, order ∈ insertions (Op.snapRollback 1 2) (raceOps 1) →
      (seqRun (fun op => whole lkInnerW op) order raceStore).1.mls = [(1, 0, 15)] := by
  decide

/-- the SAME schedule is not allowed by the locks of the nested shape: thread 1's
    `release_group_snapshot` needs `group_snapshots`, which thread 0 holds until its restore is done -/
theorem nested_excludes_witness_schedule : ¬ respects (init (memProgWith true) raceOps raceStore) [0, 1, 1, 0] := by
  intro h
  have h2 := h.2.1 _ _ rfl (1, 1) rfl 0 (1, 1) (by decide)
  revert h2
  decide

/-- … and for the CURRENT source: if its shape table shows two separate sections, the full statement
    is false of `lockProg .mem` (this is finding `mem-snapshot-two-locks`); if it shows the nested form, the same
    schedule is not allowed and `mem_linearizable_of_nested_shape` applies -/
theorem current_two_sections_not_linearizable (h : memSnapNested = false) : ¬ C19_mem_snapshot_full (lockProg .mem) := by
  have e : lockProg .mem = memProgWith false := by show memProgWith memSnapNested = _; rw [h]
  rw [e]; exact two_sections_not_linearizable

/-! ### 5. frame: an operation on group g leaves every other group's projection alone -/

theorem frame (s : Store) (op : Op) (g g' : Nat) (hop : opGroup op = some g) (hne : g' ≠ g) :
    view (Store.step s op).1 g' = view s g' := frame' s op g g' hop hne

example : opGroup (.saveSecret 1 2 3) = some 1 ∧ opGroup (.snapCreate 4 1 9) = some 4 := ⟨rfl, rfl⟩

end MdkVerif.Props.C19
