import MdkVerif.Model.Locks
import MdkVerif.Proofs.Locks
import MdkVerif.Proofs.LocksStore
/-
  C19 — Storage backends are safe to share between threads.
  Property theorems only (helper lemmas live in Proofs/Locks.lean, Proofs/LocksStore.lean).

  Claimed PARTIAL.  The theorems are about the LOCK PROTOCOL the source exhibits
  (`Generated.lockShape`, re-extracted on every run): a lock section is atomic by assumption.
  Data races, the lock implementations (parking_lot RwLock, std Mutex), SQLite's threading mode and
  panics are runtime facts; they are exercised by the `conc` harness, not proved.

  All theorems quantify over ANY thread pool (`ops : Nat → List _`, any number of threads), ANY
  schedule (`List Nat`) and ANY initial store.
-/
namespace MdkVerif.Props.C19
open MdkVerif MdkVerif.Store MdkVerif.Locks

/-! ### 0. the model's section structure is the one the source exhibits -/

/-- every method's sections, as modelled, are (a prefix of) the lock sections extracted from the
    source for that method on that backend — number, lock and mode -/
theorem lockProg_follows_shape (b : Backend) (op : Op) (m : Nat) (h : methodOf op = some m) :
    ∃ l, shapeOf b m = some l ∧ (lockProg b op).follows l :=
  lockProg_follows_shape' b op m h

/-- run back to back, the sections of a method are the sequential store model's step -/
theorem lockProg_sequential (b : Backend) (op : Op) (s : Store) (hb : s.backend = b) :
    (lockProg b op).run s = Store.step s op :=
  lockProg_run b op s hb

/-- sections executed under a shared lock do not write -/
theorem lockProg_reads_pure (b : Backend) (op : Op) : (lockProg b op).readsPure :=
  lockProg_readsPure' b op

/-- all OpenMLS `StorageProvider` methods of both backends are one un-nested section -/
theorem provider_methods_single_section :
    (Generated.lockShape.filter (fun e => e.2.1 ≥ 100)).all (fun e => e.2.2.2.1.length == 1 && !e.2.2.2.2) = true := by
  decide

/-! ### 1. single-section operations are linearizable by construction -/

/-- If every operation is a single lock section, then for every thread pool and every schedule the
    final state and all results are those of the SEQUENTIAL execution of the completed operations
    in the order their sections ran (`log` order). -/
theorem single_section_atomic {ι σ ρ : Type} (prog : ι → Prog σ ρ) (ops : Nat → List ι)
    (hs : ∀ t i, i ∈ ops t → (prog i).single) (s0 : σ) (sched : List Nat) :
    let c := exec (init prog ops s0) sched
    seqRun prog (c.log.map (·.2.1)) s0 = (c.st, c.log.map (·.2.2)) :=
  (seqInv_exec prog s0 sched _ (seqInv_init prog ops hs s0)).2

/-- … and that order extends every thread's program order: a thread's completed operations
    followed by its pending ones are exactly its operation list.  (Real-time order needs no separate
    statement: a single-section operation takes effect in the very step that completes it.) -/
theorem log_program_order {ι σ ρ : Type} (prog : ι → Prog σ ρ) (ops : Nat → List ι) (s0 : σ)
    (sched : List Nat) (t : Nat) :
    let c := exec (init prog ops s0) sched
    ((c.log.filter (fun e => e.1 == t)).map (·.2.1)) ++ (c.thr t).map (·.op) = ops t :=
  orderInv_exec ops sched _ (orderInv_init prog ops s0) t

theorem singleOp_single (b : Backend) (op : Op) (h : singleOp b op = true) : (lockProg b op).single :=
  singleOp_single' b op h

/-- the store instance: single-section storage operations on either backend behave, under every
    schedule, as the sequential store model run in completion order -/
theorem store_single_section_atomic (b : Backend) (ops : Nat → List Op)
    (hs : ∀ t op, op ∈ ops t → singleOp b op = true) (s0 : Store) (sched : List Nat) :
    let c := exec (init (lockProg b) ops s0) sched
    seqRun (lockProg b) (c.log.map (·.2.1)) s0 = (c.st, c.log.map (·.2.2)) :=
  single_section_atomic (lockProg b) ops (fun t i hi => singleOp_single b i (hs t i hi)) s0 sched

example : singleOp .mem (.saveSecret 1 2 3) = true ∧ singleOp .sql (.saveMessage default) = true ∧
    singleOp .mem (.saveMessage default) = false := by decide

/-! ### 2. check-then-act -/

/-- A two-section operation whose first section only evaluates a check (`Prog.cta`: group
    existence) is equivalent to the ATOMIC operation (`Prog.fused`: check and act in one section)
    placed where its SECOND section ran — same final state, same results in the same order, same
    pending work — for every thread pool and schedule satisfying the side condition `K.stable`:

      at every step of the schedule, for every OTHER thread that is between the two sections of a
      check-then-act (its check passed, its act has not run), the step does not turn that
      thread's check false.

    `K.reduce` is the schedule with the check-only steps deleted. -/
theorem check_then_act_reduces {ι σ ρ : Type} (K : CtaOps ι σ ρ) (prog : ι → Prog σ ρ)
    (hK : K.describes prog) (ops : Nat → List ι) (s0 : σ) (sched : List Nat)
    (hstable : K.stable (init prog ops s0) sched) :
    let c := exec (init prog ops s0) sched
    let a := exec (init (K.fuse prog) ops s0) (K.reduce (init prog ops s0) sched)
    c.st = a.st ∧ c.log = a.log ∧ ∀ t, (c.thr t).map (·.op) = (a.thr t).map (·.op) := by
  intro c a
  have h := rel_exec K prog hK sched _ _ (rel_init K prog ops s0) hstable
  exact ⟨h.1, h.2.1, fun t => qrel_ops K prog _ _ _ (h.2.2 t)⟩

/-- the check-then-act methods of the memory backend: `save_message` -/
def memCta : CtaOps Op Store String where
  is := fun op => match op with
    | .saveMessage _ => true
    | _ => false
  lk1 := fun _ => lkInnerR
  lk2 := fun _ => lkInnerW
  chk := fun op => match op with
    | .saveMessage m => exists? m.gid
    | _ => fun _ => false
  err := fun _ => "err"
  act := fun op => match op with
    | .saveMessage m => fun s => ({ s with msgs := upsertMsg m s.msgs }, "ok")
    | _ => fun s => (s, "err")

theorem memCta_describes : memCta.describes memProg := by
  intro op h
  cases op <;> simp [memCta] at h ⊢
  rfl

/-- the check-then-act methods of the sqlite backend: the six that call
    `find_group_by_mls_group_id` before their own `with_connection` -/
def sqlCta : CtaOps Op Store String := sqlCtaOps

theorem sqlCta_describes : sqlCta.describes sqlProg := sqlCta_describes'

/-- the fused operation IS the sequential model's operation (memory `save_message`) -/
theorem memCta_fused_is_step (m : Msg) (s : Store) (hb : s.backend = .mem) :
    (memCta.fuse memProg (.saveMessage m)).run s = Store.step s (.saveMessage m) := by
  simp only [CtaOps.fuse, memCta, if_true, run_fused]
  simp [Store.step, saveMessage, hb, okErr, exists?]
  cases findGroup s m.gid <;> simp

/-- memory: concurrent `save_message`s behave as atomic ones wherever no concurrent step removes
    the group between a thread's check and its insertion -/
theorem mem_save_message_reduces (ops : Nat → List Op) (s0 : Store) (sched : List Nat)
    (hstable : memCta.stable (init memProg ops s0) sched) :
    let c := exec (init memProg ops s0) sched
    let a := exec (init (memCta.fuse memProg) ops s0) (memCta.reduce (init memProg ops s0) sched)
    c.st = a.st ∧ c.log = a.log ∧ ∀ t, (c.thr t).map (·.op) = (a.thr t).map (·.op) :=
  check_then_act_reduces memCta memProg memCta_describes ops s0 sched hstable

/-- sqlite: the same for its six check-then-act methods -/
theorem sql_check_then_act_reduces (ops : Nat → List Op) (s0 : Store) (sched : List Nat)
    (hstable : sqlCta.stable (init sqlProg ops s0) sched) :
    let c := exec (init sqlProg ops s0) sched
    let a := exec (init (sqlCta.fuse sqlProg) ops s0) (sqlCta.reduce (init sqlProg ops s0) sched)
    c.st = a.st ∧ c.log = a.log ∧ ∀ t, (c.thr t).map (·.op) = (a.thr t).map (·.op) :=
  check_then_act_reduces sqlCta sqlProg sqlCta_describes ops s0 sched hstable

/-! #### the side condition is necessary on the memory backend (a real atomicity gap)

  Thread 0: `save_message` into group 1.  Thread 1: roll group 1 back to a snapshot taken before
  the group existed (memory snapshots record "no group").  Schedule: 0 (check passes), 1, 1
  (rollback: both sections), 0 (insertion).  The message is stored for a group that no longer
  exists and the call returns ok; with the atomic operation at the same place it is refused. -/

def witnessStore : Store :=
  { Store.empty .mem with
    groups := [{ gid := 1, nid := 11, nameLen := 1, descLen := 0, admins := 0, img := 0, lastId := none,
                 lastAt := none, lastProc := none, epoch := 0, state := 0, selfUpd := 0 }],
    snaps := [{ name := 1, gid := 1, createdAt := 5, group := none, relays := [], secrets := [], mls := [] }] }

def witnessMsg : Msg :=
  { id := 7, gid := 1, pk := 0, kind := 9, created := 100, processed := 100, content := 1, contentLen := 8,
    tag := 0, wrapper := 1, epoch := none, state := 1 }

def witnessOps : Nat → List Op
  | 0 => [.saveMessage witnessMsg]
  | 1 => [.snapRollback 1 1]
  | _ => []

def witnessSched : List Nat := [0, 1, 1, 0]

/-- the side condition fails on the witness … -/
theorem witness_not_stable : ¬ memCta.stable (init memProg witnessOps witnessStore) witnessSched := by
  intro h
  have h3 := h.2.2.1 0 (by decide) _ _ rfl rfl (by decide) (by decide)
  revert h3
  decide

/-- … and the conclusion fails with it: the interleaved run stores the message (1 row, for a group
    that is gone), the atomic operation at the place of the second section stores none.
    Replayed on the implementation by `corpus/C19/mem_save_message_vs_rollback.trace`. -/
theorem mem_save_message_not_atomic :
    (exec (init memProg witnessOps witnessStore) witnessSched).st.msgs.length = 1 ∧
    (exec (init memProg witnessOps witnessStore) witnessSched).st.groups.length = 0 ∧
    (exec (init (memCta.fuse memProg) witnessOps witnessStore)
        (memCta.reduce (init memProg witnessOps witnessStore) witnessSched)).st.msgs.length = 0 := by
  decide

/-- the full-strength statement (no side condition) — kept visible; it is FALSE of the code -/
def C19_cta_full : Prop :=
  ∀ (ops : Nat → List Op) (s0 : Store) (sched : List Nat),
    (exec (init memProg ops s0) sched).st.msgs.length =
    (exec (init (memCta.fuse memProg) ops s0) (memCta.reduce (init memProg ops s0) sched)).st.msgs.length

theorem C19_cta_full_false : ¬ C19_cta_full := by
  intro h
  have := h witnessOps witnessStore witnessSched
  revert this
  decide

/-- non-vacuity of the side condition: a schedule interleaving two threads' `save_message`s with a
    relay replacement by a third satisfies it -/
example : memCta.stable (init memProg
    (fun t => if t = 0 then [.saveMessage witnessMsg] else if t = 1 then [.saveMessage { witnessMsg with id := 8 }]
              else if t = 2 then [.replaceRelays 1 [3]] else []) witnessStore) [0, 1, 2, 1, 0] := by
  apply stable_of_stableB memCta [0, 1, 2]
  · intro u hu
    have h0 : u ≠ 0 := fun e => hu (by simp [e])
    have h1 : u ≠ 1 := fun e => hu (by simp [e])
    have h2 : u ≠ 2 := fun e => hu (by simp [e])
    simp [init, h0, h1, h2]
  · decide

/-! ### 3. snapshots are taken and restored at one instant -/

/-- memory `create_group_snapshot`: the first section (under `inner.read`) does not write, and the
    snapshot that the second section stores — in WHATEVER state `s2` the store is by then — is the
    group's state `takeSnap s1` at the single instant `s1` of the first section; then the method is done -/
theorem snapshot_instant_create_mem (g n ts : Nat) (s1 s2 : Store) :
    let P := lockProg .mem (.snapCreate g n ts)
    P.effect s1 = s1 ∧
    findSnap ((P.cont s1).effect s2) g n = some (takeSnap s1 g n ts) ∧
    (P.cont s1).cont s2 = .done "ok" := by
  intro P
  refine ⟨?_, ?_, ?_⟩
  · rfl
  · exact findSnap_drop_append s2.snaps (takeSnap s1 g n ts)
  · rfl

/-- sqlite `create_group_snapshot` / `rollback_group_to_snapshot`: ONE section (one connection-lock
    hold around the whole transaction) -/
theorem snapshot_instant_sql (g n ts : Nat) :
    (lockProg .sql (.snapCreate g n ts)).single ∧ (lockProg .sql (.snapRollback g n)).single :=
  ⟨single_atomic _ _, single_atomic _ _⟩

/-- memory `rollback_group_to_snapshot`: given the snapshot `p` the first section removed from the
    snapshot map, the second section — in whatever state `s2` — writes the group's OpenMLS rows,
    exporter secrets and record in ONE section, after which they are exactly the snapshot's; the
    snapshot map is not touched by that section; then the method is done -/
theorem snapshot_instant_restore_mem (g n : Nat) (s1 s2 : Store) (p : Snap) (hb : s2.backend = .mem)
    (hp : findSnap s1 g n = some p) :
    let P := lockProg .mem (.snapRollback g n)
    let s3 := (P.cont s1).effect s2
    groupMls s3 g = p.mls ∧ groupSecrets s3 g = p.secrets ∧ s3.snaps = s2.snaps ∧
    (P.cont s1).cont s2 = .done "ok" := by
  intro P s3
  obtain ⟨hg, hn⟩ := findSnap_key s1 g n p hp
  subst hg
  simp only [P, s3, lockProg, memProg, Prog.cont, hp, Prog.atomic, Prog.effect]
  refine ⟨?_, ?_, ?_, trivial⟩
  · simp only [restoreInner, restoreFrom, hb, groupMls]
    exact filter_map_restore p.gid s2.mls p.mls
  · simp only [restoreInner, restoreFrom, hb, groupSecrets]
    exact filter_map_restore p.gid s2.secrets p.secrets
  · simp [restoreInner, restoreFrom, hb]

/-! ### 4. no nested lock acquisition ⇒ no deadlock -/

/-- No storage-trait method of either backend (85 + 85 methods, `Generated.lockShape`) acquires a
    lock while holding another.  Hence every thread is, at any moment, idle, waiting for one lock
    while holding none, or holding exactly one lock (`Phase`), and in every such lock state the
    wait-for relation has no cycle (not even a path of length two). -/
theorem no_nested_locks_deadlock_free :
    Generated.lockShape.all (fun e => !e.2.2.2.2) = true ∧
    ∀ (ph : Nat → Phase) (a : Nat) (path : List Nat), ¬ (LockState.ofPhases ph).chain (a :: path ++ [a]) :=
  ⟨by decide, fun ph a path => no_wait_cycle _ (ofPhases_noNested ph) a path⟩

/-- the general lemma, for any lock state obeying the protocol -/
theorem no_nesting_no_wait_cycle (L : LockState) (h : L.noNested) (a : Nat) (path : List Nat) :
    ¬ L.chain (a :: path ++ [a]) := no_wait_cycle L h a path

example : (LockState.ofPhases (fun t => if t = 0 then .holding 0 else if t = 1 then .waiting 0 else .idle)).waitsFor 1 0 :=
  ⟨0, rfl, by simp [LockState.ofPhases]⟩

/-! ### 5. frame: an operation on group g leaves every other group's projection alone -/

theorem frame (s : Store) (op : Op) (g g' : Nat) (hop : opGroup op = some g) (hne : g' ≠ g) :
    view (Store.step s op).1 g' = view s g' := frame' s op g g' hop hne

example : opGroup (.saveSecret 1 2 3) = some 1 ∧ opGroup (.snapCreate 4 1 9) = some 4 := ⟨rfl, rfl⟩

end MdkVerif.Props.C19
