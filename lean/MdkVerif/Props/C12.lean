import MdkVerif.Model.Crash
import MdkVerif.Proofs.Crash
/-
  C12 — A crash at any storage step leaves a recoverable database (storage-level part).
  Property theorems only.  Claimed PARTIAL: the model covers atomicity at STATEMENT granularity
  (which statements are inside BEGIN … COMMIT / SAVEPOINT … RELEASE — `Generated.sql*In*`,
  re-extracted from the source on every run); that an interrupted transaction is rolled back on
  reopening and a COMMIT is all-or-nothing (journal / WAL recovery, fsync) is SQLite's guarantee.
  The mdk-core level (process_message, merge_pending_commit: many separate auto-committed
  statements) is added by the `world` engine.

  All theorems hold for every database contents `d0 : δ` (in particular every `Store`), every list
  of data statements `body`, every number of preceding SELECTs and EVERY crash point `k`.
-/
namespace MdkVerif.Props.C12
open MdkVerif MdkVerif.Crash

variable {δ : Type}

/-- BEGIN … COMMIT: a process death after any number `k` of statements leaves either the contents
    before the call or the contents after all of it — and the latter only if the whole call,
    COMMIT included, was executed -/
theorem txn_atomic (d0 : δ) (reads : Nat) (body : List (δ → δ)) (k : Nat) :
    crashAt k (txnCall true reads body) d0 = d0 ∨
    (crashAt k (txnCall true reads body) d0 = effect body d0 ∧ (txnCall true reads body).length ≤ k) := by
  simpa [txnCall] using bracket_atomic (δ := δ) .begin .commit d0 reads body rfl (fun _ => rfl) k

/-- the same for SAVEPOINT … RELEASE issued outside a transaction -/
theorem savepoint_atomic (d0 : δ) (reads : Nat) (body : List (δ → δ)) (k : Nat) :
    crashAt k (savepointCall true reads body) d0 = d0 ∨
    (crashAt k (savepointCall true reads body) d0 = effect body d0 ∧ (savepointCall true reads body).length ≤ k) := by
  simpa [savepointCall] using bracket_atomic (δ := δ) .savepoint .release d0 reads body rfl (fun _ => rfl) k

/-- uninterrupted, both forms have the effect of their body -/
theorem txn_complete (d0 : δ) (reads : Nat) (body : List (δ → δ)) :
    complete (txnCall true reads body) d0 = effect body d0 ∧ complete (savepointCall true reads body) d0 = effect body d0 := by
  constructor
  · simpa [txnCall] using complete_bracket (δ := δ) .begin .commit d0 reads body rfl (fun _ => rfl)
  · simpa [savepointCall] using complete_bracket (δ := δ) .savepoint .release d0 reads body rfl (fun _ => rfl)

/-- `create_group_snapshot` (sqlite): all its writes are inside one transaction
    (`Generated.sqlSnapshotInTransaction`), so it is all-or-nothing at every crash point -/
theorem snapshot_create_atomic (d0 : δ) (body : List (δ → δ)) (k : Nat) :
    let call := txnCall Generated.sqlSnapshotInTransaction 0 body
    crashAt k call d0 = d0 ∨ crashAt k call d0 = effect body d0 := by
  have h : Generated.sqlSnapshotInTransaction = true := by decide
  intro call
  simp only [call, h]
  rcases txn_atomic d0 0 body k with x | x
  · exact Or.inl x
  · exact Or.inr x.1

/-- `rollback_group_to_snapshot` (sqlite): the snapshot rows are SELECTed BEFORE `BEGIN`
    (`Generated.sqlRestoreReadsBeforeBegin`; `reads` statements — they change nothing and run on the
    same connection, under the same connection-lock hold, as the transaction), the deletes and
    re-inserts computed from them are inside one transaction: all-or-nothing at every crash point -/
theorem restore_atomic (d0 : δ) (reads : Nat) (body : List (δ → δ)) (k : Nat) :
    let call := txnCall Generated.sqlRestoreInTransaction (if Generated.sqlRestoreReadsBeforeBegin then reads else 0) body
    crashAt k call d0 = d0 ∨ crashAt k call d0 = effect body d0 := by
  have h : Generated.sqlRestoreInTransaction = true := by decide
  intro call
  simp only [call, h]
  rcases txn_atomic d0 (if Generated.sqlRestoreReadsBeforeBegin then reads else 0) body k with x | x
  · exact Or.inl x
  · exact Or.inr x.1

/-- `replace_group_relays` (sqlite): DELETE + INSERTs between SAVEPOINT and RELEASE
    (`Generated.sqlReplaceRelaysInSavepoint`): all-or-nothing at every crash point -/
theorem replace_relays_atomic (d0 : δ) (body : List (δ → δ)) (k : Nat) :
    let call := savepointCall Generated.sqlReplaceRelaysInSavepoint 0 body
    crashAt k call d0 = d0 ∨ crashAt k call d0 = effect body d0 := by
  have h : Generated.sqlReplaceRelaysInSavepoint = true := by decide
  intro call
  simp only [call, h]
  rcases savepoint_atomic d0 0 body k with x | x
  · exact Or.inl x
  · exact Or.inr x.1

/-- what the tick hook can observe: every tick precedes its statement, so a death at ANY tick of a
    bracketed call (fewer than all statements executed) leaves exactly the contents before the call -/
theorem crash_inside_is_pre (d0 : δ) (reads : Nat) (body : List (δ → δ)) (k : Nat)
    (hk : k < (txnCall true reads body).length) : crashAt k (txnCall true reads body) d0 = d0 := by
  rcases txn_atomic d0 reads body k with x | x
  · exact x
  · omega

/-- re-executing the interrupted call after reopening reaches the uninterrupted result -/
theorem retry_reaches_post (d0 : δ) (reads : Nat) (body : List (δ → δ)) (k : Nat)
    (hk : k < (txnCall true reads body).length) :
    complete (txnCall true reads body) (crashAt k (txnCall true reads body) d0) = effect body d0 := by
  rw [crash_inside_is_pre d0 reads body k hk]; exact (txn_complete d0 reads body).1

/-- full-strength statement: EVERY multi-statement call is all-or-nothing.  False without the
    bracket — which is the situation of the calls that are not wrapped (mdk-core's commit merge) -/
def C12_full : Prop :=
  ∀ (inTxn : Bool) (d0 : Nat) (body : List (Nat → Nat)) (k : Nat),
    crashAt k (txnCall inTxn 0 body) d0 = d0 ∨ crashAt k (txnCall inTxn 0 body) d0 = effect body d0

theorem C12_full_false : ¬ C12_full := by
  intro h
  have := h false 0 [(· + 1), (· + 1)] 1
  revert this
  decide

/-- non-vacuity: a three-statement transaction cut after BEGIN + 2 statements -/
example : crashAt 3 (txnCall true 0 [(· + 1), (· + 1), (· + 1)]) 10 = 10 ∧
    complete (txnCall true 0 [(· + 1), (· + 1), (· + 1)]) 10 = 13 := by decide

end MdkVerif.Props.C12
