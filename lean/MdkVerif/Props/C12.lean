import MdkVerif.Model.Crash
import MdkVerif.Model.CrashCore
import MdkVerif.Model.CrashSeq
import MdkVerif.Proofs.Crash
/-
  C12 — A crash at any storage step leaves a recoverable database (storage-level part).
  Property theorems only.  Claimed PARTIAL: the model covers atomicity at STATEMENT granularity
  (which statements are inside BEGIN … COMMIT / SAVEPOINT … RELEASE — `Generated.sql*In*`,
  re-extracted from the source on every run); that an interrupted transaction is rolled back on
  reopening and a COMMIT is all-or-nothing (journal / WAL recovery, fsync) is SQLite's guarantee.
  The mdk-core level (process_message, merge_pending_commit: many separate auto-committed
  statements) is added by the `world` engine.

  All theorems hold for every database contents `d0 : δ` (in particular every `Store`), every list
  of data statements `body`, every number of preceding SELECTs and EVERY crash point `k`.
-/
namespace MdkVerif.Props.C12
open MdkVerif MdkVerif.Crash

variable {δ : Type}

/-- BEGIN … COMMIT: a process death after any number `k` of statements leaves either the contents
    before the call or the contents after all of it — and the latter only if the whole call,
    COMMIT included, was executed -/
theorem txn_atomic (d0 : δ) (reads : Nat) (body : List (δ → δ)) (k : Nat) :
    crashAt k (txnCall true reads body) d0 = d0 ∨
    (crashAt k (txnCall true reads body) d0 = effect body d0 ∧ (txnCall true reads body).length ≤ k) := by
  simpa [txnCall] using bracket_atomic (δ := δ) .begin .commit d0 reads body rfl (fun _ => rfl) k

/-- the same for SAVEPOINT … RELEASE issued outside a transaction -/
theorem savepoint_atomic (d0 : δ) (reads : Nat) (body : List (δ → δ)) (k : Nat) :
    crashAt k (savepointCall true reads body) d0 = d0 ∨
    (crashAt k (savepointCall true reads body) d0 = effect body d0 ∧ (savepointCall true reads body).length ≤ k) := by
  simpa [savepointCall] using bracket_atomic (δ := δ) .savepoint .release d0 reads body rfl (fun _ => rfl) k

/-- uninterrupted, both forms have the effect of their body -/
theorem txn_complete (d0 : δ) (reads : Nat) (body : List (δ → δ)) :
    complete (txnCall true reads body) d0 = effect body d0 ∧ complete (savepointCall true reads body) d0 = effect body d0 := by
  constructor
  · simpa [txnCall] using complete_bracket (δ := δ) .begin .commit d0 reads body rfl (fun _ => rfl)
  · simpa [savepointCall] using complete_bracket (δ := δ) .savepoint .release d0 reads body rfl (fun _ => rfl)

/-- `create_group_snapshot` (sqlite): all its writes are inside one transaction
    (`Generated.sqlSnapshotInTransaction`), so it is all-or-nothing at every crash point -/
theorem snapshot_create_atomic (d0 : δ) (body : List (δ → δ)) (k : Nat) :
    let call := txnCall Generated.sqlSnapshotInTransaction 0 body
    crashAt k call d0 = d0 ∨ crashAt k call d0 = effect body d0 := by
  have h : Generated.sqlSnapshotInTransaction = true := by decide
  intro call
  simp only [call, h]
  rcases txn_atomic d0 0 body k with x | x
  · exact Or.inl x
  · exact Or.inr x.1

/-- `rollback_group_to_snapshot` (sqlite): the snapshot rows are SELECTed BEFORE `BEGIN`
    (`Generated.sqlRestoreReadsBeforeBegin`; `reads` statements — they change nothing and run on the
    same connection, under the same connection-lock hold, as the transaction), the deletes and
    re-inserts computed from them are inside one transaction: all-or-nothing at every crash point -/
theorem restore_atomic (d0 : δ) (reads : Nat) (body : List (δ → δ)) (k : Nat) :
    let call := txnCall Generated.sqlRestoreInTransaction (if Generated.sqlRestoreReadsBeforeBegin then reads else 0) body
    crashAt k call d0 = d0 ∨ crashAt k call d0 = effect body d0 := by
  have h : Generated.sqlRestoreInTransaction = true := by decide
  intro call
  simp only [call, h]
  rcases txn_atomic d0 (if Generated.sqlRestoreReadsBeforeBegin then reads else 0) body k with x | x
  · exact Or.inl x
  · exact Or.inr x.1

/-- `replace_group_relays` (sqlite): DELETE + INSERTs between SAVEPOINT and RELEASE
    (`Generated.sqlReplaceRelaysInSavepoint`): all-or-nothing at every crash point -/
theorem replace_relays_atomic (d0 : δ) (body : List (δ → δ)) (k : Nat) :
    let call := savepointCall Generated.sqlReplaceRelaysInSavepoint 0 body
    crashAt k call d0 = d0 ∨ crashAt k call d0 = effect body d0 := by
  have h : Generated.sqlReplaceRelaysInSavepoint = true := by decide
  intro call
  simp only [call, h]
  rcases savepoint_atomic d0 0 body k with x | x
  · exact Or.inl x
  · exact Or.inr x.1

/-- what the tick hook can observe: every tick precedes its statement, so a death at ANY tick of a
    bracketed call (fewer than all statements executed) leaves exactly the contents before the call -/
theorem crash_inside_is_pre (d0 : δ) (reads : Nat) (body : List (δ → δ)) (k : Nat)
    (hk : k < (txnCall true reads body).length) : crashAt k (txnCall true reads body) d0 = d0 := by
  rcases txn_atomic d0 reads body k with x | x
  · exact x
  · omega

/-- re-executing the interrupted call after reopening reaches the uninterrupted result -/
theorem retry_reaches_post (d0 : δ) (reads : Nat) (body : List (δ → δ)) (k : Nat)
    (hk : k < (txnCall true reads body).length) :
    complete (txnCall true reads body) (crashAt k (txnCall true reads body) d0) = effect body d0 := by
  rw [crash_inside_is_pre d0 reads body k hk]; exact (txn_complete d0 reads body).1

/-- full-strength statement: EVERY multi-statement call is all-or-nothing.  False without the
    bracket — which is the situation of the calls that are not wrapped (mdk-core's commit merge) -/
def C12_full : Prop :=
  ∀ (inTxn : Bool) (d0 : Nat) (body : List (Nat → Nat)) (k : Nat),
    crashAt k (txnCall inTxn 0 body) d0 = d0 ∨ crashAt k (txnCall inTxn 0 body) d0 = effect body d0

theorem C12_full_false : ¬ C12_full := by
  intro h
  have := h false 0 [(· + 1), (· + 1)] 1
  revert this
  decide

/-- non-vacuity: a three-statement transaction cut after BEGIN + 2 statements -/
example : crashAt 3 (txnCall true 0 [(· + 1), (· + 1), (· + 1)]) 10 = 10 ∧
    complete (txnCall true 0 [(· + 1), (· + 1), (· + 1)]) 10 = 13 := by decide

/-! ## mdk-core level: death inside `process_message`, `process_welcome`, `merge_pending_commit`

`Model.CrashCore`: a call is the ordered list of its storage effects as RECORDED on the real code (the
observed sequence of crash classes along the ticks of every call must equal `CrashCore.classes kind` — the
correspondence obligation checked on every run by `vlib/crashweng.py`).  None of these calls is bracketed
by a transaction.  All statements below are for EVERY store on which the call runs for the first time. -/

set_option linter.unusedSimpArgs false

open CrashCore in
/-- the abstract store, with the dedup record absent, nothing decrypted yet, record and MLS state in step -/
def coreFresh (kind : CrashCore.Kind) (d : CrashCore.Db) : Prop := CrashCore.fresh kind d = true

/-- **hand_sequence_matches_source.**  The effect sequences the core-level theorems below talk about ARE the
    sequences of durable write steps translated from the current source (`Generated.writeSeq`, regenerated on
    every run by tools/writeseq.py), step by step replaced by their effect on the projection.  A source change
    that reorders, adds or drops a durable write of one of these calls changes the generated table; then this
    statement no longer checks, and with it every prefix statement below that rewrites with it. -/
theorem hand_sequence_matches_source :
    CrashCore.writes .application = [.saveSecret, .consume, .saveMsg, .savePm 1, .setPtr] ∧
    CrashCore.writes .commit = [.saveSecret, .consume, .snapshot, .bumpMls, .saveSecret, .syncRecord, .savePm 2] ∧
    CrashCore.writes .welcome = [.saveGroup, .saveRelays, .saveWelcome, .savePw] ∧
    CrashCore.writes .merge = [.dropPending, .bumpMls, .syncRecord] := by decide

theorem writes_application : CrashCore.writes .application = [.saveSecret, .consume, .saveMsg, .savePm 1, .setPtr] :=
  hand_sequence_matches_source.1
theorem writes_commit : CrashCore.writes .commit = [.saveSecret, .consume, .snapshot, .bumpMls, .saveSecret, .syncRecord, .savePm 2] :=
  hand_sequence_matches_source.2.1
theorem writes_welcome : CrashCore.writes .welcome = [.saveGroup, .saveRelays, .saveWelcome, .savePw] :=
  hand_sequence_matches_source.2.2.1
theorem writes_merge : CrashCore.writes .merge = [.dropPending, .bumpMls, .syncRecord] :=
  hand_sequence_matches_source.2.2.2

theorem saveSecret_idem (d : CrashCore.Db) :
    CrashCore.applyW (CrashCore.applyW d .saveSecret) .saveSecret = CrashCore.applyW d .saveSecret := by
  simp only [CrashCore.applyW]
  by_cases h : d.mlsE ∈ d.secrets
  · simp [h]
  · simp [h]

/-- **core_application_prefix.**  An application message: a death is recoverable exactly BEFORE OpenMLS
    decrypts (after at most the lazily created exporter secret was saved): `save_processed_message` is not
    the protecting write — the ratchet secret the decryption consumed is persisted first, so from then on
    the retry is refused (`Unprocessable`, recorded as Failed) and the message is lost, whether or not its
    row or its dedup record had been written. -/
theorem core_application_prefix (d : CrashCore.Db) (hf : coreFresh .application d) :
    CrashCore.recovered .application 0 d = true ∧ CrashCore.recovered .application 1 d = true ∧
    CrashCore.recovered .application 2 d = false ∧ CrashCore.recovered .application 3 d = false ∧
    CrashCore.recovered .application 4 d = false := by
  simp only [coreFresh, CrashCore.fresh, Bool.and_eq_true, beq_iff_eq, Bool.not_eq_true'] at hf
  obtain ⟨⟨⟨⟨h1, h2⟩, h3⟩, h4⟩, h5⟩ := hf
  refine ⟨?_, ?_, ?_, ?_, ?_⟩
  · simp [CrashCore.recovered, CrashCore.crashAt, writes_application, writes_commit, writes_welcome, writes_merge, CrashCore.run, CrashCore.retry, h1, h2]
  · have : CrashCore.retry .application (CrashCore.crashAt .application 1 d) = CrashCore.complete .application d := by
      simp only [CrashCore.crashAt, writes_application, writes_commit, writes_welcome, writes_merge, CrashCore.run, List.take, List.foldl, CrashCore.retry]
      have hp : (CrashCore.applyW d .saveSecret).pm = 0 := by simp [CrashCore.applyW, h1]
      have hc : (CrashCore.applyW d .saveSecret).consumed = false := by simp [CrashCore.applyW, h2]
      simp only [hp, hc]
      simp [CrashCore.complete, writes_application, writes_commit, writes_welcome, writes_merge, CrashCore.run, List.foldl, saveSecret_idem]
    simp [CrashCore.recovered, this]
  · simp [CrashCore.recovered, CrashCore.obs, CrashCore.crashAt, writes_application, writes_commit, writes_welcome, writes_merge, CrashCore.run, CrashCore.retry, CrashCore.complete, CrashCore.applyW, h1, h5]
  · simp [CrashCore.recovered, CrashCore.obs, CrashCore.crashAt, writes_application, writes_commit, writes_welcome, writes_merge, CrashCore.run, CrashCore.retry, CrashCore.complete, CrashCore.applyW, h1, h5]
  · simp [CrashCore.recovered, CrashCore.obs, CrashCore.crashAt, writes_application, writes_commit, writes_welcome, writes_merge, CrashCore.run, CrashCore.retry, CrashCore.complete, CrashCore.applyW, h5]

/-- **core_commit_prefix.**  A commit of another member: recoverable only before the decryption; afterwards
    the retry is refused in every prefix — with the snapshot left behind, with the MLS rows already at the
    next epoch while the group record (and possibly the exporter secret) are still at the old one, or with
    everything applied except the dedup record. -/
theorem core_commit_prefix (d : CrashCore.Db) (hf : coreFresh .commit d) :
    CrashCore.recovered .commit 0 d = true ∧ CrashCore.recovered .commit 1 d = true ∧
    (∀ k, 2 ≤ k → k ≤ 5 → CrashCore.recovered .commit k d = false) ∧ CrashCore.recovered .commit 6 d = true := by
  simp only [coreFresh, CrashCore.fresh, Bool.and_eq_true, beq_iff_eq, Bool.not_eq_true'] at hf
  obtain ⟨⟨⟨h1, h2⟩, h3⟩, h4⟩ := hf
  refine ⟨?_, ?_, ?_, ?_⟩
  · simp [CrashCore.recovered, CrashCore.crashAt, writes_application, writes_commit, writes_welcome, writes_merge, CrashCore.run, CrashCore.retry, h1, h2]
  · have : CrashCore.retry .commit (CrashCore.crashAt .commit 1 d) = CrashCore.complete .commit d := by
      simp only [CrashCore.crashAt, writes_application, writes_commit, writes_welcome, writes_merge, CrashCore.run, List.take, List.foldl, CrashCore.retry]
      have hp : (CrashCore.applyW d .saveSecret).pm = 0 := by simp [CrashCore.applyW, h1]
      have hc : (CrashCore.applyW d .saveSecret).consumed = false := by simp [CrashCore.applyW, h2]
      simp only [hp, hc]
      simp [CrashCore.complete, writes_application, writes_commit, writes_welcome, writes_merge, CrashCore.run, List.foldl, saveSecret_idem]
    simp [CrashCore.recovered, this]
  · intro k hk1 hk2
    have : k = 2 ∨ k = 3 ∨ k = 4 ∨ k = 5 := by omega
    rcases this with e | e | e | e <;> subst e <;>
      simp [CrashCore.recovered, CrashCore.obs, CrashCore.crashAt, writes_application, writes_commit, writes_welcome, writes_merge, CrashCore.run, CrashCore.retry, CrashCore.complete, CrashCore.applyW, h1] <;>
      (try (intros; omega))
  · simp [CrashCore.recovered, CrashCore.obs, CrashCore.crashAt, writes_application, writes_commit, writes_welcome, writes_merge, CrashCore.run, CrashCore.retry, CrashCore.complete, CrashCore.applyW, h1]

/-- **core_welcome_prefix.**  `process_welcome`: every prefix is recoverable — the group record and the
    relays are idempotent upserts, and since /repo fed41a9 the welcome is stored BEFORE its processed-welcome
    record, so the retry either starts over or finds the welcome by its rumor id and adds the record.
    (`welcome_record_first_unrecoverable` below keeps the former order's failure as a closed witness.) -/
theorem core_welcome_prefix (d : CrashCore.Db) (hf : coreFresh .welcome d) :
    ∀ k, CrashCore.recovered .welcome k d = true := by
  simp only [coreFresh, CrashCore.fresh, Bool.and_eq_true, Bool.not_eq_true'] at hf
  obtain ⟨⟨h1, h2⟩, h3⟩ := hf
  intro k
  have : k = 0 ∨ k = 1 ∨ k = 2 ∨ k = 3 ∨ 4 ≤ k := by omega
  rcases this with e | e | e | e | e
  · subst e; simp [CrashCore.recovered, CrashCore.obs, CrashCore.crashAt, writes_application, writes_commit, writes_welcome, writes_merge, CrashCore.run, CrashCore.retry, CrashCore.complete, CrashCore.applyW, h2, h3]
  · subst e; simp [CrashCore.recovered, CrashCore.obs, CrashCore.crashAt, writes_application, writes_commit, writes_welcome, writes_merge, CrashCore.run, CrashCore.retry, CrashCore.complete, CrashCore.applyW, h2, h3]
  · subst e; simp [CrashCore.recovered, CrashCore.obs, CrashCore.crashAt, writes_application, writes_commit, writes_welcome, writes_merge, CrashCore.run, CrashCore.retry, CrashCore.complete, CrashCore.applyW, h2, h3]
  · subst e; simp [CrashCore.recovered, CrashCore.obs, CrashCore.crashAt, writes_application, writes_commit, writes_welcome, writes_merge, CrashCore.run, CrashCore.retry, CrashCore.complete, CrashCore.applyW, h2, h3]
  · have ht : (CrashCore.writes .welcome).take k = CrashCore.writes .welcome := List.take_of_length_le (by simp [writes_welcome]; omega)
    simp only [CrashCore.recovered, CrashCore.crashAt, ht]
    simp [CrashCore.obs, writes_welcome, CrashCore.run, CrashCore.retry, CrashCore.complete, CrashCore.applyW]

/-- **core_merge_prefix.**  `merge_pending_commit`: the pending commit is deleted FIRST; a death right after
    loses it (the commit was published, the others move on, this client can never apply its own commit); a
    death after the MLS rows moved leaves the record one epoch behind. -/
theorem core_merge_prefix (d : CrashCore.Db) (hf : coreFresh .merge d) :
    CrashCore.recovered .merge 0 d = true ∧ CrashCore.recovered .merge 1 d = false ∧
    CrashCore.recovered .merge 2 d = false := by
  simp only [coreFresh, CrashCore.fresh, Bool.and_eq_true, beq_iff_eq] at hf
  obtain ⟨h1, h2⟩ := hf
  refine ⟨?_, ?_, ?_⟩ <;>
    simp [CrashCore.recovered, CrashCore.obs, CrashCore.crashAt, writes_application, writes_commit, writes_welcome, writes_merge, CrashCore.run, CrashCore.retry, CrashCore.complete, CrashCore.applyW, h1, h2]

/-- the classification function is sound: whatever it calls recoverable is recovered, and nothing else is -/
theorem core_classify_sound (kind : CrashCore.Kind) (d : CrashCore.Db) (hf : coreFresh kind d) (k : Nat)
    (hk : k < (CrashCore.writes kind).length) :
    (CrashCore.classify kind k).harmless = true ↔ CrashCore.recovered kind k d = true := by
  cases kind with
  | application =>
    obtain ⟨a0, a1, a2, a3, a4⟩ := core_application_prefix d hf
    have : k = 0 ∨ k = 1 ∨ k = 2 ∨ k = 3 ∨ k = 4 := by simp [writes_application, writes_commit, writes_welcome, writes_merge] at hk; omega
    rcases this with e | e | e | e | e <;> subst e <;> simp [CrashCore.classify, CrashCore.Class.harmless, *]
  | commit =>
    obtain ⟨a0, a1, a2, a3⟩ := core_commit_prefix d hf
    have : k = 0 ∨ k = 1 ∨ (2 ≤ k ∧ k ≤ 5) ∨ k = 6 := by simp [writes_application, writes_commit, writes_welcome, writes_merge] at hk; omega
    rcases this with e | e | ⟨e1, e2⟩ | e
    · subst e; simp [CrashCore.classify, CrashCore.Class.harmless, a0]
    · subst e; simp [CrashCore.classify, CrashCore.Class.harmless, a1]
    · have := a2 k e1 e2
      have hk' : k = 2 ∨ k = 3 ∨ k = 4 ∨ k = 5 := by omega
      rcases hk' with e | e | e | e <;> subst e <;> simp [CrashCore.classify, CrashCore.Class.harmless, this]
    · subst e; simp [CrashCore.classify, CrashCore.Class.harmless, a3]
  | welcome =>
    have := core_welcome_prefix d hf k
    have hk' : k = 0 ∨ k = 1 ∨ k = 2 ∨ k = 3 := by simp [writes_application, writes_commit, writes_welcome, writes_merge] at hk; omega
    rcases hk' with e | e | e | e <;> subst e <;> simp [CrashCore.classify, CrashCore.Class.harmless, this]
  | merge =>
    obtain ⟨a0, a1, a2⟩ := core_merge_prefix d hf
    have : k = 0 ∨ k = 1 ∨ k = 2 := by simp [writes_application, writes_commit, writes_welcome, writes_merge] at hk; omega
    rcases this with e | e | e <;> subst e <;> simp [CrashCore.classify, CrashCore.Class.harmless, *]

/-- the full-strength property at the mdk-core level: EVERY crash point of EVERY call is recoverable -/
def C12_core_full : Prop :=
  ∀ (kind : CrashCore.Kind) (d : CrashCore.Db) (k : Nat), coreFresh kind d → CrashCore.recovered kind k d = true

/-- a store with a joined group at epoch 5 -/
def coreDemo : CrashCore.Db :=
  { mlsE := 5, recE := 5, secrets := [4, 5], pm := 0, msgs := 3, snaps := 1, pending := false, consumed := false,
    groupRow := true, pwRow := true, welcomeRow := true, ptr := false }

/-- **C12_witness_torn_merge.**  Death inside the processing of a commit after OpenMLS merged it: the MLS
    rows are at epoch 6, the group record at 5, no exporter secret for 6, the snapshot is left behind; the
    retry of the same commit is refused and recorded as Failed.  (`corpus/C12/core_invitee.wtrace`) -/
theorem C12_witness_torn_merge :
    let c := CrashCore.crashAt .commit 4 coreDemo
    c.mlsE = 6 ∧ c.recE = 5 ∧ c.secrets = [4, 5] ∧ c.snaps = 2 ∧
    (CrashCore.retry .commit c).pm = 3 ∧ (CrashCore.retry .commit c).recE = 5 ∧
    CrashCore.recovered .commit 4 coreDemo = false := by decide

/-- **C12_witness_message_lost.**  Death between OpenMLS's decryption of an application message and the
    message row: nothing visible changed, yet the message can never be read. -/
theorem C12_witness_message_lost :
    let c := CrashCore.crashAt .application 2 coreDemo
    c.msgs = 3 ∧ c.pm = 0 ∧ (CrashCore.retry .application c).msgs = 3 ∧ (CrashCore.retry .application c).pm = 3 ∧
    (CrashCore.complete .application coreDemo).msgs = 4 := by decide

/-- **C12_witness_pending_commit_lost.** -/
theorem C12_witness_pending_commit_lost :
    let d := { coreDemo with pending := true }
    (CrashCore.crashAt .merge 1 d).pending = false ∧ (CrashCore.crashAt .merge 1 d).mlsE = 5 ∧
    (CrashCore.retry .merge (CrashCore.crashAt .merge 1 d)).mlsE = 5 ∧ (CrashCore.complete .merge d).mlsE = 6 := by decide

/-- the former order of `process_welcome` (record first): the prefix with the record and without the welcome
    is answered from the dedup record for ever — what the reordering in /repo fed41a9 removed -/
theorem welcome_record_first_unrecoverable :
    let d : CrashCore.Db := { coreDemo with groupRow := false, pwRow := false, welcomeRow := false }
    let torn := CrashCore.run d [.saveGroup, .saveRelays, .savePw]
    (CrashCore.retry .welcome torn).welcomeRow = false ∧ (CrashCore.complete .welcome d).welcomeRow = true := by decide

/-- a death after the message row and its Processed record, before the group's last-message pointer moved:
    the retry is refused (the ciphertext is consumed) and the pointer never names the message -/
theorem C12_witness_pointer_never_set :
    let c := CrashCore.crashAt .application 4 coreDemo
    c.msgs = 4 ∧ c.pm = 1 ∧ (CrashCore.retry .application c).ptr = false ∧ (CrashCore.complete .application coreDemo).ptr = true := by decide

theorem C12_core_full_false : ¬ C12_core_full := by
  intro h
  have := h .commit coreDemo 4 (by simp [coreFresh]; decide)
  revert this; decide

/-! ## every entry point of the regenerated table (`Model.CrashSeq`)

`Generated.writeSeq` is re-extracted from the source on every run; everything below is a statement about that
table.  A store is one of `CrashSeq.freshStores case`: the store on which the call runs for the first time, with
the exporter secret of the current epoch cached or not (the only pre-state unknown the effects depend on). -/

open CrashSeq in
/-- **classify_sound_all.**  For EVERY classified case of the regenerated table, every success path, every proper
    prefix `k` and every fresh store `d`, with `c` the class the decision procedure `classifyG` assigns (the one
    `vlib/crashweng.py` applies to the real store) and `r` = the crash point is recovered (a re-delivered event ends
    in the uninterrupted run's observable state; an interrupted local call leaves a usable store):
    a class called harmless is recovered; a recovered point is called harmless or differs in the dedup record of
    the event only; a point that is not recovered carries a named mechanism; and neither `c` nor `r` depends on
    which fresh store it is. -/
theorem classify_sound_all (case : Nat) (paths : List (List Nat)) (hc : (case, paths) ∈ Generated.writeSeq)
    (hm : CrashSeq.modelled case = true) (p : List Nat) (hp : p ∈ paths) (k : Nat)
    (hk : k < (CrashCore.expand case p).length) (d : CrashCore.Db) (hd : d ∈ CrashSeq.freshStores case) :
    let ws := CrashCore.expand case p
    let c := CrashSeq.classifyG (CrashSeq.modeOf case) ws k d
    let r := CrashSeq.recoveredG (CrashSeq.modeOf case) ws k d
    (c.harmless = true → r = true) ∧
    (r = true → c.harmless = true ∨ CrashSeq.recordOnly (CrashSeq.modeOf case) ws k d = true) ∧
    (r = false → c ≠ .other ∧ c ≠ .recoverable) ∧
    c = CrashSeq.classifyG (CrashSeq.modeOf case) ws k (CrashSeq.freshStore case false) ∧
    r = CrashSeq.recoveredG (CrashSeq.modeOf case) ws k (CrashSeq.freshStore case false) := by
  have h : CrashSeq.soundAll = true := by decide
  unfold CrashSeq.soundAll at h
  rw [List.all_eq_true] at h
  have h1 := h (case, paths) (List.mem_filter.mpr ⟨hc, hm⟩)
  rw [List.all_eq_true] at h1
  have h2 := h1 p hp
  rw [List.all_eq_true] at h2
  have h3 := h2 k (List.mem_range.mpr hk)
  rw [List.all_eq_true] at h3
  have h4 := h3 d hd
  unfold CrashSeq.soundAt at h4
  simp only [Bool.and_eq_true, Bool.or_eq_true, Bool.not_eq_true', beq_iff_eq, bne_iff_ne] at h4
  obtain ⟨⟨⟨⟨a1, a2⟩, a3⟩, a4⟩, a5⟩ := h4
  refine ⟨?_, ?_, ?_, a4, a5⟩
  · intro hh; rcases a1 with x | x
    · rw [x] at hh; cases hh
    · exact x
  · intro hr; rcases a2 with (x | x) | x
    · rw [x] at hr; cases hr
    · exact Or.inl x
    · exact Or.inr x
  · intro hr; rcases a3 with x | x
    · rw [x] at hr; cases hr
    · exact x

/-- **unrecoverable_prefixes.**  The exact set of (case, path, number of effects performed, mechanism) of the
    regenerated table at which a process death is NOT recovered.  A source change that opens a new such prefix — or
    closes one — changes this list: the obligation has a name. -/
theorem unrecoverable_prefixes :
    CrashSeq.openPrefixes =
      [(0, 0, 2, .decryptConsumed), (0, 0, 3, .msgSavedNoRecord), (0, 0, 4, .dedupBlocks), (0, 1, 2, .decryptConsumed),
       (1, 0, 2, .decryptConsumed), (1, 0, 3, .snapshotLeft), (1, 0, 4, .tornMerge), (1, 0, 5, .tornMerge),
       (4, 0, 2, .decryptConsumed), (5, 0, 2, .decryptConsumed), (5, 0, 3, .decryptConsumed), (5, 1, 2, .decryptConsumed),
       (14, 0, 2, .tornAccept),
       (23, 0, 1, .pendingLost), (23, 0, 2, .tornMerge), (23, 1, 1, .pendingLost), (23, 1, 2, .tornMerge)] := by decide

/-- **unrecoverable_signatures.**  Mechanism × call kind of the open prefixes: the open crash findings of
    known_findings.jsonl (`<mechanism>:<call>`; `./check C12` compares the two lists: `tie:c12-open-findings`).
    Call kinds: 0 process_application, 1 process_commit, 2 process_proposal, 4 accept_welcome, 11 merge_pending_commit. -/
theorem unrecoverable_signatures :
    CrashSeq.openSignatures =
      [(.msgSavedNoRecord, 0), (.dedupBlocks, 0), (.decryptConsumed, 0), (.decryptConsumed, 1), (.snapshotLeft, 1), (.tornMerge, 1),
       (.decryptConsumed, 2), (.tornAccept, 4), (.pendingLost, 11), (.tornMerge, 11)] := by decide

/-- every other classified entry point — process_welcome (both cases), create_message, add_members, remove_members,
    update_group_data, self_update, leave_group, clear_pending_commit, the failure-recording paths, the start-up
    prune and the step functions — has NO unrecoverable prefix -/
theorem other_entry_points_recoverable :
    ∀ x ∈ CrashSeq.openPrefixes, x.1 ∈ [0, 1, 4, 5, 14, 23] := by decide

def coreClass : CrashCore.Class → CrashSeq.ClassG
  | .recoverable => .recoverable
  | .decryptConsumed => .decryptConsumed
  | .msgSavedNoRecord => .msgSavedNoRecord
  | .dedupBlocks => .dedupBlocks
  | .snapshotLeft => .snapshotLeft
  | .tornMerge => .tornMerge
  | .appliedNoRecord => .appliedNoRecord
  | .pendingLost => .pendingLost

/-- the generic procedure agrees with the table of the four calls whose prefix theorems above hold for EVERY store -/
theorem generic_agrees_with_core (kind : CrashCore.Kind) (k : Nat) (hk : k < (CrashCore.writes kind).length) :
    CrashSeq.classifyG (CrashSeq.modeOf kind.case) (CrashCore.writes kind) k (CrashSeq.freshStore kind.case false)
      = coreClass (CrashCore.classify kind k) := by
  cases kind with
  | application =>
    have : k = 0 ∨ k = 1 ∨ k = 2 ∨ k = 3 ∨ k = 4 := by simp [writes_application] at hk; omega
    rcases this with e | e | e | e | e <;> subst e <;> decide
  | commit =>
    have : k = 0 ∨ k = 1 ∨ k = 2 ∨ k = 3 ∨ k = 4 ∨ k = 5 ∨ k = 6 := by simp [writes_commit] at hk; omega
    rcases this with e | e | e | e | e | e | e <;> subst e <;> decide
  | welcome =>
    have : k = 0 ∨ k = 1 ∨ k = 2 ∨ k = 3 := by simp [writes_welcome] at hk; omega
    rcases this with e | e | e | e <;> subst e <;> decide
  | merge =>
    have : k = 0 ∨ k = 1 ∨ k = 2 := by simp [writes_merge] at hk; omega
    rcases this with e | e | e <;> subst e <;> decide


/-! ### the two other calls with an open mechanism, for EVERY store (not only the fresh stores of `Model.CrashSeq`) -/

/-- the regenerated sequences of accept_welcome and of a leave proposal that the receiving admin auto-commits -/
theorem accept_and_autocommit_sequences_match_source :
    CrashCore.expand 14 ((CrashCore.sourcePaths 14).headD []) = [.joinMls, .acceptWelcome, .activate, .saveRelays] ∧
    CrashCore.expand 5 ((CrashCore.sourcePaths 5).headD []) = [.saveSecret, .consume, .storeProposal, .setPending, .saveSecret, .savePm 1] := by
  decide

/-- **accept_prefix_all_stores.**  `accept_welcome` on ANY store whose welcome is not yet Accepted: a death is
    recovered before the welcome record is turned Accepted (OpenMLS's `into_group` may have stored the group: the
    retry replaces it) and after the group record is Active; in between — welcome Accepted, group record still
    Pending — the retry is refused ("already accepted") and the group never becomes Active: `torn-accept`. -/
theorem accept_prefix_all_stores (d : CrashCore.Db) (h : d.accepted = false) (ha : d.active = false) :
    let ws : List CrashCore.W := [.joinMls, .acceptWelcome, .activate, .saveRelays]
    CrashSeq.recoveredG .accept ws 0 d = true ∧ CrashSeq.recoveredG .accept ws 1 d = true ∧
    CrashSeq.recoveredG .accept ws 2 d = false ∧ CrashSeq.recoveredG .accept ws 3 d = true := by
  refine ⟨?_, ?_, ?_, ?_⟩ <;>
    simp [CrashSeq.recoveredG, CrashSeq.crashAtG, CrashSeq.retryG, CrashSeq.obsG, CrashCore.run, CrashCore.applyW, h, ha]

/-- **autocommit_prefix_all_stores.**  A leave proposal that the receiving admin auto-commits, on ANY store that
    has not seen the event: recovered before OpenMLS decrypts; after the decryption and before the pending commit
    is stored the retry is refused and the proposal (or its commit) is lost — `decrypt-consumed-retry-refused`;
    once the commit is stored only the dedup record of the event differs. -/
theorem autocommit_prefix_all_stores (d : CrashCore.Db) (h1 : d.pm = 0) (h2 : d.consumed = false) (h3 : d.pending = false) :
    let ws : List CrashCore.W := [.saveSecret, .consume, .storeProposal, .setPending, .saveSecret, .savePm 1]
    CrashSeq.recoveredG .message ws 0 d = true ∧ CrashSeq.recoveredG .message ws 1 d = true ∧
    CrashSeq.recoveredG .message ws 2 d = false ∧ CrashSeq.recoveredG .message ws 3 d = false ∧
    CrashSeq.recoveredG .message ws 4 d = true ∧ CrashSeq.recoveredG .message ws 5 d = true := by
  refine ⟨?_, ?_, ?_, ?_, ?_, ?_⟩
  · simp [CrashSeq.recoveredG, CrashSeq.crashAtG, CrashSeq.retryG, CrashSeq.obsG, CrashCore.run, h1, h2]
  · by_cases hm : d.mlsE ∈ d.secrets <;>
      simp [CrashSeq.recoveredG, CrashSeq.crashAtG, CrashSeq.retryG, CrashSeq.obsG, CrashCore.run, CrashCore.applyW, h1, h2, hm]
  · by_cases hm : d.mlsE ∈ d.secrets <;>
      simp [CrashSeq.recoveredG, CrashSeq.crashAtG, CrashSeq.retryG, CrashSeq.obsG, CrashCore.run, CrashCore.applyW, h1, h2, h3, hm]
  · by_cases hm : d.mlsE ∈ d.secrets <;>
      simp [CrashSeq.recoveredG, CrashSeq.crashAtG, CrashSeq.retryG, CrashSeq.obsG, CrashCore.run, CrashCore.applyW, h1, h2, h3, hm]
  · by_cases hm : d.mlsE ∈ d.secrets <;>
      simp [CrashSeq.recoveredG, CrashSeq.crashAtG, CrashSeq.retryG, CrashSeq.obsG, CrashCore.run, CrashCore.applyW, h1, h2, h3, hm]
  · by_cases hm : d.mlsE ∈ d.secrets <;>
      simp [CrashSeq.recoveredG, CrashSeq.crashAtG, CrashSeq.retryG, CrashSeq.obsG, CrashCore.run, CrashCore.applyW, h1, h2, h3, hm]


/-- non-vacuity: the hypotheses of the three statements above hold of concrete stores and of the table -/
example : (CrashSeq.freshStore 14 false).accepted = false ∧ (CrashSeq.freshStore 14 false).active = false ∧
    (CrashSeq.freshStore 5 true).pm = 0 ∧ (CrashSeq.freshStore 5 true).consumed = false ∧ (CrashSeq.freshStore 5 true).pending = false ∧
    (1, [[1, 40, 15, 41, 1, 17, 22]]) ∈ Generated.writeSeq ∧ CrashSeq.modelled 1 = true ∧
    CrashSeq.freshStore 1 true ∈ CrashSeq.freshStores 1 := by decide


end MdkVerif.Props.C12
