import MdkVerif.Generated
import MdkVerif.Model.Welcome
import MdkVerif.Proofs.Welcome
import MdkVerif.Proofs.WelcomeNid
/-
  C16 — Invitations are idempotent, consent-gated and cannot disturb existing groups.
  Property theorems only (frame lemmas of the storage writes live in Proofs/Welcome.lean).

  State of the code (/repo 4010ddc + 0dcc511): a rumor without id is refused before any write; a rumor
  whose id is already stored is recognised under ANY wrapper id and touches no group; a welcome that is
  Accepted can be neither accepted again nor declined.  What is still FALSE of the code, and therefore
  kept as defs with closed witnesses: `no_disturb` (a DIFFERENT rumor for a held group id — from a
  foreign creator, or another genuine invitation delivered late — still overwrites the Active group's
  record, and accepting it replaces the MLS state), `accept_record_full`, `refused_has_no_effect`
  (only the store-limit refusals after the first write remain).
-/
namespace MdkVerif.Props.C16
open MdkVerif MdkVerif.Store MdkVerif.Welcome

abbrev IOp := MdkVerif.Welcome.Op
abbrev irun := MdkVerif.Welcome.run

/-- the invitation-relevant part of a client that no group operation may touch when nothing new arrived -/
def sameGroups (c c' : Client) : Prop :=
  c'.store.groups = c.store.groups ∧ c'.store.relays = c.store.relays ∧ c'.store.welcomes = c.store.welcomes ∧ c'.mls = c.mls

/-! ## 0. the fresh path of `process_welcome` -/

/-- a successful fresh processing leaves exactly: the dedup record, the stored welcome, the Pending record -/
theorem processFresh_ok (c c1 : Client) (wr : Nat) (m : Invite) (rid : Nat) (w : Store.Welcome)
    (h : processFresh c wr m rid = (c1, .welcome w)) :
    w = welcomeOf m rid wr ∧ findPw c1.store wr = some (okPw wr rid) ∧ findWelcome c1.store rid = some w ∧
    findGroup c1.store m.gid = some (pendingGroup m) ∧ c1.mls = c.mls := by
  unfold processFresh at h
  split at h
  · cases h
  · split at h
    · cases h
    · rename_i s1 hs1
      split at h
      · cases h
      · rename_i s2 hs2
        split at h
        · cases h
        · rename_i s4 hs4
          cases h
          obtain ⟨hg4, _, hpws, _, _, hfw⟩ := saveWelcome_frame _ _ _ hs4
          refine ⟨rfl, ?_, ?_, ?_, rfl⟩
          · have := findPw_savePw s4 (okPw wr rid) wr
            simpa [findPw, okPw] using this
          · have : findWelcome (savePw s4 (okPw wr rid)) rid = findWelcome s4 rid := rfl
            rw [this, hfw]; simp [welcomeOf]
          · have : findGroup (savePw s4 (okPw wr rid)) m.gid = findGroup s4 m.gid := findGroup_of_groups_eq s4 _ rfl m.gid
            rw [this, findGroup_of_groups_eq _ _ hg4, findGroup_of_groups_eq _ _ (replaceRelays_frame _ _ _ _ hs2).1, (saveGroup_frame _ _ _ hs1).1]
            simp [pendingGroup]

/-! ## 1. idempotence -/

/-- **same_wrapper_idempotent.**  Once `process_welcome` has succeeded under a wrapper id, processing
    ANY structurally valid rumor (with an id) under that wrapper id again returns the very same welcome and
    changes nothing at all — for every client state, invitation and backend. -/
theorem same_wrapper_idempotent (c c1 : Client) (wrapper : Nat) (m m' : Invite) (w : Store.Welcome)
    (h : process c wrapper m = (c1, .welcome w)) (hm' : m'.shape ≠ 1) (hr' : m'.rid.isSome = true) :
    process c1 wrapper m' = (c1, .welcome w) := by
  obtain ⟨rid', hrid'⟩ := Option.isSome_iff_exists.mp hr'
  -- it suffices that the wrapper's record is Processed and points at the stored welcome `w`
  have key : ∀ (cc : Client) (p : PW) (id : Nat), findPw cc.store wrapper = some p → p.state ≠ 1 → p.welcomeId = some id →
      findWelcome cc.store id = some w → process cc wrapper m' = (cc, .welcome w) := by
    intro cc p id h1 h2 h3 h4
    unfold process
    simp [hm', hrid', h1, h2, h3, h4]
  unfold process at h
  split at h
  · cases h
  · split at h
    · cases h
    · rename_i rid hrid
      split at h
      · rename_i p hp
        split at h
        · cases h
        · rename_i hst
          split at h
          · rename_i id hid
            split at h
            · rename_i w0 hw0
              cases h
              exact key _ p id hp hst hid hw0
            · cases h
          · cases h
      · rename_i hp
        split at h
        · rename_i sw hsw
          cases h
          refine key _ (okPw wrapper rid) rid ?_ (by simp [okPw]) rfl ?_
          · simpa [okPw] using findPw_savePw c.store (okPw wrapper rid) wrapper
          · simpa [findWelcome, savePw] using hsw
        · obtain ⟨hw, h1, h2, _, _⟩ := processFresh_ok c c1 wrapper m rid w h
          exact key c1 (okPw wrapper rid) rid h1 (by simp [okPw]) rfl h2

/-- **same_rumor_idempotent.**  A rumor whose id is already stored: `process_welcome` under ANY wrapper
    id — known or new, whatever the content behind that id decodes to now — writes no group record, no
    relay, no welcome and no MLS state; under a wrapper id not seen before it returns exactly the stored
    welcome (whatever its state: Pending, Accepted, Declined) and doing it again changes nothing. -/
theorem same_rumor_idempotent (c : Client) (wr rid : Nat) (m : Invite) (sw : Store.Welcome)
    (hr : m.rid = some rid) (hs : findWelcome c.store rid = some sw) :
    sameGroups c (process c wr m).1 ∧
    (m.shape ≠ 1 → findPw c.store wr = none →
      (process c wr m).2 = .welcome sw ∧ process (process c wr m).1 wr m = ((process c wr m).1, .welcome sw)) := by
  have hsame : sameGroups c (process c wr m).1 := by
    unfold process
    split
    · exact ⟨rfl, rfl, rfl, rfl⟩
    · simp only [hr]
      split
      · split
        · exact ⟨rfl, rfl, rfl, rfl⟩
        · split
          · split <;> exact ⟨rfl, rfl, rfl, rfl⟩
          · exact ⟨rfl, rfl, rfl, rfl⟩
      · simp only [hs]; exact ⟨rfl, rfl, rfl, rfl⟩
  refine ⟨hsame, ?_⟩
  intro hsh hpw
  have h1 : process c wr m = ({ c with store := savePw c.store (okPw wr rid) }, .welcome sw) := by
    unfold process; simp [hsh, hr, hpw, hs]
  rw [h1]
  refine ⟨rfl, ?_⟩
  exact same_wrapper_idempotent c _ wr m m sw h1 hsh (by simp [hr])

/-- **accepted_welcome_final.**  A welcome that is Accepted can be neither accepted again nor declined:
    both calls are refused and change nothing. -/
theorem accepted_welcome_final (c : Client) (m : Invite) (sw : Store.Welcome)
    (hs : m.rid.bind (findWelcome c.store) = some sw) (ha : sw.state = 1) :
    accept c m = (c, .err .welcome) ∧ decline c m = (c, .err .welcome) := by
  constructor
  · unfold accept; simp [hs, ha]
  · unfold decline; simp [hs, ha]

/-! ## 2. no Active group without consent -/

theorem processFresh_keeps_inactive (c : Client) (wr rid : Nat) (m : Invite) (gid : Nat)
    (h : NotActive c.store gid) : NotActive (processFresh c wr m rid).1.store gid := by
  unfold processFresh
  split
  · exact notActive_of_groups_eq c.store _ rfl gid h
  · split
    · exact h
    · rename_i s1 hs1
      have h1 : NotActive s1 gid := notActive_saveGroup _ _ _ hs1 (by simp [pendingGroup]) gid h
      split
      · exact h1
      · rename_i s2 hs2
        have h2 : NotActive s2 gid := notActive_of_groups_eq _ _ (replaceRelays_frame _ _ _ _ hs2).1 gid h1
        split
        · exact h2
        · rename_i s4 hs4
          have h3 : NotActive s4 gid := notActive_of_groups_eq _ _ (saveWelcome_frame _ _ _ hs4).1 gid h2
          exact notActive_of_groups_eq s4 _ rfl gid h3

/-- one invitation op other than `accept` never turns a non-Active group Active -/
theorem nonaccept_keeps_inactive (c : Client) (o : IOp) (ho : o.isAccept = false) (gid : Nat)
    (h : isActive c gid = false) : isActive (apply c o).1 gid = false := by
  rw [isActive_false_iff] at h ⊢
  cases o with
  | accept m => simp [Op.isAccept] at ho
  | process wr m =>
    simp only [apply]
    unfold process
    split
    · exact h
    · split
      · exact h
      · split
        · split
          · exact h
          · split
            · split <;> exact h
            · exact h
        · split
          · exact notActive_of_groups_eq c.store _ rfl gid h
          · exact processFresh_keeps_inactive c wr _ m gid h
  | decline m =>
    simp only [apply]
    unfold decline
    split
    · exact h
    · split
      · exact h
      · split
        · exact notActive_of_groups_eq c.store _ rfl gid h
        · split
          · exact h
          · rename_i s1 hs1
            have h1 : NotActive s1 gid := notActive_of_groups_eq _ _ (saveWelcome_frame _ _ _ hs1).1 gid h
            split
            · exact h1
            · rename_i g hgf
              split
              · exact h1
              · rename_i s2 hs2
                exact notActive_saveGroup _ _ _ hs2 (by simp) gid h1

/-- **no_consent_no_active.**  For every history of received / re-received / failed / declined
    invitations (any wrapper ids, any contents, any order) that contains no `accept`, a group that was
    not Active is not Active afterwards. -/
theorem no_consent_no_active (c : Client) (ops : List IOp) (hna : ∀ o ∈ ops, o.isAccept = false) (gid : Nat)
    (h : isActive c gid = false) : isActive (irun c ops) gid = false := by
  induction ops generalizing c with
  | nil => exact h
  | cons o os ih =>
    simp only [irun, Welcome.run]
    exact ih _ (fun o' ho' => hna o' (List.mem_cons_of_mem _ ho')) (nonaccept_keeps_inactive c o (hna o (List.mem_cons_self ..)) gid h)

example : ∀ o ∈ ([Welcome.Op.process 1 default, Welcome.Op.decline default, Welcome.Op.process 2 default] : List IOp),
    o.isAccept = false := by decide

/-! ## 3. what `accept` establishes -/

/-- **accept_state.**  A successful `accept_welcome`: the client's MLS group of that id IS the
    invitation's (the inviter's post-commit token, epoch and member count — whatever was there before is
    replaced), the stored welcome (which was not Accepted before) is Accepted, and the group record of that
    id (if any) is Active with the self-update obligation pending. -/
theorem accept_state (c c' : Client) (m : Invite) (h : accept c m = (c', .done)) :
    alookup m.gid c'.mls = some { tok := m.tok, epoch := m.epoch, members := m.members } ∧
    (∃ sw, m.rid.bind (findWelcome c.store) = some sw ∧ sw.state ≠ 1 ∧ findWelcome c'.store sw.id = some { sw with state := 1 }) ∧
    (∀ g, findGroup c.store m.gid = some g → g.gid = m.gid →
      findGroup c'.store m.gid = some { g with state := 0, selfUpd := 0 }) := by
  unfold accept at h
  split at h
  · cases h
  · rename_i sw hsw
    split at h
    · cases h
    · rename_i hna
      split at h
      · cases h
      · simp only at h
        split at h
        · cases h
        · rename_i s1 hs1
          obtain ⟨hg1, _, _, _, _, hw1⟩ := saveWelcome_frame _ _ _ hs1
          split at h
          · rename_i hnone
            cases h
            refine ⟨by simp [alookup_ainsert], ⟨sw, hsw, hna, by rw [hw1]; simp⟩, ?_⟩
            intro g hg _
            rw [findGroup_of_groups_eq _ _ hg1] at hnone; rw [hnone] at hg; cases hg
          · rename_i g0 hg0
            split at h
            · cases h
            · rename_i s2 hs2
              obtain ⟨hf2, _, hwel2, _⟩ := saveGroup_frame _ _ _ hs2
              split at h
              · cases h
              · rename_i s3 hs3
                obtain ⟨hg3, hwel3, _⟩ := replaceRelays_frame _ _ _ _ hs3
                cases h
                refine ⟨by simp [alookup_ainsert], ⟨sw, hsw, hna, ?_⟩, ?_⟩
                · simp only [findWelcome, hwel3, hwel2]
                  have := hw1 sw.id; simpa [findWelcome] using this
                · intro g hg hgid
                  rw [findGroup_of_groups_eq _ _ hg1] at hg0
                  rw [hg0] at hg; cases hg
                  rw [findGroup_of_groups_eq _ _ hg3, hf2]
                  simp [hgid]

/-- received for the first time (neither the wrapper id nor the rumor id known) and then accepted: the
    record is exactly the invitation's group data, Active, self-update Required, at the invitation's epoch -/
theorem accept_after_process (c c1 c2 : Client) (wr rid : Nat) (m : Invite) (w : Store.Welcome)
    (hrid : m.rid = some rid) (hfresh : findPw c.store wr = none) (hnew : findWelcome c.store rid = none)
    (hp : process c wr m = (c1, .welcome w)) (ha : accept c1 m = (c2, .done)) :
    findGroup c2.store m.gid = some { pendingGroup m with state := 0 } ∧
    alookup m.gid c2.mls = some { tok := m.tok, epoch := m.epoch, members := m.members } := by
  have hrec : findGroup c1.store m.gid = some (pendingGroup m) := by
    unfold process at hp
    split at hp
    · cases hp
    · simp only [hrid, hfresh, hnew] at hp
      exact (processFresh_ok c c1 wr m rid w hp).2.2.2.1
  obtain ⟨h1, _, h3⟩ := accept_state c1 c2 m ha
  exact ⟨by simpa [pendingGroup] using h3 _ hrec rfl, h1⟩

/-! ## 4. invitations and the groups the user already holds -/

/-- **no_disturb** — the full-strength statement of the property: no invitation operation, whatever the
    invitation contains, changes (record, MLS state, relays of) a group in which the user is Active. -/
def no_disturb : Prop :=
  ∀ (c : Client) (o : IOp) (gid : Nat), isActive c gid = true → proj (apply c o).1 gid = proj c gid

theorem proj_of_sameGroups (c c' : Client) (h : sameGroups c c') (gid : Nat) : proj c' gid = proj c gid := by
  obtain ⟨h1, h2, _, h4⟩ := h
  simp [proj, findGroup, h1, h2, h4]

theorem processFresh_other (c : Client) (wr rid : Nat) (m : Invite) (gid : Nat) (hne : gid ≠ m.gid) :
    proj (processFresh c wr m rid).1 gid = proj c gid := by
  have hne' : ¬ m.gid = gid := fun e => hne e.symm
  have pj : ∀ (c1 c2 : Client), findGroup c2.store gid = findGroup c1.store gid →
      alookup gid c2.store.relays = alookup gid c1.store.relays → alookup gid c2.mls = alookup gid c1.mls →
      proj c2 gid = proj c1 gid := by
    intro c1 c2 h1 h2 h3; simp [proj, h1, h2, h3]
  unfold processFresh
  split
  · exact pj _ _ rfl rfl rfl
  · split
    · rfl
    · rename_i s1 hs1
      obtain ⟨f1, r1, _⟩ := saveGroup_frame _ _ _ hs1
      have a1 : findGroup s1 gid = findGroup c.store gid := by rw [f1]; simp [pendingGroup, hne']
      have b1 : alookup gid s1.relays = alookup gid c.store.relays := by rw [r1]
      split
      · exact pj _ _ a1 b1 rfl
      · rename_i s2 hs2
        obtain ⟨g2, _, _, _, _, r2⟩ := replaceRelays_frame _ _ _ _ hs2
        have a2 : findGroup s2 gid = findGroup c.store gid := (findGroup_of_groups_eq _ _ g2 gid).trans a1
        have b2 : alookup gid s2.relays = alookup gid c.store.relays := (r2 gid hne).trans b1
        split
        · exact pj _ _ a2 b2 rfl
        · rename_i s4 hs4
          obtain ⟨g4, r4, _⟩ := saveWelcome_frame _ _ _ hs4
          refine pj _ _ ?_ ?_ rfl
          · have : findGroup (savePw s4 (okPw wr rid)) gid = findGroup s4 gid := findGroup_of_groups_eq s4 _ rfl gid
            simp only [this]; rw [findGroup_of_groups_eq _ _ g4]; exact a2
          · show alookup gid s4.relays = _
            rw [r4]; exact b2

/-- **no_disturb_partial.**  An invitation operation can only touch the group whose MLS group id the
    invitation names.  Every OTHER group — Active or not — keeps its record, its MLS state and its relays,
    for every client state, operation, invitation content and backend. -/
theorem no_disturb_partial (c : Client) (o : IOp) (gid : Nat) (hne : gid ≠ o.invite.gid) :
    proj (apply c o).1 gid = proj c gid := by
  have hne' : ¬ o.invite.gid = gid := fun e => hne e.symm
  have sg : ∀ (s s' : Store) (g : Group), g.gid = o.invite.gid → saveGroup s g = some s' →
      findGroup s' gid = findGroup s gid ∧ alookup gid s'.relays = alookup gid s.relays := by
    intro s s' g hg h
    obtain ⟨h1, h2, _⟩ := saveGroup_frame _ _ _ h
    exact ⟨by rw [h1, hg]; simp [hne'], by rw [h2]⟩
  have rr : ∀ (s s' : Store) (rs : List Nat), replaceRelays s o.invite.gid rs = some s' →
      findGroup s' gid = findGroup s gid ∧ alookup gid s'.relays = alookup gid s.relays := by
    intro s s' rs h
    obtain ⟨h1, _, _, _, _, h6⟩ := replaceRelays_frame _ _ _ _ h
    exact ⟨findGroup_of_groups_eq _ _ h1 gid, h6 gid hne⟩
  have sw : ∀ (s s' : Store) (x : Store.Welcome), saveWelcome s x = some s' →
      findGroup s' gid = findGroup s gid ∧ alookup gid s'.relays = alookup gid s.relays := by
    intro s s' x h
    obtain ⟨h1, h2, _⟩ := saveWelcome_frame _ _ _ h
    exact ⟨findGroup_of_groups_eq _ _ h1 gid, by rw [h2]⟩
  have pj : ∀ (c1 c2 : Client), findGroup c2.store gid = findGroup c1.store gid →
      alookup gid c2.store.relays = alookup gid c1.store.relays → alookup gid c2.mls = alookup gid c1.mls →
      proj c2 gid = proj c1 gid := by
    intro c1 c2 h1 h2 h3; simp [proj, h1, h2, h3]
  cases o with
  | process wr m =>
    simp only [Op.invite] at hne
    simp only [apply]
    unfold process
    split
    · rfl
    · split
      · rfl
      · split
        · split
          · rfl
          · split
            · split <;> rfl
            · rfl
        · split
          · exact pj _ _ rfl rfl rfl
          · exact processFresh_other c wr _ m gid hne
  | accept m =>
    simp only [Op.invite] at hne hne' sg rr
    simp only [apply]
    unfold accept
    have hm : alookup gid (ainsert m.gid ({ tok := m.tok, epoch := m.epoch, members := m.members } : MlsSt) c.mls) = alookup gid c.mls := by
      simp [alookup_ainsert, hne]
    split
    · rfl
    · split
      · rfl
      · split
        · exact pj _ _ rfl rfl rfl
        · simp only
          split
          · exact pj _ _ rfl rfl hm
          · rename_i s1 hs1
            obtain ⟨a1, b1⟩ := sw _ _ _ hs1
            split
            · exact pj _ _ a1 b1 hm
            · rename_i g hg
              have hgid : g.gid = m.gid := by
                have := List.find?_some hg; simpa using this
              split
              · exact pj _ _ a1 b1 hm
              · rename_i s2 hs2
                obtain ⟨a2, b2⟩ := sg _ _ { g with state := 0, selfUpd := 0 } hgid hs2
                split
                · exact pj _ _ (a2.trans a1) (b2.trans b1) hm
                · rename_i s3 hs3
                  obtain ⟨a3, b3⟩ := rr _ _ _ hs3
                  exact pj _ _ (a3.trans (a2.trans a1)) (b3.trans (b2.trans b1)) hm
  | decline m =>
    simp only [Op.invite] at hne hne' sg rr
    simp only [apply]
    unfold decline
    split
    · rfl
    · split
      · rfl
      · split
        · exact pj _ _ rfl rfl rfl
        · split
          · rfl
          · rename_i s1 hs1
            obtain ⟨a1, b1⟩ := sw _ _ _ hs1
            split
            · exact pj _ _ a1 b1 rfl
            · rename_i g hg
              have hgid : g.gid = m.gid := by
                have := List.find?_some hg; simpa using this
              split
              · exact pj _ _ a1 b1 rfl
              · rename_i s2 hs2
                obtain ⟨a2, b2⟩ := sg _ _ { g with state := 1 } hgid hs2
                exact pj _ _ (a2.trans a1) (b2.trans b1) rfl

/-- the exact hypothesis under which an invitation operation is harmless: it names a group id the user
    does not hold Active, OR (for `process`) its rumor id is already stored, OR (for `accept` / `decline`)
    the stored welcome is already Accepted -/
def harmless (c : Client) : IOp → Prop
  | .process _ m => isActive c m.gid = false ∨ ∃ rid sw, m.rid = some rid ∧ findWelcome c.store rid = some sw
  | .accept m => isActive c m.gid = false ∨ ∃ sw, m.rid.bind (findWelcome c.store) = some sw ∧ sw.state = 1
  | .decline m => isActive c m.gid = false ∨ ∃ sw, m.rid.bind (findWelcome c.store) = some sw ∧ sw.state = 1

/-- **no_disturb_when_harmless.**  `no_disturb` holds for every invitation operation that satisfies
    `harmless` — in particular for EVERY replay of a rumor the client has stored (any wrapper id, any
    state of the group), for every second accept / late decline of an Accepted welcome, and for every
    invitation to a group the user is not Active in. -/
theorem no_disturb_when_harmless (c : Client) (o : IOp) (hH : harmless c o) (gid : Nat)
    (ha : isActive c gid = true) : proj (apply c o).1 gid = proj c gid := by
  have other : isActive c o.invite.gid = false → proj (apply c o).1 gid = proj c gid := by
    intro hna
    apply no_disturb_partial
    intro e; rw [e, hna] at ha; cases ha
  cases o with
  | process wr m =>
    rcases hH with h | ⟨rid, sw, hr, hs⟩
    · exact other h
    · exact proj_of_sameGroups _ _ (same_rumor_idempotent c wr rid m sw hr hs).1 gid
  | accept m =>
    rcases hH with h | ⟨sw, hs, hst⟩
    · exact other h
    · simp only [apply, (accepted_welcome_final c m sw hs hst).1]
  | decline m =>
    rcases hH with h | ⟨sw, hs, hst⟩
    · exact other h
    · simp only [apply, (accepted_welcome_final c m sw hs hst).2]

/-! ## 5. refusals -/

/-- the full-strength "a refused invitation has no effect on any group" -/
def refused_has_no_effect : Prop :=
  ∀ (c : Client) (wr : Nat) (m : Invite) (k : ErrK) (gid : Nat),
    (process c wr m).2 = .err k → proj (process c wr m).1 gid = proj c gid

/-- **refused_process_no_effect.**  Every refusal of `process_welcome` leaves every group untouched —
    invalid structure, missing rumor id (now checked first), known wrapper id, failing preview (which only
    adds its Failed dedup record) — provided the store does not refuse one of the writes AFTER the group
    record was saved (`hlim`: relay / welcome limits of the memory backend; see the next witness). -/
theorem refused_process_no_effect (c : Client) (wr : Nat) (m : Invite) (k : ErrK) (gid : Nat)
    (hlim : ∀ s1, saveGroup c.store (pendingGroup m) = some s1 →
      ∃ s2, replaceRelays s1 m.gid m.relays = some s2 ∧
        ∀ rid, (saveWelcome s2 (welcomeOf m rid wr)).isSome = true)
    (h : (process c wr m).2 = .err k) : proj (process c wr m).1 gid = proj c gid := by
  have pj : ∀ (p : PW), proj { c with store := savePw c.store p } gid = proj c gid := by
    intro p; simp [proj, findGroup, savePw]
  by_cases h1 : m.shape = 1
  · simp [process, h1]
  cases hrid : m.rid with
  | none => simp [process, h1, hrid]
  | some rid =>
    cases hpw : findPw c.store wr with
    | some p =>
      have : (process c wr m).1 = c := by
        unfold process
        simp only [h1, hrid, hpw, if_false]
        split
        · rfl
        · split
          · split <;> rfl
          · rfl
      rw [this]
    | none =>
      cases hnw : findWelcome c.store rid with
      | some sw =>
        have : process c wr m = ({ c with store := savePw c.store (okPw wr rid) }, .welcome sw) := by
          unfold process; simp [h1, hrid, hpw, hnw]
        rw [this]; exact pj _
      | none =>
        have hp : process c wr m = processFresh c wr m rid := by
          unfold process; simp [h1, hrid, hpw, hnw]
        rw [hp] at h ⊢
        unfold processFresh at h ⊢
        by_cases h2 : m.shape = 2
        · simp only [h2, if_true]; exact pj _
        · simp only [h2, if_false] at h ⊢
          cases hs1 : saveGroup c.store (pendingGroup m) with
          | none => simp
          | some s1 =>
            obtain ⟨s2, hr2, hw⟩ := hlim s1 hs1
            simp only [hs1, hr2] at h ⊢
            have hw' := hw rid
            cases hsw : saveWelcome s2 (welcomeOf m rid wr) with
            | none => rw [hsw] at hw'; cases hw'
            | some s4 => simp [hsw] at h

/-- the hypothesis is the ordinary case: for an invitation within the store limits all four writes go through -/
example : ∃ s1 s2, saveGroup (Client.empty .mem).store (pendingGroup (default : Invite)) = some s1 ∧
    replaceRelays s1 (default : Invite).gid [1, 2] = some s2 ∧
    (saveWelcome s2 (welcomeOf default 0 1)).isSome = true := ⟨_, _, rfl, rfl, rfl⟩

/-- … `refused_has_no_effect` in full is still false, by a store limit only: on the memory backend a
    welcome naming more relays than the store accepts is refused by `replace_group_relays` AFTER
    `save_group` wrote the Pending record.  (Model-level witness resting on the store model validated for
    C10; the harness does not generate 101-relay groups.) -/
theorem refused_store_limit_effect :
    let m : Invite := { (default : Invite) with rid := some 0, gid := 1, nid := 101, relays := List.range 101 }
    (process (Client.empty .mem) 7 m).2 = .err .group ∧
    findGroup (process (Client.empty .mem) 7 m).1.store 1 = some (pendingGroup m) := by
  decide

theorem refused_has_no_effect_false : ¬ refused_has_no_effect := by
  intro h
  have := h (Client.empty .mem) 7 { (default : Invite) with rid := some 0, gid := 1, nid := 101, relays := List.range 101 } .group 1 (by decide)
  revert this; decide

/-- the id-less rumor is now refused before anything is written (was `welcome-row-before-reject`) -/
theorem missing_id_no_effect (c : Client) (wr : Nat) (m : Invite) (h : m.rid = none) :
    (process c wr m).1 = c := by
  unfold process
  split
  · rfl
  · simp [h]

/-! ## 6. witnesses: what the repair fixed, and what is still false of the code
    (each history is in `corpus/C16/` and replayed on the implementation on every run) -/

/-- an invitation to group 1: inviter's post-commit state token 0 at epoch 1, two members -/
def wInv : Invite :=
  { rid := some 0, shape := 0, gid := 1, nid := 101, nameLen := 5, descLen := 3, admins := 1, relays := [1, 2],
    epoch := 1, tok := 0, members := 2, welcomer := 0 }

/-- the group moves on: a commit from state 0 to state 1 (epoch 2) -/
def wCommit : Commit :=
  { gid := 1, nid := 101, toNid := 101, fromTok := 0, toTok := 1, toEpoch := 2, members := 2, nameLen := 5, removesMe := false }

/-- a client that received the invitation under wrapper 10, accepted it and followed the group to epoch 2 -/
def cJoined (b : Backend) : Client :=
  let c1 := (process (Client.empty b) 10 wInv).1
  let c2 := (accept c1 wInv).1
  (applyCommit c2 wCommit).getD c2

theorem cJoined_ok (b : Backend) :
    isActive (cJoined b) 1 = true ∧ ((findGroup (cJoined b).store 1).map (·.epoch)) = some 2 ∧
    alookup 1 (cJoined b).mls = some { tok := 1, epoch := 2, members := 2 } ∧ canDecrypt (cJoined b) 1 101 1 = true := by
  cases b <;> decide

/-- the three former witnesses are regression facts now: the SAME welcome under a new wrapper id (11)
    leaves the Active member's group as it is; accepting or declining it afterwards is refused -/
theorem replay_fixed (b : Backend) :
    let c1 := (apply (cJoined b) (.process 11 wInv)).1
    proj c1 1 = proj (cJoined b) 1 ∧
    (apply c1 (.accept wInv)).2 = .err .welcome ∧ proj (apply c1 (.accept wInv)).1 1 = proj (cJoined b) 1 ∧
    (apply c1 (.decline wInv)).2 = .err .welcome ∧ proj (apply c1 (.decline wInv)).1 1 = proj (cJoined b) 1 ∧
    canDecrypt (apply c1 (.accept wInv)).1 1 101 1 = true := by
  cases b <;> decide

/-- **C16_witness_foreign_creator** (OPEN).  Somebody who is NOT in the group but knows its MLS group id
    creates a new MLS group with that id (own group data: nostr group id 777, another name) and invites the
    member.  It is a DIFFERENT rumor, so neither dedup applies: merely PROCESSING it — no consent —
    overwrites the Active group's record with the foreign group data, and the real group's events are no
    longer routed to it (`canDecrypt` false although the MLS state is intact).  Accepting it replaces the
    MLS state by the foreign group's; declining it leaves the group Inactive. -/
theorem C16_witness_foreign_creator (b : Backend) :
    let forged : Invite := { wInv with rid := some 9, nid := 777, nameLen := 9, tok := 50, welcomer := 2 }
    let c1 := (apply (cJoined b) (.process 30 forged)).1
    let c2 := (apply c1 (.accept forged)).1
    let c3 := (apply c1 (.decline forged)).1
    (apply (cJoined b) (.process 30 forged)).2 = .welcome (welcomeOf forged 9 30) ∧
    ((findGroup c1.store 1).map (fun g => (g.state, g.nid, g.nameLen))) = some (2, 777, 9) ∧
    alookup 1 c1.mls = some { tok := 1, epoch := 2, members := 2 } ∧ canDecrypt c1 1 101 1 = false ∧
    isActive c2 1 = true ∧ alookup 1 c2.mls = some { tok := 50, epoch := 1, members := 2 } ∧
    ((findGroup c3.store 1).map (·.state)) = some 1 := by
  cases b <;> decide

/-- **C16_witness_other_invitation** (OPEN).  ANOTHER genuine invitation to the same group — here an
    older one (rumor 3, epoch 0 state 7) that is delivered only after the member joined through rumor 0 and
    the group moved on — is not a replay either: processing it resets the Active group to Pending at the
    old epoch, and accepting it replaces the current MLS state by the stale one. -/
theorem C16_witness_other_invitation (b : Backend) :
    let older : Invite := { wInv with rid := some 3, epoch := 0, tok := 7 }
    let c1 := (apply (cJoined b) (.process 40 older)).1
    let c2 := (apply c1 (.accept older)).1
    ((findGroup c1.store 1).map (fun g => (g.state, g.epoch))) = some (2, 0) ∧
    alookup 1 c2.mls = some { tok := 7, epoch := 0, members := 2 } ∧ canDecrypt c2 1 101 1 = false := by
  cases b <;> decide

/-- the full-strength statement is false of the code -/
theorem no_disturb_false : ¬ no_disturb := by
  intro h
  have := h (cJoined .sql) (.process 30 { wInv with rid := some 9, nid := 777, nameLen := 9, tok := 50, welcomer := 2 }) 1 (by decide)
  revert this; decide

/-- the witnesses lie outside `harmless`, as they must -/
example : ¬ harmless (cJoined .sql) (.process 30 { wInv with rid := some 9, nid := 777 }) := by
  intro h
  rcases h with h | ⟨rid, sw, hr, hs⟩
  · revert h; decide
  · cases hr
    have : findWelcome (cJoined .sql).store 9 = none := by decide
    rw [this] at hs; cases hs

/-- the full-strength reading of "accept puts the joiner in exactly the inviter's post-commit state" for
    the group RECORD: after a successful accept the record is at the accepted invitation's epoch … -/
def accept_record_full : Prop :=
  ∀ (c : Client) (m : Invite), (accept c m).2 = .done →
    ∀ g, findGroup (accept c m).1.store m.gid = some g → g.epoch = m.epoch

/-- … is false (OPEN): `accept_welcome` keeps whatever record is stored under that group id.  Two
    invitations to the same group are pending (eviction and re-invitation before either was looked at); the
    newer one (epoch 3) was processed last; accepting the older one (epoch 1) joins MLS state 0 at epoch 1
    while the record stays at epoch 3.  `accept_after_process` is the partial statement.
    Replayed by `corpus/C16/accept_older_invitation.trace`. -/
theorem accept_record_full_false : ¬ accept_record_full := by
  intro h
  let newer : Invite := { wInv with rid := some 1, epoch := 3, tok := 5 }
  let c1 := (process (Client.empty .sql) 10 wInv).1
  let c2 := (process c1 20 newer).1
  have := h c2 wInv (by decide) { pendingGroup newer with state := 0 } (by decide)
  revert this; decide

/-! ## 7. the tie to the source -/

/-- **welcome_step_order.**  The order of validation, storage and MLS steps the model transcribes is the
    order `tools/gen_model.py` extracts from `process_welcome` / `accept_welcome` / `decline_welcome` on
    every run; the rumor-id dedup precedes preview and every group write; accept and decline refuse an
    Accepted welcome before preview; the staged welcome is built with `.replace_old_group()`; and
    `process_welcome` still does not look for an Active group of that id before writing (the open
    findings).  A change of any of these facts breaks this theorem. -/
theorem welcome_step_order :
    Welcome.processOrder = Generated.welcomeProcessOrder ∧ Welcome.acceptOrder = Generated.welcomeAcceptOrder ∧
    Welcome.declineOrder = Generated.welcomeDeclineOrder ∧ Generated.welcomeProcessDedupsByRumorId = true ∧
    Generated.acceptRefusesAccepted = true ∧ Generated.welcomeReplacesOldGroup = true ∧
    Generated.welcomeProcessChecksHeldGroup = false := by decide

/-- **save_group_uniqueness_as_modelled.**  The uniqueness rule `Model.Store.saveGroup` transcribes is what
    the source says on this run: the SQLite upsert of `save_group` names `mls_group_id` as its conflict target
    (a bare `ON CONFLICT DO UPDATE` would turn a conflict on the UNIQUE index of `nostr_group_id` into an UPDATE of
    the OTHER group's row), the UNIQUE index on `groups(nostr_group_id)` exists, and the memory backend looks the
    new id up in its by-id index and refuses a foreign owner before it writes; `save_group(Pending)` is the first
    storage write of `process_welcome` after the dedup lookups (positions of step 3 in `welcomeProcessOrder`). -/
theorem save_group_uniqueness_as_modelled :
    Generated.sqlSaveGroupConflictTarget = ["mls_group_id"] ∧ Generated.sqlNostrGroupIdUnique = true ∧
    Generated.memSaveGroupRefusesForeignNostrId = true ∧
    (Generated.welcomeProcessOrder.takeWhile (· ≠ 3)).all (fun x => x ∈ [0, 5, 1, 10, 6, 2]) = true := by decide


/-! ## 8. the nostr group id: collisions, uniqueness, routing

    The invitation's group data (and with it the nostr group id, the key by which kind-445 events are routed
    to a group: `find_group_by_nostr_group_id` is the first step of `process_message`) is chosen by the inviter;
    the id of any group is public (it is the `h` tag).  A hostile inviter can therefore hand the user an
    invitation to its OWN group M that carries the id of a group G the user holds.  What stands between that
    invitation and G's record is the uniqueness rule of `save_group` (Model.Store.saveGroup, both backends;
    tied to the source by `save_group_uniqueness_as_modelled`). -/

/-- the routing invariant of a client's store (`Proofs/WelcomeNid.lean`): no two records share a nostr group
    id, no two records share an MLS group id, and the memory backend's by-id index answers every record's id with
    that record -/
abbrev NidOK (c : Client) : Prop := NidInv c.store

/-- the invitation collides: its nostr group id is carried by the record of ANOTHER group of the recipient
    (in any state: Active, Pending, Inactive) -/
def collides (c : Client) (m : Invite) : Prop := HeldByOther c.store m.nid m.gid

theorem processFresh_collision (c : Client) (wr rid : Nat) (m : Invite) (hinv : NidOK c) (hc : collides c m) :
    processFresh c wr m rid =
      if m.shape = 2 then ({ c with store := savePw c.store (failedPw wr m) }, .err .welcome) else (c, .err .group) := by
  have : saveGroup c.store (pendingGroup m) = none := saveGroup_collision c.store (pendingGroup m) hinv hc
  unfold processFresh
  simp [this]

/-- **collision_refused.**  A decodable invitation met for the first time (neither its wrapper id nor its
    rumor id known) whose nostr group id is held by another group of the recipient is REFUSED by
    `process_welcome` (`Error::Group`), on both backends, whatever else the invitation contains — and the
    client is literally unchanged.  (The first conjunct names the facts of the source the uniqueness rule of
    the storage model transcribes: the SQLite upsert names its conflict target `mls_group_id`, the UNIQUE index
    on `groups(nostr_group_id)` exists, the memory backend checks its by-id index before writing.) -/
theorem collision_refused (c : Client) (wr rid : Nat) (m : Invite) (hinv : NidOK c) (hc : collides c m)
    (hs1 : m.shape ≠ 1) (hs2 : m.shape ≠ 2) (hrid : m.rid = some rid)
    (hpw : findPw c.store wr = none) (hnw : findWelcome c.store rid = none) :
    (Generated.sqlSaveGroupConflictTarget = ["mls_group_id"] ∧ Generated.sqlNostrGroupIdUnique = true ∧
      Generated.memSaveGroupRefusesForeignNostrId = true) ∧
    process c wr m = (c, .err .group) := by
  refine ⟨by decide, ?_⟩
  unfold process
  simp only [hs1, if_false, hrid, hpw, hnw]
  rw [processFresh_collision c wr rid m hinv hc]
  simp [hs2]

/-- **collision_leftovers** (what a colliding invitation leaves behind, ALL cases).  Whatever the
    invitation's shape and whatever is already known of it, `process_welcome` of a colliding invitation
    leaves the client unchanged or adds exactly one processed-welcome (dedup) record — the Failed record of an
    undecodable rumor or the Processed record of a replayed, already stored rumor, as for any other
    invitation; a refused decodable one leaves NOTHING (`collision_refused`): no record, no welcome, no group,
    no MLS state.  So it can be retried under the same wrapper id, it is refused the same way for as long as
    the collision lasts, and it can be neither accepted nor declined (there is no stored welcome). -/
theorem collision_leftovers (c : Client) (wr : Nat) (m : Invite) (hinv : NidOK c) (hc : collides c m) :
    ((process c wr m).1 = c ∨ ∃ p, (process c wr m).1 = { c with store := savePw c.store p }) ∧
    (∀ rid, m.shape ≠ 1 → m.shape ≠ 2 → m.rid = some rid → findPw c.store wr = none → findWelcome c.store rid = none →
      process (process c wr m).1 wr m = (c, .err .group) ∧
      accept (process c wr m).1 m = (c, .err .noStored) ∧ decline (process c wr m).1 m = (c, .err .noStored)) := by
  constructor
  · unfold process
    split
    · exact Or.inl rfl
    · split
      · exact Or.inl rfl
      · rename_i rid hrid
        split
        · split
          · exact Or.inl rfl
          · split
            · split <;> exact Or.inl rfl
            · exact Or.inl rfl
        · split
          · exact Or.inr ⟨_, rfl⟩
          · rw [processFresh_collision c wr rid m hinv hc]
            split
            · exact Or.inr ⟨_, rfl⟩
            · exact Or.inl rfl
  · intro rid hs1 hs2 hrid hpw hnw
    have h := (collision_refused c wr rid m hinv hc hs1 hs2 hrid hpw hnw).2
    rw [h]
    refine ⟨h, ?_, ?_⟩
    · unfold accept; simp [hrid, hnw]
    · unfold decline; simp [hrid, hnw]

/-- **collision_frame.**  `process_welcome` of a colliding invitation — any shape, any wrapper id, any
    dedup state, whatever it contains — changes NO group of the recipient: the list of group records (every
    field of every record incl. nostr group id, state, epoch, name, admins), the relays, the stored welcomes,
    the messages, the MLS states and the memory backend's by-id index are the same; hence the projection of
    the held group and of every other group is unchanged, the store answers every nostr group id as before
    (routing), and the routing invariant still holds.  This extends `no_disturb_when_harmless` (which covers the
    collision only when the invitation's OWN group is not Active) to every state of the invitation's group. -/
theorem collision_frame (c : Client) (wr : Nat) (m : Invite) (hinv : NidOK c) (hc : collides c m) :
    sameGroups c (process c wr m).1 ∧ (process c wr m).1.store.byNid = c.store.byNid ∧
    (process c wr m).1.store.msgs = c.store.msgs ∧
    (∀ gid, proj (process c wr m).1 gid = proj c gid) ∧
    (∀ n, findGroupNostr (process c wr m).1.store n = findGroupNostr c.store n) ∧
    NidOK (process c wr m).1 := by
  have key : ∀ c' : Client, (c' = c ∨ ∃ p, c' = { c with store := savePw c.store p }) →
      sameGroups c c' ∧ c'.store.byNid = c.store.byNid ∧ c'.store.msgs = c.store.msgs ∧
      (∀ gid, proj c' gid = proj c gid) ∧ (∀ n, findGroupNostr c'.store n = findGroupNostr c.store n) ∧ NidOK c' := by
    intro c' h
    rcases h with rfl | ⟨p, rfl⟩
    · exact ⟨⟨rfl, rfl, rfl, rfl⟩, rfl, rfl, fun _ => rfl, fun _ => rfl, hinv⟩
    · exact ⟨⟨rfl, rfl, rfl, rfl⟩, rfl, rfl, fun _ => rfl, fun _ => rfl, savePw_nidInv _ _ hinv⟩
  exact key _ (collision_leftovers c wr m hinv hc).1

/-- `harmless`, widened by the collision case: an invitation (to any group, also one the user is Active in) whose
    nostr group id another record of the recipient carries -/
def harmlessOrColliding (c : Client) (o : IOp) : Prop :=
  harmless c o ∨ (NidOK c ∧ ∃ wr m, o = .process wr m ∧ collides c m)

/-- **no_disturb_when_harmless_or_colliding.**  `no_disturb` for every operation in `harmless` and, in addition,
    for `process_welcome` of every colliding invitation. -/
theorem no_disturb_when_harmless_or_colliding (c : Client) (o : IOp) (hH : harmlessOrColliding c o) (gid : Nat)
    (ha : isActive c gid = true) : proj (apply c o).1 gid = proj c gid := by
  rcases hH with h | ⟨hinv, wr, m, rfl, hc⟩
  · exact no_disturb_when_harmless c o h gid ha
  · exact (collision_frame c wr m hinv hc).2.2.2.1 gid

/-- a client that holds group 1 Active (`cJoined`) satisfies the hypotheses: the routing invariant holds and an
    invitation to ANOTHER group (2) carrying group 1's nostr group id (101) collides -/
example (b : Backend) : collides (cJoined b) { wInv with rid := some 9, gid := 2, nid := 101 } :=
  ⟨1, _, (by cases b <;> decide : findGroup (cJoined b).store 1 = some
      { gid := 1, nid := 101, nameLen := 5, descLen := 3, admins := 1, img := 0, lastId := none, lastAt := none,
        lastProc := none, epoch := 2, state := 0, selfUpd := 0 }), rfl, by decide⟩

/-- one step of any history keeps the routing invariant -/
theorem nid_inv_step (c : Client) (o : TOp) (h : NidOK c) : NidOK (tapply c o) := by
  cases o with
  | inv o =>
    cases o with
    | process wr m => exact process_nidInv c wr m h
    | accept m => exact accept_nidInv c m h
    | decline m => exact decline_nidInv c m h
  | commit k => exact deliverCommit_nidInv c k h
  | probe gid nid tok seq => exact deliverApp_nidInv c gid nid tok seq h

theorem nid_inv_run (c : Client) (ops : List TOp) (h : NidOK c) : NidOK (trun c ops) := by
  induction ops generalizing c with
  | nil => exact h
  | cons o os ih => exact ih _ (nid_inv_step c o h)

/-- **nid_unique_inv.**  Over ALL histories of invitation operations (process / accept / decline of any
    invitations under any wrapper ids), deliveries of commits of any group (incl. commits that rotate the nostr
    group id, onto any value) and stored application messages, in any order and of any length, on both
    backends: no two groups of the client ever carry the same nostr group id — the routing key of C08 — and the
    store answers the id of every record with that record's group. -/
theorem nid_unique_inv (b : Backend) (ops : List TOp) :
    (∀ a a' g g', findGroup (trun (Client.empty b) ops).store a = some g →
      findGroup (trun (Client.empty b) ops).store a' = some g' → g.nid = g'.nid → a = a') ∧
    (∀ a g, findGroup (trun (Client.empty b) ops).store a = some g →
      ∃ x, findGroupNostr (trun (Client.empty b) ops).store g.nid = some x ∧ x.gid = a) := by
  have h : NidOK (trun (Client.empty b) ops) := nid_inv_run _ ops (nidInv_empty b)
  exact ⟨h.uniq, nidInv_routes _ h⟩

/-- … and `cJoined`, the client of the closed witnesses, is reachable, hence satisfies `NidOK` -/
example (b : Backend) : NidOK (cJoined b) := by
  have : cJoined b = trun (Client.empty b) [.inv (.process 10 wInv), .inv (.accept wInv), .commit wCommit] := by
    cases b <;> rfl
  rw [this]; exact nid_inv_run _ _ (nidInv_empty b)

/-- the invariant is not vacuous: a history in which the recipient joins group 1, group 1 rotates to id 300,
    and the recipient then holds group 2 under group 1's FORMER id 101 -/
example : ((trun (Client.empty .sql)
    [.inv (.process 10 wInv), .inv (.accept wInv),
     .commit { wCommit with toNid := 300 },
     .inv (.process 20 { wInv with rid := some 5, gid := 2, nid := 101 })]).store.groups.map (fun g => (g.gid, g.nid)))
    = [(1, 300), (2, 101)] := by decide

/-! ### closed witnesses (replayed on the implementation: `corpus/C16/nid_collision_*.trace`) -/

/-- every table of the client an invitation could touch is the same (decidable, for closed witnesses) -/
def sameAll (c c' : Client) : Prop :=
  c'.store.groups = c.store.groups ∧ c'.store.byNid = c.store.byNid ∧ c'.store.relays = c.store.relays ∧
  c'.store.welcomes = c.store.welcomes ∧ c'.store.pws = c.store.pws ∧ c'.store.msgs = c.store.msgs ∧ c'.mls = c.mls

instance (c c' : Client) : Decidable (sameAll c c') := by unfold sameAll; infer_instance

/-- the hostile invitation: ANOTHER group (2), carrying the nostr group id 101 of the group the user is in, other
    name, other inviter -/
def wHostile : Invite := { wInv with rid := some 9, gid := 2, nid := 101, nameLen := 9, tok := 50, welcomer := 2 }

/-- **C16_witness_collision_refused.**  On both backends the hostile invitation is refused, under the first and
    under any other wrapper id, the client — record, MLS state, routing of group 1 — is literally unchanged and
    can still read group 1; accept / decline have nothing to act on.  Once group 1 has rotated away (to id 300)
    and the recipient has followed, the SAME invitation under the SAME wrapper id is stored, can be accepted,
    and both groups are routed by their own ids. -/
theorem C16_witness_collision_refused (b : Backend) :
    let c := cJoined b
    (process c 30 wHostile).2 = .err .group ∧ sameAll c (process c 30 wHostile).1 ∧
    (process c 31 wHostile).2 = .err .group ∧ sameAll c (process c 31 wHostile).1 ∧
    (accept c wHostile).2 = .err .noStored ∧ sameAll c (accept c wHostile).1 ∧
    (decline c wHostile).2 = .err .noStored ∧ sameAll c (decline c wHostile).1 ∧
    canDecrypt c 1 101 1 = true ∧
    (let c1 := (deliverCommit c { gid := 1, nid := 101, toNid := 300, fromTok := 1, toTok := 2, toEpoch := 3, members := 2, nameLen := 5, removesMe := false }).1
     let c2 := (process c1 30 wHostile).1
     let c3 := (accept c2 wHostile).1
     (process c1 30 wHostile).2 = .welcome (welcomeOf wHostile 9 30) ∧ (accept c2 wHostile).2 = .done ∧
     (c3.store.groups.map (fun g => (g.gid, g.nid, g.state))) = [(1, 300, 0), (2, 101, 0)] ∧
     canDecrypt c3 1 300 2 = true ∧ canDecrypt c3 2 101 50 = true) := by
  cases b <;> decide

/-- the squat (observation, not a violation of C16's text: no group the user is Active in is touched): a
    stranger's invitation that is merely RECEIVED — Pending, never consented to, even declined — occupies its
    nostr group id; the genuine invitation to the group that really uses this id is refused for as long as that
    record exists. -/
theorem C16_witness_squat (b : Backend) :
    let c1 := (process (Client.empty b) 30 wHostile).1
    let c2 := (decline c1 wHostile).1
    (process (Client.empty b) 30 wHostile).2 = .welcome (welcomeOf wHostile 9 30) ∧
    (process c1 10 wInv).2 = .err .group ∧ sameAll c1 (process c1 10 wInv).1 ∧ (decline c1 wHostile).2 = .done ∧
    (process c2 10 wInv).2 = .err .group ∧ sameAll c2 (process c2 10 wInv).1 := by
  cases b <;> decide

/-- the full-strength reading "an invitation the user never consented to has no influence on the groups the user
    IS in, now or later" … -/
def unconsented_invitation_inert : Prop :=
  ∀ (c : Client) (wr : Nat) (m : Invite) (k : Commit), isActive c k.gid = true → isActive c m.gid = false →
    (deliverCommit c k).2 = .applied → (deliverCommit (process c wr m).1 k).2 = .applied

/-- … is false of the code (the known mechanism store-limit-sync-failure of C06 / C08 through a new door): a
    merely received invitation occupies nostr group id 300; when the group the user is Active in later rotates
    to 300, the commit is merged into the MLS state and the store then refuses the synced record — the group
    is one epoch ahead of its record and is no longer routed by the id its other members use. -/
theorem unconsented_invitation_inert_false : ¬ unconsented_invitation_inert := by
  intro h
  have := h (cJoined .sql) 30 { wHostile with nid := 300 }
    { gid := 1, nid := 101, toNid := 300, fromTok := 1, toTok := 2, toEpoch := 3, members := 2, nameLen := 5, removesMe := false }
    (by decide) (by decide) (by decide)
  revert this; decide

/-! ### the exporter-secret cache (found by the correspondence run of the thorough tier) -/

def isWelcome : Res → Bool
  | .welcome _ => true
  | _ => false

/-- the full-strength reading of "accepting a valid invitation puts the joiner in exactly the inviter's post-commit
    group state": … and the joiner reads what the inviter sends from that state under the group's id -/
def accept_then_readable : Prop :=
  ∀ (c : Client) (wr : Nat) (m : Invite), isWelcome (process c wr m).2 = true →
    (accept (process c wr m).1 m).2 = .done → canDecrypt (accept (process c wr m).1 m).1 m.gid m.nid m.tok = true

/-- … is false of the code (OBSERVATION `joined-but-unreadable:stale-exporter-secret`; it needs the open finding
    welcome-foreign-creator-replaces-mls first).  `exporter_secret` is get-or-create on (group id, epoch NUMBER).  The
    user accepted a foreign creator's group carrying group 1's MLS group id (epoch 1, state 50), and one event was routed
    to it — any event tagged with its id, here one of another group: `decrypt_message` caches the secret of the group it
    routes to before it knows anything else.  The genuine invitation (epoch 1, state 0) is then processed and accepted:
    the MLS state IS the inviter's (`accept_state`), the record is the invitation's — and the outer layer of every event
    of the group is opened with the cached secret of state 50: nothing the group sends is ever read, the commit to
    epoch 2 included.  Replayed by `corpus/C16/stale_exporter_secret_after_foreign_accept.trace`. -/
theorem accept_then_readable_false : ¬ accept_then_readable := by
  intro h
  let forged : Invite := { wInv with rid := some 9, nid := 777, nameLen := 9, tok := 50, welcomer := 2 }
  let c1 := (process (Client.empty .sql) 30 forged).1
  let c2 := (accept c1 forged).1
  let c3 := (deliverApp c2 5 777 99 1).1
  have := h c3 10 wInv (by decide) (by decide)
  revert this; decide

/-- the control: without an event routed to the foreign group nothing is cached and the genuine group is readable;
    and in the witness the joiner's MLS state is exactly the inviter's -/
example :
    let forged : Invite := { wInv with rid := some 9, nid := 777, nameLen := 9, tok := 50, welcomer := 2 }
    let c2 := (accept (process (Client.empty .sql) 30 forged).1 forged).1
    let c3 := (deliverApp c2 5 777 99 1).1
    canDecrypt (accept (process c2 10 wInv).1 wInv).1 1 101 0 = true ∧
    alookup 1 (accept (process c3 10 wInv).1 wInv).1.mls = some { tok := 0, epoch := 1, members := 2 } ∧
    canDecrypt (accept (process c3 10 wInv).1 wInv).1 1 101 0 = false := by decide

end MdkVerif.Props.C16
