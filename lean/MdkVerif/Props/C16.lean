import MdkVerif.Generated
import MdkVerif.Model.Welcome
import MdkVerif.Proofs.Welcome
/-
  C16 — Invitations are idempotent, consent-gated and cannot disturb existing groups.
  Property theorems only (frame lemmas of the storage writes live in Proofs/Welcome.lean).
  The model follows the code: `no_disturb` is FALSE of it (three witnesses), and a refused
  `process_welcome` can leave a group row behind (one witness); what holds is `no_disturb_partial`.
-/
namespace MdkVerif.Props.C16
open MdkVerif MdkVerif.Store MdkVerif.Welcome

abbrev IOp := MdkVerif.Welcome.Op
abbrev irun := MdkVerif.Welcome.run

/-! ## 1. idempotence per wrapper id -/

/-- **same_wrapper_idempotent.**  Once `process_welcome` has succeeded under a wrapper id, processing
    ANY structurally valid rumor under that wrapper id again returns the very same welcome and changes
    nothing at all — for every client state, invitation and backend. -/
theorem same_wrapper_idempotent (c c1 : Client) (wrapper : Nat) (m m' : Invite) (w : Store.Welcome)
    (h : process c wrapper m = (c1, .welcome w)) (hm' : m'.shape ≠ 1) :
    process c1 wrapper m' = (c1, .welcome w) := by
  unfold process at h
  split at h
  · cases h
  · split at h
    · -- a processed-welcome record existed already: nothing was written
      rename_i p hp
      have key : ∀ mm : Invite, mm.shape ≠ 1 → process c wrapper mm = (c1, .welcome w) := by
        intro mm hmm
        unfold process
        simp only [hmm, if_false, hp]
        exact h
      split at h
      · cases h
      · split at h
        · split at h
          · have : c1 = c := by cases h; rfl
            subst this; exact key m' hm'
          · cases h
        · cases h
    · rename_i hp
      split at h
      · cases h
      · split at h
        · cases h
        · rename_i s1 hs1
          split at h
          · cases h
          · rename_i s2 hs2
            split at h
            · cases h
            · rename_i rid hrid
              simp only at h
              split at h
              · cases h
              · rename_i s4 hs4
                have hc : c1 = { c with store := s4 } ∧ w = welcomeOf m rid wrapper := by
                  cases h; exact ⟨rfl, rfl⟩
                obtain ⟨hc1, hw⟩ := hc
                subst hc1
                obtain ⟨_, _, hpws, _, _, hfw⟩ := saveWelcome_frame _ _ _ hs4
                have h1 : findPw s4 wrapper = some { wrapper := wrapper, welcomeId := some rid, processedAt := 0, state := 0, reason := none } := by
                  simp [findPw, hpws]
                  have := findPw_savePw s2 { wrapper := wrapper, welcomeId := some rid, processedAt := 0, state := 0, reason := none } wrapper
                  simpa [findPw] using this
                have h2 : findWelcome s4 rid = some (welcomeOf m rid wrapper) := by
                  rw [hfw]; simp [welcomeOf]
                unfold process
                simp only [hm', if_false, h1, h2, hw]
                simp

/-! ## 2. no Active group without consent -/

/-- one invitation op other than `accept` never turns a non-Active group Active -/
theorem nonaccept_keeps_inactive (c : Client) (o : IOp) (ho : o.isAccept = false) (gid : Nat)
    (h : isActive c gid = false) : isActive (apply c o).1 gid = false := by
  rw [isActive_false_iff] at h ⊢
  cases o with
  | accept m => simp [Op.isAccept] at ho
  | process wr m =>
    simp only [apply]
    unfold process
    split
    · exact h
    · split
      · split
        · exact h
        · split
          · split <;> exact h
          · exact h
      · split
        · exact notActive_of_groups_eq c.store _ rfl gid h
        · split
          · exact h
          · rename_i s1 hs1
            have h1 : NotActive s1 gid := notActive_saveGroup _ _ _ hs1 (by simp [pendingGroup]) gid h
            split
            · exact h1
            · rename_i s2 hs2
              have h2 : NotActive s2 gid := notActive_of_groups_eq _ _ (replaceRelays_frame _ _ _ _ hs2).1 gid h1
              split
              · exact h2
              · rename_i rid hrid
                simp only
                have h3 : NotActive (savePw s2 { wrapper := wr, welcomeId := some rid, processedAt := 0, state := 0, reason := none }) gid :=
                  notActive_of_groups_eq s2 _ rfl gid h2
                split
                · exact h3
                · rename_i s4 hs4
                  exact notActive_of_groups_eq _ _ (saveWelcome_frame _ _ _ hs4).1 gid h3
  | decline m =>
    simp only [apply]
    unfold decline
    split
    · exact h
    · split
      · exact notActive_of_groups_eq c.store _ rfl gid h
      · split
        · exact h
        · rename_i s1 hs1
          have h1 : NotActive s1 gid := notActive_of_groups_eq _ _ (saveWelcome_frame _ _ _ hs1).1 gid h
          split
          · exact h1
          · rename_i g hgf
            split
            · exact h1
            · rename_i s2 hs2
              exact notActive_saveGroup _ _ _ hs2 (by simp) gid h1

/-- **no_consent_no_active.**  For every history of received / re-received / failed / declined
    invitations (any wrapper ids, any contents, any order) that contains no `accept`, a group that was
    not Active is not Active afterwards. -/
theorem no_consent_no_active (c : Client) (ops : List IOp) (hna : ∀ o ∈ ops, o.isAccept = false) (gid : Nat)
    (h : isActive c gid = false) : isActive (irun c ops) gid = false := by
  induction ops generalizing c with
  | nil => exact h
  | cons o os ih =>
    simp only [irun, Welcome.run]
    exact ih _ (fun o' ho' => hna o' (List.mem_cons_of_mem _ ho')) (nonaccept_keeps_inactive c o (hna o (List.mem_cons_self ..)) gid h)

example : ∀ o ∈ ([Welcome.Op.process 1 default, Welcome.Op.decline default, Welcome.Op.process 2 default] : List IOp),
    o.isAccept = false := by decide

/-! ## 3. what `accept` establishes -/

/-- **accept_state.**  A successful `accept_welcome`: the client's MLS group of that id IS the
    invitation's (the inviter's post-commit token, epoch and member count — whatever was there before is
    replaced), the stored welcome is Accepted, and the group record of that id (if any) is Active with the
    self-update obligation pending. -/
theorem accept_state (c c' : Client) (m : Invite) (h : accept c m = (c', .done)) :
    alookup m.gid c'.mls = some { tok := m.tok, epoch := m.epoch, members := m.members } ∧
    (∃ sw, m.rid.bind (findWelcome c.store) = some sw ∧ findWelcome c'.store sw.id = some { sw with state := 1 }) ∧
    (∀ g, findGroup c.store m.gid = some g → g.gid = m.gid →
      findGroup c'.store m.gid = some { g with state := 0, selfUpd := 0 }) := by
  unfold accept at h
  split at h
  · cases h
  · rename_i sw hsw
    split at h
    · cases h
    · simp only at h
      split at h
      · cases h
      · rename_i s1 hs1
        obtain ⟨hg1, _, _, _, _, hw1⟩ := saveWelcome_frame _ _ _ hs1
        split at h
        · rename_i hnone
          cases h
          refine ⟨by simp [alookup_ainsert], ⟨sw, hsw, by rw [hw1]; simp⟩, ?_⟩
          intro g hg _
          rw [findGroup_of_groups_eq _ _ hg1] at hnone; rw [hnone] at hg; cases hg
        · rename_i g0 hg0
          split at h
          · cases h
          · rename_i s2 hs2
            obtain ⟨hf2, _, hwel2, _⟩ := saveGroup_frame _ _ _ hs2
            split at h
            · cases h
            · rename_i s3 hs3
              obtain ⟨hg3, hwel3, _⟩ := replaceRelays_frame _ _ _ _ hs3
              cases h
              refine ⟨by simp [alookup_ainsert], ⟨sw, hsw, ?_⟩, ?_⟩
              · simp only [findWelcome, hwel3, hwel2]
                have := hw1 sw.id; simpa [findWelcome] using this
              · intro g hg hgid
                rw [findGroup_of_groups_eq _ _ hg1] at hg0
                rw [hg0] at hg; cases hg
                rw [findGroup_of_groups_eq _ _ hg3, hf2]
                simp [hgid]

/-- received (first time under this wrapper id) and then accepted: the record is exactly the
    invitation's group data, Active, self-update Required, at the invitation's epoch -/
theorem accept_after_process (c c1 c2 : Client) (wr : Nat) (m : Invite) (w : Store.Welcome)
    (hfresh : findPw c.store wr = none) (hp : process c wr m = (c1, .welcome w)) (ha : accept c1 m = (c2, .done)) :
    findGroup c2.store m.gid = some { pendingGroup m with state := 0 } ∧
    alookup m.gid c2.mls = some { tok := m.tok, epoch := m.epoch, members := m.members } := by
  have hrec : findGroup c1.store m.gid = some (pendingGroup m) := by
    unfold process at hp
    split at hp
    · cases hp
    · rw [hfresh] at hp
      simp only at hp
      split at hp
      · cases hp
      · split at hp
        · cases hp
        · rename_i s1 hs1
          split at hp
          · cases hp
          · rename_i s2 hs2
            split at hp
            · cases hp
            · split at hp
              · cases hp
              · rename_i s4 hs4
                cases hp
                rw [findGroup_of_groups_eq _ _ (saveWelcome_frame _ _ _ hs4).1]
                have : ∀ p, findGroup (savePw s2 p) m.gid = findGroup s2 m.gid := fun p => findGroup_of_groups_eq s2 _ rfl m.gid
                rw [this, findGroup_of_groups_eq _ _ (replaceRelays_frame _ _ _ _ hs2).1, (saveGroup_frame _ _ _ hs1).1]
                simp [pendingGroup]
  obtain ⟨h1, _, h3⟩ := accept_state c1 c2 m ha
  exact ⟨by simpa [pendingGroup] using h3 _ hrec rfl, h1⟩

/-! ## 4. invitations and the groups the user already holds -/

/-- **no_disturb** — the full-strength statement of the property: no invitation operation, whatever the
    invitation contains, changes (record, MLS state, relays of) a group in which the user is Active. -/
def no_disturb : Prop :=
  ∀ (c : Client) (o : IOp) (gid : Nat), isActive c gid = true → proj (apply c o).1 gid = proj c gid

/-- **no_disturb_partial.**  What holds of the code: an invitation operation can only touch the group
    whose MLS group id the invitation names.  Every OTHER group — Active or not — keeps its record, its
    MLS state and its relays, for every client state, operation, invitation content and backend. -/
theorem no_disturb_partial (c : Client) (o : IOp) (gid : Nat) (hne : gid ≠ o.invite.gid) :
    proj (apply c o).1 gid = proj c gid := by
  have hne' : ¬ o.invite.gid = gid := fun e => hne e.symm
  -- the three projections after each kind of write
  have sg : ∀ (s s' : Store) (g : Group), g.gid = o.invite.gid → saveGroup s g = some s' →
      findGroup s' gid = findGroup s gid ∧ alookup gid s'.relays = alookup gid s.relays := by
    intro s s' g hg h
    obtain ⟨h1, h2, _⟩ := saveGroup_frame _ _ _ h
    exact ⟨by rw [h1, hg]; simp [hne'], by rw [h2]⟩
  have rr : ∀ (s s' : Store) (rs : List Nat), replaceRelays s o.invite.gid rs = some s' →
      findGroup s' gid = findGroup s gid ∧ alookup gid s'.relays = alookup gid s.relays := by
    intro s s' rs h
    obtain ⟨h1, _, _, _, _, h6⟩ := replaceRelays_frame _ _ _ _ h
    exact ⟨findGroup_of_groups_eq _ _ h1 gid, h6 gid hne⟩
  have sw : ∀ (s s' : Store) (x : Store.Welcome), saveWelcome s x = some s' →
      findGroup s' gid = findGroup s gid ∧ alookup gid s'.relays = alookup gid s.relays := by
    intro s s' x h
    obtain ⟨h1, h2, _⟩ := saveWelcome_frame _ _ _ h
    exact ⟨findGroup_of_groups_eq _ _ h1 gid, by rw [h2]⟩
  have pj : ∀ (c1 c2 : Client), findGroup c2.store gid = findGroup c1.store gid →
      alookup gid c2.store.relays = alookup gid c1.store.relays → alookup gid c2.mls = alookup gid c1.mls →
      proj c2 gid = proj c1 gid := by
    intro c1 c2 h1 h2 h3; simp [proj, h1, h2, h3]
  cases o with
  | process wr m =>
    simp only [Op.invite] at hne hne' sg rr
    simp only [apply]
    unfold process
    split
    · rfl
    · split
      · split
        · rfl
        · split
          · split <;> rfl
          · rfl
      · split
        · exact pj _ _ rfl rfl rfl
        · split
          · rfl
          · rename_i s1 hs1
            obtain ⟨a1, b1⟩ := sg _ _ _ rfl hs1
            split
            · exact pj _ _ a1 b1 rfl
            · rename_i s2 hs2
              obtain ⟨a2, b2⟩ := rr _ _ _ hs2
              split
              · exact pj _ _ (a2.trans a1) (b2.trans b1) rfl
              · simp only
                split
                · exact pj _ _ (a2.trans a1) (b2.trans b1) rfl
                · rename_i s4 hs4
                  obtain ⟨a4, b4⟩ := sw _ _ _ hs4
                  exact pj _ _ (a4.trans (a2.trans a1)) (b4.trans (b2.trans b1)) rfl
  | accept m =>
    simp only [Op.invite] at hne hne' sg rr
    simp only [apply]
    unfold accept
    have hm : alookup gid (ainsert m.gid ({ tok := m.tok, epoch := m.epoch, members := m.members } : MlsSt) c.mls) = alookup gid c.mls := by
      simp [alookup_ainsert, hne]
    split
    · rfl
    · split
      · exact pj _ _ rfl rfl rfl
      · simp only
        split
        · exact pj _ _ rfl rfl hm
        · rename_i s1 hs1
          obtain ⟨a1, b1⟩ := sw _ _ _ hs1
          split
          · exact pj _ _ a1 b1 hm
          · rename_i g hg
            have hgid : g.gid = m.gid := by
              have := List.find?_some hg; simpa using this
            split
            · exact pj _ _ a1 b1 hm
            · rename_i s2 hs2
              obtain ⟨a2, b2⟩ := sg _ _ { g with state := 0, selfUpd := 0 } hgid hs2
              split
              · exact pj _ _ (a2.trans a1) (b2.trans b1) hm
              · rename_i s3 hs3
                obtain ⟨a3, b3⟩ := rr _ _ _ hs3
                exact pj _ _ (a3.trans (a2.trans a1)) (b3.trans (b2.trans b1)) hm
  | decline m =>
    simp only [Op.invite] at hne hne' sg rr
    simp only [apply]
    unfold decline
    split
    · rfl
    · split
      · exact pj _ _ rfl rfl rfl
      · split
        · rfl
        · rename_i s1 hs1
          obtain ⟨a1, b1⟩ := sw _ _ _ hs1
          split
          · exact pj _ _ a1 b1 rfl
          · rename_i g hg
            have hgid : g.gid = m.gid := by
              have := List.find?_some hg; simpa using this
            split
            · exact pj _ _ a1 b1 rfl
            · rename_i s2 hs2
              obtain ⟨a2, b2⟩ := sg _ _ { g with state := 1 } hgid hs2
              exact pj _ _ (a2.trans a1) (b2.trans b1) rfl

/-- … hence `no_disturb` holds whenever the client holds no Active group with the invitation's id (the
    decidable hypothesis under which the property is true of the code) -/
theorem no_disturb_when_not_held (c : Client) (o : IOp) (hH : isActive c o.invite.gid = false) (gid : Nat)
    (ha : isActive c gid = true) : proj (apply c o).1 gid = proj c gid := by
  apply no_disturb_partial
  intro e; rw [e, hH] at ha; cases ha

/-! ## 5. witnesses: `no_disturb` is false of the code, and a refused invitation has an effect
    (each history is in `corpus/C16/` and replayed on the implementation on every run) -/

/-- an invitation to group 1: inviter's post-commit state token 0 at epoch 1, two members -/
def wInv : Invite :=
  { rid := some 0, shape := 0, gid := 1, nid := 101, nameLen := 5, descLen := 3, admins := 1, relays := [1, 2],
    epoch := 1, tok := 0, members := 2, welcomer := 0 }

/-- the group moves on: a commit from state 0 to state 1 (epoch 2) -/
def wCommit : Commit :=
  { gid := 1, nid := 101, fromTok := 0, toTok := 1, toEpoch := 2, members := 2, nameLen := 5, removesMe := false }

/-- a client that received the invitation under wrapper 10, accepted it and followed the group to epoch 2 -/
def cJoined (b : Backend) : Client :=
  let c1 := (process (Client.empty b) 10 wInv).1
  let c2 := (accept c1 wInv).1
  (applyCommit c2 wCommit).getD c2

/-- the starting point of the three witnesses is what it should be: Active, at epoch 2, in MLS state 1,
    able to decrypt what the group sends now -/
theorem cJoined_ok (b : Backend) :
    isActive (cJoined b) 1 = true ∧ ((findGroup (cJoined b).store 1).map (·.epoch)) = some 2 ∧
    alookup 1 (cJoined b).mls = some { tok := 1, epoch := 2, members := 2 } ∧ canDecrypt (cJoined b) 1 101 1 = true := by
  cases b <;> decide

/-- **C16_witness_replay_pending.**  The SAME welcome delivered under a NEW wrapper id (11) to the Active
    member: `process_welcome` succeeds and overwrites the Active group's record with state Pending and the
    invitation's old epoch. -/
theorem C16_witness_replay_pending (b : Backend) :
    let c' := (apply (cJoined b) (.process 11 wInv)).1
    findGroup c'.store 1 = some (pendingGroup wInv) ∧ isActive c' 1 = false ∧
    (pendingGroup wInv).state = 2 ∧ (pendingGroup wInv).epoch = 1 := by
  cases b <;> decide

/-- **C16_witness_replay_accept.**  Accepting the replayed welcome replaces the member's MLS state
    (token 1, epoch 2) by the invitation's (token 0, epoch 1): the record says Active again, but the client
    can no longer decrypt the group. -/
theorem C16_witness_replay_accept (b : Backend) :
    let c1 := (apply (cJoined b) (.process 11 wInv)).1
    let c2 := (apply c1 (.accept wInv)).1
    isActive c2 1 = true ∧ alookup 1 c2.mls = some { tok := 0, epoch := 1, members := 2 } ∧
    canDecrypt c2 1 101 1 = false := by
  cases b <;> decide

/-- **C16_witness_replay_decline.**  Declining the replayed welcome instead sets the group Inactive. -/
theorem C16_witness_replay_decline (b : Backend) :
    let c1 := (apply (cJoined b) (.process 11 wInv)).1
    let c2 := (apply c1 (.decline wInv)).1
    ((findGroup c2.store 1).map (·.state)) = some 1 ∧ isActive c2 1 = false := by
  cases b <;> decide

/-- **C16_witness_foreign_creator.**  Somebody who is NOT in the group but knows its MLS group id creates
    a new MLS group with that id (own group data: nostr group id 777, another name) and invites the
    member.  Merely PROCESSING that welcome — no consent — overwrites the Active group's record with the
    foreign group data: the real group's events are no longer routed to it (`canDecrypt` false although
    the MLS state is intact).  Accepting it replaces the MLS state by the foreign group's. -/
theorem C16_witness_foreign_creator (b : Backend) :
    let forged : Invite := { wInv with rid := some 9, nid := 777, nameLen := 9, tok := 50, welcomer := 2 }
    let c1 := (apply (cJoined b) (.process 30 forged)).1
    let c2 := (apply c1 (.accept forged)).1
    (apply (cJoined b) (.process 30 forged)).2 = .welcome (welcomeOf forged 9 30) ∧
    ((findGroup c1.store 1).map (fun g => (g.state, g.nid, g.nameLen))) = some (2, 777, 9) ∧
    alookup 1 c1.mls = some { tok := 1, epoch := 2, members := 2 } ∧ canDecrypt c1 1 101 1 = false ∧
    isActive c2 1 = true ∧ alookup 1 c2.mls = some { tok := 50, epoch := 1, members := 2 } := by
  cases b <;> decide

/-- the full-strength statement is false of the code -/
theorem no_disturb_false : ¬ no_disturb := by
  intro h
  have := h (cJoined .sql) (.process 11 wInv) 1 (by decide)
  revert this; decide

/-- the full-strength "a refused invitation has no effect" … -/
def refused_has_no_effect : Prop :=
  ∀ (c : Client) (wr : Nat) (m : Invite) (k : ErrK) (gid : Nat),
    (process c wr m).2 = .err k → proj (process c wr m).1 gid = proj c gid

/-- **refused_welcome_effect.**  … is false too: a rumor without an id is refused with
    `MissingRumorEventId` AFTER the Pending group row and its relays were written; no welcome and no
    processed-welcome record exist, so nothing will ever accept, decline or deduplicate it. -/
theorem refused_welcome_effect (b : Backend) :
    let r := process (Client.empty b) 7 { wInv with rid := none }
    r.2 = .err .missingRumorId ∧ findGroup r.1.store 1 = some (pendingGroup wInv) ∧
    alookup 1 r.1.store.relays = some [1, 2] ∧ r.1.store.welcomes = [] ∧ findPw r.1.store 7 = none := by
  cases b <;> decide

theorem refused_has_no_effect_false : ¬ refused_has_no_effect := by
  intro h
  have := h (Client.empty .sql) 7 { wInv with rid := none } .missingRumorId 1 (by decide)
  revert this; decide

/-- … and on an Active member it is one more way to disturb the group: the refused id-less replay
    leaves the Active group Pending at the old epoch -/
theorem refused_welcome_disturbs_active (b : Backend) :
    let r := process (cJoined b) 12 { wInv with rid := none }
    r.2 = .err .missingRumorId ∧ isActive r.1 1 = false := by
  cases b <;> decide

/-- what is refused BEFORE the first write has no effect: structurally invalid rumors and known wrapper ids -/
theorem refused_early_no_effect (c : Client) (wr : Nat) (m : Invite)
    (h : m.shape = 1 ∨ (findPw c.store wr).isSome) : (process c wr m).1 = c := by
  unfold process
  rcases h with h | h
  · simp [h]
  · split
    · rfl
    · cases hp : findPw c.store wr with
      | none => simp [hp] at h
      | some p =>
        simp only
        split
        · rfl
        · split
          · split <;> rfl
          · rfl

/-- an invitation that fails in `preview_welcome` leaves exactly one trace: its Failed dedup record -/
theorem failed_preview_only_records (c : Client) (wr : Nat) (m : Invite) (h1 : m.shape = 2)
    (h2 : findPw c.store wr = none) (gid : Nat) :
    (process c wr m).2 = .err .welcome ∧ proj (process c wr m).1 gid = proj c gid ∧
    (process c wr m).1.store.welcomes = c.store.welcomes := by
  unfold process
  simp [h1, h2, proj, findGroup, savePw]

/-- the full-strength reading of "accept puts the joiner in exactly the inviter's post-commit state" for
    the group RECORD: after a successful accept the record is at the accepted invitation's epoch … -/
def accept_record_full : Prop :=
  ∀ (c : Client) (m : Invite), (accept c m).2 = .done →
    ∀ g, findGroup (accept c m).1.store m.gid = some g → g.epoch = m.epoch

/-- … is false: `accept_welcome` keeps whatever record is stored under that group id.  Two invitations to
    the same group are pending (eviction and re-invitation before either was looked at); the newer one
    (epoch 3) was processed last; accepting the older one (epoch 1) joins MLS state 0 at epoch 1 while the
    record stays at epoch 3.  `accept_after_process` is the partial statement (no other invitation to that
    group id processed in between).  Replayed by `corpus/C16/accept_older_invitation.trace`. -/
theorem accept_record_full_false : ¬ accept_record_full := by
  intro h
  let newer : Invite := { wInv with rid := some 1, epoch := 3, tok := 5 }
  let c1 := (process (Client.empty .sql) 10 wInv).1
  let c2 := (process c1 20 newer).1
  have := h c2 wInv (by decide) { pendingGroup newer with state := 0 } (by decide)
  revert this; decide

/-! ## 6. the tie to the source -/

/-- **welcome_step_order.**  The order of validation, storage and MLS steps the model transcribes is the
    order `tools/gen_model.py` extracts from `process_welcome` / `accept_welcome` / `decline_welcome` on
    every run; the staged welcome is built with `.replace_old_group()`; and `process_welcome` does not look
    for an Active group of that id before writing.  When the code is repaired (id check before the first
    write, held-group check) these facts change and this theorem — and with it the witnesses — must be
    revisited. -/
theorem welcome_step_order :
    Welcome.processOrder = Generated.welcomeProcessOrder ∧ Welcome.acceptOrder = Generated.welcomeAcceptOrder ∧
    Welcome.declineOrder = Generated.welcomeDeclineOrder ∧ Generated.welcomeReplacesOldGroup = true ∧
    Generated.welcomeProcessChecksHeldGroup = false := by decide

end MdkVerif.Props.C16
