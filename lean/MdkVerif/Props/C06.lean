import MdkVerif.Model.Client
import MdkVerif.Proofs.Client
import MdkVerif.Props.C08
/-
  C06 — a refused event has no effect (the frame part; absence of panics is a runtime fact that the
  harness searches for, totality of the model is NOT presented as a no-panic proof).
-/
namespace MdkVerif.Props.C06
open MdkVerif MdkVerif.Client

def isRefusal : Res → Bool
  | .unprocessable | .previouslyFailed | .err _ | .ignored => true
  | _ => false

/-- the full statement: whenever `process_message` reports failure, the projection is unchanged -/
def refuse_frame_full : Prop :=
  ∀ (c : Cl) (e : Ev) (nx : Nat), Synced c.g → isRefusal (deliver c e nx).2 = true → proj (deliver c e nx).1 = proj c

/-- shape used below: "if this outcome is a refusal, the projection is the old one" -/
def Frame (c : Cl) (r : Cl × Res) : Prop := isRefusal r.2 = true → proj r.1 = proj c

theorem frame_fail (c : Cl) (e : Ev) : Frame c (failUnprocessable (withSecret c) e) := by
  intro _; simp [failUnprocessable]

theorem frame_ownMessage (c : Cl) (e : Ev) (hs : Synced c.g) : Frame c (ownMessage (withSecret c) e) := by
  have hs' := synced_withSecret c hs
  unfold Frame ownMessage
  repeat' split
  all_goals first
    | (intro _; simp; done)
    | (intro h; simp [isRefusal] at h; done)
    | (intro h; simp [isRefusal, returnOwnCommit] at h; done)

theorem frame_notBetter (c : Cl) (e : Ev) (hs : Synced c.g) : Frame c (notBetterResult (withSecret c) e) := by
  intro _
  rw [notBetterResult_proj _ e (synced_withSecret c hs)]; simp

/-- one pass, provided no rollback is triggered (`isBetter … = false`): refused ⇒ unchanged -/
theorem step1_refuse_frame (retry : Cl → Option (Cl × Res)) (nx : Nat) (c : Cl) (e : Ev) (hs : Synced c.g)
    (hnb : isBetter c (epochOf e.path) e = false) : Frame c (step1 retry nx c e) := by
  unfold step1
  split
  · intro _; rfl
  · split
    · intro _; rfl
    · simp only
      split
      · intro _; simp
      · split
        · -- commit
          split
          · unfold wrongEpochCommit
            simp only [withSecret_isBetter, hnb, Bool.false_eq_true, if_false]
            exact frame_notBetter c e hs
          · split
            · split
              · intro h; simp [isRefusal] at h
              · exact frame_ownMessage c e hs
            · split
              · exact frame_fail c e
              · unfold processCommit
                split
                · intro _; simp [recordFailure, setRec, proj, withSecret, ensureSecret_fields, ensureSecret_data]
                · split <;> (intro h; simp [isRefusal] at h)
        · -- leave
          split
          · exact frame_fail c e
          · split
            · exact frame_ownMessage c e hs
            · split
              · exact frame_fail c e
              · split <;> (intro h; simp [isRefusal] at h)
        · -- app
          split
          · exact frame_fail c e
          · split
            · exact frame_fail c e
            · split
              · exact frame_ownMessage c e hs
              · split
                · exact frame_fail c e
                · intro h; simp [isRefusal, storeApp] at h

/-- **refuse_frame_partial**: for every client state, event and fuel, if no rollback is triggered, a
    refused event leaves the projection exactly as it was -/
theorem refuse_frame_partial (fuel nx : Nat) (c : Cl) (e : Ev) (hs : Synced c.g)
    (hnb : isBetter c (epochOf e.path) e = false)
    (h : isRefusal (deliverN fuel nx c e).2 = true) : proj (deliverN fuel nx c e).1 = proj c := by
  have key : ∀ retry, Frame c (deliverOnce retry nx c e) := by
    intro retry
    unfold deliverOnce
    split
    · split
      · intro _; rfl
      · exact step1_refuse_frame retry nx c e hs hnb
    · exact step1_refuse_frame retry nx c e hs hnb
  cases fuel with
  | zero => exact key _ h
  | succ f => exact key _ h

/-- an evicted member (whose record is deliberately NOT in step with its merged MLS state, so `refuse_frame_partial`
    does not speak about it): every delivery is refused and leaves the projection as it was, for every event and fuel -/
theorem refuse_frame_evicted (fuel nx : Nat) (c : Cl) (e : Ev) (ha : c.g.active = false) :
    isRefusal (deliverN fuel nx c e).2 = true ∧ proj (deliverN fuel nx c e).1 = proj c := by
  obtain ⟨_, hres, hp⟩ := C08.evicted_deliver fuel nx c e ha
  refine ⟨?_, hp⟩
  rcases hres with h | h | h | h <;> rw [h] <;> rfl

/-! ### the hypothesis is necessary: a commit that is 'better' by timestamp but NOT authorised makes
    the receiver roll back first and reject afterwards (signature `rollback-before-authorisation`) -/

def wClient : Cl := initCl 2 false 5 [0, 1, 2] [0] 1
def wGood : Ev := { n := 1, ts := 20, idnum := 7, cipher := 1, sender := 0, path := [], kind := .commit (.setData { initData [0] 1 with name := 5 }) [] }
/-- built by the non-admin member 1 with OpenMLS directly, wrapper timestamp earlier than `wGood` -/
def wEvil : Ev := { n := 2, ts := 10, idnum := 9, cipher := 2, sender := 1, path := [], kind := .commit (.setData { initData [0] 1 with name := 6 }) [] }
def wAfterGood : Cl := (deliver wClient wGood 0).1

theorem witness_rollback_then_reject :
    (deliver wAfterGood wEvil 0).2 = .err eNonAdmin ∧ wAfterGood.g.path = [1] ∧ (deliver wAfterGood wEvil 0).1.g.path = [] := by
  decide

theorem refuse_frame_full_false : ¬ refuse_frame_full := by
  intro h
  have := h wAfterGood wEvil 0 (by decide) (by decide)
  revert this; decide

/-- … and the legitimate commit is refused for ever afterwards -/
theorem witness_good_commit_lost :
    (deliver (deliver wAfterGood wEvil 0).1 wGood 0).2 = .unprocessable := by decide

/-! ### a second way to a refused event with an effect: the same commit ciphertext under two wrappers
    (signature `rewrapped-commit-rollback`): the copy with the earlier wrapper timestamp is 'better', the
    receiver rolls back, and the ciphertext cannot be decrypted a second time -/
def wCopyLate : Ev := { wGood with n := 5, ts := 30, idnum := 3 }   -- re-wrapped copy, applied first
theorem witness_rewrapped_commit :
    (deliver wClient wCopyLate 0).2 = .commit ∧
    (deliver (deliver wClient wCopyLate 0).1 wGood 0).2 = .unprocessable ∧
    (deliver (deliver wClient wCopyLate 0).1 wGood 0).1.g.path = [] ∧
    (deliver (deliver (deliver wClient wCopyLate 0).1 wGood 0).1 wCopyLate 0).2 = .unprocessable := by decide

/-! ### a third way (signature `retagged-commit-rollback`): the `h` tag of a wrapper is not authenticated either.
    After the receiver applied a commit that ROTATED the nostr group id, a sibling of that commit re-published
    under the NEW id is found, opens (past-epoch secret), is judged 'better' by its wrapper timestamp, and the
    receiver rolls back — which restores the OLD id; the re-processing then looks the same event up again, under
    the restored id, and fails with GroupNotFound.  The refusal leaves the client one epoch back, the rotation
    commit EpochInvalidated for ever. -/
def wRot : Ev := { n := 1, ts := 20, idnum := 7, cipher := 1, sender := 0, path := [], kind := .commit (.setData { initData [0] 1 with nid := 8 }) [] }
def wSib : Ev := { n := 2, ts := 10, idnum := 9, cipher := 2, sender := 1, path := [], kind := .commit .selfUpdate [] }
def wSibRetag : Ev := { wSib with n := 3, idnum := 4, tag := 8 }
theorem witness_retagged_commit_rollback :
    (deliver wClient wRot 0).2 = .commit ∧ (deliver wClient wRot 0).1.g.recNid = 8 ∧
    (deliver (deliver wClient wRot 0).1 wSibRetag 0).2 = .err eGroupNotFound ∧
    (deliver (deliver wClient wRot 0).1 wSibRetag 0).1.g.path = [] ∧
    (deliver (deliver wClient wRot 0).1 wSibRetag 0).1.g.recNid = 0 ∧
    (deliver (deliver (deliver wClient wRot 0).1 wSibRetag 0).1 wRot 0).2 = .unprocessable ∧
    -- the original sibling (old id) is still applicable afterwards — unless it was offered in between
    (deliver (deliver (deliver wClient wRot 0).1 wSibRetag 0).1 wSib 0).2 = .commit ∧
    (deliver (deliver (deliver (deliver wClient wRot 0).1 wSib 0).1 wSibRetag 0).1 wSib 0).2 = .unprocessable := by decide

theorem refuse_frame_full_false_retag : ¬ refuse_frame_full := by
  intro h
  have := h (deliver wClient wRot 0).1 wSibRetag 0 (by decide) (by decide)
  revert this; decide

/-- non-vacuity of `refuse_frame_partial`: a refused duplicate in a state with a snapshot -/
example : isBetter wAfterGood (epochOf wGood.path) wGood = false ∧ isRefusal (deliver wAfterGood { wGood with n := 9, ts := 30 } 0).2 = true := by
  decide

end MdkVerif.Props.C06
