import MdkVerif.Model.Client
import MdkVerif.Model.Proposal
import MdkVerif.Proofs.Client
import MdkVerif.Proofs.Proposal
import MdkVerif.Props.C06Wrap
import MdkVerif.Props.C06Ffi
import MdkVerif.Props.C08
import MdkVerif.Proofs.Insert
import MdkVerif.Props.C10Limits
/-
  C06 — a refused event has no effect (the frame part; absence of panics is a runtime fact that the
  harness searches for, totality of the model is NOT presented as a no-panic proof).
-/
namespace MdkVerif.Props.C06
open MdkVerif MdkVerif.Client

def isRefusal : Res → Bool
  | .unprocessable | .previouslyFailed | .err _ | .ignored => true
  | _ => false

/-- the full statement: whenever `process_message` reports failure, the projection is unchanged -/
def refuse_frame_full : Prop :=
  ∀ (c : Cl) (e : Ev) (nx : Nat), Synced c.g → isRefusal (deliver c e nx).2 = true → proj (deliver c e nx).1 = proj c

/-- shape used below: "if this outcome is a refusal, the projection is the old one" -/
def Frame (c : Cl) (r : Cl × Res) : Prop := isRefusal r.2 = true → proj r.1 = proj c

theorem frame_fail (c : Cl) (e : Ev) : Frame c (failUnprocessable (withSecret c) e) := by
  intro _; simp [failUnprocessable]

theorem frame_ownMessage (c : Cl) (e : Ev) (hs : Synced c.g) : Frame c (ownMessage (withSecret c) e) := by
  have hs' := synced_withSecret c hs
  unfold Frame ownMessage
  repeat' split
  all_goals first
    | (intro _; simp; done)
    | (intro h; simp [isRefusal] at h; done)
    | (intro h; simp [isRefusal, returnOwnCommit] at h; done)

theorem frame_notBetter (c : Cl) (e : Ev) (hs : Synced c.g) : Frame c (notBetterResult (withSecret c) e) := by
  intro _
  rw [notBetterResult_proj _ e (synced_withSecret c hs)]; simp

/-- one pass, provided no rollback is triggered (`isBetter … = false`): refused ⇒ unchanged -/
theorem step1_refuse_frame (retry : Cl → Option (Cl × Res)) (nx : Nat) (c : Cl) (e : Ev) (hs : Synced c.g)
    (hnb : isBetter c (epochOf e.path) e = false) : Frame c (step1 retry nx c e) := by
  unfold step1
  split
  · intro _; rfl
  · split
    · intro _; rfl
    · simp only
      split
      · intro _; simp
      · split
        · -- commit
          split
          · unfold wrongEpochCommit
            simp only [withSecret_isBetter, hnb, Bool.false_eq_true, if_false]
            exact frame_notBetter c e hs
          · split
            · split
              · intro h; simp [isRefusal] at h
              · exact frame_ownMessage c e hs
            · split
              · exact frame_fail c e
              · unfold processCommit
                split
                · intro _; simp [recordFailure, setRec, proj, withSecret, ensureSecret_fields, ensureSecret_data]
                · split <;> (intro h; simp [isRefusal] at h)
        · -- leave
          split
          · exact frame_fail c e
          · split
            · exact frame_ownMessage c e hs
            · split
              · exact frame_fail c e
              · split <;> (intro h; simp [isRefusal] at h)
        · -- app
          split
          · exact frame_fail c e
          · split
            · exact frame_fail c e
            · split
              · exact frame_ownMessage c e hs
              · split
                · exact frame_fail c e
                · intro h; simp [isRefusal, storeApp] at h

/-- **refuse_frame_partial**: for every client state, event and fuel, if no rollback is triggered, a
    refused event leaves the projection exactly as it was -/
theorem refuse_frame_partial (fuel nx : Nat) (c : Cl) (e : Ev) (hs : Synced c.g)
    (hnb : isBetter c (epochOf e.path) e = false)
    (h : isRefusal (deliverN fuel nx c e).2 = true) : proj (deliverN fuel nx c e).1 = proj c := by
  have key : ∀ retry, Frame c (deliverOnce retry nx c e) := by
    intro retry
    unfold deliverOnce
    split
    · split
      · intro _; rfl
      · exact step1_refuse_frame retry nx c e hs hnb
    · exact step1_refuse_frame retry nx c e hs hnb
  cases fuel with
  | zero => exact key _ h
  | succ f => exact key _ h

/-- an evicted member (whose record is deliberately NOT in step with its merged MLS state, so `refuse_frame_partial`
    does not speak about it): every delivery is refused and leaves the projection as it was, for every event and fuel -/
theorem refuse_frame_evicted (fuel nx : Nat) (c : Cl) (e : Ev) (ha : c.g.active = false) :
    isRefusal (deliverN fuel nx c e).2 = true ∧ proj (deliverN fuel nx c e).1 = proj c := by
  obtain ⟨_, hres, hp⟩ := C08.evicted_deliver fuel nx c e ha
  refine ⟨?_, hp⟩
  rcases hres with h | h | h | h <;> rw [h] <;> rfl

/-! ### the hypothesis is necessary: a commit that is 'better' by timestamp but NOT authorised makes
    the receiver roll back first and reject afterwards (signature `rollback-before-authorisation`) -/

def wClient : Cl := initCl 2 false 5 [0, 1, 2] [0] 1
def wGood : Ev := { n := 1, ts := 20, idnum := 7, cipher := 1, sender := 0, path := [], kind := .commit (.setData { initData [0] 1 with name := 5 }) [] }
/-- built by the non-admin member 1 with OpenMLS directly, wrapper timestamp earlier than `wGood` -/
def wEvil : Ev := { n := 2, ts := 10, idnum := 9, cipher := 2, sender := 1, path := [], kind := .commit (.setData { initData [0] 1 with name := 6 }) [] }
def wAfterGood : Cl := (deliver wClient wGood 0).1

theorem witness_rollback_then_reject :
    (deliver wAfterGood wEvil 0).2 = .err eNonAdmin ∧ wAfterGood.g.path = [1] ∧ (deliver wAfterGood wEvil 0).1.g.path = [] := by
  decide

theorem refuse_frame_full_false : ¬ refuse_frame_full := by
  intro h
  have := h wAfterGood wEvil 0 (by decide) (by decide)
  revert this; decide

/-- … and the legitimate commit is refused for ever afterwards -/
theorem witness_good_commit_lost :
    (deliver (deliver wAfterGood wEvil 0).1 wGood 0).2 = .unprocessable := by decide

/-! ### a second way to a refused event with an effect: the same commit ciphertext under two wrappers
    (signature `rewrapped-commit-rollback`): the copy with the earlier wrapper timestamp is 'better', the
    receiver rolls back, and the ciphertext cannot be decrypted a second time -/
def wCopyLate : Ev := { wGood with n := 5, ts := 30, idnum := 3 }   -- re-wrapped copy, applied first
theorem witness_rewrapped_commit :
    (deliver wClient wCopyLate 0).2 = .commit ∧
    (deliver (deliver wClient wCopyLate 0).1 wGood 0).2 = .unprocessable ∧
    (deliver (deliver wClient wCopyLate 0).1 wGood 0).1.g.path = [] ∧
    (deliver (deliver (deliver wClient wCopyLate 0).1 wGood 0).1 wCopyLate 0).2 = .unprocessable := by decide

/-! ### a third way (signature `retagged-commit-rollback`): the `h` tag of a wrapper is not authenticated either.
    After the receiver applied a commit that ROTATED the nostr group id, a sibling of that commit re-published
    under the NEW id is found, opens (past-epoch secret), is judged 'better' by its wrapper timestamp, and the
    receiver rolls back — which restores the OLD id; the re-processing then looks the same event up again, under
    the restored id, and fails with GroupNotFound.  The refusal leaves the client one epoch back, the rotation
    commit EpochInvalidated for ever. -/
def wRot : Ev := { n := 1, ts := 20, idnum := 7, cipher := 1, sender := 0, path := [], kind := .commit (.setData { initData [0] 1 with nid := 8 }) [] }
def wSib : Ev := { n := 2, ts := 10, idnum := 9, cipher := 2, sender := 1, path := [], kind := .commit .selfUpdate [] }
def wSibRetag : Ev := { wSib with n := 3, idnum := 4, tag := 8 }
theorem witness_retagged_commit_rollback :
    (deliver wClient wRot 0).2 = .commit ∧ (deliver wClient wRot 0).1.g.recNid = 8 ∧
    (deliver (deliver wClient wRot 0).1 wSibRetag 0).2 = .err eGroupNotFound ∧
    (deliver (deliver wClient wRot 0).1 wSibRetag 0).1.g.path = [] ∧
    (deliver (deliver wClient wRot 0).1 wSibRetag 0).1.g.recNid = 0 ∧
    (deliver (deliver (deliver wClient wRot 0).1 wSibRetag 0).1 wRot 0).2 = .unprocessable ∧
    -- the original sibling (old id) is still applicable afterwards — unless it was offered in between
    (deliver (deliver (deliver wClient wRot 0).1 wSibRetag 0).1 wSib 0).2 = .commit ∧
    (deliver (deliver (deliver (deliver wClient wRot 0).1 wSib 0).1 wSibRetag 0).1 wSib 0).2 = .unprocessable := by decide

theorem refuse_frame_full_false_retag : ¬ refuse_frame_full := by
  intro h
  have := h (deliver wClient wRot 0).1 wSibRetag 0 (by decide) (by decide)
  revert this; decide

/-- non-vacuity of `refuse_frame_partial`: a refused duplicate in a state with a snapshot -/
example : isBetter wAfterGood (epochOf wGood.path) wGood = false ∧ isRefusal (deliver wAfterGood { wGood with n := 9, ts := 30 } 0).2 = true := by
  decide

/-! ### the frame over `Model.Proposal`: every proposal type, commits that reference queued proposals.
    The projection additionally contains the foreign part of the proposal store (`xq`; the leaves are `Proj.props`).
    Found with the proposal flow and REPAIRED in /repo (0339cde): `auto_commit_proposal` stored the proposal BEFORE it tried to
    build the commit, so when the commit could not be built (a commit is pending; a queued Remove names the receiver) the call
    was refused — `Unprocessable`, Failed record, never retried — with the proposal left in the store (finding
    autocommit-failed-proposal-stored).  Now the proposal is kept as a pending one and the call says so; the model follows the
    regenerated fact `Generated.autoCommitChecksBeforeStore`, and the hypothesis that excluded the case is gone. -/
section ProposalFrame
open MdkVerif.Proposal

def projP (c : Cl) : Proj × List QP := (proj c, c.g.xq)

def refuse_frame_P_full : Prop :=
  ∀ (c : Cl) (x : PEv) (nx : Nat), Synced c.g → isRefusal (deliverP c x nx).2 = true → projP (deliverP c x nx).1 = projP c

def FrameP (c : Cl) (r : Cl × Res) : Prop := isRefusal r.2 = true → projP r.1 = projP c

theorem ownMessage_xq (c : Cl) (e : Ev) : (ownMessage c e).1.g.xq = c.g.xq := by
  unfold ownMessage
  repeat' split
  all_goals rfl

theorem notBetterResult_xq (c : Cl) (e : Ev) : (notBetterResult c e).1.g.xq = c.g.xq := by
  unfold notBetterResult
  repeat' split
  all_goals rfl

theorem frameP_of (c : Cl) (r : Cl × Res) (h : Frame c r) (hx : r.1.g.xq = c.g.xq) : FrameP c r := by
  intro hr; simp [projP, h hr, hx]

/-- one pass over `Model.Proposal`: a refused event leaves the projection alone — for a COMMIT provided no rollback is
    triggered (`hnb`; the open finding rollback-before-authorisation), for application messages and proposals of every type
    without any proviso -/
theorem step1P_refuse_frame (retry : Cl → Option (Cl × Res)) (nx : Nat) (c : Cl) (x : PEv) (hs : Synced c.g)
    (hnb : propKind x = none → isBetter c (epochOf x.e.path) x.e = false) : FrameP c (step1P retry nx c x) := by
  have hwx : (withSecret c).g.xq = c.g.xq := by simp
  unfold step1P
  simp only
  split
  · intro _; rfl
  · split
    · intro _; rfl
    · split
      · intro _
        have h1 : proj (recordFailure (withSecret c) x.e.n true none) = proj c := by simp
        have h2 : (recordFailure (withSecret c) x.e.n true none).g.xq = c.g.xq := hwx
        simp only [projP, h1, h2]
      · split
        · -- a proposal
          rename_i p hp
          split
          · exact frameP_of c _ (frame_fail c x.e) (by simp [failUnprocessable, recordFailure, setRec])
          · split
            · exact frameP_of c _ (frame_ownMessage c x.e hs) (by rw [ownMessage_xq]; exact hwx)
            · split
              · exact frameP_of c _ (frame_fail c x.e) (by simp [failUnprocessable, recordFailure, setRec])
              · unfold processProposal
                cases p with
                | update => intro _; simp [projP, setRec, proj, withSecret, ensureSecret_fields, ensureSecret_data]
                | gce => intro _; simp [projP, setRec, proj, withSecret, ensureSecret_fields, ensureSecret_data]
                | other => intro _; simp [projP, setRec, proj, withSecret, ensureSecret_fields, ensureSecret_data]
                | add w => intro h; simp [isRefusal] at h
                | remove t =>
                  simp only [checksFirst, Generated.autoCommitChecksBeforeStore, if_true]
                  split
                  · split <;> (intro h; simp [isRefusal] at h)
                  · intro h; simp [isRefusal] at h
        · rename_i hpn
          have hnb' := hnb hpn
          split
          · -- commit
            split
            · unfold wrongEpochCommit
              simp only [withSecret_isBetter, hnb', Bool.false_eq_true, if_false]
              exact frameP_of c _ (frame_notBetter c x.e hs) (by rw [notBetterResult_xq]; exact hwx)
            · split
              · split
                · intro h; simp [isRefusal] at h
                · exact frameP_of c _ (frame_ownMessage c x.e hs) (by rw [ownMessage_xq]; exact hwx)
              · split
                · exact frameP_of c _ (frame_fail c x.e) (by simp [failUnprocessable, recordFailure, setRec])
                · split
                  · -- a referenced proposal is not held: the generation is consumed, nothing else
                    intro _; simp [projP, failUnprocessable, recordFailure, setRec, proj, withSecret, ensureSecret_fields, ensureSecret_data]
                  · unfold processCommitP
                    split
                    · intro _; simp [projP, recordFailure, setRec, proj, withSecret, ensureSecret_fields, ensureSecret_data]
                    · split <;> (intro h; simp [isRefusal] at h)
          · exact frameP_of c _ (frame_fail c x.e) (by simp [failUnprocessable, recordFailure, setRec])
          · -- app
            split
            · exact frameP_of c _ (frame_fail c x.e) (by simp [failUnprocessable, recordFailure, setRec])
            · split
              · exact frameP_of c _ (frame_fail c x.e) (by simp [failUnprocessable, recordFailure, setRec])
              · split
                · exact frameP_of c _ (frame_ownMessage c x.e hs) (by rw [ownMessage_xq]; exact hwx)
                · split
                  · exact frameP_of c _ (frame_fail c x.e) (by simp [failUnprocessable, recordFailure, setRec])
                  · intro h; simp [isRefusal, storeApp] at h

theorem deliverNP_refuse_frame (fuel nx : Nat) (c : Cl) (x : PEv) (hs : Synced c.g)
    (hnb : propKind x = none → isBetter c (epochOf x.e.path) x.e = false)
    (h : isRefusal (deliverNP fuel nx c x).2 = true) : projP (deliverNP fuel nx c x).1 = projP c := by
  have key : ∀ retry, FrameP c (deliverOnceP retry nx c x) := by
    intro retry
    unfold deliverOnceP
    split
    · split
      · intro _; rfl
      · exact step1P_refuse_frame retry nx c x hs hnb
    · exact step1P_refuse_frame retry nx c x hs hnb
  cases fuel with
  | zero => exact key _ h
  | succ f => exact key _ h

/-- **refuse_frame_P_partial**: for every client state, every event — application message, commit with or without referenced
    proposals, proposal of ANY type — and every fuel: if no rollback is triggered, a refused event (`Err`, `Unprocessable`,
    `PreviouslyFailed`, `IgnoredProposal`) leaves the projection — MLS state, roster, data, BOTH parts of the proposal store,
    pending commit, record, messages — exactly as it was.  (Before repair 0339cde a second hypothesis excluded a leave whose
    auto-commit cannot be built.) -/
theorem refuse_frame_P_partial (fuel nx : Nat) (c : Cl) (x : PEv) (hs : Synced c.g)
    (hnb : isBetter c (epochOf x.e.path) x.e = false)
    (h : isRefusal (deliverNP fuel nx c x).2 = true) : projP (deliverNP fuel nx c x).1 = projP c :=
  deliverNP_refuse_frame fuel nx c x hs (fun _ => hnb) h

/-- **refuse_frame_proposals** — IN FULL for proposals: for every client state (record in step), every proposal of every type
    (a member's leave, Remove of somebody else, Add, Update, GroupContextExtensions, PSK, …), from anybody, any epoch, any
    fuel, offered any number of times: whenever `process_message` reports failure or `IgnoredProposal`, the projection —
    the number and content of the proposal store included — is exactly what it was.  No hypothesis about rollbacks (a
    proposal never triggers one), none about pending commits (repair 0339cde) -/
theorem refuse_frame_proposals (fuel nx : Nat) (c : Cl) (x : PEv) (p : PK) (hs : Synced c.g) (hk : propKind x = some p)
    (h : isRefusal (deliverNP fuel nx c x).2 = true) : projP (deliverNP fuel nx c x).1 = projP c :=
  deliverNP_refuse_frame fuel nx c x hs (fun hn => by rw [hk] at hn; cases hn) h

/-- regression statement of repair 0339cde (was `witness_autocommit_fails_after_store`; replayed on the implementation by
    corpus/C06/autocommit_fails_after_store.trace): admin 0 has staged a commit of its own (pending until its echo) when member
    1's leave arrives — the leave is KEPT as a pending proposal and the call says so (`PendingProposal`, record Processed), the
    pending commit is untouched; a re-delivery is refused without effect; the admin's next commit finds the leave in the store -/
def wAdminPending : Cl := (stageCommitP (initCl 0 false 5 [0, 1, 2] [0] 1) 0 10 11 .selfUpdate false).1
def wLeave1 : PEv := { e := { n := 1, ts := 20, idnum := 21, cipher := 1, sender := 1, path := [], kind := .leave } }

theorem regression_autocommit_kept_pending :
    wAdminPending.g.props = [] ∧
    (deliverP wAdminPending wLeave1 2).2 = .pending ∧ (deliverP wAdminPending wLeave1 2).1.g.props = [1] ∧
    (deliverP wAdminPending wLeave1 2).1.g.pending = wAdminPending.g.pending ∧
    getRec (deliverP wAdminPending wLeave1 2).1 1 = some { state := 1, epoch := some 1, hasGroup := true, mid := none } ∧
    (deliverP (deliverP wAdminPending wLeave1 2).1 wLeave1 2).2 = .unprocessable ∧
    projP (deliverP (deliverP wAdminPending wLeave1 2).1 wLeave1 2).1 = projP (deliverP wAdminPending wLeave1 2).1 ∧
    (Client.clear (deliverP wAdminPending wLeave1 2).1).1.g.props = [1] := by decide

/-- … the same when the receiver's OWN leave is queued (a commit cannot remove its author) -/
theorem regression_autocommit_kept_pending_own_leave :
    let c := (Client.leave (initCl 0 false 5 [0, 1, 2] [0] 1) 0 10 11).1
    c.g.props = [0] ∧ (deliverP c wLeave1 2).2 = .pending ∧ (deliverP c wLeave1 2).1.g.props = [1, 0] ∧
    (deliverP c wLeave1 2).1.g.pending = none := by decide

/-- the full statement (every event, no proviso) stays false for COMMITS: the rollback of `rollback-before-authorisation`
    happens in `Model.Proposal` exactly as in `Model.Client` (`wAfterGood`, `wEvil` above) -/
theorem refuse_frame_P_full_false : ¬ refuse_frame_P_full := by
  intro h
  have := h wAfterGood { e := wEvil } 0 (by decide) (by decide)
  revert this; decide

/-- **eviction_decided_by_commit** (repair e46593e; regenerated fact `evictionFromStagedCommit`): an authorised commit makes
    an active receiver inactive exactly when the commit ITSELF removes the receiver — by its own Remove, a referenced leave, or a
    referenced foreign Remove — whatever else it does, in particular when it also ADDS somebody (who then takes the freed leaf:
    the case `own_leaf().is_none()` after the merge used to miss) -/
theorem eviction_decided_by_commit (c : Cl) (e : Ev) (b : Body) (sw : List Nat) (hact : c.g.active = true)
    (hauth : (isAdmin c.g e.sender || isPureSelfUpdateP b sw e.sweptX) = true) :
    (processCommitP c e b sw).2 = .commit ∧ (processCommitP c e b sw).1.g.active = !(removesMeP c.id b sw e.sweptX) := by
  unfold processCommitP
  simp only [hauth, Bool.not_true, Bool.false_eq_true, if_false]
  cases hr : removesMeP c.id b sw e.sweptX with
  | true => simp [setRec]
  | false => simp [setRec, syncRec, mgrCreate, hact]

theorem eviction_from_staged_commit : Generated.evictionFromStagedCommit = true := by decide

/-- regression statement of repair e46593e (was the implementation-only witness of evicted-leaf-reused-undetected; replayed on
    the implementation AND the model by corpus/C06/evicted_leaf_reused.trace): the non-admin 1 crafted an Add of 4, member 2
    asked to leave, admin 0's automatic commit carries both; the leaver processes it: `Commit`, its group is inactive -/
def evOf : Res → Ev
  | .proposalCommitted ne => ne
  | _ => default
def wMk (i : Nat) : Cl := initCl i false 5 [0, 1, 2, 3] [0] 1
def wXAdd4 : PEv := craftProp (wMk 1) 0 10 11 (.add 4)
def wLeaver2 : Cl := (Client.leave (deliverP (wMk 2) wXAdd4 0).1 1 20 21).1
def wAdminAuto : Cl × Res :=
  deliverP (deliverP (wMk 0) wXAdd4 0).1 { e := { n := 1, ts := 20, idnum := 21, cipher := 1, sender := 2, path := [], kind := .leave } } 2

theorem regression_evicted_when_leaf_reused :
    wAdminAuto.2 = .proposalCommitted (evOf wAdminAuto.2) ∧
    (deliverP wLeaver2 { e := evOf wAdminAuto.2 } 0).2 = .commit ∧ (deliverP wLeaver2 { e := evOf wAdminAuto.2 } 0).1.g.active = false ∧
    (deliverP wLeaver2 { e := evOf wAdminAuto.2 } 0).1.g.members = [0, 1, 3, 4] ∧ (mergeP wAdminAuto.1).1.g.members = [0, 1, 3, 4] := by decide

/-- non-vacuity of `refuse_frame_P_partial` / `refuse_frame_proposals`: refused events of the new kinds — a
    GroupContextExtensions proposal (ignored), a commit whose referenced leave the receiver does not hold -/
example : let c := initCl 2 false 5 [0, 1, 2] [0] 1
    let x : PEv := craftProp (initCl 1 false 5 [0, 1, 2] [0] 1) 1 10 11 .gce
    let y : PEv := { e := { n := 2, ts := 10, idnum := 11, cipher := 2, sender := 0, path := [], kind := .commit .selfUpdate [1] } }
    propKind x = some .gce ∧ (deliverP c x 0).2 = .ignored ∧ (deliverP c y 0).2 = .unprocessable := by decide

end ProposalFrame

/-! ## histories: a refused call inserted anywhere never shows later (Proofs/Insert.lean)

  `refuse_frame_partial` is ONE call seen through `proj`.  The refused call may still touch what `proj` does not show: the
  exporter-secret cache, the dedup record of the event (a Failed record), and — when the authorisation check refuses a commit
  (`NonAdmin`) — the sender's ratchet generation, which OpenMLS consumed while decrypting.  `Ins.Eqv [] W X` is "equal up to
  that" (`W`: the event numbers, `X`: the ciphertexts concerned); every client operation is a simulation for it. -/
section Histories
open MdkVerif.Client.Ins
open MdkVerif.Props.C08 (COp)

theorem isRefusal_eq_refusal : isRefusal = refusal := by funext r; cases r <;> rfl

/-- **refused_calls_invisible_partial** — ANY client with the invariants (`Ins.IInv`, reachable: `C07.invariants_reachable`), after
    ANY prefix, ANY list of deliveries `ins` each of which is refused (`Err`, `Unprocessable`, `PreviouslyFailed`, `Ignored`)
    without winning a MIP-03 comparison (`refusedSeq`: the hypothesis of `refuse_frame_partial`, call by call), then ANY
    suffix that does not deliver one of those event numbers or ciphertexts again (`avoids`): the inserted calls leave the
    projection alone, every call of the suffix answers the same, and the runs end with the same projection. -/
theorem refused_calls_invisible_partial (c : Cl) (hi : IInv c) (pre suf : List COp) (ins : List (Ev × Nat))
    (hr : refusedSeq (hist c pre).1 ins = true)
    (ha : suf.all (avoids (ins.map (·.1.n)) (ins.map (·.1.cipher))) = true) :
    proj (hist c (pre ++ asOps ins)).1 = proj (hist c pre).1 ∧
    proj (hist c (pre ++ asOps ins ++ suf)).1 = proj (hist c (pre ++ suf)).1 ∧
    (hist (hist c (pre ++ asOps ins)).1 suf).2 = (hist (hist c pre).1 suf).2 := by
  have := insert_refused (hist c pre).1 (iinv_hist c pre hi) ins suf hr ha
  simp only [hist_append, List.append_assoc]
  exact this

/-- **refused_call_invisible_partial** — one refused call, in the vocabulary of `refuse_frame_partial`: no rollback is
    triggered (`isBetter … = false`), the call reports failure; the suffix does not deliver that event number or that
    ciphertext again (a later delivery of the SAME number legitimately finds the Failed record; the same ciphertext under
    another wrapper finds its generation consumed if the refusal was `NonAdmin`: see the witnesses below).  Then every later
    call answers as if the refused call had never been made, and the projections agree at the end. -/
theorem refused_call_invisible_partial (c : Cl) (hi : IInv c) (pre suf : List COp) (e : Ev) (nx : Nat)
    (hnb : isBetter (hist c pre).1 (epochOf e.path) e = false)
    (hr : isRefusal (deliver (hist c pre).1 e nx).2 = true)
    (ha : suf.all (avoids [e.n] [e.cipher]) = true) :
    proj (hist c (pre ++ [.deliver e nx])).1 = proj (hist c pre).1 ∧
    proj (hist c (pre ++ [.deliver e nx] ++ suf)).1 = proj (hist c (pre ++ suf)).1 ∧
    (hist (hist c (pre ++ [.deliver e nx])).1 suf).2 = (hist (hist c pre).1 suf).2 := by
  rw [isRefusal_eq_refusal] at hr
  exact refused_calls_invisible_partial c hi pre suf [(e, nx)] (by simp [refusedSeq, hnb, hr]) ha

/-- the unrestricted statement: a refused call never changes a later answer or the final projection -/
def refused_call_invisible_full : Prop :=
  ∀ (c : Cl) (pre suf : List COp) (e : Ev) (nx : Nat), IInv c → isRefusal (deliver (hist c pre).1 e nx).2 = true →
    proj (hist c (pre ++ [.deliver e nx] ++ suf)).1 = proj (hist c (pre ++ suf)).1 ∧
    (hist (hist c (pre ++ [.deliver e nx])).1 suf).2 = (hist (hist c pre).1 suf).2

/-- refuted (1) without `isBetter = false`: the witness of `refuse_frame_full_false` (rollback-before-authorisation) -/
theorem refused_call_invisible_full_false : ¬ refused_call_invisible_full := by
  intro h
  have := (h wClient [.deliver wGood 0] [] wEvil 0 (iinv_init ..) (by decide)).1
  revert this; decide

/-- refuted (2) with `isBetter = false` but a suffix that delivers the SAME event number again: a commit one epoch ahead is
    refused (`Err(Message)`: no secret of its epoch yet) and recorded Failed; when it arrives again after its predecessor it is
    blocked, the run without the early offer applies it (finding handshake-before-predecessor-blocked) -/
def wAhead1 : Ev := { n := 1, ts := 20, idnum := 7, cipher := 1, sender := 0, path := [], kind := .commit .selfUpdate [] }
def wAhead2 : Ev := { n := 8, ts := 30, idnum := 8, cipher := 8, sender := 0, path := [1], kind := .commit .selfUpdate [] }
theorem witness_same_number_later :
    isBetter wClient (epochOf wAhead2.path) wAhead2 = false ∧ (deliver wClient wAhead2 0).2 = .err eMessage ∧
    (hist wClient [.deliver wAhead2 0, .deliver wAhead1 0, .deliver wAhead2 0]).2 = [.err eMessage, .commit, .unprocessable] ∧
    (hist wClient [.deliver wAhead1 0, .deliver wAhead2 0]).2 = [.commit, .commit] ∧
    (hist wClient [.deliver wAhead2 0, .deliver wAhead1 0, .deliver wAhead2 0]).1.g.path = [1] ∧
    (hist wClient [.deliver wAhead1 0, .deliver wAhead2 0]).1.g.path = [1, 8] := by decide

/-- (3) with `isBetter = false` but the same CIPHERTEXT under another wrapper in the suffix: a non-admin's commit is refused
    `NonAdmin` AFTER OpenMLS decrypted it, so its re-wrapped copy is answered `Unprocessable` (generation consumed) instead of
    `NonAdmin` — both refusals, the projection is the same, only the answer differs -/
def wEvilNow : Ev := { n := 2, ts := 10, idnum := 9, cipher := 2, sender := 1, path := [], kind := .commit (.setData { initData [0] 1 with name := 6 }) [] }
def wEvilCopy : Ev := { wEvilNow with n := 9, idnum := 4 }
theorem witness_same_ciphertext_later :
    (hist wClient [.deliver wEvilNow 0, .deliver wEvilCopy 0]).2 = [.err eNonAdmin, .unprocessable] ∧
    (hist wClient [.deliver wEvilCopy 0]).2 = [.err eNonAdmin] ∧
    proj (hist wClient [.deliver wEvilNow 0, .deliver wEvilCopy 0]).1 = proj (hist wClient [.deliver wEvilCopy 0]).1 := by decide

/-! non-vacuity: refused insertions of three kinds — an OUTSIDER's event (created on a state the client never held: the wrapper
    does not open), a wrong group tag (`GroupNotFound`), a stale epoch (a commit for an epoch the client has left and that does
    not beat the applied one) — and a non-admin's commit, in a history with a race, a rollback and messages -/
def hOutsider : Ev := { n := 20, ts := 50, idnum := 20, cipher := 20, sender := 7, path := [99], kind := .app 200 50 1 }
def hWrongTag : Ev := { n := 21, ts := 51, idnum := 21, cipher := 21, sender := 0, path := [], kind := .commit .selfUpdate [], tag := 5 }
def hStale : Ev := { n := 22, ts := 52, idnum := 22, cipher := 22, sender := 0, path := [], kind := .commit .selfUpdate [] }
def hNonAdmin : Ev := { n := 23, ts := 53, idnum := 23, cipher := 23, sender := 1, path := [2], kind := .commit (.setData { initData [0] 1 with name := 6 }) [] }
def hMsg : Ev := { n := 3, ts := 30, idnum := 3, cipher := 3, sender := 1, path := [2], kind := .app 30 30 7 }
def hPre : List COp := [.deliver wGood 0, .deliver { wEvil with kind := .commit .selfUpdate [] } 0]   -- A applied, the better B wins
def hSuf : List COp := [.deliver hMsg 0, .send 4 31 4 40 31 8, .deliver wGood 0, .stage 6 33 6 .selfUpdate false, .merge, .deliver hMsg 0]
def hIns : List (Ev × Nat) := [(hOutsider, 0), (hWrongTag, 0), (hStale, 0), (hNonAdmin, 0), (hStale, 0)]

example : (hist wClient hPre).1.g.path = [2] ∧ refusedSeq (hist wClient hPre).1 hIns = true ∧
    (hist (hist wClient hPre).1 (asOps hIns)).2 = [.err eMessage, .err eGroupNotFound, .unprocessable, .err eNonAdmin, .unprocessable] ∧
    hSuf.all (avoids (hIns.map (·.1.n)) (hIns.map (·.1.cipher))) = true := by decide
example : (hist (hist wClient (hPre ++ asOps hIns)).1 hSuf).2 = (hist (hist wClient hPre).1 hSuf).2 :=
  (refused_calls_invisible_partial wClient (iinv_init ..) hPre hSuf hIns (by decide) (by decide)).2.2
example : (hist (hist wClient hPre).1 hSuf).1.g.path = [2, 6] ∧ (hist (hist wClient hPre).1 hSuf).1.msgs.length = 2 ∧
    (hist (hist wClient (hPre ++ asOps hIns)).1 hSuf).1.g.consumed ≠ (hist (hist wClient hPre).1 hSuf).1.g.consumed := by decide

end Histories

/-! ### the outermost layer of `process_message` (raw kind-445 event → MLS layer), several groups per client:
    proved in Props/C06Wrap.lean over Model.Wrap, re-exported here so that they are obligations of this property -/
theorem wrap_accept_iff : type_of% @C06Wrap.wrap_accept_iff := @C06Wrap.wrap_accept_iff
theorem wrap_handed_iff : type_of% @C06Wrap.wrap_handed_iff := @C06Wrap.wrap_handed_iff
theorem wrap_refuse_frame : type_of% @C06Wrap.wrap_refuse_frame := @C06Wrap.wrap_refuse_frame
theorem wrap_refuse_frame_stored : type_of% @C06Wrap.wrap_refuse_frame_stored := @C06Wrap.wrap_refuse_frame_stored
theorem wrap_refuse_frame_full_false : ¬ C06Wrap.wrap_refuse_frame_full := C06Wrap.wrap_refuse_frame_full_false
theorem wrap_redeliver : type_of% @C06Wrap.wrap_redeliver := @C06Wrap.wrap_redeliver
theorem wrap_failed_record : type_of% @C06Wrap.wrap_failed_record := @C06Wrap.wrap_failed_record
theorem wrap_reason_table : type_of% @C06Wrap.wrap_reason_table := @C06Wrap.wrap_reason_table
theorem wrap_no_panic : C06Wrap.wrap_no_panic_full := C06Wrap.wrap_no_panic
theorem wrap_short_payload_refused : type_of% @C06Wrap.wrap_short_payload_refused := @C06Wrap.wrap_short_payload_refused
theorem wrap_no_panic_partial : type_of% @C06Wrap.wrap_no_panic_partial := @C06Wrap.wrap_no_panic_partial
theorem wrap_no_panic_of_guard : type_of% @C06Wrap.wrap_no_panic_of_guard := @C06Wrap.wrap_no_panic_of_guard

/-! ### first sentence, binding layer: the parse helpers of crates/mdk-uniffi (proved in Props/C06Ffi.lean over
    Model/Ffi.lean; restated here so that this file lists every C06 theorem and `./check C06` audits them) -/
section Ffi
open MdkVerif.Ffi MdkVerif.Codec

theorem hex_decode_total (s : Bytes) :
    (∃ b, hexDecode s = .ok b ∧ s.length = 2 * b.length ∧ isBytes b = true ∧ hexEnc b = s.map lowerC) ∨
    (hexDecode s = .error .oddLength ∧ s.length % 2 = 1) ∨
    (∃ c k, hexDecode s = .error (.invalidChar c k) ∧ s.length % 2 = 0 ∧ s[k]? = some c ∧ hexVal c = none ∧
      ∀ j, j < k → ∃ d, s[j]? = some d ∧ (hexVal d).isSome = true) :=
  C06Ffi.hex_decode_total s

theorem hex_round_trip :
    (∀ b : Bytes, isBytes b = true → hexDecode (hexEnc b) = .ok b) ∧
    (∀ s b : Bytes, hexDecode s = .ok b → hexEnc b = s.map lowerC) :=
  C06Ffi.hex_round_trip

theorem hex_decode_agrees_with_codec (s b : Bytes) : hexDecode s = .ok b ↔ hexDec s = some b :=
  C06Ffi.hex_decode_agrees_with_codec s b

theorem hex_case_insensitive (s b : Bytes) (h : hexDecode s = .ok b) : hexDecode (s.map upperC) = .ok b :=
  C06Ffi.hex_case_insensitive s b h

theorem parse_group_id_accept_iff (s : Bytes) :
    (∃ b, parseGroupId s = .ok b) ↔ s.length % 2 = 0 ∧ ∀ c ∈ s, isHexChar c = true :=
  C06Ffi.parse_group_id_accept_iff s

theorem group_id_any_length_fact : Generated.ffiGroupIdAnyLength = true :=
  C06Ffi.group_id_any_length_fact

theorem decodeToSlice_accept_iff (n : Nat) (s : Bytes) :
    (∃ b, decodeToSlice n s = .ok b) ↔ s.length = 2 * n ∧ ∀ c ∈ s, isHexChar c = true :=
  C06Ffi.decodeToSlice_accept_iff n s

theorem decodeToSlice_value (n : Nat) (s b : Bytes) (h : decodeToSlice n s = .ok b) :
    b.length = n ∧ isBytes b = true ∧ hexEnc b = s.map lowerC :=
  C06Ffi.decodeToSlice_value n s b h

theorem decodeToSlice_errors (n : Nat) (s : Bytes) :
    (s.length % 2 = 1 → decodeToSlice n s = .error .oddLength) ∧
    (s.length % 2 = 0 → s.length ≠ 2 * n → decodeToSlice n s = .error .invalidStringLength) ∧
    (s.length = 2 * n → ∀ e, decodeToSlice n s = .error e →
      ∃ c k, e = .invalidChar c k ∧ s[k]? = some c ∧ hexVal c = none ∧ ∀ j, j < k → ∃ d, s[j]? = some d ∧ (hexVal d).isSome = true) :=
  C06Ffi.decodeToSlice_errors n s

theorem parse_event_id_accept_iff (s : Bytes) :
    (∃ b, parseEventId s = .ok b) ↔ s.length = 64 ∧ ∀ c ∈ s, isHexChar c = true :=
  C06Ffi.parse_event_id_accept_iff s

theorem parse_event_id_value (s b : Bytes) (h : parseEventId s = .ok b) :
    b.length = 32 ∧ isBytes b = true ∧ hexEnc b = s.map lowerC :=
  C06Ffi.parse_event_id_value s b h

theorem parse_public_key_accept_iff (s : Bytes) :
    (∃ b, parsePublicKey s = .ok b) ↔ s.length = 64 ∧ ∀ c ∈ s, isHexChar c = true :=
  C06Ffi.parse_public_key_accept_iff s

theorem parse_public_key_value (s b : Bytes) (h : parsePublicKey s = .ok b) :
    b.length = 32 ∧ isBytes b = true ∧ hexEnc b = s.map lowerC :=
  C06Ffi.parse_public_key_value s b h

theorem public_key_not_checked_against_curve :
    parsePublicKey (List.replicate 64 48) = .ok (List.replicate 32 0) :=
  C06Ffi.public_key_not_checked_against_curve

theorem sort_order_accept_iff (s : Bytes) (o : Nat) :
    parseSortOrder (some s) = .ok (some o) ↔ (s, o) ∈ Generated.ffiSortOrderTable :=
  C06Ffi.sort_order_accept_iff s o

theorem sort_order_none : parseSortOrder none = .ok none ∧ ∀ s, parseSortOrder (some s) ≠ .ok none :=
  C06Ffi.sort_order_none

theorem parse_tags_accept_iff (ts ts' : List (List Bytes)) :
    parseTags ts = .ok ts' ↔ (∀ t ∈ ts, t ≠ []) ∧ ts' = ts :=
  C06Ffi.parse_tags_accept_iff ts ts'

theorem vec_to_array_accept_iff (n : Nat) (o : Option Nat) :
    (∃ r, vecToArray n o = .ok r) ↔ (o = none ∨ o = some n) :=
  C06Ffi.vec_to_array_accept_iff n o

theorem state_tables_round_trip :
    ((∀ v s, welcomeStateAsStr v = some s → welcomeStateFromStr s = some v) ∧
     (∀ s v, welcomeStateFromStr s = some v → welcomeStateAsStr v = some s)) ∧
    ((∀ v s, messageStateAsStr v = some s → messageStateFromStr s = some v) ∧
     (∀ s v, messageStateFromStr s = some v → messageStateAsStr v = some s)) ∧
    ((∀ v s, groupStateAsStr v = some s → groupStateFromStr s = some v) ∧
     (∀ s v, groupStateFromStr s = some v → groupStateAsStr v = some s)) :=
  C06Ffi.state_tables_round_trip

theorem state_tables_complete :
    (∀ v, v < Generated.welcomeStateVariants → (welcomeStateAsStr v).isSome = true) ∧
    (∀ v, v < Generated.messageStateVariants → (messageStateAsStr v).isSome = true) ∧
    (∀ v, v < Generated.groupStateVariants → (groupStateAsStr v).isSome = true) :=
  C06Ffi.state_tables_complete

theorem plans_follow_source (m : Method) : lookupPlan m.name = some (planCodes (plan m)) :=
  C06Ffi.plans_follow_source m

theorem welcome_plan_follows_source :
    lookupPlan [119, 101, 108, 99, 111, 109, 101, 95, 102, 114, 111, 109, 95, 117, 110, 105, 102, 102, 105] = some (planCodes welcomePlan) :=
  C06Ffi.welcome_plan_follows_source

theorem every_export_modelled :
    ∀ p ∈ Generated.ffiPlans, p.1 = [119, 101, 108, 99, 111, 109, 101, 95, 102, 114, 111, 109, 95, 117, 110, 105, 102, 102, 105] ∨
      Method.all.any (fun m => m.name == p.1) = true :=
  C06Ffi.every_export_modelled

theorem first_refusal_wins (l : List (Stage × V3)) (h : ∀ p ∈ l, p.2 ≠ .unk) :
    alts l = [match l.find? (fun p => p.2 = .rej) with | some p => .refuse p.1 | none => .past] :=
  C06Ffi.first_refusal_wins l h

end Ffi

/-! ### storage level: a storage call that the backend's validation refuses has no effect (proved in Props/C10Limits.lean over
    Model/StoreLimits.lean, the validation tables regenerated from both backends; exercised by the hostile store stream) -/
theorem refused_store_call_no_effect : type_of% @C10Limits.refused_store_call_no_effect := @C10Limits.refused_store_call_no_effect
theorem refused_store_calls_deletable : type_of% @C10Limits.refused_calls_deletable := @C10Limits.refused_calls_deletable

end MdkVerif.Props.C06
