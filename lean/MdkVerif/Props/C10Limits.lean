import MdkVerif.Model.StoreLimits
import MdkVerif.Proofs.LocksNestedStore
/-
  C06 (storage part) / C10 (limit boundary) — theorems about the validation the two backends perform before a
  write (`Model/StoreLimits.lean`).  The numbers and the lists of checks are regenerated from the source on every
  run; the statements below name them literally, so a changed limit, a deleted check or a changed comparison
  operator in either backend breaks a theorem here (besides changing what the driver predicts).
-/
namespace MdkVerif.Props.C10Limits
open MdkVerif MdkVerif.Store MdkVerif.StoreLimits

/-! ### 0. the regenerated tables are the ones the statements below talk about -/

/-- the checks of the SQLite backend: per saving function, what is measured against which documented constant -/
theorem sql_checks_as_modelled :
    Generated.sqlSaveGroupChecks =
      [(3, Generated.sqlMaxGroupNameLength, true), (4, Generated.sqlMaxGroupDescriptionLength, true),
       (5, Generated.sqlMaxAdminPubkeysJsonSize, true)] ∧
    Generated.sqlSaveMessageChecks =
      [(0, Generated.sqlMaxMessageContentSize, true), (1, Generated.sqlMaxTagsJsonSize, true),
       (2, Generated.sqlMaxEventJsonSize, true)] ∧
    Generated.sqlSaveWelcomeChecks =
      [(3, Generated.sqlMaxGroupNameLength, true), (4, Generated.sqlMaxGroupDescriptionLength, true),
       (5, Generated.sqlMaxAdminPubkeysJsonSize, true), (6, Generated.sqlMaxGroupRelaysJsonSize, true),
       (2, Generated.sqlMaxEventJsonSize, true)] ∧
    Generated.sqlReplaceRelaysChecks = [] := by decide

/-- the checks of the memory backend (built with `ValidationLimits::default()`) -/
theorem mem_checks_as_modelled :
    Generated.memSaveGroupChecks =
      [(3, Generated.memMaxGroupNameLength, true), (4, Generated.memMaxGroupDescriptionLength, true),
       (7, Generated.memMaxAdminsPerGroup, true)] ∧
    Generated.memSaveMessageChecks = [] ∧
    Generated.memSaveWelcomeChecks =
      [(8, Generated.memMaxRelaysPerWelcome, true), (9, Generated.memMaxRelayUrlLength, true),
       (7, Generated.memMaxAdminsPerWelcome, true)] ∧
    Generated.memReplaceRelaysChecks =
      [(8, Generated.memMaxRelaysPerGroup, true), (9, Generated.memMaxRelayUrlLength, true)] := by decide

/-! ### 1. C06 at storage level: a call refused by validation has no effect -/

/-- for every store, op and measured sizes: a call the backend's validation refuses answers `err` and leaves the
    store exactly as it was -/
theorem refused_store_call_no_effect (s : Store) (op : Op) (z : Sizes)
    (h : validate s.backend op z = false) : stepL s op z = (s, "err") := by
  simp [stepL, h]

/-- the same over histories: refused calls can be deleted from any history without changing the final store -/
theorem refused_calls_deletable (ops : List (Op × Sizes)) (s : Store) :
    runL s ops = runL s (ops.filter (fun o => validate s.backend o.1 o.2)) := by
  induction ops generalizing s with
  | nil => rfl
  | cons o t ih =>
    have hb : (stepL s o.1 o.2).1.backend = s.backend := by
      unfold stepL
      split
      · exact Locks.step_backend s o.1
      · rfl
    by_cases hv : validate s.backend o.1 o.2 = true
    · have e1 : runL s (o :: t) = runL (stepL s o.1 o.2).1 t := rfl
      rw [e1, ih, hb, List.filter_cons_of_pos (by simpa using hv)]
      rfl
    · have hv' : validate s.backend o.1 o.2 = false := by simpa using hv
      have e1 : runL s (o :: t) = runL (stepL s o.1 o.2).1 t := rfl
      rw [e1, refused_store_call_no_effect s o.1 o.2 hv', List.filter_cons_of_neg (by simpa using hv')]
      exact ih s

/-! ### 2. within the limits nothing changes -/

/-- an op that passes validation is executed by the store model of `Model/Store.lean` unchanged, so every theorem
    about `Store.step` carries over -/
theorem within_limits_as_before (s : Store) (op : Op) (z : Sizes)
    (h : validate s.backend op z = true) : stepL s op z = step s op := by
  simp [stepL, h]

/-- the literal reading of the memory backend's validation (default limits) -/
def memAccepts (op : Op) (_z : Sizes) : Prop :=
  match op with
  | .saveGroup g => g.nameLen ≤ 256 ∧ g.descLen ≤ 4096 ∧ g.admins ≤ 100
  | .saveWelcome w => w.relays ≤ 100 ∧ (if w.relays > 0 then w.relayLen else 0) ≤ 512 ∧ w.admins ≤ 100
  | .replaceRelays _ rs => (sortBy natLt rs.eraseDups).length ≤ 100 ∧ maxUrl rs ≤ 512
  | _ => True

/-- the literal reading of the SQLite backend's validation -/
def sqlAccepts (op : Op) (z : Sizes) : Prop :=
  match op with
  | .saveGroup g => g.nameLen ≤ 255 ∧ g.descLen ≤ 2000 ∧ z.adminsJson ≤ 51200
  | .saveMessage m => m.contentLen ≤ 1048576 ∧ z.tagsJson ≤ 102400 ∧ z.eventJson ≤ 102400
  | .saveWelcome w => w.nameLen ≤ 255 ∧ w.descLen ≤ 2000 ∧ z.adminsJson ≤ 51200 ∧ z.relaysJson ≤ 51200 ∧ z.eventJson ≤ 102400
  | _ => True

theorem mem_validation_exact (op : Op) (z : Sizes) : validate .mem op z = true ↔ memAccepts op z := by
  cases op <;>
    simp [validate, checksOf, quantity, passes, memAccepts, Generated.memSaveGroupChecks, Generated.memSaveMessageChecks,
      Generated.memSaveWelcomeChecks, Generated.memReplaceRelaysChecks]
  all_goals omega

theorem sql_validation_exact (op : Op) (z : Sizes) : validate .sql op z = true ↔ sqlAccepts op z := by
  cases op <;>
    simp [validate, checksOf, quantity, passes, sqlAccepts, Generated.sqlSaveGroupChecks, Generated.sqlSaveMessageChecks,
      Generated.sqlSaveWelcomeChecks, Generated.sqlReplaceRelaysChecks]
  all_goals omega

/-! ### 3. C10: where the two backends' documented limits differ -/

/-- the EXACT set of calls on which the validation of the two backends disagrees: those one backend's literal limits
    accept and the other's refuse.  Everything else is accepted by both or refused by both. -/
theorem limits_differ (op : Op) (z : Sizes) :
    validate .mem op z ≠ validate .sql op z ↔
      (memAccepts op z ∧ ¬ sqlAccepts op z) ∨ (sqlAccepts op z ∧ ¬ memAccepts op z) := by
  rw [← mem_validation_exact, ← sql_validation_exact]
  cases validate .mem op z <;> cases validate .sql op z <;> simp

/-- spelled out per operation (numbers as documented by the two crates) -/
theorem limits_differ_save_group (g : Group) (z : Sizes) :
    validate .mem (.saveGroup g) z ≠ validate .sql (.saveGroup g) z ↔
      (g.nameLen ≤ 256 ∧ g.descLen ≤ 4096 ∧ g.admins ≤ 100 ∧ (g.nameLen = 256 ∨ 2000 < g.descLen ∨ 51200 < z.adminsJson)) ∨
      (g.nameLen ≤ 255 ∧ g.descLen ≤ 2000 ∧ z.adminsJson ≤ 51200 ∧ 100 < g.admins) := by
  rw [limits_differ]; simp only [memAccepts, sqlAccepts]; omega

theorem limits_differ_save_message (m : Msg) (z : Sizes) :
    validate .mem (.saveMessage m) z ≠ validate .sql (.saveMessage m) z ↔
      (1048576 < m.contentLen ∨ 102400 < z.tagsJson ∨ 102400 < z.eventJson) := by
  rw [limits_differ]; simp [memAccepts, sqlAccepts]; omega

theorem limits_differ_replace_relays (gid : Nat) (rs : List Nat) (z : Sizes) :
    validate .mem (.replaceRelays gid rs) z ≠ validate .sql (.replaceRelays gid rs) z ↔
      (100 < (sortBy natLt rs.eraseDups).length ∨ 512 < maxUrl rs) := by
  rw [limits_differ]; simp [memAccepts, sqlAccepts]; omega

theorem limits_differ_save_welcome (w : Welcome) (z : Sizes) :
    validate .mem (.saveWelcome w) z ≠ validate .sql (.saveWelcome w) z ↔
      ((w.relays ≤ 100 ∧ (if w.relays > 0 then w.relayLen else 0) ≤ 512 ∧ w.admins ≤ 100) ∧
        (255 < w.nameLen ∨ 2000 < w.descLen ∨ 51200 < z.adminsJson ∨ 51200 < z.relaysJson ∨ 102400 < z.eventJson)) ∨
      ((w.nameLen ≤ 255 ∧ w.descLen ≤ 2000 ∧ z.adminsJson ≤ 51200 ∧ z.relaysJson ≤ 51200 ∧ z.eventJson ≤ 102400) ∧
        (100 < w.relays ∨ 512 < (if w.relays > 0 then w.relayLen else 0) ∨ 100 < w.admins)) := by
  rw [limits_differ]; simp only [memAccepts, sqlAccepts]; omega

/-- every other operation is validated alike (not at all) by both backends -/
theorem limits_agree_elsewhere (op : Op) (z : Sizes)
    (h : ∀ g, op ≠ .saveGroup g) (h2 : ∀ m, op ≠ .saveMessage m) (h3 : ∀ w, op ≠ .saveWelcome w)
    (h4 : ∀ g rs, op ≠ .replaceRelays g rs) : validate .mem op z = true ∧ validate .sql op z = true := by
  rw [mem_validation_exact, sql_validation_exact]
  cases op <;> simp_all [memAccepts, sqlAccepts]

/-- within BOTH backends' limits (the smaller of each pair) a call passes validation on either backend, hence
    `stepL = step` on both: the hypothesis under which C10's equalities are stated -/
theorem within_both_limits_as_before (s : Store) (op : Op) (z : Sizes)
    (hm : memAccepts op z) (hs : sqlAccepts op z) : stepL s op z = step s op := by
  apply within_limits_as_before
  cases hb : s.backend
  · exact (mem_validation_exact op z).2 hm
  · exact (sql_validation_exact op z).2 hs

/-! ### 4. closed boundary witnesses: each limit itself is accepted, limit + 1 is refused -/

def g0 : Group := { gid := 1, nid := 11, nameLen := 5, descLen := 7, admins := 2, img := 0, lastId := none, lastAt := none,
                    lastProc := none, epoch := 0, state := 0, selfUpd := 0 }
def m0 : Msg := { id := 1, gid := 1, pk := 0, kind := 9, created := 100, processed := 100, content := 1, contentLen := 8,
                  tag := 0, wrapper := 1, epoch := some 0, state := 1 }
def w0 : Welcome := { id := 1, gid := 1, nid := 11, nameLen := 5, descLen := 7, admins := 2, relays := 2, relayLen := 24,
                      welcomer := 0, memberCount := 2, state := 0, wrapper := 1 }
def z0 : Sizes := { tagsJson := 2, eventJson := 300, adminsJson := 135, relaysJson := 60 }

/-- name length 256 is accepted by the memory backend and refused by SQLite (the C08 / C06 finding
    `sqlite-name-256` lives exactly on this boundary) -/
theorem name_256_mem_only :
    validate .mem (.saveGroup { g0 with nameLen := 256 }) z0 = true ∧
    validate .sql (.saveGroup { g0 with nameLen := 256 }) z0 = false := by decide

theorem boundary_sql_save_group :
    (validate .sql (.saveGroup { g0 with nameLen := 255 }) z0 = true ∧ validate .sql (.saveGroup { g0 with nameLen := 256 }) z0 = false) ∧
    (validate .sql (.saveGroup { g0 with descLen := 2000 }) z0 = true ∧ validate .sql (.saveGroup { g0 with descLen := 2001 }) z0 = false) ∧
    (validate .sql (.saveGroup g0) { z0 with adminsJson := 51200 } = true ∧ validate .sql (.saveGroup g0) { z0 with adminsJson := 51201 } = false) := by
  decide

theorem boundary_sql_save_message :
    (validate .sql (.saveMessage { m0 with contentLen := 1048576 }) z0 = true ∧ validate .sql (.saveMessage { m0 with contentLen := 1048577 }) z0 = false) ∧
    (validate .sql (.saveMessage m0) { z0 with tagsJson := 102400 } = true ∧ validate .sql (.saveMessage m0) { z0 with tagsJson := 102401 } = false) ∧
    (validate .sql (.saveMessage m0) { z0 with eventJson := 102400 } = true ∧ validate .sql (.saveMessage m0) { z0 with eventJson := 102401 } = false) := by
  decide

theorem boundary_sql_save_welcome :
    (validate .sql (.saveWelcome { w0 with nameLen := 255 }) z0 = true ∧ validate .sql (.saveWelcome { w0 with nameLen := 256 }) z0 = false) ∧
    (validate .sql (.saveWelcome { w0 with descLen := 2000 }) z0 = true ∧ validate .sql (.saveWelcome { w0 with descLen := 2001 }) z0 = false) ∧
    (validate .sql (.saveWelcome w0) { z0 with adminsJson := 51200 } = true ∧ validate .sql (.saveWelcome w0) { z0 with adminsJson := 51201 } = false) ∧
    (validate .sql (.saveWelcome w0) { z0 with relaysJson := 51200 } = true ∧ validate .sql (.saveWelcome w0) { z0 with relaysJson := 51201 } = false) ∧
    (validate .sql (.saveWelcome w0) { z0 with eventJson := 102400 } = true ∧ validate .sql (.saveWelcome w0) { z0 with eventJson := 102401 } = false) := by
  decide

theorem boundary_mem_save_group :
    (validate .mem (.saveGroup { g0 with nameLen := 256 }) z0 = true ∧ validate .mem (.saveGroup { g0 with nameLen := 257 }) z0 = false) ∧
    (validate .mem (.saveGroup { g0 with descLen := 4096 }) z0 = true ∧ validate .mem (.saveGroup { g0 with descLen := 4097 }) z0 = false) ∧
    (validate .mem (.saveGroup { g0 with admins := 100 }) z0 = true ∧ validate .mem (.saveGroup { g0 with admins := 101 }) z0 = false) := by
  decide

theorem boundary_mem_save_welcome :
    (validate .mem (.saveWelcome { w0 with relays := 100 }) z0 = true ∧ validate .mem (.saveWelcome { w0 with relays := 101 }) z0 = false) ∧
    (validate .mem (.saveWelcome { w0 with relayLen := 512 }) z0 = true ∧ validate .mem (.saveWelcome { w0 with relayLen := 513 }) z0 = false) ∧
    (validate .mem (.saveWelcome { w0 with admins := 100 }) z0 = true ∧ validate .mem (.saveWelcome { w0 with admins := 101 }) z0 = false) ∧
    -- a URL length is only looked at when there is a relay
    validate .mem (.saveWelcome { w0 with relays := 0, relayLen := 513 }) z0 = true := by
  decide

set_option maxRecDepth 20000 in
theorem boundary_mem_replace_relays :
    (validate .mem (.replaceRelays 1 (List.range 100)) z0 = true ∧ validate .mem (.replaceRelays 1 (List.range 101)) z0 = false) ∧
    (validate .mem (.replaceRelays 1 [1, 512000002]) z0 = true ∧ validate .mem (.replaceRelays 1 [1, 513000002]) z0 = false) ∧
    -- SQLite has no limit on relays of a group
    validate .sql (.replaceRelays 1 (List.range 101)) z0 = true ∧ validate .sql (.replaceRelays 1 [513000002]) z0 = true := by
  decide

/-- the hypotheses of the theorems above are satisfiable by non-trivial values -/
example : memAccepts (.saveGroup g0) z0 ∧ sqlAccepts (.saveGroup g0) z0 ∧ memAccepts (.saveWelcome w0) z0 ∧
    sqlAccepts (.saveWelcome w0) z0 ∧ sqlAccepts (.saveMessage m0) z0 := by
  simp [memAccepts, sqlAccepts, g0, w0, m0, z0]

/-- a refused call in the middle of a history: the final store is the one of the history without it -/
example : (runL (Store.empty .sql) [(.saveGroup g0, z0), (.saveGroup { g0 with nameLen := 256 }, z0)]).groups = [g0] := by decide

end MdkVerif.Props.C10Limits
