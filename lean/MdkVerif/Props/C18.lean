import MdkVerif.Model.Store
import MdkVerif.Proofs.Sort
/-
  C18 — Message listing is one total order; pages and last-message pointer agree.
  Property theorems only (helper lemmas live in Proofs/).
-/
namespace MdkVerif.Props.C18
open MdkVerif MdkVerif.Store List

/-! ### 1. the two comparators are strict total orders on the display keys -/

theorem createdFirst_strictWeak : StrictWeak createdFirstBefore := by
  constructor
  · intro a b h; simp [createdFirstBefore] at *; omega
  · intro a b c h1 h2; simp [createdFirstBefore] at *; omega

theorem processedFirst_strictWeak : StrictWeak processedFirstBefore := by
  constructor
  · intro a b h; simp [processedFirstBefore] at *; omega
  · intro a b c h1 h2; simp [processedFirstBefore] at *; omega

theorem orderOf_strictWeak (sort : Nat) : StrictWeak (orderOf sort) := by
  unfold orderOf; split
  · exact processedFirst_strictWeak
  · exact createdFirst_strictWeak

/-- totality: two messages neither of which precedes the other have the same display key -/
theorem orderOf_total (sort : Nat) (a b : Msg)
    (h1 : orderOf sort a b = false) (h2 : orderOf sort b a = false) :
    a.created = b.created ∧ a.processed = b.processed ∧ a.id = b.id := by
  unfold orderOf at h1 h2
  split at h1 <;> simp_all [processedFirstBefore, createdFirstBefore] <;> omega

/-! ### 2. the listing is a sorted permutation of the group's messages, and depends only on the
    *set* of stored messages (hash-map iteration order / SQL row order are irrelevant) -/

theorem listing_perm (s : Store) (gid sort : Nat) : listing s gid sort ~ groupMsgs s gid :=
  sortBy_perm _ _

theorem listing_sorted (s : Store) (gid sort : Nat) :
    (listing s gid sort).Pairwise (NotAfter (orderOf sort)) :=
  sortBy_sorted (orderOf_strictWeak sort) _

/-- ids are unique per group (primary key `(mls_group_id, id)` / per-group hash map) -/
def IdsUnique (l : List Msg) : Prop := ∀ a b, a ∈ l → b ∈ l → a.id = b.id → a = b

theorem listing_order_independent (s₁ s₂ : Store) (gid sort : Nat)
    (hp : groupMsgs s₁ gid ~ groupMsgs s₂ gid) (hu : IdsUnique (groupMsgs s₁ gid)) :
    listing s₁ gid sort = listing s₂ gid sort := by
  apply sortBy_perm_eq (orderOf_strictWeak sort) _ _ hp
  intro a b ha hb h1 h2
  exact hu a b ha hb (orderOf_total sort a b h1 h2).2.2

/-! ### 3. pagination -/

/-- `messages` succeeds for EVERY offset and returns exactly the requested slice of the listing —
    the empty page beyond the end — on either backend.  The only hypothesis besides the documented
    parameter range is physical: a store does not hold 2^63 messages.
    Depends on `Generated.memPageSaturates` and `Generated.sqlOffsetClamped` (re-extracted each run):
    if the memory backend adds `offset + limit` unchecked again, or SQLite binds `offset as i64`, the
    extracted flags flip and this proof no longer checks. -/
theorem messages_is_page (s : Store) (gid limit offset : Nat) (sort : Option Nat)
    (hg : (findGroup s gid).isSome) (hl1 : 1 ≤ limit) (hl2 : limit ≤ Generated.maxMessageLimit)
    (hphys : (listing s gid (sort.getD 0)).length < two63) :
    messages s gid (some limit) (some offset) sort
      = .ok (pageOf (listing s gid (sort.getD 0)) offset limit) := by
  have hg' : (findGroup s gid).isNone = false := by
    cases h : findGroup s gid <;> simp_all
  unfold messages
  simp only [Option.getD_some, hg']
  have c1 : (decide (limit < 1) || decide (limit > Generated.maxMessageLimit)) = false := by
    simp; omega
  simp only [c1, Bool.false_eq_true, if_false]
  cases hb : s.backend with
  | mem =>
    simp only
    by_cases he : (groupMsgs s gid).isEmpty = true
    · have hn : groupMsgs s gid = [] := by simpa using he
      simp only [he, if_true]
      simp [pageOf, listing, hn, sortBy]
    · have he' : (groupMsgs s gid).isEmpty = false := by simpa using he
      have hsat : Generated.memPageSaturates = true := by decide
      simp only [he', Bool.false_eq_true, if_false, hsat, Bool.not_true, Bool.false_and]
      rfl
  | sql =>
    simp only
    have hcl : Generated.sqlOffsetClamped = true := by decide
    by_cases ho : offset ≥ two63
    · simp only [ho, if_true, hcl]
      -- both the clamped and the requested offset lie beyond the end of the listing
      have h1 : (listing s gid (sort.getD 0)).length ≤ two63 - 1 := by omega
      have h2 : (listing s gid (sort.getD 0)).length ≤ offset := by omega
      simp [page, pageOf, List.drop_eq_nil_of_le h1, List.drop_eq_nil_of_le h2]
    · simp only [ho, if_false]
      rfl

/-- consecutive pages partition the listing: no gaps, no repeats, for every limit and page count -/
theorem pages_partition (s : Store) (gid sort : Nat) (limit k : Nat)
    (hk : (listing s gid sort).length ≤ k * limit) :
    ((List.range k).flatMap (fun i => pageOf (listing s gid sort) (i * limit) limit))
      = listing s gid sort :=
  MdkVerif.pages_partition _ limit k hk

/-- out-of-range limits are refused -/
theorem limit_refused (s : Store) (gid limit : Nat) (offset sort : Option Nat)
    (h : limit = 0 ∨ limit > Generated.maxMessageLimit) :
    messages s gid (some limit) offset sort = .err := by
  unfold messages
  have : (decide (limit < 1) || decide (limit > Generated.maxMessageLimit)) = true := by
    rcases h with h | h <;> simp [h]
  simp only [Option.getD_some, this, if_true]

/-- `last_message` is the head of the listing in the same sort mode -/
theorem last_is_head (s : Store) (gid sort : Nat) (hg : (findGroup s gid).isSome) :
    lastMessage s gid sort = some (listing s gid sort).head? := by
  unfold lastMessage
  cases h : findGroup s gid <;> simp_all

/-- both backends list identically when they hold the same messages -/
theorem backends_list_identically (m q : Store) (gid sort : Nat)
    (hp : groupMsgs m gid ~ groupMsgs q gid) (hu : IdsUnique (groupMsgs m gid)) :
    listing m gid sort = listing q gid sort :=
  listing_order_independent m q gid sort hp hu

/-! ### 4. the SQL `ORDER BY` key lists (re-extracted from the source on every run) denote the two
    comparators: same keys, same priority, all descending -/

theorem sql_order_keys :
    Generated.sqlOrderCreatedFirst = ["created_at desc", "processed_at desc", "id desc"] ∧
    Generated.sqlOrderProcessedFirst = ["processed_at desc", "created_at desc", "id desc"] := by
  decide

theorem limits_as_documented :
    Generated.defaultMessageLimit = 1000 ∧ Generated.maxMessageLimit = 10000 := by decide

/-! ### 5. non-vacuity, and the two former counter-examples as regression traces

Before the two `fix:` commits in /repo (`07ec93a` memory `offset + limit` overflow, `e560e4b` SQLite
negative OFFSET) `messages_is_page` was false at `offset = 2^64-1` (memory: panic) and at
`offset = 2^63` (SQLite: first page).  Both inputs are kept in `corpus/C18/` and replayed on the
implementation on every run; the closed instances below keep them in the kernel-checked part too. -/

/-- a one-group, one-message store -/
def wStore (b : Backend) : Store :=
  { Store.empty b with
    groups := [{ gid := 1, nid := 11, nameLen := 1, descLen := 0, admins := 1, img := 0, lastId := none,
                 lastAt := none, lastProc := none, epoch := 0, state := 0, selfUpd := 0 }],
    msgs := [{ id := 7, gid := 1, pk := 0, kind := 9, created := 100, processed := 101, content := 0,
               contentLen := 4, tag := 0, wrapper := 5, epoch := some 0, state := 1 }] }

/-- the hypotheses of `messages_is_page` hold on a concrete non-trivial store -/
example : (findGroup (wStore .sql) 1).isSome ∧ 1 ≤ 10 ∧ 10 ≤ Generated.maxMessageLimit ∧
    (listing (wStore .sql) 1 0).length < two63 := by decide

theorem huge_offset_sql_empty : messages (wStore .sql) 1 (some 10) (some two63) none = .ok [] := by decide
theorem huge_offset_mem_empty : messages (wStore .mem) 1 (some 10) (some (two64 - 1)) none = .ok [] := by decide
theorem first_page_nonempty : messages (wStore .sql) 1 (some 10) (some 0) none ≠ .ok [] := by decide

/-! ### 6. the cached last-message pointer -/

/-- display key of a message -/
def key (m : Msg) : Nat × Nat × Nat := (m.created, m.processed, m.id)

/-- the pointer fields of a record, when all three are present -/
def ptr (g : Group) : Option (Nat × Nat × Nat) :=
  match g.lastAt, g.lastProc, g.lastId with
  | some a, some p, some i => some (a, p, i)
  | _, _, _ => none

/-- a pointer is well formed when it is entirely absent or entirely present (what mdk itself writes) -/
def PtrWF (g : Group) : Prop :=
  (g.lastAt = none ∧ g.lastProc = none ∧ g.lastId = none) ∨ (ptr g).isSome

theorem updLast_wf (g : Group) (k : Nat × Nat × Nat) (hw : PtrWF g) : PtrWF (updLast g k) := by
  unfold updLast
  split
  · right; simp [ptr]
  · exact hw

/-- one update: the new pointer is the larger of the old pointer and the message key -/
theorem updLast_max (g : Group) (k : Nat × Nat × Nat) (hw : PtrWF g) :
    ptr (updLast g k) = match ptr g with
      | none => some k
      | some o => if keyGt k o then some k else some o := by
  rcases hw with ⟨h1, h2, h3⟩ | hw
  · simp [updLast, dominates, ptr, h1, h2, h3]
  · cases ha : g.lastAt with
    | none => simp [ptr, ha] at hw
    | some a =>
      cases hp : g.lastProc with
      | none => simp [ptr, ha, hp] at hw
      | some p =>
        cases hi : g.lastId with
        | none => simp [ptr, ha, hp, hi] at hw
        | some i =>
          by_cases c : keyGt k (a, p, i) = true
          · simp [updLast, dominates, ptr, ha, hp, hi, c]
          · have c' : keyGt k (a, p, i) = false := by simpa using c
            simp [updLast, dominates, ptr, ha, hp, hi, c']

/-- the pointer after processing messages `ms` in ANY arrival order -/
def track (g : Group) (ms : List Msg) : Group := ms.foldl (fun g m => updLast g (key m)) g

/-- spec: running maximum of the display keys -/
def omax (o : Option (Nat × Nat × Nat)) (k : Nat × Nat × Nat) : Option (Nat × Nat × Nat) :=
  match o with
  | none => some k
  | some p => if keyGt k p then some k else some p

theorem track_is_running_max (g : Group) (ms : List Msg) (hw : PtrWF g) :
    ptr (track g ms) = ms.foldl (fun o m => omax o (key m)) (ptr g) ∧ PtrWF (track g ms) := by
  induction ms generalizing g with
  | nil => exact ⟨rfl, hw⟩
  | cons m ms ih =>
    simp only [track, List.foldl_cons]
    have h1 := updLast_max g (key m) hw
    have := ih (updLast g (key m)) (updLast_wf g (key m) hw)
    simp only [track] at this
    rw [this.1, h1]
    exact ⟨rfl, this.2⟩

theorem keyGt_irrefl (a : Nat × Nat × Nat) : keyGt a a = false := by
  obtain ⟨a1, a2, a3⟩ := a; simp [keyGt]
theorem keyGt_negtrans (a b c : Nat × Nat × Nat) (h1 : keyGt a b = false) (h2 : keyGt b c = false) :
    keyGt a c = false := by
  obtain ⟨a1, a2, a3⟩ := a; obtain ⟨b1, b2, b3⟩ := b; obtain ⟨c1, c2, c3⟩ := c
  simp [keyGt] at *; omega
theorem keyGt_total (a b : Nat × Nat × Nat) (h1 : keyGt a b = false) (h2 : keyGt b a = false) : a = b := by
  obtain ⟨a1, a2, a3⟩ := a; obtain ⟨b1, b2, b3⟩ := b
  simp [keyGt] at *
  refine ⟨?_, ?_, ?_⟩ <;> omega
theorem keyGt_asymm (a b : Nat × Nat × Nat) (h : keyGt a b = true) : keyGt b a = false := by
  obtain ⟨a1, a2, a3⟩ := a; obtain ⟨b1, b2, b3⟩ := b
  simp [keyGt] at *; omega

theorem omax_spec (o : Option (Nat × Nat × Nat)) (k : Nat × Nat × Nat) :
    ∃ q, omax o k = some q ∧ keyGt k q = false ∧ (∀ p, o = some p → keyGt p q = false) ∧
      (q = k ∨ o = some q) := by
  cases o with
  | none => exact ⟨k, rfl, keyGt_irrefl k, by simp, Or.inl rfl⟩
  | some p =>
    by_cases c : keyGt k p = true
    · refine ⟨k, by simp [omax, c], keyGt_irrefl k, ?_, Or.inl rfl⟩
      intro p' hp'; cases hp'; exact keyGt_asymm _ _ c
    · have c' : keyGt k p = false := by simpa using c
      refine ⟨p, by simp [omax, c'], c', ?_, Or.inr rfl⟩
      intro p' hp'; cases hp'; exact keyGt_irrefl _

theorem foldmax_spec (ms : List Msg) (o : Option (Nat × Nat × Nat)) (hne : ms ≠ [] ∨ o.isSome) :
    ∃ q, ms.foldl (fun o m => omax o (key m)) o = some q ∧
      (∀ m ∈ ms, keyGt (key m) q = false) ∧ (∀ p, o = some p → keyGt p q = false) ∧
      (o = some q ∨ ∃ m ∈ ms, key m = q) := by
  induction ms generalizing o with
  | nil =>
    cases o with
    | none => simp at hne
    | some p => exact ⟨p, rfl, by simp, by intro p' h; cases h; exact keyGt_irrefl _, Or.inl rfl⟩
  | cons m ms ih =>
    obtain ⟨q0, h0, hk, hp, hw⟩ := omax_spec o (key m)
    obtain ⟨q, hq, hall, hprev, hwit⟩ := ih (omax o (key m)) (Or.inr (by simp [h0]))
    refine ⟨q, by simpa [List.foldl_cons] using hq, ?_, ?_, ?_⟩
    · intro m' hm'
      rcases List.mem_cons.mp hm' with rfl | hm'
      · exact keyGt_negtrans _ _ _ hk (hprev q0 h0)
      · exact hall m' hm'
    · intro p hp'
      exact keyGt_negtrans _ _ _ (hp p hp') (hprev q0 h0)
    · rcases hwit with hw' | ⟨m', hm', hk'⟩
      · rw [h0] at hw'; cases hw'
        rcases hw with rfl | hw
        · exact Or.inr ⟨m, by simp, rfl⟩
        · exact Or.inl hw
      · exact Or.inr ⟨m', List.mem_cons_of_mem _ hm', hk'⟩

/-- **pointer = head of the default order**, for every set of messages with distinct display keys,
    whatever the order they arrived in, starting from a group with no pointer.
    (Partial w.r.t. the full statement: no rollback, no overwrite of an existing id — see DESIGN §6 C18.) -/
theorem ptr_tracks_head_partial (g : Group) (ms : List Msg)
    (hg : g.lastAt = none ∧ g.lastProc = none ∧ g.lastId = none) (hne : ms ≠ []) :
    ptr (track g ms) = (sortBy createdFirstBefore ms).head?.map key := by
  have hw : PtrWF g := Or.inl hg
  have hp0 : ptr g = none := by simp [ptr, hg.1]
  obtain ⟨q, hq, hall, _, hwit⟩ := foldmax_spec ms (ptr g) (Or.inl hne)
  rw [(track_is_running_max g ms hw).1, hq]
  -- the head of the sorted listing
  have hperm := sortBy_perm createdFirstBefore ms
  have hsorted := sortBy_sorted createdFirst_strictWeak ms
  cases hs : sortBy createdFirstBefore ms with
  | nil =>
    have := hperm.length_eq; rw [hs] at this
    cases ms <;> simp_all
  | cons h t =>
    simp only [List.head?_cons, Option.map_some]
    rw [hs] at hsorted hperm
    have hmem : h ∈ ms := hperm.mem_iff.mp (by simp)
    -- every message is not before h
    have hhead : ∀ m ∈ ms, createdFirstBefore m h = false := by
      intro m hm
      have hm' : m ∈ h :: t := hperm.mem_iff.mpr hm
      rcases List.mem_cons.mp hm' with rfl | hm'
      · exact createdFirst_strictWeak.asymm _ _ |> fun f => by
          by_cases c : createdFirstBefore m m = true
          · have := f c; simp_all
          · simpa using c
      · exact (List.pairwise_cons.mp hsorted).1 m hm'
    rw [hp0] at hwit
    rcases hwit with hw' | ⟨m0, hm0, hk0⟩
    · cases hw'
    · -- q = key m0; key h ≤ q and q ≤ key h
      have h1 : keyGt (key h) q = false := hall h hmem
      have h2 : keyGt q (key h) = false := by
        rw [← hk0]
        have := hhead m0 hm0
        simpa [createdFirstBefore, keyGt, key] using this
      rw [keyGt_total _ _ h2 h1]

end MdkVerif.Props.C18
