import MdkVerif.Model.Store
import MdkVerif.Proofs.Sort
import MdkVerif.Model.MemLru
import MdkVerif.Proofs.MemLru
import MdkVerif.Proofs.MemLruVis
/-
  C18 — Message listing is one total order; pages and last-message pointer agree.
  Property theorems only (helper lemmas live in Proofs/).
-/
namespace MdkVerif.Props.C18
open MdkVerif MdkVerif.Store List

/-! ### 1. the two comparators are strict total orders on the display keys -/

theorem createdFirst_strictWeak : StrictWeak createdFirstBefore := by
  constructor
  · intro a b h; simp [createdFirstBefore] at *; omega
  · intro a b c h1 h2; simp [createdFirstBefore] at *; omega

theorem processedFirst_strictWeak : StrictWeak processedFirstBefore := by
  constructor
  · intro a b h; simp [processedFirstBefore] at *; omega
  · intro a b c h1 h2; simp [processedFirstBefore] at *; omega

theorem orderOf_strictWeak (sort : Nat) : StrictWeak (orderOf sort) := by
  unfold orderOf; split
  · exact processedFirst_strictWeak
  · exact createdFirst_strictWeak

/-- totality: two messages neither of which precedes the other have the same display key -/
theorem orderOf_total (sort : Nat) (a b : Msg)
    (h1 : orderOf sort a b = false) (h2 : orderOf sort b a = false) :
    a.created = b.created ∧ a.processed = b.processed ∧ a.id = b.id := by
  unfold orderOf at h1 h2
  split at h1 <;> simp_all [processedFirstBefore, createdFirstBefore] <;> omega

/-! ### 2. the listing is a sorted permutation of the group's messages, and depends only on the
    *set* of stored messages (hash-map iteration order / SQL row order are irrelevant) -/

theorem listing_perm (s : Store) (gid sort : Nat) : listing s gid sort ~ groupMsgs s gid :=
  sortBy_perm _ _

theorem listing_sorted (s : Store) (gid sort : Nat) :
    (listing s gid sort).Pairwise (NotAfter (orderOf sort)) :=
  sortBy_sorted (orderOf_strictWeak sort) _

/-- ids are unique per group (primary key `(mls_group_id, id)` / per-group hash map) -/
def IdsUnique (l : List Msg) : Prop := ∀ a b, a ∈ l → b ∈ l → a.id = b.id → a = b

theorem listing_order_independent (s₁ s₂ : Store) (gid sort : Nat)
    (hp : groupMsgs s₁ gid ~ groupMsgs s₂ gid) (hu : IdsUnique (groupMsgs s₁ gid)) :
    listing s₁ gid sort = listing s₂ gid sort := by
  apply sortBy_perm_eq (orderOf_strictWeak sort) _ _ hp
  intro a b ha hb h1 h2
  exact hu a b ha hb (orderOf_total sort a b h1 h2).2.2

/-! ### 3. pagination -/

/-- `messages` succeeds for EVERY offset and returns exactly the requested slice of the listing —
    the empty page beyond the end — on either backend.  The only hypothesis besides the documented
    parameter range is physical: a store does not hold 2^63 messages.
    Depends on `Generated.memPageSaturates` and `Generated.sqlOffsetClamped` (re-extracted each run):
    if the memory backend adds `offset + limit` unchecked again, or SQLite binds `offset as i64`, the
    extracted flags flip and this proof no longer checks. -/
theorem messages_is_page (s : Store) (gid limit offset : Nat) (sort : Option Nat)
    (hg : (findGroup s gid).isSome) (hl1 : 1 ≤ limit) (hl2 : limit ≤ Generated.maxMessageLimit)
    (hphys : (listing s gid (sort.getD 0)).length < two63) :
    messages s gid (some limit) (some offset) sort
      = .ok (pageOf (listing s gid (sort.getD 0)) offset limit) := by
  have hg' : (findGroup s gid).isNone = false := by
    cases h : findGroup s gid <;> simp_all
  unfold messages
  simp only [Option.getD_some, hg']
  have c1 : (decide (limit < 1) || decide (limit > Generated.maxMessageLimit)) = false := by
    simp; omega
  simp only [c1, Bool.false_eq_true, if_false]
  cases hb : s.backend with
  | mem =>
    simp only
    by_cases he : (groupMsgs s gid).isEmpty = true
    · have hn : groupMsgs s gid = [] := by simpa using he
      simp only [he, if_true]
      simp [pageOf, listing, hn, sortBy]
    · have he' : (groupMsgs s gid).isEmpty = false := by simpa using he
      have hsat : Generated.memPageSaturates = true := by decide
      simp only [he', Bool.false_eq_true, if_false, hsat, Bool.not_true, Bool.false_and]
      rfl
  | sql =>
    simp only
    have hcl : Generated.sqlOffsetClamped = true := by decide
    by_cases ho : offset ≥ two63
    · simp only [ho, if_true, hcl]
      -- both the clamped and the requested offset lie beyond the end of the listing
      have h1 : (listing s gid (sort.getD 0)).length ≤ two63 - 1 := by omega
      have h2 : (listing s gid (sort.getD 0)).length ≤ offset := by omega
      simp [page, pageOf, List.drop_eq_nil_of_le h1, List.drop_eq_nil_of_le h2]
    · simp only [ho, if_false]
      rfl

/-- consecutive pages partition the listing: no gaps, no repeats, for every limit and page count -/
theorem pages_partition (s : Store) (gid sort : Nat) (limit k : Nat)
    (hk : (listing s gid sort).length ≤ k * limit) :
    ((List.range k).flatMap (fun i => pageOf (listing s gid sort) (i * limit) limit))
      = listing s gid sort :=
  MdkVerif.pages_partition _ limit k hk

/-- out-of-range limits are refused -/
theorem limit_refused (s : Store) (gid limit : Nat) (offset sort : Option Nat)
    (h : limit = 0 ∨ limit > Generated.maxMessageLimit) :
    messages s gid (some limit) offset sort = .err := by
  unfold messages
  have : (decide (limit < 1) || decide (limit > Generated.maxMessageLimit)) = true := by
    rcases h with h | h <;> simp [h]
  simp only [Option.getD_some, this, if_true]

/-- `last_message` is the head of the listing in the same sort mode -/
theorem last_is_head (s : Store) (gid sort : Nat) (hg : (findGroup s gid).isSome) :
    lastMessage s gid sort = some (listing s gid sort).head? := by
  unfold lastMessage
  cases h : findGroup s gid <;> simp_all

/-- both backends list identically when they hold the same messages -/
theorem backends_list_identically (m q : Store) (gid sort : Nat)
    (hp : groupMsgs m gid ~ groupMsgs q gid) (hu : IdsUnique (groupMsgs m gid)) :
    listing m gid sort = listing q gid sort :=
  listing_order_independent m q gid sort hp hu

/-! ### 4. the SQL `ORDER BY` key lists (re-extracted from the source on every run) denote the two
    comparators: same keys, same priority, all descending -/

theorem sql_order_keys :
    Generated.sqlOrderCreatedFirst = ["created_at desc", "processed_at desc", "id desc"] ∧
    Generated.sqlOrderProcessedFirst = ["processed_at desc", "created_at desc", "id desc"] := by
  decide

theorem limits_as_documented :
    Generated.defaultMessageLimit = 1000 ∧ Generated.maxMessageLimit = 10000 := by decide

/-! ### 5. non-vacuity, and the two former counter-examples as regression traces

Before the two `fix:` commits in /repo (`07ec93a` memory `offset + limit` overflow, `e560e4b` SQLite
negative OFFSET) `messages_is_page` was false at `offset = 2^64-1` (memory: panic) and at
`offset = 2^63` (SQLite: first page).  Both inputs are kept in `corpus/C18/` and replayed on the
implementation on every run; the closed instances below keep them in the kernel-checked part too. -/

/-- a one-group, one-message store -/
def wStore (b : Backend) : Store :=
  { Store.empty b with
    groups := [{ gid := 1, nid := 11, nameLen := 1, descLen := 0, admins := 1, img := 0, lastId := none,
                 lastAt := none, lastProc := none, epoch := 0, state := 0, selfUpd := 0 }],
    msgs := [{ id := 7, gid := 1, pk := 0, kind := 9, created := 100, processed := 101, content := 0,
               contentLen := 4, tag := 0, wrapper := 5, epoch := some 0, state := 1 }] }

/-- the hypotheses of `messages_is_page` hold on a concrete non-trivial store -/
example : (findGroup (wStore .sql) 1).isSome ∧ 1 ≤ 10 ∧ 10 ≤ Generated.maxMessageLimit ∧
    (listing (wStore .sql) 1 0).length < two63 := by decide

theorem huge_offset_sql_empty : messages (wStore .sql) 1 (some 10) (some two63) none = .ok [] := by decide
theorem huge_offset_mem_empty : messages (wStore .mem) 1 (some 10) (some (two64 - 1)) none = .ok [] := by decide
theorem first_page_nonempty : messages (wStore .sql) 1 (some 10) (some 0) none ≠ .ok [] := by decide

/-! ### 6. the cached last-message pointer -/

/-- display key of a message -/
def key (m : Msg) : Nat × Nat × Nat := (m.created, m.processed, m.id)

/-- the pointer fields of a record, when all three are present -/
def ptr (g : Group) : Option (Nat × Nat × Nat) :=
  match g.lastAt, g.lastProc, g.lastId with
  | some a, some p, some i => some (a, p, i)
  | _, _, _ => none

/-- a pointer is well formed when it is entirely absent or entirely present (what mdk itself writes) -/
def PtrWF (g : Group) : Prop :=
  (g.lastAt = none ∧ g.lastProc = none ∧ g.lastId = none) ∨ (ptr g).isSome

theorem updLast_wf (g : Group) (k : Nat × Nat × Nat) (hw : PtrWF g) : PtrWF (updLast g k) := by
  unfold updLast
  split
  · right; simp [ptr]
  · exact hw

/-- one update: the new pointer is the larger of the old pointer and the message key -/
theorem updLast_max (g : Group) (k : Nat × Nat × Nat) (hw : PtrWF g) :
    ptr (updLast g k) = match ptr g with
      | none => some k
      | some o => if keyGt k o then some k else some o := by
  rcases hw with ⟨h1, h2, h3⟩ | hw
  · simp [updLast, dominates, ptr, h1, h2, h3]
  · cases ha : g.lastAt with
    | none => simp [ptr, ha] at hw
    | some a =>
      cases hp : g.lastProc with
      | none => simp [ptr, ha, hp] at hw
      | some p =>
        cases hi : g.lastId with
        | none => simp [ptr, ha, hp, hi] at hw
        | some i =>
          by_cases c : keyGt k (a, p, i) = true
          · simp [updLast, dominates, ptr, ha, hp, hi, c]
          · have c' : keyGt k (a, p, i) = false := by simpa using c
            simp [updLast, dominates, ptr, ha, hp, hi, c']

/-- the pointer after processing messages `ms` in ANY arrival order -/
def track (g : Group) (ms : List Msg) : Group := ms.foldl (fun g m => updLast g (key m)) g

/-- spec: running maximum of the display keys -/
def omax (o : Option (Nat × Nat × Nat)) (k : Nat × Nat × Nat) : Option (Nat × Nat × Nat) :=
  match o with
  | none => some k
  | some p => if keyGt k p then some k else some p

theorem track_is_running_max (g : Group) (ms : List Msg) (hw : PtrWF g) :
    ptr (track g ms) = ms.foldl (fun o m => omax o (key m)) (ptr g) ∧ PtrWF (track g ms) := by
  induction ms generalizing g with
  | nil => exact ⟨rfl, hw⟩
  | cons m ms ih =>
    simp only [track, List.foldl_cons]
    have h1 := updLast_max g (key m) hw
    have := ih (updLast g (key m)) (updLast_wf g (key m) hw)
    simp only [track] at this
    rw [this.1, h1]
    exact ⟨rfl, this.2⟩

theorem keyGt_irrefl (a : Nat × Nat × Nat) : keyGt a a = false := by
  obtain ⟨a1, a2, a3⟩ := a; simp [keyGt]
theorem keyGt_negtrans (a b c : Nat × Nat × Nat) (h1 : keyGt a b = false) (h2 : keyGt b c = false) :
    keyGt a c = false := by
  obtain ⟨a1, a2, a3⟩ := a; obtain ⟨b1, b2, b3⟩ := b; obtain ⟨c1, c2, c3⟩ := c
  simp [keyGt] at *; omega
theorem keyGt_total (a b : Nat × Nat × Nat) (h1 : keyGt a b = false) (h2 : keyGt b a = false) : a = b := by
  obtain ⟨a1, a2, a3⟩ := a; obtain ⟨b1, b2, b3⟩ := b
  simp [keyGt] at *
  refine ⟨?_, ?_, ?_⟩ <;> omega
theorem keyGt_asymm (a b : Nat × Nat × Nat) (h : keyGt a b = true) : keyGt b a = false := by
  obtain ⟨a1, a2, a3⟩ := a; obtain ⟨b1, b2, b3⟩ := b
  simp [keyGt] at *; omega

theorem omax_spec (o : Option (Nat × Nat × Nat)) (k : Nat × Nat × Nat) :
    ∃ q, omax o k = some q ∧ keyGt k q = false ∧ (∀ p, o = some p → keyGt p q = false) ∧
      (q = k ∨ o = some q) := by
  cases o with
  | none => exact ⟨k, rfl, keyGt_irrefl k, by simp, Or.inl rfl⟩
  | some p =>
    by_cases c : keyGt k p = true
    · refine ⟨k, by simp [omax, c], keyGt_irrefl k, ?_, Or.inl rfl⟩
      intro p' hp'; cases hp'; exact keyGt_asymm _ _ c
    · have c' : keyGt k p = false := by simpa using c
      refine ⟨p, by simp [omax, c'], c', ?_, Or.inr rfl⟩
      intro p' hp'; cases hp'; exact keyGt_irrefl _

theorem foldmax_spec (ms : List Msg) (o : Option (Nat × Nat × Nat)) (hne : ms ≠ [] ∨ o.isSome) :
    ∃ q, ms.foldl (fun o m => omax o (key m)) o = some q ∧
      (∀ m ∈ ms, keyGt (key m) q = false) ∧ (∀ p, o = some p → keyGt p q = false) ∧
      (o = some q ∨ ∃ m ∈ ms, key m = q) := by
  induction ms generalizing o with
  | nil =>
    cases o with
    | none => simp at hne
    | some p => exact ⟨p, rfl, by simp, by intro p' h; cases h; exact keyGt_irrefl _, Or.inl rfl⟩
  | cons m ms ih =>
    obtain ⟨q0, h0, hk, hp, hw⟩ := omax_spec o (key m)
    obtain ⟨q, hq, hall, hprev, hwit⟩ := ih (omax o (key m)) (Or.inr (by simp [h0]))
    refine ⟨q, by simpa [List.foldl_cons] using hq, ?_, ?_, ?_⟩
    · intro m' hm'
      rcases List.mem_cons.mp hm' with rfl | hm'
      · exact keyGt_negtrans _ _ _ hk (hprev q0 h0)
      · exact hall m' hm'
    · intro p hp'
      exact keyGt_negtrans _ _ _ (hp p hp') (hprev q0 h0)
    · rcases hwit with hw' | ⟨m', hm', hk'⟩
      · rw [h0] at hw'; cases hw'
        rcases hw with rfl | hw
        · exact Or.inr ⟨m, by simp, rfl⟩
        · exact Or.inl hw
      · exact Or.inr ⟨m', List.mem_cons_of_mem _ hm', hk'⟩

/-- **pointer = head of the default order**, for every set of messages with distinct display keys,
    whatever the order they arrived in, starting from a group with no pointer.
    (Partial w.r.t. the full statement: no rollback, no overwrite of an existing id — see DESIGN §6 C18.) -/
theorem ptr_tracks_head_partial (g : Group) (ms : List Msg)
    (hg : g.lastAt = none ∧ g.lastProc = none ∧ g.lastId = none) (hne : ms ≠ []) :
    ptr (track g ms) = (sortBy createdFirstBefore ms).head?.map key := by
  have hw : PtrWF g := Or.inl hg
  have hp0 : ptr g = none := by simp [ptr, hg.1]
  obtain ⟨q, hq, hall, _, hwit⟩ := foldmax_spec ms (ptr g) (Or.inl hne)
  rw [(track_is_running_max g ms hw).1, hq]
  -- the head of the sorted listing
  have hperm := sortBy_perm createdFirstBefore ms
  have hsorted := sortBy_sorted createdFirst_strictWeak ms
  cases hs : sortBy createdFirstBefore ms with
  | nil =>
    have := hperm.length_eq; rw [hs] at this
    cases ms <;> simp_all
  | cons h t =>
    simp only [List.head?_cons, Option.map_some]
    rw [hs] at hsorted hperm
    have hmem : h ∈ ms := hperm.mem_iff.mp (by simp)
    -- every message is not before h
    have hhead : ∀ m ∈ ms, createdFirstBefore m h = false := by
      intro m hm
      have hm' : m ∈ h :: t := hperm.mem_iff.mpr hm
      rcases List.mem_cons.mp hm' with rfl | hm'
      · exact createdFirst_strictWeak.asymm _ _ |> fun f => by
          by_cases c : createdFirstBefore m m = true
          · have := f c; simp_all
          · simpa using c
      · exact (List.pairwise_cons.mp hsorted).1 m hm'
    rw [hp0] at hwit
    rcases hwit with hw' | ⟨m0, hm0, hk0⟩
    · cases hw'
    · -- q = key m0; key h ≤ q and q ≤ key h
      have h1 : keyGt (key h) q = false := hall h hmem
      have h2 : keyGt q (key h) = false := by
        rw [← hk0]
        have := hhead m0 hm0
        simpa [createdFirstBefore, keyGt, key] using this
      rw [keyGt_total _ _ h2 h1]


/-! ### 6. the pointer under the per-group message cap of the memory backend (`Model/MemLru.lean`)

  At `max_messages_per_group` a new message pushes a stored one out.  The pointer keeps designating the head of the
  default order only if the victim is never that head: since /repo 3a82aa4 the victim is the LAST message of the default
  order (regenerated facts `memCapVictimKeys`, `memCapVictimIsMin`), so with a cap of at least 2 the head survives. -/

open MdkVerif.MemLru

/-- the eviction order re-extracted from the source IS the default listing order, ascending -/
theorem cap_victim_chain : Generated.memCapVictimKeys = [0, 1, 2] ∧ Generated.memCapVictimIsMin = true := by decide

theorem capLt_eq (a b : Msg) : capLt a b = keyGt (key b) (key a) := by
  have h1 : Generated.memCapVictimKeys = [0, 1, 2] := cap_victim_chain.1
  have h2 : Generated.memCapVictimIsMin = true := cap_victim_chain.2
  simp only [capLt, h1, h2, if_true, chainLt, fieldOf, keyGt, key]
  rw [Bool.eq_iff_iff]
  simp
  omega

theorem argMin_none (lt : Msg → Msg → Bool) (l : List Msg) (h : argMin lt l = none) : l = [] := by
  cases l with
  | nil => rfl
  | cons m t =>
    simp only [argMin] at h
    cases ha : argMin lt t with
    | none => rw [ha] at h; cases h
    | some b => rw [ha] at h; simp only [] at h; split at h <;> cases h

/-- the victim is a stored message that no stored message precedes in the ascending default order -/
theorem argMin_spec (l : List Msg) (v : Msg) (h : argMin capLt l = some v) :
    v ∈ l ∧ ∀ x ∈ l, keyGt (key v) (key x) = false := by
  induction l generalizing v with
  | nil => cases h
  | cons m t ih =>
    simp only [argMin] at h
    cases ha : argMin capLt t with
    | none =>
      rw [ha] at h; cases h
      have := argMin_none _ _ ha; subst this
      exact ⟨by simp, fun x hx => by simp at hx; subst hx; exact keyGt_irrefl _⟩
    | some b =>
      rw [ha] at h
      simp only [] at h
      obtain ⟨hb, hall⟩ := ih b ha
      by_cases c : capLt b m = true
      · rw [if_pos c] at h; cases h
        rw [capLt_eq] at c
        refine ⟨List.mem_cons_of_mem _ hb, fun x hx => ?_⟩
        rcases List.mem_cons.mp hx with rfl | hx
        · exact keyGt_asymm _ _ c
        · exact hall x hx
      · rw [if_neg c] at h; cases h
        have c' : keyGt (key m) (key b) = false := by rw [capLt_eq] at c; simpa using c
        refine ⟨by simp, fun x hx => ?_⟩
        rcases List.mem_cons.mp hx with rfl | hx
        · exact keyGt_irrefl _
        · exact keyGt_negtrans _ _ _ c' (hall x hx)

/-- `o` is the largest display key among `L` (`none`: there is no message) -/
def MaxOf (o : Option (Nat × Nat × Nat)) (L : List Msg) : Prop :=
  match o with
  | none => L = []
  | some q => (∃ m ∈ L, key m = q) ∧ ∀ m ∈ L, keyGt (key m) q = false

/-- the head of the default listing is the message with the largest display key -/
theorem head_of_maxOf (L : List Msg) (q : Nat × Nat × Nat) (h : MaxOf (some q) L) :
    (sortBy createdFirstBefore L).head?.map key = some q := by
  obtain ⟨⟨m0, hm0, hk0⟩, hall⟩ := h
  have hperm := sortBy_perm createdFirstBefore L
  have hsorted := sortBy_sorted createdFirst_strictWeak L
  cases hs : sortBy createdFirstBefore L with
  | nil =>
    have := hperm.length_eq; rw [hs] at this
    cases L with
    | nil => cases hm0
    | cons a t => simp at this
  | cons h t =>
    simp only [List.head?_cons, Option.map_some]
    rw [hs] at hsorted hperm
    have hmem : h ∈ L := hperm.mem_iff.mp (by simp)
    have hhead : createdFirstBefore m0 h = false := by
      have hm' : m0 ∈ h :: t := hperm.mem_iff.mpr hm0
      rcases List.mem_cons.mp hm' with rfl | hm'
      · by_cases c : createdFirstBefore m0 m0 = true
        · have := createdFirst_strictWeak.asymm _ _ c; simp_all
        · simpa using c
      · exact (List.pairwise_cons.mp hsorted).1 m0 hm'
    have h1 : keyGt (key h) q = false := hall h hmem
    have h2 : keyGt q (key h) = false := by
      rw [← hk0]; simpa [createdFirstBefore, keyGt, key] using hhead
    rw [keyGt_total _ _ h2 h1]

theorem upsertMsg_fresh (m : Msg) (l : List Msg) (h : ∀ x ∈ l, ¬ (x.gid = m.gid ∧ x.id = m.id)) : upsertMsg m l = l ++ [m] := by
  induction l with
  | nil => rfl
  | cons a t ih =>
    have ha : (a.gid == m.gid && a.id == m.id) = false := by
      have := h a (by simp)
      simpa using this
    rw [upsertMsg_miss m a t ha, ih (fun x hx => h x (List.mem_cons_of_mem _ hx))]
    rfl

/-- what mdk-core does for a message it stores: save it, then update the group's pointer with it -/
def trackedSave (s : MemStore) (m : Msg) : MemStore :=
  (MemLru.updLastOp (MemLru.okErr (MemLru.saveMessage s m) s).1 m.gid (key m)).1

/-- the group's messages after `save_message` of a NEW id -/
def afterSave (s : MemStore) (m : Msg) : List Msg :=
  (match (if capHit s m then victim (groupMsgs s.u m.gid) else none) with
    | some v => (groupMsgs s.u m.gid).filter (fun x => x.id != v)
    | none => groupMsgs s.u m.gid) ++ [m]

theorem groupMsgs_append (u : Store) (l : List Msg) (m : Msg) (h : u.msgs = l ++ [m]) :
    groupMsgs u m.gid = l.filter (·.gid == m.gid) ++ [m] := by
  simp [groupMsgs, h, List.filter_append]

theorem saveMessage_new (s : MemStore) (m : Msg) (g : Group) (hg : findGroup s.u m.gid = some g)
    (hfresh : ∀ x ∈ s.u.msgs, ¬ (x.gid = m.gid ∧ x.id = m.id)) :
    ∃ s1, MemLru.saveMessage s m = some s1 ∧ GFrame s1 s ∧ groupMsgs s1.u m.gid = afterSave s m := by
  have hfg : ¬ (findGroup s.u m.gid).isNone = true := by rw [hg]; simp
  by_cases cq : m.gid ∈ s.qMsgGroups
  · have heq := saveMessage_eq s m
    rw [if_neg hfg, if_pos cq] at heq
    refine ⟨_, heq, gframe_saveMessage s m _ heq, ?_⟩
    rw [(putById_frame _ _).1]
    show groupMsgs { (capEvict s m).u with msgs := upsertMsg m (capEvict s m).u.msgs } m.gid = afterSave s m
    have hce := capEvict_msgs s m
    unfold afterSave
    cases hv : (if capHit s m then victim (groupMsgs s.u m.gid) else none) with
    | none =>
      rw [hv] at hce
      simp only [] at hce ⊢
      rw [groupMsgs_append _ s.u.msgs m (by show upsertMsg m (capEvict s m).u.msgs = _; rw [hce]; exact upsertMsg_fresh m _ hfresh)]
      rfl
    | some v =>
      rw [hv] at hce
      simp only [] at hce ⊢
      have hf2 : ∀ x ∈ s.u.msgs.filter (fun x => !(x.gid == m.gid && x.id == v)), ¬ (x.gid = m.gid ∧ x.id = m.id) :=
        fun x hx => hfresh x (List.mem_filter.mp hx).1
      rw [groupMsgs_append _ _ m (by show upsertMsg m (capEvict s m).u.msgs = _; rw [hce]; exact upsertMsg_fresh m _ hf2)]
      congr 1
      simp only [groupMsgs, List.filter_filter]
      apply List.filter_congr
      intro x _
      cases h1 : (x.gid == m.gid) <;> cases h2 : (x.id == v) <;> simp [h2, bne]
  · have heq := saveMessage_eq s m
    rw [if_neg hfg, if_neg cq] at heq
    refine ⟨_, heq, gframe_saveMessage s m _ heq, ?_⟩
    rw [(putById_frame _ _).1]
    have ch' : capHit s m = false := by simp [capHit, cq]
    unfold afterSave
    rw [ch']
    simp only [Bool.false_eq_true, if_false]
    -- the fresh map is put: whatever that pushes out is another group's map
    show groupMsgs (putMsgGroups { s with u := { s.u with msgs := upsertMsg m s.u.msgs } } m.gid).u m.gid = _
    unfold putMsgGroups
    simp only []
    cases hq : (Lru.qTouch s.cap m.gid s.qMsgGroups).2 with
    | none =>
      simp only []
      rw [groupMsgs_append _ s.u.msgs m (upsertMsg_fresh m _ hfresh)]
      rfl
    | some e =>
      simp only []
      obtain ⟨_, _, hlast, _⟩ := Lru.qTouch_evicted s.cap m.gid s.qMsgGroups e hq
      have hne : e ≠ m.gid := fun c => cq (c ▸ List.mem_of_getLast? hlast)
      simp only [groupMsgs, upsertMsg_fresh m _ hfresh, List.filter_filter]
      rw [show (s.u.msgs ++ [m]).filter (fun a => (a.gid == m.gid) && (a.gid != e)) = (s.u.msgs ++ [m]).filter (fun a => a.gid == m.gid) from by
        apply List.filter_congr
        intro x _
        by_cases c1 : x.gid = m.gid
        · simp [c1, Ne.symm hne]
        · simp [c1]]
      simp [List.filter_append]


/-- the record passes the memory backend's validation (true of every record it stores) -/
def GroupWithin (g : Group) : Prop :=
  g.nameLen ≤ nameLimit .mem ∧ g.descLen ≤ descLimit .mem ∧ g.admins ≤ Generated.memMaxAdminsPerGroup

theorem storeSaveGroup_ok (u : Store) (g : Group) (hb : u.backend = .mem) (hl : GroupWithin g)
    (hnc : ∀ o, alookup g.nid u.byNid = some o → o.gid = g.gid) : ∃ u', Store.saveGroup u g = some u' := by
  obtain ⟨h1, h2, h3⟩ := hl
  unfold Store.saveGroup
  have n1 : ¬ g.nameLen > nameLimit u.backend := by rw [hb]; omega
  have n2 : ¬ g.descLen > descLimit u.backend := by rw [hb]; omega
  have n3 : ¬ (u.backend == Backend.mem && decide (g.admins > Generated.memMaxAdminsPerGroup)) = true := by
    simp only [hb, Bool.and_eq_true, decide_eq_true_eq]; intro c; omega
  rw [if_neg n1, if_neg n2, if_neg n3]
  simp only [hb]
  cases hl : alookup g.nid u.byNid with
  | none => exact ⟨_, rfl⟩
  | some o =>
    have : (o.gid != g.gid) = false := by simp [hnc o hl]
    simp only [this]
    exact ⟨_, rfl⟩

theorem updLast_fields (g : Group) (k : Nat × Nat × Nat) :
    (updLast g k).gid = g.gid ∧ (updLast g k).nid = g.nid ∧ (GroupWithin g → GroupWithin (updLast g k)) := by
  unfold updLast
  split
  · exact ⟨rfl, rfl, fun h => h⟩
  · exact ⟨rfl, rfl, fun h => h⟩

/-- the pointer update of a held group always goes through, evicts nothing and touches no message -/
theorem updLast_tracked (s : MemStore) (h : PInv s) (gid : Nat) (g : Group) (hg : findGroup s.u gid = some g)
    (hl : GroupWithin g) (k : Nat × Nat × Nat) :
    ∃ s', MemLru.saveGroup s (updLast g k) = some s' ∧ findGroup s'.u gid = some (updLast g k) ∧
      s'.u.msgs = s.u.msgs ∧ PInv s' ∧ s'.msgCap = s.msgCap := by
  obtain ⟨f1, f2, f3⟩ := updLast_fields g k
  have hgg : g.gid = gid := findGroup_gid hg
  have hmem : g ∈ s.u.groups := ((find_gid_iff h.paired.ginv gid g).mp hg).1
  have hnc : ∀ o, alookup (updLast g k).nid s.u.byNid = some o → o.gid = (updLast g k).gid := by
    intro o ho
    rw [f2] at ho
    have hi : alookup g.nid s.u.byNid = s.u.groups.find? (·.nid == g.nid) := h.paired.idx g.nid
    have : s.u.groups.find? (·.nid == g.nid) = some g := (find_nid_iff h.paired.ginv g.nid g).mpr ⟨hmem, rfl⟩
    rw [hi, this] at ho
    cases ho; exact f1.symm
  obtain ⟨u', hu'⟩ := storeSaveGroup_ok s.u (updLast g k) h.hb (f3 hl) hnc
  have hs := saveGroup_eq s (updLast g k) u' hu'
  obtain ⟨e1, e2, e3, e4, e5, e6, e7⟩ := of_saveGroup s (updLast g k) _ h.hb hs
  have hu := saveGroup_mem_some s.u u' (updLast g k) h.hb hu'
  -- both queues hold the keys already: nothing is pushed out
  have hq1 : gid ∈ s.qGroups := (h.paired.qmem gid).mpr ⟨g, hmem, hgg⟩
  have hstale : staleQ s (updLast g k) = s.qByNid := by
    unfold staleQ
    rw [f1, hgg, hg]
    simp [f2]
  have hq2 : g.nid ∈ s.qByNid := by
    have hp : s.qByNid = s.qGroups.map (nidOf s.u.groups) := h.paired.pair
    rw [hp]
    refine List.mem_map.mpr ⟨gid, hq1, ?_⟩
    rw [← hgg]; exact nidOf_of_mem h.paired.ginv hmem
  have t1 := Lru.qTouch_none s.cap (updLast g k).gid s.qGroups (Or.inl (by rw [f1, hgg]; exact hq1))
  have t2 := Lru.qTouch_none s.cap (updLast g k).nid (staleQ s (updLast g k)) (Or.inl (by rw [hstale, f2]; exact hq2))
  refine ⟨_, hs, ?_, e7, pinv_saveGroup s h _ _ hs, e6⟩
  rw [putGroups_room { s with u := u', qByNid := staleQ s (updLast g k) } (updLast g k).gid t1, putByNid_room _ (updLast g k).nid t2]
  show findGroup u' gid = _
  rw [hu, ← hgg, ← f1]
  exact find_replaceGroup_self _ _

theorem id_inj_of_nodup (L : List Msg) (h : (L.map (·.id)).Nodup) (a b : Msg) (ha : a ∈ L) (hb : b ∈ L) (e : a.id = b.id) : a = b := by
  induction L with
  | nil => cases ha
  | cons x t ih =>
    simp only [List.map_cons, List.nodup_cons, List.mem_map, not_exists, not_and] at h
    rcases List.mem_cons.mp ha with rfl | ha' <;> rcases List.mem_cons.mp hb with rfl | hb'
    · rfl
    · exact absurd e.symm (h.1 b hb')
    · exact absurd e (h.1 a ha')
    · exact ih h.2 ha' hb'

/-- removing the LAST message of the default order from at least two messages keeps the largest key -/
theorem maxOf_evict (L : List Msg) (o : Option (Nat × Nat × Nat)) (hmax : MaxOf o L) (hnd : (L.map (·.id)).Nodup)
    (v : Msg) (hv : argMin capLt L = some v) (h2 : 2 ≤ L.length) :
    MaxOf o (L.filter (fun x => x.id != v.id)) := by
  obtain ⟨hvm, hvmin⟩ := argMin_spec L v hv
  cases o with
  | none =>
    have : L = [] := hmax
    rw [this] at h2; simp at h2
  | some q =>
    obtain ⟨⟨mq, hmq, hkq⟩, hall⟩ := hmax
    have hne : mq.id ≠ v.id := by
      intro e
      have hmv : mq = v := id_inj_of_nodup L hnd mq v hmq hvm e
      subst hmv
      -- every message has the key of `mq`, hence is `mq`: at most one message
      have hallEq : ∀ x ∈ L, x = mq := by
        intro x hx
        have k1 := hall x hx
        have k2 := hvmin x hx
        rw [hkq] at k2
        have : key x = q := keyGt_total _ _ k1 k2
        have hid : x.id = mq.id := by
          have := congrArg (fun t => t.2.2) (this.trans hkq.symm)
          simpa [key] using this
        exact id_inj_of_nodup L hnd x mq hx hmq hid
      cases L with
      | nil => cases hmq
      | cons a t =>
        cases t with
        | nil => simp at h2
        | cons b t' =>
          have ha := hallEq a (by simp)
          have hb := hallEq b (by simp)
          simp only [List.map_cons, List.nodup_cons, List.mem_cons] at hnd
          exact hnd.1 (Or.inl (by rw [ha, hb]))
    refine ⟨⟨mq, List.mem_filter.mpr ⟨hmq, by simpa using hne⟩, hkq⟩, fun x hx => hall x (List.mem_filter.mp hx).1⟩

/-- a new message joins: the largest key is the larger of the old largest key and the new key -/
theorem maxOf_add (L : List Msg) (o : Option (Nat × Nat × Nat)) (hmax : MaxOf o L) (m : Msg) :
    MaxOf (omax o (key m)) (L ++ [m]) := by
  cases o with
  | none =>
    have : L = [] := hmax
    subst this
    exact ⟨⟨m, by simp, rfl⟩, fun x hx => by simp at hx; subst hx; exact keyGt_irrefl _⟩
  | some q =>
    obtain ⟨⟨mq, hmq, hkq⟩, hall⟩ := hmax
    by_cases c : keyGt (key m) q = true
    · simp only [omax, c, if_true]
      refine ⟨⟨m, by simp, rfl⟩, fun x hx => ?_⟩
      rcases List.mem_append.mp hx with hx | hx
      · exact keyGt_negtrans _ _ _ (hall x hx) (keyGt_asymm _ _ c)
      · simp at hx; subst hx; exact keyGt_irrefl _
    · have c' : keyGt (key m) q = false := by simpa using c
      simp only [omax, c', Bool.false_eq_true, if_false]
      refine ⟨⟨mq, by simp [hmq], hkq⟩, fun x hx => ?_⟩
      rcases List.mem_append.mp hx with hx | hx
      · exact hall x hx
      · simp at hx; subst hx; exact c'

/-- the invariant of tracked saves on one group of the capped memory backend -/
structure PtrInv (s : MemStore) (gid : Nat) : Prop where
  pinv : PInv s
  grp : ∃ g, findGroup s.u gid = some g ∧ PtrWF g ∧ GroupWithin g ∧ MaxOf (ptr g) (groupMsgs s.u gid)
  nd : ((groupMsgs s.u gid).map (·.id)).Nodup

theorem trackedSave_inv (s : MemStore) (gid : Nat) (h : PtrInv s gid) (hcap : 2 ≤ s.msgCap) (m : Msg) (hm : m.gid = gid)
    (hfresh : ∀ x ∈ groupMsgs s.u gid, x.id ≠ m.id) :
    PtrInv (trackedSave s m) gid ∧ (trackedSave s m).msgCap = s.msgCap ∧
      ∀ x ∈ groupMsgs (trackedSave s m).u gid, x = m ∨ x ∈ groupMsgs s.u gid := by
  subst hm
  obtain ⟨g, hg, hwf, hl, hmax⟩ := h.grp
  have hfresh' : ∀ x ∈ s.u.msgs, ¬ (x.gid = m.gid ∧ x.id = m.id) := by
    rintro x hx ⟨e1, e2⟩
    exact hfresh x (List.mem_filter.mpr ⟨hx, by simpa using e1⟩) e2
  obtain ⟨s1, hs1, hf, hms⟩ := saveMessage_new s m g hg hfresh'
  have hg1 : findGroup s1.u m.gid = some g := by
    have : s1.u.groups = s.u.groups := congrArg GI.groups hf.gi
    simp only [findGroup, this]; exact hg
  have hp1 : PInv s1 := pinv_frame s s1 h.pinv hf
  obtain ⟨s2, hs2, hg2, hmsgs, hp2, hmc⟩ := updLast_tracked s1 hp1 m.gid g hg1 hl (key m)
  have ets : trackedSave s m = s2 := by
    simp only [trackedSave, hs1, MemLru.okErr, MemLru.updLastOp, hg1, hs2]
  have hgm2 : groupMsgs s2.u m.gid = afterSave s m := by
    simp only [groupMsgs, hmsgs]; exact hms
  -- the stored messages after the save, and their largest key
  have hafter : MaxOf (omax (ptr g) (key m)) (afterSave s m) ∧ ((afterSave s m).map (·.id)).Nodup ∧
      ∀ x ∈ afterSave s m, x = m ∨ x ∈ groupMsgs s.u m.gid := by
    unfold afterSave
    cases hv : (if capHit s m then victim (groupMsgs s.u m.gid) else none) with
    | none =>
      simp only []
      refine ⟨maxOf_add _ _ hmax m, ?_, ?_⟩
      · rw [List.map_append, List.nodup_append]
        refine ⟨h.nd, by simp, ?_⟩
        intro a ha b hb
        simp at hb; subst hb
        obtain ⟨x, hx, rfl⟩ := List.mem_map.mp ha
        exact hfresh x hx
      · intro x hx
        rcases List.mem_append.mp hx with hx | hx
        · exact Or.inr hx
        · simp at hx; exact Or.inl hx
    | some vid =>
      simp only []
      have hch : capHit s m = true := by
        by_cases c : capHit s m = true
        · exact c
        · rw [if_neg c] at hv; cases hv
      rw [if_pos hch] at hv
      obtain ⟨v, hva, hvid⟩ : ∃ v, argMin capLt (groupMsgs s.u m.gid) = some v ∧ v.id = vid := by
        unfold victim at hv
        cases ha : argMin capLt (groupMsgs s.u m.gid) with
        | none => rw [ha] at hv; cases hv
        | some v => rw [ha] at hv; exact ⟨v, rfl, by simpa using hv⟩
      have hlen : 2 ≤ (groupMsgs s.u m.gid).length := by
        simp only [capHit, Bool.and_eq_true, decide_eq_true_eq] at hch
        omega
      subst hvid
      refine ⟨maxOf_add _ _ (maxOf_evict _ _ hmax h.nd v hva hlen) m, ?_, ?_⟩
      · rw [List.map_append, List.nodup_append]
        refine ⟨h.nd.sublist (List.Sublist.map _ List.filter_sublist), by simp, ?_⟩
        intro a ha b hb
        simp at hb; subst hb
        obtain ⟨x, hx, rfl⟩ := List.mem_map.mp ha
        exact hfresh x (List.mem_filter.mp hx).1
      · intro x hx
        rcases List.mem_append.mp hx with hx | hx
        · exact Or.inr (List.mem_filter.mp hx).1
        · simp at hx; exact Or.inl hx
  rw [ets]
  refine ⟨⟨hp2, ⟨updLast g (key m), hg2, updLast_wf g _ hwf, (updLast_fields g _).2.2 hl, ?_⟩, by rw [hgm2]; exact hafter.2.1⟩,
    hmc.trans hf.mcap, by rw [hgm2]; exact hafter.2.2⟩
  rw [hgm2]
  have hptr : ptr (updLast g (key m)) = omax (ptr g) (key m) := by
    rw [updLast_max g (key m) hwf]; cases ptr g <;> rfl
  rw [hptr]; exact hafter.1


theorem ptrInv_head (s : MemStore) (gid : Nat) (h : PtrInv s gid) :
    ∃ g, findGroup s.u gid = some g ∧ ptr g = (listing s.u gid 0).head?.map key := by
  obtain ⟨g, hg, _, _, hmax⟩ := h.grp
  refine ⟨g, hg, ?_⟩
  have hl : listing s.u gid 0 = sortBy createdFirstBefore (groupMsgs s.u gid) := by simp [listing, orderOf]
  rw [hl]
  cases hp : ptr g with
  | none =>
    rw [hp] at hmax
    have : groupMsgs s.u gid = [] := hmax
    rw [this]; rfl
  | some q =>
    rw [hp] at hmax
    exact (head_of_maxOf _ q hmax).symm

theorem trackedRun_inv (ms : List Msg) : ∀ (s0 : MemStore) (gid : Nat), PtrInv s0 gid → 2 ≤ s0.msgCap →
    (∀ m ∈ ms, m.gid = gid) → (ms.map (·.id)).Nodup → (∀ x ∈ groupMsgs s0.u gid, x.id ∉ ms.map (·.id)) →
    PtrInv (ms.foldl trackedSave s0) gid := by
  induction ms with
  | nil => intro s0 gid h _ _ _ _; exact h
  | cons m t ih =>
    intro s0 gid h hcap hg hnd hfresh
    simp only [List.map_cons, List.nodup_cons] at hnd
    have hf0 : ∀ x ∈ groupMsgs s0.u gid, x.id ≠ m.id := fun x hx e => hfresh x hx (by simp [e])
    obtain ⟨h1, h2, h3⟩ := trackedSave_inv s0 gid h hcap m (hg m (by simp)) hf0
    simp only [List.foldl_cons]
    refine ih _ gid h1 (by rw [h2]; exact hcap) (fun x hx => hg x (List.mem_cons_of_mem _ hx)) hnd.2 ?_
    intro x hx
    rcases h3 x hx with rfl | hx'
    · exact hnd.1
    · intro c; exact hfresh x hx' (by simp [c])

/-- **the pointer under the message cap.**  On the memory backend with its LRU caches and
    `max_messages_per_group ≥ 2`, from any state in which group `gid` is held with a pointer that designates the head
    of its stored messages (`PtrInv`: in particular a fresh group), for EVERY history of tracked saves of new message
    ids to that group — any number of them, any timestamps incl. equal seconds, far beyond the cap — the pointer of
    the stored record designates the first message of the default order among the messages the group still holds:
    the eviction never removes the head. -/
theorem ptr_tracks_head_capped (s0 : MemStore) (gid : Nat) (h0 : PtrInv s0 gid) (hcap : 2 ≤ s0.msgCap) (ms : List Msg)
    (hg : ∀ m ∈ ms, m.gid = gid) (hnd : (ms.map (·.id)).Nodup) (hfresh : ∀ x ∈ groupMsgs s0.u gid, x.id ∉ ms.map (·.id)) :
    ∃ g, findGroup (ms.foldl trackedSave s0).u gid = some g ∧
      ptr g = (listing (ms.foldl trackedSave s0).u gid 0).head?.map key :=
  ptrInv_head _ gid (trackedRun_inv ms s0 gid h0 hcap hg hnd hfresh)

/-- a group saved into a fresh backend satisfies the invariant -/
theorem ptrInv_fresh (cap msgCap : Nat) (hcap : 0 < cap) (g0 : Group) (hl : GroupWithin g0)
    (hp : g0.lastAt = none ∧ g0.lastProc = none ∧ g0.lastId = none) :
    ∃ s0, MemLru.saveGroup (MemStore.empty cap msgCap) g0 = some s0 ∧ PtrInv s0 g0.gid ∧ s0.msgCap = msgCap ∧
      groupMsgs s0.u g0.gid = [] := by
  have hpe := pinv_empty cap msgCap hcap
  obtain ⟨u', hu'⟩ := storeSaveGroup_ok (MemStore.empty cap msgCap).u g0 rfl hl (fun o ho => by cases ho)
  have hs := saveGroup_eq (MemStore.empty cap msgCap) g0 u' hu'
  have hu := saveGroup_mem_some _ u' g0 rfl hu'
  obtain ⟨_, _, _, _, _, e6, e7⟩ := of_saveGroup _ g0 _ rfl hs
  have t1 := Lru.qTouch_none cap g0.gid ([] : List Nat) (Or.inr hcap)
  have t2 := Lru.qTouch_none cap g0.nid ([] : List Nat) (Or.inr hcap)
  have hfind : findGroup (putByNid (putGroups { MemStore.empty cap msgCap with u := u', qByNid := staleQ (MemStore.empty cap msgCap) g0 } g0.gid) g0.nid).u g0.gid = some g0 := by
    rw [putGroups_room { MemStore.empty cap msgCap with u := u', qByNid := staleQ (MemStore.empty cap msgCap) g0 } g0.gid t1,
      putByNid_room _ g0.nid t2]
    show findGroup u' g0.gid = _
    rw [hu]; exact find_replaceGroup_self _ _
  have hm : groupMsgs (putByNid (putGroups { MemStore.empty cap msgCap with u := u', qByNid := staleQ (MemStore.empty cap msgCap) g0 } g0.gid) g0.nid).u g0.gid = [] := by
    simp only [groupMsgs, e7]; rfl
  refine ⟨_, hs, ⟨pinv_saveGroup _ hpe g0 _ hs, ⟨g0, hfind, Or.inl hp, hl, ?_⟩, by rw [hm]; exact List.nodup_nil⟩, e6, hm⟩
  have : ptr g0 = none := by simp [ptr, hp.1]
  rw [this, hm]; rfl

/-- non-vacuity and regression: cap 2, three messages of the same second saved in turn — the listing keeps ids 2 and 3,
    the pointer designates 3 (before /repo 3a82aa4 the map's iteration order decided, and listing [1, 3] with the
    pointer at 2 was possible) -/
def capGroup : Group :=
  { gid := 1, nid := 11, nameLen := 3, descLen := 0, admins := 1, img := 0, lastId := none, lastAt := none,
    lastProc := none, epoch := 0, state := 0, selfUpd := 0 }
def capMsg (id created processed : Nat) : Msg :=
  { id := id, gid := 1, pk := 0, kind := 9, created := created, processed := processed, content := 1, contentLen := 8,
    tag := 0, wrapper := id, epoch := some 1, state := 1 }
def capStart (cap msgCap : Nat) : MemStore := (MemLru.okErr (MemLru.saveGroup (MemStore.empty cap msgCap) capGroup) (MemStore.empty cap msgCap)).1

theorem witness_equal_seconds_at_cap :
    let s := [capMsg 1 5 5, capMsg 2 5 5, capMsg 3 5 5].foldl trackedSave (capStart 4 2)
    (listing s.u 1 0).map (·.id) = [3, 2] ∧ (findGroup s.u 1).map ptr = some (some (5, 5, 3)) := by decide

/-- the hypothesis `2 ≤ max_messages_per_group` is needed: with a cap of ONE a new message that is OLDER than the
    stored one evicts the stored message — the head of the order — and the pointer keeps designating the message that
    is gone (`mem-cap-1-evicts-pointer-target`; corpus/C18/lru_cap1_pointer.trace) -/
theorem witness_cap_one_evicts_head :
    let s := [capMsg 1 200 200, capMsg 2 100 100].foldl trackedSave (capStart 4 1)
    (listing s.u 1 0).map (·.id) = [2] ∧ (findGroup s.u 1).map ptr = some (some (200, 200, 1)) ∧
    findMessage s.u 1 1 = none := by decide

def ptr_tracks_head_capped_full : Prop :=
  ∀ (s0 : MemStore) (gid : Nat), PtrInv s0 gid → ∀ ms : List Msg, (∀ m ∈ ms, m.gid = gid) → (ms.map (·.id)).Nodup →
    (∀ x ∈ groupMsgs s0.u gid, x.id ∉ ms.map (·.id)) →
    ∃ g, findGroup (ms.foldl trackedSave s0).u gid = some g ∧ ptr g = (listing (ms.foldl trackedSave s0).u gid 0).head?.map key

theorem ptr_tracks_head_capped_full_false : ¬ ptr_tracks_head_capped_full := by
  intro h
  obtain ⟨s0, hs0, hinv, _, hm⟩ := ptrInv_fresh 4 1 (by decide) capGroup (by unfold GroupWithin; decide) ⟨rfl, rfl, rfl⟩
  have e : s0 = capStart 4 1 := by simp only [capStart, hs0, MemLru.okErr]
  subst e
  have hm' : groupMsgs (capStart 4 1).u 1 = [] := hm
  have hfr : ∀ x ∈ groupMsgs (capStart 4 1).u 1, x.id ∉ [capMsg 1 200 200, capMsg 2 100 100].map (·.id) := by
    rw [hm']; intro x hx; cases hx
  obtain ⟨g, hg, hp⟩ := h _ 1 hinv [capMsg 1 200 200, capMsg 2 100 100] (by decide) (by decide) hfr
  have w := witness_cap_one_evicts_head
  simp only at w
  rw [hg] at w
  simp only [Option.map_some, Option.some.injEq] at w
  rw [w.2.1] at hp
  have hl : (listing (List.foldl trackedSave (capStart 4 1) [capMsg 1 200 200, capMsg 2 100 100]).u 1 0).head?.map key = some (100, 100, 2) := by decide
  rw [hl] at hp
  cases hp

end MdkVerif.Props.C18
