import MdkVerif.Model.Wrap
import MdkVerif.Proofs.Wrap
/-
  C06 (outer layer) / C08 (routing) — `process_message` up to the MLS layer, for a client that holds several
  groups, over `Model.Wrap` (which follows the code incl. its defects; every constant is regenerated from the
  source).  All statements are for EVERY store, configuration, clock reading and raw event.

  1 `wrap_accept_iff`                 decision logic: exactly when an event reaches the MLS layer of a group
  2 `wrap_refuse_frame`               a refusal changes no group (but for the exporter-secret cache) and no OTHER record
  3 `wrap_routes_only_by_current_id`  a result names a group only if the event's tag is that group's current id;
    `wrap_old_id_no_longer_routes`    after a rotation the old id routes nowhere
  4 `wrap_redeliver`                  a refused event stays refused, any number of times, at any later time, and
                                      changes nothing at all
  5 `wrap_failed_record`, `wrap_reason_table`   what is written, and that the reason is one of the fixed table
  6 `wrap_no_panic` (the full statement, since the guard of /repo a6aae31; `wrap_short_payload_refused` is the former panic witness);
    `wrap_no_panic_partial`, `wrap_no_panic_of_guard`
-/
namespace MdkVerif.Props.C06Wrap
open MdkVerif MdkVerif.Wrap

/-! ### 1. acceptance, as decision logic -/

/-- **wrap_accept_iff**: `decrypt_message` hands the plaintext `i` to the MLS layer of the group `g` IFF the event
    is not blocked by a Failed / EpochInvalidated record ∧ its kind is 445 ∧ created_at lies in the window
    [now ⊖ max_age, now ⊕ skew] ∧ exactly one tag is named `h`, its value is 64 hex characters (either case)
    ∧ `g` is the group found under the decoded id ∧ its MLS group loads ∧ one of the secrets tried for `g`
    (the current one, then the stored ones of the LOOKBACK previous epoch numbers) opens the content -/
theorem wrap_accept_iff (cfg : Cfg) (now : Nat) (st : Store) (e : Ev) (g : Group) (i : Inner) :
    outer cfg now st e = .opened g i ↔
      isBlocked st e = false ∧
      e.kind = Generated.kindMlsGroupMessage ∧
      e.createdAt ≤ satAdd now cfg.skew ∧ now - cfg.maxAge ≤ e.createdAt ∧
      (∃ t v nid, hTags e = [t] ∧ t[1]? = some v ∧ v.length = Generated.hTagHexLen ∧ hexDecode v = some nid ∧
        findGroup st.groups nid = some g) ∧
      g.loadable = true ∧
      ∃ k ∈ g.keys, nip44Open e.content k = .ok i := by
  have hval : ∀ nid, validate cfg now e = .ok nid ↔
      e.kind = Generated.kindMlsGroupMessage ∧ e.createdAt ≤ satAdd now cfg.skew ∧ now - cfg.maxAge ≤ e.createdAt ∧
      ∃ t v, hTags e = [t] ∧ t[1]? = some v ∧ v.length = Generated.hTagHexLen ∧ hexDecode v = some nid := by
    intro nid
    rw [validate_ok, extractNid_ok]
  unfold outer
  by_cases hb : isBlocked st e = true
  · simp [hb]
  · have hb' : isBlocked st e = false := by simpa using hb
    simp only [hb', Bool.false_eq_true, if_false, true_and]
    cases hv : validate cfg now e with
    | error k =>
      simp only [reduceCtorEq, false_iff]
      rintro ⟨hk, h1, h2, ⟨t, v, nid, ht, hv1, hl, hd, _⟩, _⟩
      have := (hval nid).mpr ⟨hk, h1, h2, t, v, ht, hv1, hl, hd⟩
      rw [hv] at this; cases this
    | ok nid =>
      obtain ⟨hk, h1, h2, t, v, ht, hv1, hl, hd⟩ := (hval nid).mp hv
      have huniq : ∀ t' v' nid', hTags e = [t'] → t'[1]? = some v' → hexDecode v' = some nid' → nid' = nid := by
        intro t' v' nid' ht' hv' hd'
        rw [ht] at ht'; cases ht'
        rw [hv1] at hv'; cases hv'
        rw [hd] at hd'; exact (Option.some.inj hd').symm
      simp only [hk, h1, h2, true_and]
      cases hf : findGroup st.groups nid with
      | none =>
        simp only [reduceCtorEq, false_iff]
        rintro ⟨⟨t', v', nid', ht', hv', _, hd', hf'⟩, _⟩
        rw [huniq t' v' nid' ht' hv' hd', hf] at hf'; cases hf'
      | some g0 =>
        simp only
        by_cases hl0 : g0.loadable = true
        · simp only [hl0, Bool.not_true, Bool.false_eq_true, if_false]
          cases ho : openWith e.content g0.keys with
          | err =>
            simp only [reduceCtorEq, false_iff]
            rintro ⟨⟨t', v', nid', ht', hv', _, hd', hf'⟩, _, k, hkm, hko⟩
            rw [huniq t' v' nid' ht' hv' hd', hf] at hf'
            have hgg : g0 = g := Option.some.inj hf'
            rw [← hgg] at hkm
            have := (openWith_err_iff e.content g0.keys).mp ho k hkm
            rw [this] at hko; cases hko
          | panic =>
            simp only [reduceCtorEq, false_iff]
            rintro ⟨⟨t', v', nid', ht', hv', _, hd', hf'⟩, _, k, hkm, hko⟩
            rw [huniq t' v' nid' ht' hv' hd', hf] at hf'
            have hgg : g0 = g := Option.some.inj hf'
            rw [← hgg] at hkm
            have := (openWith_eq e.content g0.keys (.ok i) (by simp)).mpr ⟨k, hkm, hko⟩
            rw [ho] at this; cases this
          | ok i0 =>
            have hex := (openWith_eq e.content g0.keys (.ok i0) (by simp)).mp ho
            simp only [Outer.opened.injEq]
            constructor
            · rintro ⟨rfl, rfl⟩
              exact ⟨⟨t, v, nid, ht, hv1, hl, hd, hf⟩, hl0, hex⟩
            · rintro ⟨⟨t', v', nid', ht', hv', _, hd', hf'⟩, _, k, hkm, hko⟩
              rw [huniq t' v' nid' ht' hv' hd', hf] at hf'
              have hgg : g0 = g := Option.some.inj hf'
              rw [← hgg] at hkm
              have := (openWith_eq e.content g0.keys (.ok i) (by simp)).mpr ⟨k, hkm, hko⟩
              rw [ho] at this; cases this
              exact ⟨hgg, rfl⟩
        · have hl0' : g0.loadable = false := by simpa using hl0
          simp only [hl0', Bool.not_false, if_true, reduceCtorEq, false_iff]
          rintro ⟨⟨t', v', nid', ht', hv', _, hd', hf'⟩, hld, _⟩
          rw [huniq t' v' nid' ht' hv' hd', hf] at hf'; cases hf'
          rw [hl0'] at hld; cases hld

/-- the result `handed g` is exactly: opened for a group with that MLS group id, and the plaintext is an MLS
    message of that very group -/
theorem wrap_handed_iff (cfg : Cfg) (now : Nat) (st : Store) (e : Ev) (gid : Nat) :
    (process cfg now st e).2 = .handed gid ↔ ∃ g, outer cfg now st e = .opened g (.mls g.gid) ∧ g.gid = gid := by
  unfold process
  cases ho : outer cfg now st e with
  | opened g i =>
    simp only
    by_cases hi : i = .mls g.gid
    · simp only [hi, if_true, Res.handed.injEq, Outer.opened.injEq]
      constructor
      · intro h; exact ⟨g, ⟨rfl, rfl⟩, h⟩
      · rintro ⟨g', ⟨rfl, _⟩, h⟩; exact h
    · simp only [hi, if_false, reduceCtorEq, false_iff]
      rintro ⟨g', hg', _⟩
      cases hg'; exact hi rfl
  | blockedAs r =>
    simp only [reduceCtorEq, exists_false, false_and, iff_false]
    have hbr : ∀ g, blockedResult st e ≠ .handed g := by
      intro g; unfold blockedResult; repeat' split
      all_goals simp
    unfold outer at ho
    split at ho
    · cases ho; exact hbr gid
    · repeat' split at ho
      all_goals cases ho
  | _ => simp

/-- with pairwise distinct current ids (both backends enforce it) "the group found under the id" is THE group
    whose current nostr group id equals the tag -/
theorem wrap_accept_unique (cfg : Cfg) (now : Nat) (st : Store) (e : Ev) (g : Group) (i : Inner)
    (hd : st.groups.Pairwise (fun a b => a.nid ≠ b.nid)) (h : outer cfg now st e = .opened g i) :
    g ∈ st.groups ∧ extractNid e = .ok g.nid ∧ ∀ g' ∈ st.groups, extractNid e = .ok g'.nid → g' = g := by
  obtain ⟨_, _, _, _, ⟨t, v, nid, ht, hv, hl, hdec, hf⟩, _, _⟩ := (wrap_accept_iff cfg now st e g i).mp h
  have hx : extractNid e = .ok nid := by
    unfold extractNid tagValue
    simp [ht, hv, hl, hdec]
  obtain ⟨hm, hn⟩ := findGroup_some hf
  refine ⟨hm, by rw [hx, hn], ?_⟩
  intro g' hg' hx'
  rw [hx] at hx'
  have h1 : findGroup st.groups nid = some g' := (findGroup_iff hd nid g').mpr ⟨hg', (Except.ok.inj hx').symm⟩
  rw [hf] at h1; exact (Option.some.inj h1).symm

/-! ### 2. a refused event has no effect -/

/-- the groups after `process` are the old ones, one of them possibly with its exporter-secret cache filled -/
theorem process_groups (cfg : Cfg) (now : Nat) (st : Store) (e : Ev) :
    (process cfg now st e).1.groups = st.groups ∨ ∃ g, (process cfg now st e).1.groups = touch st.groups g := by
  unfold process
  split
  · left; rfl
  · left; rfl
  · left; rfl
  · left; rfl
  · right; exact ⟨_, rfl⟩
  · right; exact ⟨_, rfl⟩
  · right
    split
    · exact ⟨_, rfl⟩
    · exact ⟨_, rfl⟩

theorem process_recs_other (cfg : Cfg) (now : Nat) (st : Store) (e : Ev) (n : Nat) (h : n ≠ e.id) :
    alookup n (process cfg now st e).1.recs = alookup n st.recs := by
  unfold process
  split
  · rfl
  · exact recordFailure_other _ _ _ _ _ _ h
  · exact recordFailure_other _ _ _ _ _ _ h
  · exact recordFailure_other _ _ _ _ _ _ h
  · rw [recordFailure_other _ _ _ _ _ _ h]
  · rfl
  · split
    · rfl
    · rw [recordFailure_other _ _ _ _ _ _ h]

/-- **wrap_refuse_frame**: whatever the outer layer answers (refusal, hand-over, even the panic), every group's
    nostr id, epochs, exporter state, loadability and opaque inner state (MLS state, members, data, proposals,
    messages) are exactly as before, every OTHER event's record is exactly as before, and a group's secret cache
    either is as before or gained the current epoch's own secret — for all stores and events.  In particular
    this holds whenever `process_message` reports failure. -/
theorem wrap_refuse_frame (cfg : Cfg) (now : Nat) (st : Store) (e : Ev) :
    (process cfg now st e).1.groups.map Group.frame = st.groups.map Group.frame ∧
    (∀ n, n ≠ e.id → alookup n (process cfg now st e).1.recs = alookup n st.recs) ∧
    (∀ x ∈ (process cfg now st e).1.groups, ∃ y ∈ st.groups, x = y ∨ x = y.ensure) := by
  refine ⟨?_, fun n h => process_recs_other cfg now st e n h, ?_⟩
  · rcases process_groups cfg now st e with h | ⟨g, h⟩
    · rw [h]
    · rw [h, touch_frame]
  · intro x hx
    rcases process_groups cfg now st e with h | ⟨g, h⟩
    · rw [h] at hx; exact ⟨x, hx, Or.inl rfl⟩
    · rw [h] at hx; exact touch_mem hx

/-- the full statement (the groups are EQUAL after a refusal) … -/
def wrap_refuse_frame_full : Prop :=
  ∀ (cfg : Cfg) (now : Nat) (st : Store) (e : Ev), isRefusal (process cfg now st e).2 = true → (process cfg now st e).1.groups = st.groups

/-- … holds when the current epoch's exporter secret of every group is already stored (it is after the first
    message sent or received in that epoch) -/
theorem wrap_refuse_frame_stored (cfg : Cfg) (now : Nat) (st : Store) (e : Ev)
    (hs : ∀ g ∈ st.groups, (alookup g.epoch g.secrets).isSome = true) :
    (process cfg now st e).1.groups = st.groups := by
  have key : ∀ g, findGroup st.groups (g.nid) = some g ∨ g ∈ st.groups → touch st.groups g = st.groups := by
    intro g hg
    apply touch_of_stored
    rcases hg with hg | hg
    · exact hs g (findGroup_some hg).1
    · exact hs g hg
  have hmem : ∀ g, (outer cfg now st e = .undecryptable g ∨ outer cfg now st e = .panicked g ∨ ∃ i, outer cfg now st e = .opened g i) → g ∈ st.groups := by
    intro g hg
    unfold outer at hg
    split at hg
    · rcases hg with hg | hg | ⟨_, hg⟩ <;> cases hg
    · split at hg
      · rcases hg with hg | hg | ⟨_, hg⟩ <;> cases hg
      · split at hg
        · rcases hg with hg | hg | ⟨_, hg⟩ <;> cases hg
        · rename_i g0 hf
          split at hg
          · rcases hg with hg | hg | ⟨_, hg⟩ <;> cases hg
          · split at hg
            · rcases hg with hg | hg | ⟨_, hg⟩
              · cases hg; exact (findGroup_some hf).1
              · cases hg
              · cases hg
            · rcases hg with hg | hg | ⟨_, hg⟩
              · cases hg
              · cases hg; exact (findGroup_some hf).1
              · cases hg
            · rcases hg with hg | hg | ⟨_, hg⟩
              · cases hg
              · cases hg
              · cases hg; exact (findGroup_some hf).1
  unfold process
  split
  · rfl
  · rfl
  · rfl
  · rfl
  · rename_i g ho
    simp only [recordFailure_groups]
    exact key g (Or.inr (hmem g (Or.inl ho)))
  · rename_i g ho
    exact key g (Or.inr (hmem g (Or.inr (Or.inl ho))))
  · rename_i g i ho
    have := key g (Or.inr (hmem g (Or.inr (Or.inr ⟨i, ho⟩))))
    split
    · exact this
    · simp only [recordFailure_groups]; exact this

/-- … and is false in general: a refused event fills the exporter-secret cache of the group it was routed to
    (`exporter_secret()` stores what it exports before the decryption is even tried) -/
def wG : Group := { gid := 0, nid := [1, 2], epoch := 1, recEpoch := 1, curSid := 7, secrets := [], loadable := true, inner := 0 }
def wTag : Tag := [hName, [48, 49, 48, 50] ++ List.replicate 60 48]    -- "h", "0102" followed by zeros …
def wGl : Group := { wG with nid := [1, 2] ++ List.replicate 30 0 }
def wSt : Store := ⟨[wGl], []⟩
def wGarbage : Ev := { id := 1, kind := 445, createdAt := 1000, tags := [wTag], content := .notBase64 }

theorem wrap_refuse_frame_full_false : ¬ wrap_refuse_frame_full := by
  intro h
  have := h Cfg.default 1000 wSt wGarbage (by decide)
  revert this; decide

/-! ### 3. routing -/

/-- **wrap_routes_only_by_current_id**: whenever the answer names a group (the plaintext was handed to its MLS layer,
    or the event is reported Unprocessable for it), that group is in the store and the event's h tag decodes to
    its CURRENT nostr group id -/
theorem wrap_routes_only_by_current_id (cfg : Cfg) (now : Nat) (st : Store) (e : Ev) (gid : Nat)
    (h : (process cfg now st e).2 = .handed gid ∨ (process cfg now st e).2 = .unprocessable gid) :
    ∃ g ∈ st.groups, g.gid = gid ∧ extractNid e = .ok g.nid := by
  have opened : ∀ g i, outer cfg now st e = .opened g i → g ∈ st.groups ∧ extractNid e = .ok g.nid := by
    intro g i ho
    obtain ⟨_, _, _, _, ⟨t, v, nid, ht, hv, hl, hdec, hf⟩, _, _⟩ := (wrap_accept_iff cfg now st e g i).mp ho
    obtain ⟨hm, hn⟩ := findGroup_some hf
    refine ⟨hm, ?_⟩
    unfold extractNid tagValue
    simp [ht, hv, hl, hdec, hn]
  unfold process at h
  split at h
  · -- blocked: `extract_mls_group_id_from_event`
    rename_i r ho
    unfold outer at ho
    split at ho
    · cases ho
      simp only at h
      unfold blockedResult at h
      split at h
      · rename_i nid hx
        split at h
        · rename_i g hf
          obtain ⟨hm, hn⟩ := findGroup_some hf
          rcases h with h | h
          · cases h
          · cases h; exact ⟨g, hm, rfl, by rw [hx, hn]⟩
        · rcases h with h | h <;> cases h
      · rcases h with h | h <;> cases h
    · repeat' split at ho
      all_goals cases ho
  · rcases h with h | h <;> cases h
  · rcases h with h | h <;> cases h
  · rcases h with h | h <;> cases h
  · rcases h with h | h <;> cases h
  · rcases h with h | h <;> cases h
  · rename_i g i ho
    obtain ⟨hm, hx⟩ := opened g i ho
    split at h
    · rcases h with h | h
      · cases h; exact ⟨g, hm, rfl, hx⟩
      · cases h
    · rcases h with h | h
      · cases h
      · cases h; exact ⟨g, hm, rfl, hx⟩

/-- **wrap_old_id_no_longer_routes**: after the group `gid` — the only holder of the id `old` — rotated to another id,
    an event tagged with `old` is handed to NO group and reported for no group, whatever else it carries -/
theorem wrap_old_id_no_longer_routes (cfg : Cfg) (now : Nat) (st : Store) (e : Ev) (gid : Nat) (old new : Bytes)
    (hne : new ≠ old) (honly : ∀ g ∈ st.groups, g.nid = old → g.gid = gid) (htag : extractNid e = .ok old) (g' : Nat) :
    (process cfg now (rotate st gid new) e).2 ≠ .handed g' ∧ (process cfg now (rotate st gid new) e).2 ≠ .unprocessable g' := by
  have none_left : ∀ g ∈ (rotate st gid new).groups, g.nid ≠ old := by
    intro g hg
    unfold rotate at hg
    obtain ⟨y, hy, rfl⟩ := List.mem_map.mp hg
    split
    · exact hne
    · rename_i hgid
      intro hn
      exact hgid (honly y hy hn)
  constructor
  · intro h
    obtain ⟨g, hg, _, hx⟩ := wrap_routes_only_by_current_id cfg now _ e g' (Or.inl h)
    rw [htag] at hx
    exact none_left g hg (Except.ok.inj hx).symm
  · intro h
    obtain ⟨g, hg, _, hx⟩ := wrap_routes_only_by_current_id cfg now _ e g' (Or.inr h)
    rw [htag] at hx
    exact none_left g hg (Except.ok.inj hx).symm

/-! ### 4. re-delivery of a refused event -/

theorem blocked_process (cfg : Cfg) (now : Nat) (st : Store) (e : Ev) (h : isBlocked st e = true) :
    process cfg now st e = (st, blockedResult st e) := by
  unfold process outer
  simp [h]

theorem blockedResult_refusal (st : Store) (e : Ev) : isRefusal (blockedResult st e) = true := by
  unfold blockedResult
  repeat' split
  all_goals rfl

/-- after a refusal the event is blocked by its own Failed record -/
theorem refused_then_blocked (cfg : Cfg) (now : Nat) (st : Store) (e : Ev) (h : isRefusal (process cfg now st e).2 = true) :
    isBlocked (process cfg now st e).1 e = true := by
  have fail : ∀ (s : Store) (k : ErrKind) (g ep : Option Nat), isBlocked (recordFailure s e.id k g ep) e = true := by
    intro s k g ep
    obtain ⟨r, hr, hs, _⟩ := recordFailure_self s e.id k g ep
    unfold isBlocked
    rw [hr]
    exact blocked_failed r hs
  unfold process at h ⊢
  split
  · rename_i r ho
    unfold outer at ho
    split at ho
    · rename_i hb; exact hb
    · repeat' split at ho
      all_goals cases ho
  · exact fail _ _ _ _
  · exact fail _ _ _ _
  · exact fail _ _ _ _
  · exact fail _ _ _ _
  · rename_i g ho
    simp [ho, isRefusal] at h
  · rename_i g i ho
    simp only [ho] at h
    split
    · rename_i hi; simp [hi, isRefusal] at h
    · exact fail _ _ _ _

/-- **wrap_redeliver**: once an event was refused, offering it again — any number of times, at any later clock
    readings — leaves the WHOLE store (groups incl. the secret cache, every record) exactly as the first refusal
    left it, and every further answer is again a refusal (Unprocessable / PreviouslyFailed from step 0) -/
theorem wrap_redeliver (cfg : Cfg) (now : Nat) (st : Store) (e : Ev) (h : isRefusal (process cfg now st e).2 = true)
    (nows : List Nat) :
    offerAgain cfg e nows (process cfg now st e).1 = (process cfg now st e).1 ∧
    ∀ now', (process cfg now' (process cfg now st e).1 e).1 = (process cfg now st e).1 ∧
            isRefusal (process cfg now' (process cfg now st e).1 e).2 = true := by
  have hb := refused_then_blocked cfg now st e h
  have step : ∀ now', process cfg now' (process cfg now st e).1 e = ((process cfg now st e).1, blockedResult (process cfg now st e).1 e) :=
    fun now' => blocked_process cfg now' _ e hb
  constructor
  · induction nows with
    | nil => rfl
    | cons n r ih =>
      unfold offerAgain
      rw [step n]
      exact ih
  · intro now'
    rw [step now']
    exact ⟨rfl, blockedResult_refusal _ e⟩

/-! ### 5. what a refusal writes -/

/-- the error kinds the outer layer itself returns -/
def outerError (cfg : Cfg) (now : Nat) (st : Store) (e : Ev) : Option ErrKind :=
  match outer cfg now st e with
  | .invalid k => some k
  | .noGroup => some .groupNotFound
  | .notLoadable _ => some .groupNotFound
  | .undecryptable _ => some .message
  | _ => none

/-- **wrap_failed_record**: an error of the outer layer is returned as that error and leaves a record in state
    Failed whose reason is the sanitised reason of that error kind; the message id of an earlier record is kept -/
theorem wrap_failed_record (cfg : Cfg) (now : Nat) (st : Store) (e : Ev) (k : ErrKind) (h : outerError cfg now st e = some k) :
    (process cfg now st e).2 = .err k ∧
    ∃ r, alookup e.id (process cfg now st e).1.recs = some r ∧ r.state = 3 ∧ r.reason = some (reasonOf k) ∧
      r.mid = (alookup e.id st.recs).bind (·.mid) := by
  unfold outerError at h
  unfold process
  split at h <;> rename_i ho
  · cases h; rw [ho]; exact ⟨rfl, recordFailure_self _ _ _ _ _⟩
  · cases h; rw [ho]; exact ⟨rfl, recordFailure_self _ _ _ _ _⟩
  · cases h; rw [ho]; exact ⟨rfl, recordFailure_self _ _ _ _ _⟩
  · cases h; rw [ho]; exact ⟨rfl, recordFailure_self _ _ _ _ _⟩
  · cases h

/-- **wrap_reason_table**: the reason written for any error kind of this layer is an entry of the fixed table
    `sanitize_error_reason` can return (regenerated from the source), and no entry of that table can carry an
    identifier: at most 24 bytes, lower-case letters and underscores only -/
theorem wrap_reason_table (k : ErrKind) :
    reasonOf k < Generated.sanitizeReasons.length ∧
    ∀ s ∈ Generated.sanitizeReasons, s.length ≤ 24 ∧ ∀ c ∈ s, (97 ≤ c ∧ c ≤ 122) ∨ c = 95 := by
  constructor
  · cases k <;> decide
  · decide

/-- the reasons of the early failures, spelled out -/
theorem wrap_reason_values :
    Generated.sanitizeReasons[reasonOf .unexpectedEvent]? =
      some [105, 110, 118, 97, 108, 105, 100, 95, 101, 118, 101, 110, 116, 95, 116, 121, 112, 101] ∧       -- "invalid_event_type"
    Generated.sanitizeReasons[reasonOf .invalidTimestamp]? = Generated.sanitizeReasons[reasonOf .missingTag]? ∧
    Generated.sanitizeReasons[reasonOf .missingTag]? = Generated.sanitizeReasons[reasonOf .multipleTags]? ∧
    Generated.sanitizeReasons[reasonOf .multipleTags]? = Generated.sanitizeReasons[reasonOf .invalidFormat]? ∧
    reasonOf .groupNotFound ≠ reasonOf .message ∧ reasonOf .message = defaultReason := by
  decide

/-! ### 6. panics -/

/-- the full statement: the outer layer never panics … -/
def wrap_no_panic_full : Prop :=
  ∀ (cfg : Cfg) (now : Nat) (st : Store) (e : Ev), (process cfg now st e).2 ≠ .panic

/-- a payload that passes the HMAC under a secret the receiver tries, with a buffer of 0 or 1 bytes -/
def wShort : Ev :=
  { id := 2, kind := 445, createdAt := 1000, tags := [wTag],
    content := .bytes { version := 2, len := 65, macKey := some 7, claimed := 0, inner := .garbage } }

/-- … and it HOLDS since /repo a6aae31 (`fix:` payloads too short for NIP-44 v2 are refused before the nip44 call):
    the regenerated fact `mdkMinPayloadLen` = 99 ≥ minPayload + 2, so `wrap_no_panic_of_guard` (below) applies.  Before
    the repair the statement was false at `wShort` (nostr's NIP-44 v2 reads `buffer[0..2]` after the HMAC check without
    checking that the buffer has two bytes); `corpus/C06/wrap_nip44_short_buffer_panic.trace` is the regression trace. -/
theorem wrap_short_payload_refused :
    (process Cfg.default 1000 wSt wShort).2 ≠ .panic ∧
    (process Cfg.default 2000 (process Cfg.default 1000 wSt wShort).1 wShort).2 ≠ .panic ∧
    (alookup wShort.id (process Cfg.default 1000 wSt wShort).1.recs).isSome = true := by decide

/-- the inputs on which NIP-44 can panic: MAC-valid payloads of `minPayload` or `minPayload + 1` bytes -/
def shortSealed (c : Content) : Bool :=
  match c with
  | .bytes p => p.macKey.isSome && decide (minPayload ≤ p.len) && decide (p.len < minPayload + 2)
  | _ => false

theorem open_panic {c : Content} {k : Nat} (h : nip44Open c k = .panic) :
    shortSealed c = true ∧ Generated.nip44LenPrefixGuarded = false ∧ ∃ p, c = .bytes p ∧ Generated.mdkMinPayloadLen ≤ p.len := by
  cases c with
  | notBase64 => simp [nip44Open] at h
  | empty => simp [nip44Open] at h
  | bytes p =>
    unfold nip44Open at h
    simp only at h
    split at h
    · cases h
    · rename_i hmin
      split at h
      · cases h
      · split at h
        · cases h
        · split at h
          · cases h
          · rename_i hlen hmac
            split at h
            · rename_i hbuf
              split at h
              · cases h
              · rename_i hg
                have hmac' : p.macKey = some k := Classical.not_not.mp hmac
                refine ⟨?_, by simpa using hg, p, rfl, by omega⟩
                unfold shortSealed
                simp only [hmac', Option.isSome_some, Bool.true_and, Bool.and_eq_true, decide_eq_true_eq]
                omega
            · repeat' split at h
              all_goals cases h

theorem openWith_panic {c : Content} {ks : List Nat} (h : openWith c ks = .panic) : ∃ k, nip44Open c k = .panic := by
  induction ks with
  | nil => simp [openWith] at h
  | cons k r ih =>
    unfold openWith at h
    cases hk : nip44Open c k with
    | err => rw [hk] at h; exact ih h
    | ok i => rw [hk] at h; cases h
    | panic => exact ⟨k, hk⟩

theorem process_panic {cfg : Cfg} {now : Nat} {st : Store} {e : Ev} (h : (process cfg now st e).2 = .panic) :
    ∃ k, nip44Open e.content k = .panic := by
  unfold process at h
  split at h
  · rename_i r ho
    unfold outer at ho
    split at ho
    · cases ho
      simp only at h
      unfold blockedResult at h
      repeat' split at h
      all_goals cases h
    · repeat' split at ho
      all_goals cases ho
  · cases h
  · cases h
  · cases h
  · cases h
  · rename_i g ho
    unfold outer at ho
    split at ho
    · cases ho
    · split at ho
      · cases ho
      · split at ho
        · cases ho
        · split at ho
          · cases ho
          · split at ho
            · cases ho
            · rename_i hp; exact openWith_panic hp
            · cases ho
  · split at h <;> cases h

/-- **wrap_no_panic_partial**: an event whose content is not such a short sealed payload never makes the outer
    layer panic — for every store, configuration and clock -/
theorem wrap_no_panic_partial (cfg : Cfg) (now : Nat) (st : Store) (e : Ev) (h : shortSealed e.content = false) :
    (process cfg now st e).2 ≠ .panic := by
  intro hp
  obtain ⟨k, hk⟩ := process_panic hp
  rw [(open_panic hk).1] at h
  cases h

/-- **wrap_no_panic_of_guard**: as soon as the regenerated facts say that the length prefix is guarded — in nostr,
    or by a length check of mdk's own of at least `minPayload + 2` decoded bytes — the outer layer never panics -/
theorem wrap_no_panic_of_guard
    (hg : Generated.nip44LenPrefixGuarded = true ∨ minPayload + 2 ≤ Generated.mdkMinPayloadLen) : wrap_no_panic_full := by
  intro cfg now st e hp
  obtain ⟨k, hk⟩ := process_panic hp
  obtain ⟨hs, hn, p, hc, hm⟩ := open_panic hk
  rcases hg with hg | hg
  · rw [hg] at hn; cases hn
  · rw [hc] at hs
    unfold shortSealed at hs
    simp only [Bool.and_eq_true, decide_eq_true_eq] at hs
    omega

/-- **wrap_no_panic**: the full statement, for every configuration, clock, store and event -/
theorem wrap_no_panic : wrap_no_panic_full := wrap_no_panic_of_guard (Or.inr (by decide))

/-! ### ties to Model.Client (world engine), whose dedup rule and lookback are written out by hand there -/

/-- the record states that block re-processing are the two Model.Client tests for (`r.state == 3 || r.state == 4` in
    `deliverOnce`, Props/C07.lean `dedup_blocks`), now as a regenerated fact -/
theorem wrap_dedup_states_as_in_client (r : Rec) : blocked r = (r.state == 3 || r.state == 4) := by
  unfold blocked
  have : Generated.dedupBlockedStates = [3, 4] := by decide
  rw [this]
  simp only [List.contains, List.elem]
  cases (r.state == 3) <;> cases (r.state == 4) <;> rfl

/-- `Model.Client.outerOpens` looks back `List.range 5` epochs: the regenerated DEFAULT_EPOCH_LOOKBACK -/
theorem wrap_lookback_as_in_client : Generated.epochLookback = 5 := by decide

/-! ### non-vacuity: a well-formed event of a two-group store reaches the MLS layer of the right group; an event that
    carries the other group's id reaches the other group; the same ciphertext six epochs later does not open -/
def xA : Group := { gid := 0, nid := [1, 2] ++ List.replicate 30 0, epoch := 3, recEpoch := 3, curSid := 13, secrets := [(1, 11), (2, 12)], loadable := true, inner := 5 }
def xB : Group := { gid := 1, nid := [3, 4] ++ List.replicate 30 0, epoch := 9, recEpoch := 9, curSid := 29, secrets := [(3, 23), (9, 29)], loadable := true, inner := 6 }
def xSt : Store := ⟨[xA, xB], []⟩
def xTagB : Tag := [hName, [48, 51, 48, 52] ++ List.replicate 60 48]
def xGood (sid gid : Nat) (tag : Tag) : Ev :=
  { id := 9, kind := 445, createdAt := 1000, tags := [[[101], [49]], tag],
    content := .bytes { version := 2, len := 65 + 2 + 64, macKey := some sid, claimed := 40, inner := .mls gid } }

example : (process Cfg.default 1000 xSt (xGood 12 0 wTag)).2 = .handed 0 ∧        -- previous epoch's secret of A
          (process Cfg.default 1000 xSt (xGood 29 1 xTagB)).2 = .handed 1 ∧       -- current secret of B
          (process Cfg.default 1000 xSt (xGood 23 1 xTagB)).2 = .err .message ∧   -- six epochs back: outside the lookback
          (process Cfg.default 1000 xSt (xGood 12 0 xTagB)).2 = .err .message ∧   -- A's message under B's id: B's secrets do not open it
          isRefusal (process Cfg.default 1000 xSt (xGood 23 1 xTagB)).2 = true := by decide

/-- the hypothesis of `wrap_old_id_no_longer_routes` is satisfiable: A rotates away from its id -/
example : (∀ g ∈ xSt.groups, g.nid = xA.nid → g.gid = 0) ∧ (extractNid (xGood 12 0 wTag)).toOption = some xA.nid ∧
    (process Cfg.default 1000 (rotate xSt 0 ([9, 9] ++ List.replicate 30 0)) (xGood 12 0 wTag)).2 = .err .groupNotFound := by decide

/-- the hypothesis of `wrap_refuse_frame_stored` is satisfiable -/
example : ∀ g ∈ [{ xA with secrets := [(3, 13)] }, xB], (alookup g.epoch g.secrets).isSome = true := by decide

end MdkVerif.Props.C06Wrap
