import MdkVerif.Model.Client
import MdkVerif.Proofs.Client
import MdkVerif.Proofs.Fork
import MdkVerif.Proofs.ForkInv
import MdkVerif.Props.C08
/-
  C01 — the general single-fork theorem (DESIGN §6 C01 `single_fork`).

  One client at the parent state `p` of a fork; a finite set `S` of sibling commits created in `p`;
  ANY delivery list over `S` (any order, any repetition).  The client ends on the MIP-03 minimum of
  the siblings that were delivered, with that sibling's group state, and every other delivered sibling
  is blocked by its dedup record.  The proof is a simulation of `Client.deliver` (process_message with
  snapshot, MIP-03 comparison, rollback, record rewriting and re-processing) by the abstract fork
  machine of notes/feasibility/Fork.lean (`Proofs/Fork.lean`).
-/
namespace MdkVerif.Props.C01Fork
open MdkVerif MdkVerif.Client MdkVerif.Fork

/-- DESIGN's `secrets_follow_path`: every stored exporter secret is the secret of a prefix of the
    current MLS path, stored under that prefix's epoch number -/
def SecretsOK (g : GState) : Prop :=
  ∀ ep q, alookup ep g.secrets = some q → ep = epochOf q ∧ q <+: g.path

/-- no snapshot for the fork's epoch is in the manager yet (a snapshot of epoch k is taken when the
    commit leaving epoch k is applied, and removed by a rollback to k) -/
def NoForkSnapshot (c : Cl) : Prop := ∀ s ∈ c.mgr, s.epoch ≠ epochOf c.g.path

theorem base_of (c : Cl) (hg : c.hasGroup = true) (ha : c.g.active = true) (hr : 1 ≤ c.retention) (hs : SecretsOK c.g) (hm : NoForkSnapshot c) :
    Base c := by
  refine ⟨hg, ha, hr, ?_, ?_, hm⟩
  · cases h : alookup (epochOf c.g.path) c.g.secrets with
    | none => exact Or.inl rfl
    | some q =>
      right
      obtain ⟨h1, h2⟩ := hs _ _ h
      have hl : q.length = c.g.path.length := by simp only [epochOf] at h1; omega
      have := h2.eq_of_length hl
      rw [this]
  · cases h : alookup (epochOf c.g.path + 1) c.g.secrets with
    | none => rfl
    | some q =>
      obtain ⟨h1, h2⟩ := hs _ _ h
      have := h2.length_le
      simp only [epochOf] at h1
      omega

/-- the siblings: commits created in the client's current state, by others, each by an admin or a pure
    self-update, with non-zero timestamps, pairwise distinct event numbers, MIP-03 keys and MLS
    ciphertexts (a re-wrapped copy of a commit is the same commit, not a sibling), not yet seen, their
    ciphertexts not yet consumed by the client's ratchet -/
structure SiblingsCore (c : Cl) (S : List Ev) : Prop where
  path : ∀ e ∈ S, e.path = c.g.path
  kind : ∀ e ∈ S, ∃ b sw, e.kind = .commit b sw ∧ (isAdmin c.g e.sender || isPureSelfUpdate b sw) = true
  foreign : ∀ e ∈ S, e.sender ≠ c.id
  ts : ∀ e ∈ S, e.ts ≠ 0
  distinct : ∀ e1 ∈ S, ∀ e2 ∈ S, e1 ≠ e2 → e1.n ≠ e2.n ∧ (e1.ts, e1.idnum) ≠ (e2.ts, e2.idnum) ∧ e1.cipher ≠ e2.cipher
  unseen : ∀ e ∈ S, getRec c e.n = none
  unconsumed : ∀ e ∈ S, e.cipher ∉ c.g.consumed
  /-- each was published under the nostr group id in force at the parent state (what `build_message_event` does) -/
  tag : ∀ e ∈ S, e.tag = c.g.recNid

/-- … and none of them ROTATES the nostr group id (with a rotating sibling the theorem is false of the code:
    `single_fork_any_id_full_false`, finding `h-rotation-in-flight`) nor REMOVES the receiver (an eviction is final
    whatever the commit's rank: `single_fork_any_target_full_false`, finding `evicted-by-losing-commit`) -/
structure Siblings (c : Cl) (S : List Ev) : Prop extends SiblingsCore c S where
  keepsId : ∀ e ∈ S, ∀ d sw, e.kind = .commit (.setData d) sw → d.nid = c.g.recNid
  keepsMe : ∀ e ∈ S, ∀ b sw, e.kind = .commit b sw → removesMe c.id b sw = false

/-- a body that is not an id rotation leaves the id where the record has it (given record = MLS state) -/
theorem keeps_nid (c : Cl) (hn : c.g.recNid = c.g.nid) (b : Body)
    (hk : ∀ d, b = .setData d → d.nid = c.g.recNid) : (applyBody (ensureSecret c.g) b).nid = c.g.recNid := by
  cases b with
  | selfUpdate => simp [applyBody, hn]
  | setData d => simp [applyBody, hk d rfl]
  | removeLeavers who => simp [applyBody, hn]
  | addMembers who => simp [applyBody, hn]

theorem sibs_of (c : Cl) (S : List Ev) (hn : c.g.recNid = c.g.nid) (h : Siblings c S) : Sibs c S where
  sib := fun e he => ⟨h.path e he, h.kind e he, by simpa using h.foreign e he, h.ts e he, h.unconsumed e he, h.tag e he,
    fun b sw hk => keeps_nid c hn b (fun d hd => h.keepsId e he d sw (by rw [hk, hd])), h.keepsMe e he⟩
  inj := by
    intro e1 h1 e2 h2 hk
    by_cases x : e1 = e2
    · exact x
    · obtain ⟨a, b, _⟩ := h.distinct e1 h1 e2 h2 x
      rcases hk with y | y
      · exact absurd y a
      · exact absurd y b
  cinj := by
    intro e1 h1 e2 h2 hk
    by_cases x : e1 = e2
    · exact x
    · exact absurd hk (h.distinct e1 h1 e2 h2 x).2.2
  norec := h.unseen

/-- **single_fork (bystander)**.  For every client at the parent state (group present, retention ≥ 1,
    stored secrets following the path, no snapshot of this epoch yet — nothing is assumed about a
    pending commit, queued proposals, stored messages, other records or older snapshots), every set of
    sibling commits, and EVERY non-empty delivery list over them — any order, any repetition — there
    is a delivered sibling `w` that precedes every other delivered sibling in the MIP-03 order and
      * the client's MLS path is the parent path extended by `w` (its ciphertext identity),
      * its group state is `w`'s commit applied to the parent state (`childG`) — in every field except the
        list of consumed ratchet generations (`wc · []` blanks it), which also remembers the losers,
      * `w`'s record is ProcessedCommit, and
      * every other delivered sibling has a Failed (3) / EpochInvalidated (4) record: the dedup step
        refuses it from now on. -/
theorem single_fork_bystander (c : Cl) (S : List Ev) (l : List Ev) (nx : Nat)
    (hg : c.hasGroup = true) (ha : c.g.active = true) (hr : 1 ≤ c.retention) (hsec : SecretsOK c.g) (hm : NoForkSnapshot c)
    (hn : c.g.recNid = c.g.nid)
    (hS : Siblings c S) (hl : ∀ e ∈ l, e ∈ S) (hne : l ≠ []) :
    ∃ w ∈ l, (∀ e ∈ l, e = w ∨ klt (key w) (key e) = true) ∧
      (l.foldl (fun c e => (deliver c e nx).1) c).g.path = c.g.path ++ [w.cipher] ∧
      wc (l.foldl (fun c e => (deliver c e nx).1) c).g [] = wc (childG c w) [] ∧
      (getRec (l.foldl (fun c e => (deliver c e nx).1) c) w.n).map (·.state) = some 2 ∧
      ∀ e ∈ l, e ≠ w → ∃ r, getRec (l.foldl (fun c e => (deliver c e nx).1) c) e.n = some r ∧ (r.state = 3 ∨ r.state = 4) := by
  have hb := base_of c hg ha hr hsec hm
  have hSs := sibs_of c S hn hS
  have hrel := rel_run c hb S hSs nx l c ⟨none, []⟩ (rel_init c hb S hSs) (by simp [FInv]) hl
  obtain ⟨ka, hka, hap, hmin, hblk⟩ := single_fork (l.map key) (by simpa using hne)
  obtain ⟨w, hwS, hwk, hcf, hrw⟩ := hrel.chi ka hap
  obtain ⟨e0, he0, hk0⟩ := List.mem_map.mp hka
  have hw : w ∈ l := by
    have : e0 = w := hSs.inj e0 (hl e0 he0) w hwS (Or.inr (hk0.trans hwk.symm))
    rw [← this]; exact he0
  refine ⟨w, hw, ?_, ?_, by rw [hcf.g]; rfl, by rw [hrw]; rfl, ?_⟩
  · intro e he
    rcases hmin (key e) (List.mem_map.mpr ⟨e, he, rfl⟩) with x | x
    · exact Or.inl (hSs.inj e (hl e he) w hwS (Or.inr (x.symm.trans hwk.symm)))
    · exact Or.inr (by rw [hwk]; exact x)
  · rw [hcf.g]; exact (childG_facts c hb w (hSs.sib w hwS).com).1
  · intro e he hne'
    have hk : key e ≠ ka := fun x => hne' (hSs.inj e (hl e he) w hwS (Or.inr (x.trans hwk.symm)))
    obtain ⟨r, hr', hbr⟩ := hrel.blk e (hl e he) (hblk (key e) (List.mem_map.mpr ⟨e, he, rfl⟩) hk)
    exact ⟨r, hr', hbr.1⟩

/-- the group data (the whole extension as modelled: name, description, admins, relays, nostr group id)
    after a commit with body `b`: a data commit carries the whole new extension, every other commit keeps it -/
def dataAfter (b : Body) (old : GData) : GData :=
  match b with
  | .setData d => d
  | _ => old

/-- the member set after a commit with body `b` that swept the queued leave proposals `sw` -/
def membersAfter (b : Body) (sw : List Nat) (old : List Nat) : List Nat :=
  match b with
  | .removeLeavers who => (old.filter (fun m => !(who.contains m))).filter (fun m => !(sw.contains m))
  | .addMembers who => (old ++ who.filter (fun m => !(old.contains m))).filter (fun m => !(sw.contains m))
  | _ => old.filter (fun m => !(sw.contains m))

/-- what "the group state is `w`'s" means: name, description, admins, relays and nostr group id per the commit
    body, members per body and swept proposals, no pending commit or proposals, and the stored record
    (epoch, name, description, admins, relays, nostr group id) in step with it -/
theorem childG_data (c : Cl) (w : Ev) (b : Body) (sw : List Nat) (hk : w.kind = .commit b sw) :
    dataOf (childG c w) = dataAfter b (dataOf c.g) ∧
    (childG c w).members = membersAfter b sw c.g.members ∧
    (childG c w).pending = none ∧ (childG c w).props = [] ∧ Synced (childG c w) := by
  have e1 : (gP c).name = c.g.name := ensureSecret_name _
  have e2 : (gP c).admins = c.g.admins := ensureSecret_admins _
  have e3 : (gP c).desc = c.g.desc := ensureSecret_desc _
  have e4 : (gP c).relays = c.g.relays := ensureSecret_relays _
  have e5 : (gP c).nid = c.g.nid := ensureSecret_nid _
  have e6 : (gP c).members = c.g.members := ensureSecret_members _
  have hf := ensureSecret_fields (mergeCommit c.maxPast (gP c) w)
  have hd := ensureSecret_data (mergeCommit c.maxPast (gP c) w)
  refine ⟨?_, ?_, ?_, ?_, synced_syncRec _⟩
  all_goals simp only [childG, syncRec, dataOf, hf, hd]
  all_goals cases b <;> simp [mergeCommit, hk, applyBody, e1, e2, e3, e4, e5, e6, dataAfter, membersAfter, dataOf]

/-- `childG_data` field by field, for a data commit: every field of the group data is the commit's -/
theorem childG_setData (c : Cl) (w : Ev) (d : GData) (sw : List Nat) (hk : w.kind = .commit (.setData d) sw) :
    (childG c w).name = d.name ∧ (childG c w).desc = d.desc ∧ (childG c w).admins = d.admins ∧
    (childG c w).relays = d.relays ∧ (childG c w).nid = d.nid ∧
    (childG c w).recName = d.name ∧ (childG c w).recDesc = d.desc ∧ (childG c w).recAdmins = d.admins ∧
    (childG c w).recRelays = d.relays ∧ (childG c w).recNid = d.nid := by
  obtain ⟨h1, _, _, _, hs⟩ := childG_data c w _ sw hk
  obtain ⟨_, s2, s3, s4, s5, s6⟩ := hs
  simp only [dataOf, dataAfter] at h1
  have a1 := congrArg GData.name h1
  have a2 := congrArg GData.desc h1
  have a3 := congrArg GData.admins h1
  have a4 := congrArg GData.relays h1
  have a5 := congrArg GData.nid h1
  simp only at a1 a2 a3 a4 a5
  exact ⟨a1, a2, a3, a4, a5, s2.trans a1, s4.trans a2, s3.trans a3, s5.trans a4, s6.trans a5⟩

/-- … and for every other commit (self-update, removal of leavers) the group data is the parent's -/
theorem childG_keeps_data (c : Cl) (w : Ev) (b : Body) (sw : List Nat) (hk : w.kind = .commit b sw)
    (hb : ∀ d, b ≠ .setData d) : dataOf (childG c w) = dataOf c.g := by
  rw [(childG_data c w b sw hk).1]
  cases b <;> simp_all [dataAfter]

/-! ### the excluded case: retention 0

  With `snapshot retention = 0` the snapshot taken before applying a commit is dropped at once, so a
  better sibling arriving later finds nothing to compare with (`isBetter_no_snapshot`) and is refused:
  the client stays on the first sibling it saw.  (MdkConfig's default retention is 5; 0 is a legal
  configuration value.) -/

/-- the statement without the retention hypothesis -/
def single_fork_bystander_full : Prop :=
  ∀ (c : Cl) (S l : List Ev) (nx : Nat), c.hasGroup = true → c.g.active = true → SecretsOK c.g → NoForkSnapshot c → c.g.recNid = c.g.nid →
    Siblings c S → (∀ e ∈ l, e ∈ S) → l ≠ [] →
    ∃ w ∈ l, (∀ e ∈ l, e = w ∨ klt (key w) (key e) = true) ∧
      (l.foldl (fun c e => (deliver c e nx).1) c).g.path = c.g.path ++ [w.cipher]

def cA : Ev := { n := 1, ts := 20, idnum := 7, cipher := 1, sender := 1, path := [], kind := .commit .selfUpdate [] }
def cB : Ev := { n := 2, ts := 19, idnum := 9, cipher := 2, sender := 0, path := [], kind := .commit (.setData { initData [0, 1] 1 with name := 4 }) [] }
def cC : Ev := { n := 3, ts := 19, idnum := 11, cipher := 3, sender := 0, path := [], kind := .commit (.setData { initData [0, 1] 1 with name := 5 }) [] }
def by0 (retention : Nat) : Cl := initCl 2 false retention [0, 1, 2] [0, 1] 1

theorem by0_secrets (r : Nat) : SecretsOK (by0 r).g := by intro ep q h; simp [by0, initCl, initG, alookup] at h
theorem by0_nosnap (r : Nat) : NoForkSnapshot (by0 r) := by intro s hs; simp [by0, initCl] at hs

theorem by0_siblings0 : Siblings (by0 0) [cA, cB, cC] where
  path := by decide
  kind := by
    intro e he
    simp only [List.mem_cons, List.not_mem_nil, or_false] at he
    rcases he with rfl | rfl | rfl
    · exact ⟨.selfUpdate, [], rfl, by decide⟩
    · exact ⟨_, [], rfl, by decide⟩
    · exact ⟨_, [], rfl, by decide⟩
  foreign := by decide
  ts := by decide
  distinct := by decide
  unseen := by decide
  unconsumed := by decide
  tag := by decide
  keepsId := by
    intro e he d sw hk
    simp only [List.mem_cons, List.not_mem_nil, or_false] at he
    rcases he with rfl | rfl | rfl <;> simp [cA, cB, cC] at hk <;> (obtain ⟨rfl, _⟩ := hk; rfl)
  keepsMe := by
    intro e he b sw hk
    simp only [List.mem_cons, List.not_mem_nil, or_false] at he
    rcases he with rfl | rfl | rfl <;> simp [cA, cB, cC] at hk <;> (obtain ⟨rfl, rfl⟩ := hk; rfl)

theorem by0_siblings5 : Siblings (by0 5) [cA, cB, cC] where
  path := by decide
  kind := by
    intro e he
    simp only [List.mem_cons, List.not_mem_nil, or_false] at he
    rcases he with rfl | rfl | rfl
    · exact ⟨.selfUpdate, [], rfl, by decide⟩
    · exact ⟨_, [], rfl, by decide⟩
    · exact ⟨_, [], rfl, by decide⟩
  foreign := by decide
  ts := by decide
  distinct := by decide
  unseen := by decide
  unconsumed := by decide
  tag := by decide
  keepsId := by
    intro e he d sw hk
    simp only [List.mem_cons, List.not_mem_nil, or_false] at he
    rcases he with rfl | rfl | rfl <;> simp [cA, cB, cC] at hk <;> (obtain ⟨rfl, _⟩ := hk; rfl)
  keepsMe := by
    intro e he b sw hk
    simp only [List.mem_cons, List.not_mem_nil, or_false] at he
    rcases he with rfl | rfl | rfl <;> simp [cA, cB, cC] at hk <;> (obtain ⟨rfl, rfl⟩ := hk; rfl)

/-- `retention-zero-no-rollback`: A then the better B with retention 0 — the client stays on A -/
theorem witness_retention_zero :
    ([cA, cB].foldl (fun c e => (deliver c e 0).1) (by0 0)).g.path = [1] ∧
    ([cA, cB].foldl (fun c e => (deliver c e 0).1) (by0 5)).g.path = [2] := by decide

theorem single_fork_bystander_full_false : ¬ single_fork_bystander_full := by
  intro h
  obtain ⟨w, hw, hmin, hpath⟩ := h (by0 0) [cA, cB, cC] [cA, cB] 0 rfl rfl (by0_secrets 0) (by0_nosnap 0) rfl by0_siblings0
    (by decide) (by decide)
  have hwB : w = cB := by
    simp only [List.mem_cons, List.not_mem_nil, or_false] at hw
    rcases hw with rfl | rfl
    · rcases hmin cB (by decide) with x | x
      · exact x.symm
      · revert x; decide
    · rfl
  subst hwB
  rw [witness_retention_zero.1] at hpath
  revert hpath; decide

/-- non-vacuity: three siblings, a four-element delivery list with a repetition; the theorem applies
    (its hypotheses hold) and its conclusion is the MIP-03 winner B (ts 19, id 9 < C: ts 19, id 11 < A: ts 20) -/
example : ∃ w ∈ [cA, cC, cA, cB], ([cA, cC, cA, cB].foldl (fun c e => (deliver c e 0).1) (by0 5)).g.path = (by0 5).g.path ++ [w.cipher] := by
  obtain ⟨w, hw, _, hp, _⟩ := single_fork_bystander (by0 5) [cA, cB, cC] [cA, cC, cA, cB] 0 rfl rfl (by decide)
    (by0_secrets 5) (by0_nosnap 5) rfl by0_siblings5 (by decide) (by decide)
  exact ⟨w, hw, hp⟩

example : ([cA, cC, cA, cB].foldl (fun c e => (deliver c e 0).1) (by0 5)).g.path = [2] ∧
    ([cA, cC, cA, cB].foldl (fun c e => (deliver c e 0).1) (by0 5)).g.name = 4 ∧
    (getRec ([cA, cC, cA, cB].foldl (fun c e => (deliver c e 0).1) (by0 5)) 1).map (·.state) = some 4 ∧
    (getRec ([cA, cC, cA, cB].foldl (fun c e => (deliver c e 0).1) (by0 5)) 3).map (·.state) = some 4 := by decide

/-! ### the excluded case: a sibling that rotates the nostr group id

  Incoming events are looked up by their `h` tag among the ids in the stored records (`find_group_by_nostr_group_id`).
  Once the client has applied a sibling that ROTATES the id, every other sibling — published under the id of the parent
  state — is refused as `GroupNotFound` before any MIP-03 comparison: the client stays on the rotating sibling whatever
  its rank (finding `h-rotation-in-flight`; replayed by corpus/C01/rotation_fork.trace). -/

/-- the bystander statement for siblings that may rotate the id (`SiblingsCore`: everything but `keepsId`) -/
def single_fork_any_id_full : Prop :=
  ∀ (c : Cl) (S l : List Ev) (nx : Nat), c.hasGroup = true → c.g.active = true → 1 ≤ c.retention → SecretsOK c.g → NoForkSnapshot c →
    c.g.recNid = c.g.nid → SiblingsCore c S → (∀ e ∈ S, ∀ b sw, e.kind = .commit b sw → removesMe c.id b sw = false) →
    (∀ e ∈ l, e ∈ S) → l ≠ [] →
    ∃ w ∈ l, (∀ e ∈ l, e = w ∨ klt (key w) (key e) = true) ∧
      (l.foldl (fun c e => (deliver c e nx).1) c).g.path = c.g.path ++ [w.cipher]

/-- admin 0 rotates the nostr group id (0 → 8), wrapper timestamp 20: loses to `cB` (timestamp 19) by MIP-03 -/
def cR : Ev := { n := 4, ts := 20, idnum := 5, cipher := 4, sender := 0, path := [], kind := .commit (.setData { initData [0, 1] 1 with nid := 8 }) [] }

theorem by0_siblings_rot : SiblingsCore (by0 5) [cR, cB] where
  path := by decide
  kind := by
    intro e he
    simp only [List.mem_cons, List.not_mem_nil, or_false] at he
    rcases he with rfl | rfl
    · exact ⟨_, [], rfl, by decide⟩
    · exact ⟨_, [], rfl, by decide⟩
  foreign := by decide
  ts := by decide
  distinct := by decide
  unseen := by decide
  unconsumed := by decide
  tag := by decide

/-- the rotating sibling first, then the MIP-03 winner: not found, recorded Failed without epoch, the client stays -/
theorem witness_rotation_fork :
    (deliver (deliver (by0 5) cR 0).1 cB 0).2 = .err eGroupNotFound ∧
    ([cR, cB].foldl (fun c e => (deliver c e 0).1) (by0 5)).g.path = [4] ∧
    ([cR, cB].foldl (fun c e => (deliver c e 0).1) (by0 5)).g.recNid = 8 ∧
    (getRec ([cR, cB].foldl (fun c e => (deliver c e 0).1) (by0 5)) 2) = some { state := 3, epoch := none, hasGroup := false, mid := none } ∧
    -- the other order is fine: the winner first, then the rotation is an ordinary worse sibling
    ([cB, cR].foldl (fun c e => (deliver c e 0).1) (by0 5)).g.path = [2] := by decide

theorem single_fork_any_id_full_false : ¬ single_fork_any_id_full := by
  intro h
  obtain ⟨w, hw, hmin, hpath⟩ := h (by0 5) [cR, cB] [cR, cB] 0 rfl rfl (by decide) (by0_secrets 5) (by0_nosnap 5) rfl by0_siblings_rot
    (by
      intro e he b sw hk
      simp only [List.mem_cons, List.not_mem_nil, or_false] at he
      rcases he with rfl | rfl <;> simp [cR, cB] at hk <;> (obtain ⟨rfl, rfl⟩ := hk; rfl))
    (by decide) (by decide)
  have hwB : w = cB := by
    simp only [List.mem_cons, List.not_mem_nil, or_false] at hw
    rcases hw with rfl | rfl
    · rcases hmin cB (by decide) with x | x
      · exact x.symm
      · revert x; decide
    · rfl
  subst hwB
  rw [witness_rotation_fork.2.1] at hpath
  revert hpath; decide

/-! ### the excluded case: a sibling that removes the receiver

  `process_commit` merges a commit that removes the receiver's own leaf and marks the group Inactive at once
  (`handle_local_member_eviction`) — whatever the commit's MIP-03 rank.  From then on every event fails before it is
  even opened (`exporter_secret()?` of an inactive group), so a better sibling that arrives later is never compared
  and never rolled back to: the member stays locked out although the branch everybody else converges on still has
  it as a member (finding `evicted-by-losing-commit`; replayed by corpus/C01/evicted_by_losing_commit.trace). -/

/-- the bystander statement for siblings that may remove the receiver (everything but `keepsMe`) -/
def single_fork_any_target_full : Prop :=
  ∀ (c : Cl) (S l : List Ev) (nx : Nat), c.hasGroup = true → c.g.active = true → 1 ≤ c.retention → SecretsOK c.g → NoForkSnapshot c →
    c.g.recNid = c.g.nid → SiblingsCore c S → (∀ e ∈ S, ∀ d sw, e.kind = .commit (.setData d) sw → d.nid = c.g.recNid) →
    (∀ e ∈ l, e ∈ S) → l ≠ [] →
    ∃ w ∈ l, (∀ e ∈ l, e = w ∨ klt (key w) (key e) = true) ∧
      (l.foldl (fun c e => (deliver c e nx).1) c).g.path = c.g.path ++ [w.cipher]

/-- admin 0 removes member 2 (the receiver), wrapper timestamp 20: loses to `cB` (timestamp 19) by MIP-03 -/
def cX : Ev := { n := 4, ts := 20, idnum := 5, cipher := 4, sender := 0, path := [], kind := .commit (.removeLeavers [2]) [] }

theorem by0_siblings_evict : SiblingsCore (by0 5) [cX, cB] where
  path := by decide
  kind := by
    intro e he
    simp only [List.mem_cons, List.not_mem_nil, or_false] at he
    rcases he with rfl | rfl
    · exact ⟨_, [], rfl, by decide⟩
    · exact ⟨_, [], rfl, by decide⟩
  foreign := by decide
  ts := by decide
  distinct := by decide
  unseen := by decide
  unconsumed := by decide
  tag := by decide

/-- the removal first, then the MIP-03 winner (in which the receiver is still a member): evicted for good -/
theorem witness_evicted_by_losing_sibling :
    (deliver (by0 5) cX 0).2 = .commit ∧ (deliver (by0 5) cX 0).1.g.active = false ∧
    (deliver (deliver (by0 5) cX 0).1 cB 0).2 = .err eExportSecret ∧
    ([cX, cB].foldl (fun c e => (deliver c e 0).1) (by0 5)).g.path = [4] ∧
    ([cX, cB].foldl (fun c e => (deliver c e 0).1) (by0 5)).g.active = false ∧
    -- the other order: the winner first, the removal is refused as worse, the receiver stays a member
    ([cB, cX].foldl (fun c e => (deliver c e 0).1) (by0 5)).g.path = [2] ∧
    ([cB, cX].foldl (fun c e => (deliver c e 0).1) (by0 5)).g.active = true ∧
    ([cB, cX].foldl (fun c e => (deliver c e 0).1) (by0 5)).g.members = [0, 1, 2] := by decide

theorem single_fork_any_target_full_false : ¬ single_fork_any_target_full := by
  intro h
  obtain ⟨w, hw, hmin, hpath⟩ := h (by0 5) [cX, cB] [cX, cB] 0 rfl rfl (by decide) (by0_secrets 5) (by0_nosnap 5) rfl by0_siblings_evict
    (by
      intro e he d sw hk
      simp only [List.mem_cons, List.not_mem_nil, or_false] at he
      rcases he with rfl | rfl <;> simp [cX, cB] at hk <;> (obtain ⟨rfl, _⟩ := hk; rfl))
    (by decide) (by decide)
  have hwB : w = cB := by
    simp only [List.mem_cons, List.not_mem_nil, or_false] at hw
    rcases hw with rfl | rfl
    · rcases hmin cB (by decide) with x | x
      · exact x.symm
      · revert x; decide
    · rfl
  subst hwB
  rw [witness_evicted_by_losing_sibling.2.2.2.1] at hpath
  revert hpath; decide

/-! ### the ciphertext hypotheses are needed too

  OpenMLS consumes the sender's ratchet generation when it decrypts a commit, and mdk snapshots only
  afterwards: the snapshot already holds the consumption.  (a) A sibling whose ciphertext the client has
  consumed before is refused at the parent state.  (b) A re-wrapped copy of the applied commit (same MLS
  ciphertext under a new wrapper with a better MIP-03 key) makes the client roll back — and then fail to
  re-process it (the generation is consumed in the restored state): it is left at the parent state with
  nothing applied (open finding, replayed by corpus/C06/rewrapped_commit.trace). -/

def cBre : Ev := { cB with n := 9, idnum := 3 }

theorem witness_consumed_cipher :
    (deliver { by0 5 with g := { (by0 5).g with consumed := [2] } } cB 0).2 = .unprocessable ∧
    (deliver { by0 5 with g := { (by0 5).g with consumed := [2] } } cB 0).1.g.path = [] := by decide

theorem witness_rewrapped_sibling :
    ([cB, cBre].foldl (fun c e => (deliver c e 0).1) (by0 5)).g.path = [] ∧
    (getRec ([cB, cBre].foldl (fun c e => (deliver c e 0).1) (by0 5)) 2).map (·.state) = some 4 := by decide

/-! ### the committer: its own staged commit among the siblings, applied on relay echo

  The client has staged a commit `o` (pending, record ProcessedCommit of the parent epoch — exactly
  what `stageCommit` leaves, `stage_own_commit`) and applies it when the relay echoes it, like any
  other sibling.  The echo takes the snapshot BEFORE merging the pending commit, so the saved state
  still holds the pending commit: after a rollback it is back and a later echo can merge it.  A
  foreign sibling applied first clears the pending commit (openmls merges over it); the snapshot
  taken then holds it too.  The own commit is never recorded Failed: offered while a better sibling
  is applied it is answered from its record and nothing changes.  The other way of applying one's
  own commit — `merge_pending_commit` at once, which takes NO snapshot — is the excluded case:
  `Props.C01.witness_immediate_merge` / `single_fork_full_false` (finding
  `immediate-merge-no-snapshot`). -/

structure OwnCommit (c : Cl) (o : Ev) : Prop where
  path : o.path = c.g.path
  kind : ∃ b sw, o.kind = .commit b sw
  own : o.sender = c.id
  ts : o.ts ≠ 0
  pending : c.g.pending = some o
  record : getRec c o.n = some { state := 2, epoch := some (epochOf c.g.path), hasGroup := true, mid := none }
  tag : o.tag = c.g.recNid
  keepsId : ∀ d sw, o.kind = .commit (.setData d) sw → d.nid = c.g.recNid
  keepsMe : ∀ b sw, o.kind = .commit b sw → removesMe c.id b sw = false

theorem secretsOK_ensure (g : GState) (h : SecretsOK g) : SecretsOK (ensureSecret g) := by
  unfold ensureSecret
  split
  · exact h
  · intro ep q hq
    simp only at hq ⊢
    by_cases c : ep = epochOf g.path
    · subst c
      rw [Store.alookup_ainsert_self] at hq
      cases hq
      exact ⟨rfl, List.prefix_refl _⟩
    · rw [Store.alookup_ainsert_ne _ _ _ _ c] at hq
      exact h ep q hq

/-- `self_update` / `update_group_data` (stage + publish) establishes the committer's hypotheses — for a
    commit that does not rotate the nostr group id -/
theorem stage_own_commit (c : Cl) (n ts idn : Nat) (b : Body) (na : Bool) (o : Ev)
    (hts : ts ≠ 0) (hsec : SecretsOK c.g) (hm : NoForkSnapshot c)
    (hk : ∀ d, b = .setData d → d.nid = c.g.recNid) (hme : removesMe c.id b c.g.props = false)
    (h : (stageCommit c n ts idn b na).2 = .ev o) :
    OwnCommit (stageCommit c n ts idn b na).1 o ∧ SecretsOK (stageCommit c n ts idn b na).1.g ∧
    NoForkSnapshot (stageCommit c n ts idn b na).1 ∧ (stageCommit c n ts idn b na).1.g.path = c.g.path ∧
    (stageCommit c n ts idn b na).1.g.recNid = c.g.recNid ∧ (stageCommit c n ts idn b na).1.g.nid = c.g.nid := by
  unfold stageCommit at h ⊢
  split at h
  · cases h
  · split at h
    · cases h
    · split at h
      · cases h
      · split at h
        · cases h
        · rename_i h1 h0 h2 h3
          simp only [h1, h0, h2, h3, if_false, Bool.false_eq_true] at h ⊢
          cases h
          refine ⟨⟨by simp [setRec], ⟨b, _, rfl⟩, rfl, hts, by simp [setRec], ?_, by simp [setRec], ?_, ?_⟩, ?_, ?_, by simp [setRec],
            by simp [setRec], by simp [setRec]⟩
          · simp [setRec, getRec, Store.alookup_ainsert_self]
          · intro d sw hd
            simp only [Kind.commit.injEq] at hd
            have := hk d hd.1
            simpa [setRec] using this
          · intro b' sw' hd
            simp only [Kind.commit.injEq] at hd
            obtain ⟨rfl, rfl⟩ := hd
            simpa [setRec] using hme
          · intro ep q hq
            have := secretsOK_ensure c.g hsec ep q (by simpa [setRec] using hq)
            simpa [setRec] using this
          · intro s hs
            have := hm s (by simpa [setRec] using hs)
            simpa [setRec] using this

theorem sibs2_of (c : Cl) (o : Ev) (S : List Ev) (hn : c.g.recNid = c.g.nid) (ho : OwnCommit c o) (h : Siblings c S)
    (hd : ∀ e ∈ S, e.n ≠ o.n ∧ (e.ts, e.idnum) ≠ (o.ts, o.idnum)) : Sibs2 c o S where
  own := ⟨ho.path, ho.kind, by simp [ho.own], ho.ts, ho.pending, ho.record, ho.tag,
    fun b sw hk => keeps_nid c hn b (fun d hd => ho.keepsId d sw (by rw [hk, hd])), ho.keepsMe⟩
  sib := (sibs_of c S hn h).sib
  cinj := (sibs_of c S hn h).cinj
  inj := by
    intro e1 h1 e2 h2 hk
    rcases List.mem_cons.mp h1 with rfl | h1' <;> rcases List.mem_cons.mp h2 with rfl | h2'
    · rfl
    · obtain ⟨a, b⟩ := hd e2 h2'
      rcases hk with y | y
      · exact absurd y.symm a
      · exact absurd y.symm b
    · obtain ⟨a, b⟩ := hd e1 h1'
      rcases hk with y | y
      · exact absurd y a
      · exact absurd y b
    · exact (sibs_of c S hn h).inj e1 h1' e2 h2' hk
  norec := h.unseen

/-- **single_fork (committer, own commit applied on echo)**: for every delivery list over the own
    commit and the foreign siblings — any order, any repetition — the client ends on the MIP-03
    minimum `w` of the delivered ones, with `w`'s group state (no pending commit left), `w`'s record
    ProcessedCommit, and every other delivered FOREIGN sibling blocked -/
theorem single_fork_committer (c : Cl) (o : Ev) (S : List Ev) (l : List Ev) (nx : Nat)
    (hg : c.hasGroup = true) (ha : c.g.active = true) (hr : 1 ≤ c.retention) (hsec : SecretsOK c.g) (hm : NoForkSnapshot c)
    (hn : c.g.recNid = c.g.nid)
    (ho : OwnCommit c o) (hS : Siblings c S)
    (hd : ∀ e ∈ S, e.n ≠ o.n ∧ (e.ts, e.idnum) ≠ (o.ts, o.idnum))
    (hl : ∀ e ∈ l, e ∈ o :: S) (hne : l ≠ []) :
    ∃ w ∈ l, (∀ e ∈ l, e = w ∨ klt (key w) (key e) = true) ∧
      (l.foldl (fun c e => (deliver c e nx).1) c).g.path = c.g.path ++ [w.cipher] ∧
      wc (l.foldl (fun c e => (deliver c e nx).1) c).g [] = wc (childG c w) [] ∧
      (l.foldl (fun c e => (deliver c e nx).1) c).g.pending = none ∧
      (getRec (l.foldl (fun c e => (deliver c e nx).1) c) w.n).map (·.state) = some 2 ∧
      ∀ e ∈ l, e ≠ w → e ≠ o → ∃ r, getRec (l.foldl (fun c e => (deliver c e nx).1) c) e.n = some r ∧ (r.state = 3 ∨ r.state = 4) := by
  have hb := base_of c hg ha hr hsec hm
  have hSs := sibs2_of c o S hn ho hS hd
  have hrel := rel2_run c hb o S hSs nx l c ⟨none, []⟩ (rel2_init c hb o S hSs) (by simp [FInv]) hl
  obtain ⟨ka, hka, hap, hmin, hblk⟩ := single_fork2 (key o) (l.map key) (by simpa using hne)
  obtain ⟨w, hwT, hwk, hcf, hrw⟩ := hrel.chi ka hap
  obtain ⟨e0, he0, hk0⟩ := List.mem_map.mp hka
  have hw : w ∈ l := by
    have : e0 = w := hSs.inj e0 (hl e0 he0) w hwT (Or.inr (hk0.trans hwk.symm))
    rw [← this]; exact he0
  obtain ⟨bw, sww, hkw⟩ := (hSs.com w hwT).kind
  refine ⟨w, hw, ?_, ?_, by rw [hcf.g]; rfl, by rw [hcf.g]; exact (childG_data c w bw sww hkw).2.2.1, by rw [hrw]; rfl, ?_⟩
  · intro e he
    rcases hmin (key e) (List.mem_map.mpr ⟨e, he, rfl⟩) with x | x
    · exact Or.inl (hSs.inj e (hl e he) w hwT (Or.inr (x.symm.trans hwk.symm)))
    · exact Or.inr (by rw [hwk]; exact x)
  · rw [hcf.g]; exact (childG_facts c hb w (hSs.com w hwT)).1
  · intro e he hne' hno
    have hk : key e ≠ ka := fun x => hne' (hSs.inj e (hl e he) w hwT (Or.inr (x.trans hwk.symm)))
    have hko : key e ≠ key o := fun x => hno (hSs.inj e (hl e he) o List.mem_cons_self (Or.inr x))
    obtain ⟨r, hr', hbr⟩ := hrel.blk e (hl e he) (hblk (key e) (List.mem_map.mpr ⟨e, he, rfl⟩) hk hko)
    exact ⟨r, hr', hbr.1⟩

/-- non-vacuity: client 1 stages a self-update (ts 20), two foreign siblings B (ts 19, id 9) and
    C (ts 19, id 11); every order — own echo first, last, or in between, with repetitions — ends on B -/
def com0 : Cl := initCl 1 false 5 [0, 1, 2] [0, 1] 1
def own1 : Ev := { n := 1, ts := 20, idnum := 7, cipher := 1, sender := 1, path := [], kind := .commit .selfUpdate [] }
def comS : Cl := (stageCommit com0 1 20 7 .selfUpdate false).1

example : (stageCommit com0 1 20 7 .selfUpdate false).2 = .ev own1 := by decide

example : ([own1, cC, own1, cB].foldl (fun c e => (deliver c e 0).1) comS).g.path = [2] ∧
    ([cC, own1, cB, own1].foldl (fun c e => (deliver c e 0).1) comS).g.path = [2] ∧
    ([cB, own1, cC].foldl (fun c e => (deliver c e 0).1) comS).g.path = [2] ∧
    ([cC, own1].foldl (fun c e => (deliver c e 0).1) comS).g.path = [3] ∧
    ([own1, own1].foldl (fun c e => (deliver c e 0).1) comS).g.path = [1] ∧
    ([own1, cC, own1, cB].foldl (fun c e => (deliver c e 0).1) comS).g.pending = none := by decide

/-! ### the state hypotheses are invariants (DESIGN `secrets_follow_path`)

  `SecretsOK` and `NoForkSnapshot` hold of every client state reachable from a fresh group by ANY
  sequence of API calls — deliveries with all their branches incl. rollback and re-processing,
  create_message, commit staging, leave, merge / clear pending commit, restart (`Proofs/ForkInv.lean`:
  `HInv`, which also covers every state saved in a snapshot and the ordering of the snapshot queue). -/

theorem reachable_hinv (id : Nat) (p : Bool) (r : Nat) (ms as : List Nat) (name : Nat) (ops : List C08.COp) :
    HInv (ops.foldl C08.cstep (initCl id p r ms as name)) := by
  have : ∀ (ops : List C08.COp) (c : Cl), HInv c → HInv (ops.foldl C08.cstep c) := by
    intro ops
    induction ops with
    | nil => intro c h; exact h
    | cons o os ih =>
      intro c h
      apply ih
      cases o with
      | deliver e nx => exact hinv_deliverN 3 nx c e h
      | send n ts idn mid mts tok => exact hinv_send c n ts idn mid mts tok h
      | stage n ts idn b na => exact hinv_stageCommit c n ts idn b na h
      | data n ts idn u => exact hinv_updateData c n ts idn u h
      | remove n ts idn who => exact hinv_removeMembers c n ts idn who h
      | add n ts idn who => exact hinv_addMembers c n ts idn who h
      | join mp g e => exact hinv_join c mp g e h
      | leave n ts idn => exact hinv_leave c n ts idn h
      | merge => exact hinv_merge c h
      | clear => exact hinv_clear c h
      | restart => exact hinv_restart c h
  exact this ops _ (hinv_init id p r ms as name)

/-- **secrets_follow_path**: after every history, every stored exporter secret (current state and every
    snapshot) is the secret of a prefix of that state's path under its epoch number, and no snapshot
    of the current epoch exists -/
theorem secrets_follow_path (id : Nat) (p : Bool) (r : Nat) (ms as : List Nat) (name : Nat) (ops : List C08.COp) :
    SecretsOK (ops.foldl C08.cstep (initCl id p r ms as name)).g ∧
    NoForkSnapshot (ops.foldl C08.cstep (initCl id p r ms as name)) ∧
    ∀ s ∈ (ops.foldl C08.cstep (initCl id p r ms as name)).mgr, SecretsOK s.saved := by
  have h := reachable_hinv id p r ms as name ops
  exact ⟨h.sec, fun s hs => Nat.ne_of_lt (h.below s hs), fun s hs => (h.saved s hs).1⟩

/-- hence the bystander theorem for every REACHABLE client state: only the group's presence, the
    retention value and the sibling conditions remain as hypotheses -/
theorem single_fork_reachable (id : Nat) (p : Bool) (r : Nat) (ms as : List Nat) (name : Nat) (ops : List C08.COp)
    (S l : List Ev) (nx : Nat)
    (hg : (ops.foldl C08.cstep (initCl id p r ms as name)).hasGroup = true)
    (ha : (ops.foldl C08.cstep (initCl id p r ms as name)).g.active = true)
    (hr : 1 ≤ (ops.foldl C08.cstep (initCl id p r ms as name)).retention)
    (hS : Siblings (ops.foldl C08.cstep (initCl id p r ms as name)) S) (hl : ∀ e ∈ l, e ∈ S) (hne : l ≠ []) :
    ∃ w ∈ l, (∀ e ∈ l, e = w ∨ klt (key w) (key e) = true) ∧
      (l.foldl (fun c e => (deliver c e nx).1) (ops.foldl C08.cstep (initCl id p r ms as name))).g.path =
        (ops.foldl C08.cstep (initCl id p r ms as name)).g.path ++ [w.cipher] := by
  obtain ⟨h1, h2, _⟩ := secrets_follow_path id p r ms as name ops
  have hn := (C08.sync_inv id p r ms as name ops ha).2.2.2.2.2
  obtain ⟨w, hw, hmin, hp, _⟩ := single_fork_bystander _ S l nx hg ha hr h1 h2 hn hS hl hne
  exact ⟨w, hw, hmin, hp⟩

end MdkVerif.Props.C01Fork
