import MdkVerif.Model.Client
import MdkVerif.Proofs.Client
import MdkVerif.Proofs.Fork
/-
  C01 — the general single-fork theorem (DESIGN §6 C01 `single_fork`).

  One client at the parent state `p` of a fork; a finite set `S` of sibling commits created in `p`;
  ANY delivery list over `S` (any order, any repetition).  The client ends on the MIP-03 minimum of
  the siblings that were delivered, with that sibling's group state, and every other delivered sibling
  is blocked by its dedup record.  The proof is a simulation of `Client.deliver` (process_message with
  snapshot, MIP-03 comparison, rollback, record rewriting and re-processing) by the abstract fork
  machine of notes/feasibility/Fork.lean (`Proofs/Fork.lean`).
-/
namespace MdkVerif.Props.C01Fork
open MdkVerif MdkVerif.Client MdkVerif.Fork

/-- DESIGN's `secrets_follow_path`: every stored exporter secret is the secret of a prefix of the
    current MLS path, stored under that prefix's epoch number -/
def SecretsOK (g : GState) : Prop :=
  ∀ ep q, alookup ep g.secrets = some q → ep = epochOf q ∧ q <+: g.path

/-- no snapshot for the fork's epoch is in the manager yet (a snapshot of epoch k is taken when the
    commit leaving epoch k is applied, and removed by a rollback to k) -/
def NoForkSnapshot (c : Cl) : Prop := ∀ s ∈ c.mgr, s.epoch ≠ epochOf c.g.path

theorem base_of (c : Cl) (hg : c.hasGroup = true) (hr : 1 ≤ c.retention) (hs : SecretsOK c.g) (hm : NoForkSnapshot c) :
    Base c := by
  refine ⟨hg, hr, ?_, ?_, hm⟩
  · cases h : alookup (epochOf c.g.path) c.g.secrets with
    | none => exact Or.inl rfl
    | some q =>
      right
      obtain ⟨h1, h2⟩ := hs _ _ h
      have hl : q.length = c.g.path.length := by simp only [epochOf] at h1; omega
      have := h2.eq_of_length hl
      rw [this]
  · cases h : alookup (epochOf c.g.path + 1) c.g.secrets with
    | none => rfl
    | some q =>
      obtain ⟨h1, h2⟩ := hs _ _ h
      have := h2.length_le
      simp only [epochOf] at h1
      omega

/-- the siblings: commits created in the client's current state, by others, each by an admin or a pure
    self-update, with non-zero timestamps, pairwise distinct event numbers and MIP-03 keys, not yet seen -/
structure Siblings (c : Cl) (S : List Ev) : Prop where
  path : ∀ e ∈ S, e.path = c.g.path
  kind : ∀ e ∈ S, ∃ b sw, e.kind = .commit b sw ∧ (isAdmin c.g e.sender || isPureSelfUpdate b sw) = true
  foreign : ∀ e ∈ S, e.sender ≠ c.id
  ts : ∀ e ∈ S, e.ts ≠ 0
  distinct : ∀ e1 ∈ S, ∀ e2 ∈ S, e1 ≠ e2 → e1.n ≠ e2.n ∧ (e1.ts, e1.idnum) ≠ (e2.ts, e2.idnum)
  unseen : ∀ e ∈ S, getRec c e.n = none

theorem sibs_of (c : Cl) (S : List Ev) (h : Siblings c S) : Sibs c S where
  sib := fun e he => ⟨h.path e he, h.kind e he, by simpa using h.foreign e he, h.ts e he⟩
  inj := by
    intro e1 h1 e2 h2 hk
    by_cases x : e1 = e2
    · exact x
    · obtain ⟨a, b⟩ := h.distinct e1 h1 e2 h2 x
      rcases hk with y | y
      · exact absurd y a
      · exact absurd y b
  norec := h.unseen

/-- **single_fork (bystander)**.  For every client at the parent state (group present, retention ≥ 1,
    stored secrets following the path, no snapshot of this epoch yet — nothing is assumed about a
    pending commit, queued proposals, stored messages, other records or older snapshots), every set of
    sibling commits, and EVERY non-empty delivery list over them — any order, any repetition — there
    is a delivered sibling `w` that precedes every other delivered sibling in the MIP-03 order and
      * the client's MLS path is the parent path extended by `w`,
      * its group state is exactly `w`'s commit applied to the parent state (`childG`),
      * `w`'s record is ProcessedCommit, and
      * every other delivered sibling has a Failed (3) / EpochInvalidated (4) record: the dedup step
        refuses it from now on. -/
theorem single_fork_bystander (c : Cl) (S : List Ev) (l : List Ev) (nx : Nat)
    (hg : c.hasGroup = true) (hr : 1 ≤ c.retention) (hsec : SecretsOK c.g) (hm : NoForkSnapshot c)
    (hS : Siblings c S) (hl : ∀ e ∈ l, e ∈ S) (hne : l ≠ []) :
    ∃ w ∈ l, (∀ e ∈ l, e = w ∨ klt (key w) (key e) = true) ∧
      (l.foldl (fun c e => (deliver c e nx).1) c).g.path = c.g.path ++ [w.n] ∧
      (l.foldl (fun c e => (deliver c e nx).1) c).g = childG c w ∧
      (getRec (l.foldl (fun c e => (deliver c e nx).1) c) w.n).map (·.state) = some 2 ∧
      ∀ e ∈ l, e ≠ w → ∃ r, getRec (l.foldl (fun c e => (deliver c e nx).1) c) e.n = some r ∧ (r.state = 3 ∨ r.state = 4) := by
  have hb := base_of c hg hr hsec hm
  have hSs := sibs_of c S hS
  have hrel := rel_run c hb S hSs nx l c ⟨none, []⟩ (rel_init c hb S hSs) (by simp [FInv]) hl
  obtain ⟨ka, hka, hap, hmin, hblk⟩ := single_fork (l.map key) (by simpa using hne)
  obtain ⟨w, hwS, hwk, hcf, hrw⟩ := hrel.chi ka hap
  obtain ⟨e0, he0, hk0⟩ := List.mem_map.mp hka
  have hw : w ∈ l := by
    have : e0 = w := hSs.inj e0 (hl e0 he0) w hwS (Or.inr (hk0.trans hwk.symm))
    rw [← this]; exact he0
  refine ⟨w, hw, ?_, ?_, hcf.g, by rw [hrw]; rfl, ?_⟩
  · intro e he
    rcases hmin (key e) (List.mem_map.mpr ⟨e, he, rfl⟩) with x | x
    · exact Or.inl (hSs.inj e (hl e he) w hwS (Or.inr (x.symm.trans hwk.symm)))
    · exact Or.inr (by rw [hwk]; exact x)
  · rw [hcf.g]; exact (childG_facts c hb w (hSs.sib w hwS)).1
  · intro e he hne'
    have hk : key e ≠ ka := fun x => hne' (hSs.inj e (hl e he) w hwS (Or.inr (x.trans hwk.symm)))
    obtain ⟨r, hr', hbr⟩ := hrel.blk e (hl e he) (hblk (key e) (List.mem_map.mpr ⟨e, he, rfl⟩) hk)
    exact ⟨r, hr', hbr.1⟩

end MdkVerif.Props.C01Fork
